#!/bin/bash
# Regenerates the reverse-of-fix self-test mutants against /repo's current HEAD:
# each fix commit listed in selftest/fixrev_commits.tsv is reverted (git revert -n) in a scratch
# clone of /repo; the resulting diff (current tree -> tree without that fix) becomes the mutant patch.
# Fixes that no longer revert cleanly keep their handcrafted patch (selftest/mutants/fixrev_<name>.patch must then apply).
set -u
tmp=$(mktemp -d /tmp/regenfix.XXXXXX); trap 'rm -rf "$tmp"' EXIT
git clone -q /repo "$tmp/r"
while IFS=$'\t' read -r name commit; do
  [ -z "$name" ] && continue
  cd "$tmp/r"; git reset -q --hard HEAD
  if git revert -n "$commit" >/dev/null 2>&1; then
    git diff HEAD > "/verif/selftest/mutants/fixrev_$name.patch"
    echo "regenerated fixrev_$name ($commit)"
  else
    git revert --abort >/dev/null 2>&1; git reset -q --hard HEAD
    echo "CONFLICT fixrev_$name ($commit): keep/handcraft"
  fi
done < /verif/selftest/fixrev_commits.tsv

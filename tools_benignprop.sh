#!/bin/bash
# usage: tools_benignprop.sh <file-substring> <prop> [prop...] ; runs the named checks on every behaviour-preserving
# edit under /verif/benign whose patch touches a path containing <file-substring>; prints the ones that alarm.
set -u
sub=$1; shift
export PROPS="$*"
one() {
  d=$1
  tmp=$(mktemp -d /tmp/bprop.XXXXXX)
  rsync -a --exclude .git /repo/ "$tmp/repo/"
  if (cd "$tmp/repo" && patch -p1 -s --no-backup-if-mismatch < "$d/patch.diff" >/dev/null 2>&1); then
    for p in $PROPS; do
      out=$(/verif/bin/sfcheck -property $p -repo "$tmp/repo" -no-evidence 2>&1) || { echo "ALARM $(basename $d) $p"; printf '%s\n' "$out" | grep "violated\|UNDECIDED" | cut -c1-260 | sort -u | head -3; }
    done
  else echo "NOAPPLY $(basename $d)"; fi
  rm -rf "$tmp"
}
export -f one
grep -l "^+++ b/.*$sub" /verif/benign/*/patch.diff | xargs -n1 dirname | xargs -P 12 -I{} bash -c 'one {}'
echo "benignprop done"

#!/bin/bash
# usage: tools_crosscheck.sh [max-benign-per-seed] ; robustness of detection on refactored code: every seeded change that its
# own property's check catches is applied ON TOP OF behaviour-preserving edits that touch the same file (both must apply
# and build); the check must still fire. Prints MISS lines for combinations that go undetected.
set -u
cd /verif
export GOFLAGS=-mod=mod GOPROXY=off GOSUMDB=off GOTOOLCHAIN=local GOWORK=off
maxb=${1:-4}
one() {
  sd=$1; bd=$2; prop=$3
  tmp=$(mktemp -d /tmp/cross.XXXXXX)
  rsync -a --exclude .git /repo/ "$tmp/repo/"
  cd "$tmp/repo"
  if ! patch -p1 -s --no-backup-if-mismatch < "$bd/patch.diff" >/dev/null 2>&1; then rm -rf "$tmp"; return; fi
  if ! patch -p1 -s --no-backup-if-mismatch -F1 < "$sd/patch.diff" >/dev/null 2>&1; then echo "SKIP $(basename $sd) on $(basename $bd): seed does not apply on the refactored tree"; rm -rf "$tmp"; return; fi
  if ! go build ./... >/dev/null 2>&1; then echo "SKIP $(basename $sd) on $(basename $bd): does not build"; rm -rf "$tmp"; return; fi
  tier=quick; if jq -r '.demo_cmd // ""' "$sd/meta.json" | grep -q "GOARCH=386"; then tier=thorough; fi
  /verif/bin/sfcheck -property $prop -tier $tier -repo "$tmp/repo" -no-evidence >/dev/null 2>&1; rc=$?
  if [ $rc -eq 1 ]; then echo "OK $(basename $sd) on $(basename $bd) ($prop)"; else echo "MISS $(basename $sd) on $(basename $bd) ($prop) exit $rc"; fi
  rm -rf "$tmp"
}
export -f one
while IFS=$'\t' read -r id st fired rest; do
  [ "$st" = APPLIES ] || continue
  prop=${id%%-*}
  case " $fired " in *" $prop "*) ;; *) continue;; esac
  files=$(grep '^+++ b/' seeded/$id/patch.diff | sed 's#^+++ b/##' | sort -u)
  n=0
  for bd in benign/*/; do
    hit=0
    for f in $files; do grep -q "^+++ b/$f" "$bd/patch.diff" 2>/dev/null && hit=1; done
    [ $hit = 1 ] || continue
    # deterministic spread: pick by hash of the pair
    h=$(( $(printf '%s%s' "$id" "$bd" | cksum | cut -d' ' -f1) % 5 ))
    [ $h -lt ${CROSS_DENSITY:-2} ] || continue
    echo "/verif/seeded/$id /verif/${bd%/} $prop"
    n=$((n+1)); [ $n -ge $maxb ] && break
  done
done < seeded/results.tsv | xargs -P 10 -L1 bash -c 'one $0 $1 $2'

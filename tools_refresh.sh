#!/bin/bash
# usage: tools_refresh.sh [quick] ; after any change to /repo or the checker: regenerate the rename fingerprints,
# rebuild, run all checks (writing evidence), regenerate reverse-fix mutants, (unless 'quick') re-run the seed
# matrix and the seed self-test mutants, regenerate the manifest and validate.
set -e
cd /verif
export GOFLAGS=-mod=vendor GOPROXY=off GOSUMDB=off GOTOOLCHAIN=local GOWORK=off
(cd checker && go build -o /verif/bin/sfcheck ./cmd/sfcheck && /verif/bin/sfcheck anchors > /tmp/anchors.$$ && mv /tmp/anchors.$$ internal/core/anchors.json && go build -o /verif/bin/sfcheck ./cmd/sfcheck)
unset GOFLAGS
bad=0
for p in $(bin/sfcheck list | cut -f1); do bin/sfcheck -property $p | tail -1 | grep -v "violations=0" && bad=1; done
./tools_regen_fixrev.sh 2>&1 | grep -v "^regenerated" || true
if [ "${1:-}" != quick ]; then ./tools_seedmatrix.sh; ./tools_seed2selftest.sh; fi
bin/sfcheck manifest > MANIFEST.json
./tools_validate.sh | tail -1
[ $bad -eq 0 ] && echo "refresh ok" || echo "refresh: SOME CHECK ALARMS ON THE CURRENT TREE"

#!/bin/bash
# usage: tools_seedcheck.sh <mutant-dir-with-patch.diff> [props...]
# applies the seeded change to a scratch copy of /repo and runs the registered checks against it.
set -u
d=$1; shift
props=${*:-$(/verif/bin/sfcheck list | cut -f1)}
export GOFLAGS=-mod=mod GOPROXY=off GOSUMDB=off GOTOOLCHAIN=local GOWORK=off
tmp=$(mktemp -d /tmp/seedchk.XXXXXX); trap 'rm -rf "$tmp"' EXIT
rsync -a --exclude .git /repo/ "$tmp/repo/"
if ! (cd "$tmp/repo" && patch -p1 -s --no-backup-if-mismatch < "$d/patch.diff" >/dev/null 2>&1); then echo "$d: PATCH DOES NOT APPLY"; exit 2; fi
(cd "$tmp/repo" && go build ./... 2>&1 | head -3)
fired=""
tier=quick; if [ -f "$d/meta.json" ] && jq -r '.demo_cmd // ""' "$d/meta.json" | grep -q "GOARCH=386"; then tier=thorough; fi
for p in $props; do
  out=$(/verif/bin/sfcheck -property $p -tier $tier -repo "$tmp/repo" -no-evidence 2>&1); rc=$?
  if [ $rc -ne 0 ]; then fired="$fired $p"; printf '%s\n' "$out" | grep -A1 "^VIOLATION" | grep -v "^VIOLATION\|^--" | cut -c1-260 | head -4; fi
done
echo "$d: fired:${fired:- NONE}"

#!/bin/bash
# usage: tools_mkmutant.sh <name> <file-relative-to-repo> <python-expr-old> <python-expr-new> <prop> <needle> [<prop> <needle>...]
# creates selftest/mutants/<name>.patch by replacing exactly one occurrence of old with new in a scratch copy, checks it builds and the suite passes.
set -e
name=$1; file=$2; old=$3; new=$4; shift 4
export GOFLAGS=-mod=mod GOPROXY=off GOSUMDB=off GOTOOLCHAIN=local GOWORK=off
tmp=$(mktemp -d /tmp/mkmut.XXXXXX); trap 'rm -rf "$tmp"' EXIT
rsync -a --exclude .git /repo/ "$tmp/a/"; rsync -a --exclude .git /repo/ "$tmp/b/"
OLD="$old" NEW="$new" python3 - "$tmp/b/$file" <<'PY'
import sys,os
p=sys.argv[1]; s=open(p).read(); old=os.environ['OLD']; new=os.environ['NEW']
assert s.count(old)==1, "old occurs %d times"%s.count(old)
open(p,'w').write(s.replace(old,new))
PY
(cd "$tmp/b" && go build ./... && go test -vet=off -count=1 ./... >/dev/null 2>&1) || { echo "mutant $name: does not build or suite fails"; exit 1; }
(cd "$tmp" && diff -u "a/$file" "b/$file" > "/verif/selftest/mutants/$name.patch" || true)
: > /verif/selftest/mutants/$name.expect
while [ $# -ge 2 ]; do echo "$1 $2" >> /verif/selftest/mutants/$name.expect; shift 2; done
echo "created $name"

#!/bin/bash
# usage: tools_benigncheck.sh <dir-with-patch.diff> ; applies a behaviour-preserving change to a scratch copy of
# /repo and runs every check (quick; thorough if FULL=1): anything that fires is a false alarm.
set -u
d=$1
export GOFLAGS=-mod=mod GOPROXY=off GOSUMDB=off GOTOOLCHAIN=local GOWORK=off
tmp=$(mktemp -d /tmp/benign.XXXXXX); trap 'rm -rf "$tmp"' EXIT
rsync -a --exclude .git /repo/ "$tmp/repo/"
if ! (cd "$tmp/repo" && patch -p1 -s --no-backup-if-mismatch < "$d/patch.diff" >/dev/null 2>&1); then echo "$d: PATCH DOES NOT APPLY"; exit 2; fi
if ! (cd "$tmp/repo" && go build ./... >/dev/null 2>&1); then echo "$d: DOES NOT BUILD"; exit 2; fi
tier=quick; [ "${FULL:-}" = 1 ] && tier=thorough
fired=""
for p in $(/verif/bin/sfcheck list | cut -f1); do
  out=$(/verif/bin/sfcheck -property $p -tier $tier -repo "$tmp/repo" -no-evidence 2>&1); rc=$?
  if [ $rc -ne 0 ]; then fired="$fired $p"; printf '%s\n' "$out" | grep "violated\|UNDECIDED" | cut -c1-230 | sort -u | head -3 | sed "s/^/    [$p] /"; fi
done
echo "$d: false alarms:${fired:- NONE}"

#!/bin/bash
# usage: tools_seedcopy.sh <seeded-dir> ; makes /tmp/sc/<name> = /repo + patch (caller removes it)
set -eu
d=$1; n=$(basename $d); mkdir -p /tmp/sc; rm -rf /tmp/sc/$n
rsync -a --exclude .git /repo/ /tmp/sc/$n/
(cd /tmp/sc/$n && patch -p1 -s --no-backup-if-mismatch < $d/patch.diff)
echo /tmp/sc/$n

#!/bin/bash
# usage: tools_seed2selftest.sh ; after tools_seedmatrix.sh: every seeded change that applies to the current
# tree and is caught becomes a self-test mutant (selftest/mutants/seed_<id>.patch + .expect), so that a later
# weakening of the rule that catches it is noticed. Expect lines: the property the change targets (if its
# check fired) else the first check that fired, with the key of the first finding.
set -u
cd /verif
rm -f selftest/mutants/seed_*.patch selftest/mutants/seed_*.expect
n=0
while IFS=$'\t' read -r id st fired keys; do
  [ "$st" = APPLIES ] || continue
  [ -n "$fired" ] || continue
  jq -e '.obsolete' seeded/$id/meta.json >/dev/null 2>&1 && continue
  prop=$(jq -r .property seeded/$id/meta.json)
  pick=""
  for p in $fired; do [ "$p" = "$prop" ] && pick=$p; done
  [ -z "$pick" ] && pick=${fired%% *}
  key=$(printf '%s' "$keys" | tr ';' '\n' | sed 's/^ *//' | grep "^$pick:" | head -1 | sed "s/^$pick://")
  [ -n "$key" ] || continue
  cp seeded/$id/patch.diff selftest/mutants/seed_$id.patch
  if jq -r '.demo_cmd // ""' seeded/$id/meta.json | grep -q "GOARCH=386"; then pick="$pick@thorough"; fi
  printf '%s %s\n' "$pick" "$key" > selftest/mutants/seed_$id.expect
  n=$((n+1))
done < seeded/results.tsv
echo "wrote $n seed self-test mutants"

#!/bin/bash
# usage: tools_fixrec.sh <repo-commit> <mutant-name> "<what failed>" <prop> "<expect needle>" [<prop> "<needle>" ...]
# records a fix: commit in /repo: appends 'fixed:' lines to KNOWN_FINDINGS.txt and keeps the reverse patch as a self-test mutant.
set -e
c=$1; name=$2; what=$3; shift 3
h=$(git -C /repo log --format=%h -n1 "$c")
git -C /repo diff "$c" "$c~1" > /verif/selftest/mutants/fixrev_$name.patch
: > /verif/selftest/mutants/fixrev_$name.expect
seen=""
while [ $# -ge 2 ]; do
  prop=$1; needle=$2; shift 2
  echo "$prop $needle" >> /verif/selftest/mutants/fixrev_$name.expect
  case " $seen " in *" $prop "*) ;; *) echo "fixed: property=$prop $h $what" >> /verif/KNOWN_FINDINGS.txt; seen="$seen $prop";; esac
done
echo "recorded $h as fixrev_$name"

#!/bin/sh
# validate MANIFEST.json and all evidence files against the schemas
python3-vt - <<'PY'
import json,jsonschema,glob
m=json.load(open('/verif/MANIFEST.json')); jsonschema.validate(m,json.load(open('/root/.vp/MANIFEST.schema.json')))
s=json.load(open('/root/.vp/EVIDENCE.schema.json'))
for f in sorted(glob.glob('/verif/evidence/C*.json')):
    jsonschema.validate(json.load(open(f)),s)
print('manifest + %d evidence files valid; claimed=%d na=%d' % (len(glob.glob('/verif/evidence/C*.json')), len(m['checks']), len(m['not_applicable'])))
PY

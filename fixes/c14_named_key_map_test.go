package fixes

import (
	"testing"

	"github.com/elastic/go-structform/gotype"
)

type c14Label string
type c14Elem struct{ X int }

// C14: unfolding never panics. A map target whose key type is a named string
// type made reflect.Value.SetMapIndex panic on the first entry (and on a null
// entry): "value of type string is not assignable to type Label".
func TestC14NamedStringKeyMap(t *testing.T) {
	var m map[c14Label]c14Elem
	u, err := gotype.NewUnfolder(&m)
	if err != nil {
		t.Fatalf("refused: %v", err)
	}
	in := map[string]interface{}{"a": map[string]interface{}{"x": 1}, "b": nil}
	func() {
		defer func() {
			if r := recover(); r != nil {
				t.Fatalf("panic: %v", r)
			}
		}()
		err = gotype.Fold(in, u)
	}()
	if err != nil || len(m) != 2 || m["a"].X != 1 {
		t.Errorf("err=%v m=%v", err, m)
	}
}

package fixes

import (
	"fmt"
	"io"
	"strings"
	"testing"

	structform "github.com/elastic/go-structform"
	"github.com/elastic/go-structform/ubjson"
	"github.com/elastic/go-structform/visitors"
)

type evlog struct {
	structform.ExtVisitor
	ev []string
}

func newEvlog() *evlog {
	return &evlog{ExtVisitor: structform.EnsureExtVisitor(visitors.NilVisitor())}
}
func (l *evlog) OnKey(s string) error     { l.ev = append(l.ev, "K:"+s); return nil }
func (l *evlog) OnKeyRef(s []byte) error  { l.ev = append(l.ev, "K:"+string(s)); return nil }
func (l *evlog) OnInt8(v int8) error      { l.ev = append(l.ev, fmt.Sprint("i", v)); return nil }
func (l *evlog) OnObjectFinished() error  { l.ev = append(l.ev, "}"); return nil }
func (l *evlog) OnObjectStart(n int, _ structform.BaseType) error {
	l.ev = append(l.ev, fmt.Sprint("{", n))
	return nil
}

// C02: a UBJSON key of two or more bytes split across writes parses like the whole buffer.
func TestC02UBJSONSplitKey(t *testing.T) {
	for _, doc := range []string{"{i\x03abci\x01}", "{#i\x01i\x03abci\x01"} {
		whole := newEvlog()
		if err := ubjson.Parse([]byte(doc), whole); err != nil {
			t.Fatal(err)
		}
		for cut := 1; cut < len(doc); cut++ {
			l := newEvlog()
			_, err := ubjson.ParseReader(io.MultiReader(strings.NewReader(doc[:cut]), strings.NewReader(doc[cut:])), l)
			if err != nil || strings.Join(l.ev, " ") != strings.Join(whole.ev, " ") {
				t.Errorf("%q cut at %d: err=%v events=%v want %v", doc, cut, err, l.ev, whole.ev)
			}
		}
	}
}

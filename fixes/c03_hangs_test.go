package fixes

import (
	"testing"
	"time"

	"github.com/elastic/go-structform/cborl"
	"github.com/elastic/go-structform/ubjson"
	"github.com/elastic/go-structform/visitors"
)

func mustFinish(t *testing.T, name string, f func() error) {
	done := make(chan error, 1)
	go func() { done <- f() }()
	select {
	case err := <-done:
		if err == nil {
			t.Errorf("%s: accepted", name)
		}
	case <-time.After(2 * time.Second):
		t.Errorf("%s: parser hangs", name)
	}
}

// C03/C05/C06: reserved CBOR additional-information values, unknown UBJSON
// length markers and a no-op element type are refused, not looped on.
func TestC03NoHangOnReservedValues(t *testing.T) {
	vs := visitors.NilVisitor()
	for _, in := range []string{"\x1c\x00", "\x3d\x00", "\x5c\x00", "\x7e\x00", "\x9c\x00", "\xbd\x00", "\xa1\x7c\x00"} {
		in := in
		mustFinish(t, "cborl "+in, func() error { return cborl.Parse([]byte(in), vs) })
	}
	for _, in := range []string{"[#Sxx", "Sxab", "[$N#i\x02ZZ", "{$N#i\x01i\x01a"} {
		in := in
		mustFinish(t, "ubjson "+in, func() error { return ubjson.Parse([]byte(in), vs) })
	}
}

package fixes

import (
	"bytes"
	"testing"

	structform "github.com/elastic/go-structform"
	"github.com/elastic/go-structform/gotype"
	"github.com/elastic/go-structform/json"
)

type c12Z struct{ V int }

func (z *c12Z) IsZero() bool { return z.V == 0 }

type c12T1 struct {
	A c12Z `struct:",omitempty"`
	B int
}

type c12F struct{ X int }

func (f c12F) Fold(v structform.ExtVisitor) error { return v.OnInt(f.X) }

type c12T2 struct {
	P *c12F
	B int
}

func c12fold(t *testing.T, v interface{}) string {
	t.Helper()
	var buf bytes.Buffer
	func() {
		defer func() {
			if r := recover(); r != nil {
				t.Fatalf("Fold(%#v) panicked: %v", v, r)
			}
		}()
		if err := gotype.Fold(v, json.NewVisitor(&buf)); err != nil {
			t.Fatalf("Fold(%#v): %v", v, err)
		}
	}()
	return buf.String()
}

// C12/C11: folding never crashes on a supported value.
//  - an omitempty field whose IsZero has a pointer receiver was handed to its
//    folder as a POINTER to the field (reflect panic "Field on ptr Value")
//    whenever it was not zero;
//  - a nil *T whose T has a value-receiver Fold was called through the nil
//    pointer (runtime panic) instead of being reported as null.
func TestC12OmitemptyPtrIsZeroAndNilFolder(t *testing.T) {
	if got, want := c12fold(t, c12T1{A: c12Z{1}, B: 2}), `{"a":{"v":1},"b":2}`; got != want {
		t.Errorf("got %s want %s", got, want)
	}
	if got, want := c12fold(t, &c12T1{A: c12Z{1}, B: 2}), `{"a":{"v":1},"b":2}`; got != want {
		t.Errorf("got %s want %s", got, want)
	}
	if got, want := c12fold(t, c12T1{B: 2}), `{"b":2}`; got != want {
		t.Errorf("got %s want %s", got, want)
	}
	if got, want := c12fold(t, c12T2{B: 2}), `{"p":null,"b":2}`; got != want {
		t.Errorf("got %s want %s", got, want)
	}
	if got, want := c12fold(t, c12T2{P: &c12F{7}, B: 2}), `{"p":7,"b":2}`; got != want {
		t.Errorf("got %s want %s", got, want)
	}
}

func TestC12NilFolderPointerAtTopLevelAndInInterface(t *testing.T) {
	if got, want := c12fold(t, (*c12F)(nil)), `null`; got != want {
		t.Errorf("got %s want %s", got, want)
	}
	if got, want := c12fold(t, []interface{}{(*c12F)(nil), &c12F{3}}), `[null,3]`; got != want {
		t.Errorf("got %s want %s", got, want)
	}
}

package fixes

import (
	"testing"

	"github.com/elastic/go-structform/gotype"
	"github.com/elastic/go-structform/json"
)

// C13: unknown members are skipped however strings/keys are delivered.
func TestC13SkipUnknownMembers(t *testing.T) {
	var to struct{ A int }
	u, err := gotype.NewUnfolder(&to)
	if err != nil {
		t.Fatal(err)
	}
	in := `{"x":"str","y":{"k":[1,"s",{"z":null}]},"a":7}`
	if err := json.Parse([]byte(in), u); err != nil {
		t.Fatalf("unfold failed: %v", err)
	}
	if to.A != 7 {
		t.Fatalf("A=%d", to.A)
	}
}

package fixes

import (
	"fmt"
	"math"
	"testing"

	structform "github.com/elastic/go-structform"
	"github.com/elastic/go-structform/cborl"
	"github.com/elastic/go-structform/json"
	"github.com/elastic/go-structform/visitors"
)

type numlog struct {
	structform.ExtVisitor
	ev []string
}

func newNumlog() *numlog { return &numlog{ExtVisitor: structform.EnsureExtVisitor(visitors.NilVisitor())} }
func (l *numlog) OnInt8(v int8) error     { l.ev = append(l.ev, fmt.Sprint(v)); return nil }
func (l *numlog) OnInt16(v int16) error   { l.ev = append(l.ev, fmt.Sprint(v)); return nil }
func (l *numlog) OnInt32(v int32) error   { l.ev = append(l.ev, fmt.Sprint(v)); return nil }
func (l *numlog) OnInt64(v int64) error   { l.ev = append(l.ev, fmt.Sprint(v)); return nil }
func (l *numlog) OnUint64(v uint64) error { l.ev = append(l.ev, fmt.Sprint(v)); return nil }

// C01/C05: CBOR negative integers of every argument width keep their value.
func TestC01CBORNegativeIntegers(t *testing.T) {
	cases := []struct {
		in   []byte
		want string
	}{
		{[]byte{0x38, 0xC7}, "-200"},
		{[]byte{0x38, 0x7F}, "-128"},
		{[]byte{0x38, 0xFF}, "-256"},
		{[]byte{0x39, 0xFF, 0xFF}, "-65536"},
		{[]byte{0x39, 0x7F, 0xFF}, "-32768"},
		{[]byte{0x3A, 0xFF, 0xFF, 0xFF, 0xFF}, "-4294967296"},
		{[]byte{0x3B, 0x7F, 0xFF, 0xFF, 0xFF, 0xFF, 0xFF, 0xFF, 0xFF}, fmt.Sprint(int64(math.MinInt64))},
	}
	for _, c := range cases {
		l := newNumlog()
		if err := cborl.Parse(c.in, l); err != nil || len(l.ev) != 1 || l.ev[0] != c.want {
			t.Errorf("% x: err=%v events=%v want %s", c.in, err, l.ev, c.want)
		}
	}
	// below -2^63: refused, never reported as another value
	l := newNumlog()
	if err := cborl.Parse([]byte{0x3B, 0x80, 0, 0, 0, 0, 0, 0, 0}, l); err == nil {
		t.Errorf("-2^63-1 accepted as %v", l.ev)
	}
	// the library's own output round-trips
	for _, v := range []int16{-200, -129, -32768} {
		l := newNumlog()
		var buf []byte
		w := writerFunc(func(p []byte) (int, error) { buf = append(buf, p...); return len(p), nil })
		cborl.NewVisitor(w).OnInt16(v)
		if err := cborl.Parse(buf, l); err != nil || len(l.ev) != 1 || l.ev[0] != fmt.Sprint(v) {
			t.Errorf("round trip %d: err=%v events=%v", v, err, l.ev)
		}
	}
}

type writerFunc func([]byte) (int, error)

func (f writerFunc) Write(p []byte) (int, error) { return f(p) }

// C03: a CBOR length >= 2^63 is refused, not used as a negative slice bound.
func TestC03CBORHugeLength(t *testing.T) {
	defer func() {
		if r := recover(); r != nil {
			t.Errorf("panic: %v", r)
		}
	}()
	if err := cborl.Parse([]byte{0x5B, 0xFF, 0xFF, 0xFF, 0xFF, 0xFF, 0xFF, 0xFF, 0xFF, 1, 2, 3}, newNumlog()); err == nil {
		t.Errorf("length 2^64-1 accepted")
	}
}

// C01/C04: JSON integer literals that fit uint64 are reported exactly.
func TestC04JSONIntegerBoundaries(t *testing.T) {
	for _, c := range []struct{ in, want string }{
		{"18446744073709551615 ", "18446744073709551615"},
		{"9223372036854775808 ", "9223372036854775808"},
		{"9223372036854775807 ", "9223372036854775807"},
		{"-9223372036854775808 ", "-9223372036854775808"},
		{"-1 ", "-1"},
	} {
		l := newNumlog()
		if err := json.Parse([]byte(c.in), l); err != nil || len(l.ev) != 1 || l.ev[0] != c.want {
			t.Errorf("%s: err=%v events=%v", c.in, err, l.ev)
		}
	}
	l := newNumlog()
	if err := json.Parse([]byte("-9223372036854775809 "), l); err == nil && len(l.ev) == 1 && l.ev[0] != "-9223372036854775809" {
		t.Errorf("-2^63-1 reported as %v", l.ev)
	}
}

package fixes

import (
	stdjson "encoding/json"
	"testing"

	structform "github.com/elastic/go-structform"
	"github.com/elastic/go-structform/json"
	"github.com/elastic/go-structform/visitors"
)

type onestr struct {
	structform.ExtVisitor
	got []string
}

func (l *onestr) OnString(s string) error    { l.got = append(l.got, s); return nil }
func (l *onestr) OnStringRef(s []byte) error { l.got = append(l.got, string(s)); return nil }

// C03/C04: broken escapes are errors, and an escape followed by a multi-byte rune decodes correctly.
func TestC04Unquote(t *testing.T) {
	for _, in := range []string{`"\u12"`, `"\ud800"`, `"\ud800\u"`, `"\u"`, `"\ud800\u12"`} {
		func() {
			defer func() {
				if r := recover(); r != nil {
					t.Errorf("%s: panic %v", in, r)
				}
			}()
			l := &onestr{ExtVisitor: structform.EnsureExtVisitor(visitors.NilVisitor())}
			err := json.Parse([]byte(in), l)
			var ref string
			if stdjson.Unmarshal([]byte(in), &ref) == nil {
				if err != nil || len(l.got) != 1 || l.got[0] != ref {
					t.Errorf("%s: err=%v got=%q, encoding/json says %q", in, err, l.got, ref)
				}
			} else if err == nil {
				t.Errorf("%s: accepted as %q", in, l.got)
			}
		}()
	}
	for _, in := range []string{"\"\\n\u00e9\"", "\"a\\tb\u20acc\U0001F600d\"", "\"\\u00e9\u00e9x\""} {
		l := &onestr{ExtVisitor: structform.EnsureExtVisitor(visitors.NilVisitor())}
		var ref string
		if err := stdjson.Unmarshal([]byte(in), &ref); err != nil {
			t.Fatal(err)
		}
		if err := json.Parse([]byte(in), l); err != nil || len(l.got) != 1 || l.got[0] != ref {
			t.Errorf("%q: err=%v got=%q want %q", in, err, l.got, ref)
		}
	}
}

package fixes

import (
	"fmt"
	"testing"

	"github.com/elastic/go-structform/gotype"
)

type c14S struct {
	A fmt.Stringer
	B int
}

// C14: unfolding never writes outside / corrupts the target. Targets whose
// (element) type is a NON-empty interface were selected by Kind()==Interface
// and written through the interface{} unfolders: a string was stored into the
// memory of a fmt.Stringer (the type word where an itab is expected), and the
// first method call on the result crashes. Such targets are refused now; the
// empty interface keeps working.
func TestC14NonEmptyInterfaceTargetsAreRefused(t *testing.T) {
	var a fmt.Stringer
	var b []fmt.Stringer
	var c map[string]fmt.Stringer
	var d c14S
	for name, to := range map[string]interface{}{"Stringer": &a, "[]Stringer": &b, "map[string]Stringer": &c} {
		u, err := gotype.NewUnfolder(to)
		if err != nil {
			continue // refused when the target is set
		}
		var in interface{} = "x"
		switch name {
		case "[]Stringer":
			in = []interface{}{"x"}
		case "map[string]Stringer":
			in = map[string]interface{}{"k": "x"}
		}
		if err := gotype.Fold(in, u); err == nil {
			t.Errorf("%s: a string was unfolded into a fmt.Stringer without an error", name)
		}
	}
	if u, err := gotype.NewUnfolder(&d); err == nil {
		if err := gotype.Fold(map[string]interface{}{"a": "x", "b": 1}, u); err == nil {
			t.Errorf("struct field: a string was unfolded into a fmt.Stringer without an error")
		}
	}
	var e interface{}
	var f []interface{}
	var g map[string]interface{}
	for name, to := range map[string]interface{}{"interface{}": &e, "[]interface{}": &f, "map[string]interface{}": &g} {
		if _, err := gotype.NewUnfolder(to); err != nil {
			t.Errorf("%s refused: %v", name, err)
		}
	}
}

package fixes

import (
	"testing"

	"github.com/elastic/go-structform/gotype"
	"github.com/elastic/go-structform/json"
)

type wide struct {
	A, B, C, D int64
}

// C14: a user unfolder registered for *wide is handed a *wide, never the
// address of a pointer slot. With []*wide / map[string]*wide targets the
// element type *wide hit the table entry of the target type *wide itself, and
// the user function was called with the address of the 8-byte pointer slot
// reinterpreted as *wide: 32 bytes written over the slot and its neighbours.
func TestC14UserUnfolderWithPointerElements(t *testing.T) {
	calls := 0
	unfolder := func(to *wide, v int64) error {
		calls++
		*to = wide{v, v, v, v}
		return nil
	}

	var s struct {
		G0, G1, G2, G3 int64
		L              []*wide
		G4, G5, G6, G7 int64
		M              map[string]*wide
	}
	u, err := gotype.NewUnfolder(&s, gotype.Unfolders(unfolder))
	if err != nil {
		t.Fatal(err)
	}
	err = json.NewParser(u).ParseString(`{"l":[1,2,3],"m":{"a":7}}`)
	if err != nil {
		// refusing the target type would be acceptable; corrupting memory is not
		t.Logf("refused: %v", err)
	}
	for i, g := range []int64{s.G0, s.G1, s.G2, s.G3, s.G4, s.G5, s.G6, s.G7} {
		if g != 0 {
			t.Fatalf("memory next to the target was overwritten (guard word %d = %d)", i, g)
		}
	}
	if err == nil {
		if len(s.L) != 3 || s.L[0] == nil || *s.L[0] != (wide{1, 1, 1, 1}) || *s.L[2] != (wide{3, 3, 3, 3}) {
			t.Fatalf("slice of pointers not filled through the user unfolder: %+v", s.L)
		}
		if s.M["a"] == nil || *s.M["a"] != (wide{7, 7, 7, 7}) {
			t.Fatalf("map of pointers not filled through the user unfolder: %+v", s.M)
		}
	}
	// elements by value keep working
	var v struct{ L []wide }
	u, err = gotype.NewUnfolder(&v, gotype.Unfolders(unfolder))
	if err != nil {
		t.Fatal(err)
	}
	if err := json.NewParser(u).ParseString(`{"l":[4,5]}`); err != nil || len(v.L) != 2 || v.L[1] != (wide{5, 5, 5, 5}) {
		t.Fatalf("[]wide through the user unfolder: %+v err %v", v.L, err)
	}
}

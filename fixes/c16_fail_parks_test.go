package fixes

import (
	"bytes"
	"testing"

	structform "github.com/elastic/go-structform"
	"github.com/elastic/go-structform/cborl"
	"github.com/elastic/go-structform/json"
	"github.com/elastic/go-structform/ubjson"
	"github.com/elastic/go-structform/visitors"
)

// C16 (and C03's "never panics"): a visitor error stops the document for every
// way into the parser, not only for Write.

// failFinish fails the first two OnArrayFinished events.
type failFinish struct {
	structform.Visitor
	n int
}

func (f *failFinish) OnArrayFinished() error {
	f.n++
	if f.n <= 2 {
		return errInjected
	}
	return nil
}

// cborl.(*Parser).Parse after a failed Parse resumed the failed document; the
// length entry the failed step had already popped went to -1 and sized a slice.
func TestC16CborParseAfterFailedParseDoesNotResume(t *testing.T) {
	defer func() {
		if r := recover(); r != nil {
			t.Fatalf("panic: %v", r)
		}
	}()
	f := &failFinish{Visitor: visitors.NilVisitor()}
	p := cborl.NewParser(f)
	if err := p.Parse([]byte{0x41, 0x00}); err == nil {
		t.Fatal("visitor error not reported")
	}
	p.Parse([]byte{0x00})
	p.Parse([]byte{0x00})
}

// Next after a failed Next, Write after a failed Parse, Parse after a failed
// Parse: no further event of the failed document reaches the visitor.
func TestC16NoEntryPointResumesAFailedDocument(t *testing.T) {
	type nexter interface{ Next() error }
	type parser interface {
		Parse([]byte) error
		Write([]byte) (int, error)
	}
	docs := []struct {
		name string
		doc  string
		dec  func(b []byte, vs structform.Visitor) nexter
		rdr  func(b []byte, vs structform.Visitor) nexter
		par  func(vs structform.Visitor) parser
	}{
		{"json", `[[1],[2,3],"ab",[4]] [5]`,
			func(b []byte, vs structform.Visitor) nexter { return json.NewBytesDecoder(b, vs) },
			func(b []byte, vs structform.Visitor) nexter { return json.NewDecoder(bytes.NewReader(b), 64, vs) },
			func(vs structform.Visitor) parser { return json.NewParser(vs) }},
		{"cborl", "\x84\x81\x01\x82\x02\x03\x62ab\x81\x04\x81\x05",
			func(b []byte, vs structform.Visitor) nexter { return cborl.NewBytesDecoder(b, vs) },
			func(b []byte, vs structform.Visitor) nexter { return cborl.NewDecoder(bytes.NewReader(b), 64, vs) },
			func(vs structform.Visitor) parser { return cborl.NewParser(vs) }},
		{"ubjson", "[[i\x01][i\x02i\x03]Si\x02ab[i\x04]][i\x05]",
			func(b []byte, vs structform.Visitor) nexter { return ubjson.NewBytesDecoder(b, vs) },
			func(b []byte, vs structform.Visitor) nexter { return ubjson.NewDecoder(bytes.NewReader(b), 64, vs) },
			func(vs structform.Visitor) parser { return ubjson.NewParser(vs) }},
	}
	for _, c := range docs {
		for k := 1; k <= 8; k++ {
			for i, mk := range []func([]byte, structform.Visitor) nexter{c.dec, c.rdr} {
				f := &failAt{Visitor: visitors.NilVisitor(), k: k}
				d := mk([]byte(c.doc), f)
				var err error
				for n := 0; n < 4 && err == nil; n++ {
					err = d.Next()
				}
				if !f.failed {
					continue
				}
				if err == nil {
					t.Fatalf("%s decoder %d k=%d: visitor error not reported", c.name, i, k)
				}
				err2 := d.Next()
				if f.after != 0 {
					t.Errorf("%s decoder %d k=%d: Next after a failed Next delivered %d further events of the failed document (err=%v)", c.name, i, k, f.after, err2)
				}
				if err2 == nil {
					t.Errorf("%s decoder %d k=%d: Next after a failed Next returned nil", c.name, i, k)
				}
			}
			// Parse fails, the caller keeps writing
			for cut := 1; cut < len(c.doc); cut++ {
				f := &failAt{Visitor: visitors.NilVisitor(), k: k}
				p := c.par(f)
				err := p.Parse([]byte(c.doc[:cut]))
				if !f.failed {
					continue
				}
				if err == nil {
					t.Fatalf("%s k=%d cut=%d: Parse did not report the visitor's error", c.name, k, cut)
				}
				_, err2 := p.Write([]byte(c.doc[cut:]))
				if f.after != 0 {
					t.Errorf("%s k=%d cut=%d: Write after a failed Parse delivered %d further events of the failed document (err=%v)", c.name, k, cut, f.after, err2)
				}
			}
		}
	}
}

// The end-of-input check of ubjson delivers the events of containers that need
// no further input; a visitor error there ends the document as well.
func TestC16UbjsonFinalizeErrorIsFinal(t *testing.T) {
	for k := 1; k <= 5; k++ {
		f := &failAt{Visitor: visitors.NilVisitor(), k: k}
		d := ubjson.NewBytesDecoder([]byte("[$Z#i\x03"), f)
		err := d.Next()
		if !f.failed {
			continue
		}
		if err == nil {
			t.Fatalf("k=%d: visitor error not reported", k)
		}
		err2 := d.Next()
		if f.after != 0 || err2 == nil {
			t.Errorf("k=%d: Next after a failed end-of-input check delivered %d further events (err=%v)", k, f.after, err2)
		}
		f = &failAt{Visitor: visitors.NilVisitor(), k: k}
		p := ubjson.NewParser(f)
		if err := p.Parse([]byte("[$Z#i\x03")); err == nil {
			t.Fatalf("k=%d: Parse did not report the visitor's error", k)
		}
		p.Write([]byte("Z"))
		if f.after != 0 {
			t.Errorf("k=%d: Write after a failed Parse delivered %d further events", k, f.after)
		}
	}
}

package fixes

import (
	"runtime"
	"testing"

	structform "github.com/elastic/go-structform"
	"github.com/elastic/go-structform/gotype"
)

// C14: an announced container length is a hint, not a licence to allocate.
func TestC14AnnouncedLengthDoesNotAllocate(t *testing.T) {
	type S struct{ A, B, C, D int64 }
	for _, target := range []interface{}{new([]int64), new([]S), new([]interface{})} {
		func() {
			defer func() {
				if r := recover(); r != nil {
					t.Errorf("%T: panic %v", target, r)
				}
			}()
			u, err := gotype.NewUnfolder(target)
			if err != nil {
				t.Fatal(err)
			}
			var before, after runtime.MemStats
			runtime.ReadMemStats(&before)
			if err := u.OnArrayStart(1<<62, structform.AnyType); err != nil {
				return // refusing is fine
			}
			u.OnArrayStart(1<<26, structform.AnyType)
			runtime.ReadMemStats(&after)
			if grown := after.TotalAlloc - before.TotalAlloc; grown > 8<<20 {
				t.Errorf("%T: allocated %d bytes for an announced length", target, grown)
			}
		}()
	}
	// a long array still unfolds completely
	var out []int
	u, _ := gotype.NewUnfolder(&out)
	u.OnArrayStart(10000, structform.AnyType)
	for i := 0; i < 10000; i++ {
		if err := u.OnInt(i); err != nil {
			t.Fatal(err)
		}
	}
	u.OnArrayFinished()
	if len(out) != 10000 || out[9999] != 9999 || out[4096] != 4096 {
		t.Errorf("long array: len=%d", len(out))
	}
}

// C14: a map target with non-string keys is refused, not reinterpreted.
func TestC14NonStringKeyMapRefused(t *testing.T) {
	type T struct{ M map[int]string }
	if _, err := gotype.NewUnfolder(&T{}); err == nil {
		t.Errorf("struct with map[int]string field accepted")
	}
	m := map[int][]string{}
	if _, err := gotype.NewUnfolder(&m); err == nil {
		t.Errorf("map[int][]string accepted")
	}
}

// C14: unfolding into a nil map of structs does not panic.
func TestC14NilMapOfStructs(t *testing.T) {
	type S struct{ A int }
	var m map[string]S
	defer func() {
		if r := recover(); r != nil {
			t.Errorf("panic: %v", r)
		}
	}()
	if err := gotype.Fold(map[string]S{"x": {A: 1}}, mustUnfolder(t, &m)); err != nil {
		t.Fatal(err)
	}
	if m["x"].A != 1 {
		t.Errorf("m=%v", m)
	}
}

func mustUnfolder(t *testing.T, to interface{}) *gotype.Unfolder {
	u, err := gotype.NewUnfolder(to)
	if err != nil {
		t.Fatal(err)
	}
	return u
}

package fixes

import (
	"bytes"
	"testing"

	structform "github.com/elastic/go-structform"
	"github.com/elastic/go-structform/cborl"
	"github.com/elastic/go-structform/json"
)

// C01: an empty object key is a key like any other (JSON and UBJSON round-trip
// it). The CBOR encoder writes it (a1 60 01), the CBOR parser refused its own
// output with "object keys must not be empty" - in known-length and in
// indefinite-length maps, whole and split across writes.
func TestC01CborlEmptyKeyRoundTrip(t *testing.T) {
	var enc bytes.Buffer
	v := cborl.NewVisitor(&enc)
	must := func(err error) {
		if err != nil {
			t.Fatal(err)
		}
	}
	must(v.OnObjectStart(2, structform.AnyType))
	must(v.OnKey(""))
	must(v.OnInt(1))
	must(v.OnKey("a"))
	must(v.OnObjectStart(-1, structform.AnyType))
	must(v.OnKey(""))
	must(v.OnString(""))
	must(v.OnObjectFinished())
	must(v.OnObjectFinished())

	want := `{"":1,"a":{"":""}}`
	for chunk := 1; chunk <= enc.Len(); chunk++ {
		var out bytes.Buffer
		p := cborl.NewParser(json.NewVisitor(&out))
		b := enc.Bytes()
		var err error
		for len(b) > 0 && err == nil {
			n := chunk
			if n > len(b) {
				n = len(b)
			}
			_, err = p.Write(b[:n])
			b = b[n:]
		}
		if err != nil {
			t.Fatalf("chunk size %d: parser refuses the encoder's output % x: %v", chunk, enc.Bytes(), err)
		}
		if out.String() != want {
			t.Fatalf("chunk size %d: got %s, want %s", chunk, out.String(), want)
		}
	}
}

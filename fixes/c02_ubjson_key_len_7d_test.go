package fixes

import (
	"io"
	"strings"
	"testing"

	"github.com/elastic/go-structform/ubjson"
)

// C02: a key-length byte of 0x7D ('}') that arrives in a later chunk than its length marker
// is a length, not the end of the object.
func TestC02UBJSONKeyLength125Split(t *testing.T) {
	key := strings.Repeat("k", 125)
	doc := "{i\x7D" + key + "i\x01}"
	whole := newEvlog()
	if err := ubjson.Parse([]byte(doc), whole); err != nil {
		t.Fatal(err)
	}
	for _, cut := range []int{1, 2, 3, 50} {
		l := newEvlog()
		_, err := ubjson.ParseReader(io.MultiReader(strings.NewReader(doc[:cut]), strings.NewReader(doc[cut:])), l)
		if err != nil || strings.Join(l.ev, " ") != strings.Join(whole.ev, " ") {
			t.Errorf("cut at %d: err=%v events=%d want %d", cut, err, len(l.ev), len(whole.ev))
		}
	}
}

package fixes

import (
	"errors"
	"testing"

	structform "github.com/elastic/go-structform"
	"github.com/elastic/go-structform/cborl"
	"github.com/elastic/go-structform/json"
	"github.com/elastic/go-structform/ubjson"
	"github.com/elastic/go-structform/visitors"
)

// failAt fails the k-th event and counts every event it sees after that.
type failAt struct {
	structform.Visitor
	k, n, after int
	failed      bool
}

var errInjected = errors.New("injected")

func (f *failAt) tick() error {
	if f.failed {
		f.after++
		return errInjected
	}
	f.n++
	if f.n == f.k {
		f.failed = true
		return errInjected
	}
	return nil
}
func (f *failAt) OnObjectStart(int, structform.BaseType) error { return f.tick() }
func (f *failAt) OnObjectFinished() error                      { return f.tick() }
func (f *failAt) OnKey(string) error                           { return f.tick() }
func (f *failAt) OnKeyRef([]byte) error                        { return f.tick() }
func (f *failAt) OnArrayStart(int, structform.BaseType) error  { return f.tick() }
func (f *failAt) OnArrayFinished() error                       { return f.tick() }
func (f *failAt) OnString(string) error                        { return f.tick() }
func (f *failAt) OnStringRef([]byte) error                     { return f.tick() }
func (f *failAt) OnInt8(int8) error                            { return f.tick() }
func (f *failAt) OnInt64(int64) error                          { return f.tick() }
func (f *failAt) OnUint8(uint8) error                          { return f.tick() }

// C16: after a visitor error in push mode (io.Writer interface), writing the
// rest of the document delivers no further event of that document.
func TestC16WriteIsStickyAfterVisitorError(t *testing.T) {
	type writer interface{ Write([]byte) (int, error) }
	cases := []struct {
		name string
		mk   func(vs structform.Visitor) writer
		doc  string
		cut  int
	}{
		{"json", func(vs structform.Visitor) writer { return json.NewParser(vs) }, `[1,2,3,4,5]`, 4},
		{"cborl", func(vs structform.Visitor) writer { return cborl.NewParser(vs) }, "\x85\x01\x02\x03\x04\x05", 3},
		{"ubjson", func(vs structform.Visitor) writer { return ubjson.NewParser(vs) }, "[i\x01i\x02i\x03i\x04i\x05]", 5},
	}
	for _, c := range cases {
		f := &failAt{Visitor: visitors.NilVisitor(), k: 2}
		p := c.mk(f)
		_, err1 := p.Write([]byte(c.doc[:c.cut]))
		if err1 == nil {
			t.Fatalf("%s: first write did not report the visitor's error", c.name)
		}
		_, err2 := p.Write([]byte(c.doc[c.cut:]))
		if f.after != 0 {
			t.Errorf("%s: %d further events of the failed document were delivered by the next Write (err=%v)", c.name, f.after, err2)
		}
		if err2 == nil {
			t.Errorf("%s: Write after a failed Write returned nil", c.name)
		}
	}
}

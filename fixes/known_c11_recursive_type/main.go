// Known finding (open): folding or unfolding a self-referential type recurses
// until the goroutine stack overflows (fatal error, not recoverable).
//   go run . fold     -> fatal error: stack overflow
//   go run . unfold   -> fatal error: stack overflow
package main

import (
	"fmt"
	"os"

	"github.com/elastic/go-structform/gotype"
	"github.com/elastic/go-structform/visitors"
)

type N struct {
	V    int
	Next *N
}

func main() {
	if len(os.Args) > 1 && os.Args[1] == "unfold" {
		_, err := gotype.NewUnfolder(&N{})
		fmt.Println("NewUnfolder:", err)
		return
	}
	err := gotype.Fold(&N{V: 1, Next: &N{V: 2}}, visitors.NilVisitor())
	fmt.Println("Fold:", err)
}

package fixes

import (
	"bytes"
	"testing"

	"github.com/elastic/go-structform/ubjson"
)

// C07: the UBJSON encoder emits only valid documents. The char type 'C'
// carries one ASCII character (0..127, draft 12); OnByte wrote every byte
// under the char marker, so bytes above 127 (e.g. CBOR byte strings transcoded
// element-wise) produced documents an independent decoder rejects.
func TestC07UBJSONCharRange(t *testing.T) {
	for b := 0; b < 256; b++ {
		var buf bytes.Buffer
		if err := ubjson.NewVisitor(&buf).OnByte(byte(b)); err != nil {
			t.Fatal(err)
		}
		out := buf.Bytes()
		if len(out) != 2 || out[1] != byte(b) {
			t.Fatalf("OnByte(%d) wrote %q", b, out)
		}
		if out[0] == 'C' && b > 127 {
			t.Fatalf("OnByte(%d) wrote a char marker with a non-ASCII payload: %q", b, out)
		}
		if b > 127 && out[0] != 'U' {
			t.Fatalf("OnByte(%d) wrote %q, want the uint8 marker", b, out)
		}
	}
}

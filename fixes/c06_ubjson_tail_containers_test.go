package fixes

import (
	"fmt"
	"strings"
	"testing"

	structform "github.com/elastic/go-structform"
	"github.com/elastic/go-structform/ubjson"
	"github.com/elastic/go-structform/visitors"
)

type c06ev struct {
	structform.Visitor
	ev []string
}

func (e *c06ev) OnArrayStart(l int, t structform.BaseType) error {
	e.ev = append(e.ev, fmt.Sprintf("[%d", l))
	return nil
}
func (e *c06ev) OnArrayFinished() error { e.ev = append(e.ev, "]"); return nil }
func (e *c06ev) OnObjectStart(l int, t structform.BaseType) error {
	e.ev = append(e.ev, fmt.Sprintf("{%d", l))
	return nil
}
func (e *c06ev) OnObjectFinished() error { e.ev = append(e.ev, "}"); return nil }
func (e *c06ev) OnNil() error            { e.ev = append(e.ev, "Z"); return nil }
func (e *c06ev) OnBool(b bool) error     { e.ev = append(e.ev, fmt.Sprint(b)); return nil }
func (e *c06ev) OnKey(s string) error    { e.ev = append(e.ev, "k:"+s); return nil }

// C06/C03: every valid UBJSON value is reported. A document whose LAST bytes
// are the header of an empty counted container, or of a typed container whose
// elements carry no payload (null, true, false), was rejected as truncated
// ("missing ']'"): the dispatcher stops on an empty chunk before the container
// is announced, and the end-of-input check did not know that step.
func TestC06UBJSONContainersCompleteAtEndOfInput(t *testing.T) {
	for in, want := range map[string]string{
		"[#i\x00":                  "[0 ]",
		"{#i\x00":                  "{0 }",
		"[$i#i\x00":                "[0 ]",
		"{$i#i\x00":                "{0 }",
		"[$Z#i\x03":                "[3 Z Z Z ]",
		"[$T#i\x02":                "[2 true true ]",
		"[$F#i\x01":                "[1 false ]",
		"[#i\x01[#i\x00":           "[1 [0 ] ]",
		"{#i\x01i\x01a[#i\x00":     "{1 k:a [0 ] }",
		"[#i\x02[$Z#i\x02[#i\x00": "[2 [2 Z Z ] [0 ] ]",
	} {
		e := &c06ev{Visitor: visitors.NilVisitor()}
		if err := ubjson.Parse([]byte(in), e); err != nil {
			t.Errorf("%q: complete document rejected: %v", in, err)
			continue
		}
		if got := strings.Join(e.ev, " "); got != want {
			t.Errorf("%q: events %s, want %s", in, got, want)
		}
	}
	// truncated documents are still rejected, without announcing anything new
	for _, in := range []string{"[#i\x01", "{#i\x01", "[$Z#", "[$Z", "[$i#i\x02\x01", "{#i\x01i\x01a", "[#"} {
		e := &c06ev{Visitor: visitors.NilVisitor()}
		if err := ubjson.Parse([]byte(in), e); err == nil {
			t.Errorf("%q: truncated document accepted (%s)", in, strings.Join(e.ev, " "))
		}
	}
}

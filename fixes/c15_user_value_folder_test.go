package fixes

import (
	"bytes"
	"testing"

	structform "github.com/elastic/go-structform"
	"github.com/elastic/go-structform/gotype"
	"github.com/elastic/go-structform/json"
)

type ptrShaped struct{ P *[4]int }
type namedMap map[string]int

// C15: a user folder registered for *T is handed a pointer to a T. For
// pointer-shaped T (a struct whose only field is a pointer, a named map type)
// reflect keeps a non-addressable value directly in the data word, so the
// word is the value, not a pointer to it: the folder received the CONTENTS of
// T reinterpreted as *T (silently wrong data, or SIGSEGV).
func TestC15UserValueFolderPointerShaped(t *testing.T) {
	backing := [4]int{41, 42, 43, 44}
	var buf bytes.Buffer
	it, err := gotype.NewIterator(json.NewVisitor(&buf), gotype.Folders(
		func(p *ptrShaped, v structform.ExtVisitor) error { return v.OnInt(p.P[1]) },
		func(p *namedMap, v structform.ExtVisitor) error { return v.OnInt(len(*p)) },
	))
	if err != nil {
		t.Fatal(err)
	}
	cases := []struct {
		v    interface{}
		want string
	}{
		{&ptrShaped{&backing}, `42`},
		{[]ptrShaped{{&backing}}, `[42]`},
		{ptrShaped{&backing}, `42`},                            // top level, not addressable
		{map[string]ptrShaped{"k": {&backing}}, `{"k":42}`},    // map element
		{[]interface{}{ptrShaped{&backing}}, `[42]`},           // inside interface{}
		{[]interface{}{namedMap{"a": 1, "b": 2}}, `[2]`},       // named map inside interface{}
		{map[string]interface{}{"m": namedMap{"a": 1}}, `{"m":1}`},
	}
	for _, c := range cases {
		buf.Reset()
		if err := it.Fold(c.v); err != nil {
			t.Errorf("%#v: %v", c.v, err)
			continue
		}
		if got := buf.String(); got != c.want {
			t.Errorf("%T: got %s, want %s", c.v, got, c.want)
		}
	}
}

package fixes

import (
	"errors"
	"testing"

	structform "github.com/elastic/go-structform"
	"github.com/elastic/go-structform/cborl"
	"github.com/elastic/go-structform/gotype"
	"github.com/elastic/go-structform/json"
	"github.com/elastic/go-structform/ubjson"
	"github.com/elastic/go-structform/visitors"
)

var errSink = errors.New("sink failed")

type failWriter struct{ okWrites int }

func (w *failWriter) Write(p []byte) (int, error) {
	if w.okWrites > 0 {
		w.okWrites--
		return len(p), nil
	}
	return 0, errSink
}

// C16: a writer that fails and keeps failing is reported by the event.
func TestC16JSONStringAndIntReportWriteErrors(t *testing.T) {
	for k := 0; k < 4; k++ {
		if err := json.NewVisitor(&failWriter{okWrites: k}).OnString("a\"b\nc"); err == nil {
			t.Errorf("OnString with writer failing from write %d returned nil", k)
		}
	}
	if err := json.NewVisitor(&failWriter{}).OnInt(42); err == nil {
		t.Errorf("OnInt returned nil on failing writer")
	}
}

func TestC16CBORArrayHeaderError(t *testing.T) {
	if err := cborl.NewVisitor(&failWriter{}).OnInt16Array(nil); err == nil {
		t.Errorf("OnInt16Array(nil) on failing writer returned nil")
	}
}

// failAt fails at the k-th event and counts events after the failure.
type failAt struct {
	structform.ExtVisitor
	k, n, after int
}

func newFailAt(k int) *failAt {
	f := &failAt{k: k}
	f.ExtVisitor = structform.EnsureExtVisitor(visitors.NilVisitor())
	return f
}
func (f *failAt) tick() error {
	f.n++
	if f.n == f.k {
		return errSink
	}
	if f.n > f.k {
		f.after++
	}
	return nil
}
func (f *failAt) OnObjectStart(int, structform.BaseType) error { return f.tick() }
func (f *failAt) OnObjectFinished() error                      { return f.tick() }
func (f *failAt) OnKey(string) error                           { return f.tick() }
func (f *failAt) OnKeyRef([]byte) error                        { return f.tick() }
func (f *failAt) OnString(string) error                        { return f.tick() }
func (f *failAt) OnStringRef([]byte) error                     { return f.tick() }

func TestC16UBJSONVisitorErrorNotOverwritten(t *testing.T) {
	doc := []byte("{i\x01aSi\x02xyi\x01bSi\x01z}")
	for k := 1; k <= 6; k++ {
		v := newFailAt(k)
		err := ubjson.Parse(doc, v)
		if err != errSink {
			t.Errorf("fail at event %d: Parse returned %v", k, err)
		}
		if v.after != 0 {
			t.Errorf("fail at event %d: %d events delivered after the failure", k, v.after)
		}
	}
}

func TestC16FoldOptionError(t *testing.T) {
	bad := func(v int) {} // not a valid folder signature
	if err := gotype.Fold(1, visitors.NilVisitor(), gotype.Folders(bad)); err == nil {
		t.Errorf("Fold with an invalid Folders option returned nil")
	}
}

package fixes

import (
	"bytes"
	"fmt"
	"strings"
	"testing"

	structform "github.com/elastic/go-structform"
	"github.com/elastic/go-structform/ubjson"
	"github.com/elastic/go-structform/visitors"
)

type strlog struct {
	structform.ExtVisitor
	ev []string
}

func (l *strlog) OnString(s string) error    { l.ev = append(l.ev, s); return nil }
func (l *strlog) OnStringRef(s []byte) error { l.ev = append(l.ev, string(s)); return nil }

// C01/C07: a typed uint array that needs the high-precision marker keeps its small elements.
func TestC07UBJSONHighPrecArray(t *testing.T) {
	var buf bytes.Buffer
	in := []uint64{5, 1 << 63, 42, 18446744073709551615}
	if err := ubjson.NewVisitor(&buf).OnUint64Array(in); err != nil {
		t.Fatal(err)
	}
	l := &strlog{ExtVisitor: structform.EnsureExtVisitor(visitors.NilVisitor())}
	if err := ubjson.Parse(buf.Bytes(), l); err != nil {
		t.Fatalf("%v (%q)", err, buf.String())
	}
	var want []string
	for _, v := range in {
		want = append(want, fmt.Sprint(v))
	}
	if strings.Join(l.ev, ",") != strings.Join(want, ",") {
		t.Errorf("decoded %q want %q (bytes %q)", l.ev, want, buf.String())
	}
}

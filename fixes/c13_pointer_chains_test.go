package fixes

import (
	"bytes"
	"reflect"
	"testing"

	sfjson "github.com/elastic/go-structform/json"

	"github.com/elastic/go-structform/gotype"
)

type c13E struct{ X int }
type c13W struct {
	P **c13E
	Q *[]int
	R int
}

func c13js(v interface{}) string {
	var buf bytes.Buffer
	if err := gotype.Fold(v, sfjson.NewVisitor(&buf)); err != nil {
		return "fold error: " + err.Error()
	}
	return buf.String()
}

func c13rt(t *testing.T, name string, in interface{}, out interface{}, want interface{}) {
	t.Helper()
	defer func() {
		if r := recover(); r != nil {
			t.Errorf("%s: panic: %v", name, r)
		}
	}()
	u, err := gotype.NewUnfolder(out)
	if err != nil {
		t.Errorf("%s: refused: %v", name, err)
		return
	}
	if err := gotype.Fold(in, u); err != nil {
		t.Errorf("%s: err=%v", name, err)
		return
	}
	got := reflect.ValueOf(out).Elem().Interface()
	if c13js(got) != c13js(want) {
		t.Errorf("%s: got %s want %s", name, c13js(got), c13js(want))
	}
}

// C11/C13: pointers, and containers reached through pointers, are supported
// targets. A state that completes its own value when it is told that its
// child is done (pointer to a container, interface{} value, skipped value)
// removed itself, but the state enclosing it was never told: **T stayed nil
// without an error, map[string]*T and struct{P **T} failed with "expected
// object value"/"unsupported", []*interface{} panicked in reflect.
func TestC13PointerChains(t *testing.T) {
	e := &c13E{1}
	obj := map[string]interface{}{"x": 1}
	{
		var p **c13E
		c13rt(t, "**c13E", obj, &p, &e)
	}
	{
		var m map[string]*c13E
		c13rt(t, "map[string]*c13E", map[string]interface{}{"a": obj}, &m, map[string]*c13E{"a": {1}})
	}
	{
		var s []*c13E
		c13rt(t, "[]*c13E", []interface{}{obj, obj}, &s, []*c13E{{1}, {1}})
	}
	{
		var s **[]int
		is := []int{1, 2}
		pis := &is
		c13rt(t, "**[]int", []interface{}{1, 2}, &s, &pis)
	}
	{
		var m map[string]*[]int
		c13rt(t, "map[string]*[]int", map[string]interface{}{"a": []interface{}{1}}, &m, map[string]*[]int{"a": {1}})
	}
	{
		var w c13W
		is := []int{3}
		c13rt(t, "struct with **c13E", map[string]interface{}{"p": obj, "q": []interface{}{3}, "r": 7}, &w, c13W{P: &e, Q: &is, R: 7})
	}
	{
		var m map[string]**c13E
		c13rt(t, "map[string]**c13E", map[string]interface{}{"a": obj}, &m, map[string]**c13E{"a": &e})
	}
}

type c13Label string

func TestC13InterfaceUnderReflectiveParents(t *testing.T) {
	obj := map[string]interface{}{"x": 1}
	{
		var m map[c13Label]interface{}
		c13rt(t, "map[c13Label]interface{}", map[string]interface{}{"a": []interface{}{obj, 1, "s"}}, &m, map[c13Label]interface{}{"a": []interface{}{obj, 1, "s"}})
	}
	{
		var s []*interface{}
		var a, b interface{} = obj, []interface{}{1}
		c13rt(t, "[]*interface{}", []interface{}{obj, []interface{}{1}}, &s, []*interface{}{&a, &b})
	}
	{
		type S struct {
			I *interface{}
			J interface{}
			K int
		}
		var s S
		var a interface{} = obj
		c13rt(t, "struct{*interface{}}", map[string]interface{}{"i": obj, "j": []interface{}{obj}, "k": 2}, &s, S{I: &a, J: []interface{}{obj}, K: 2})
	}
	{
		var m map[string][]map[string]*c13E
		c13rt(t, "deep", map[string]interface{}{"a": []interface{}{map[string]interface{}{"k": obj}}}, &m, map[string][]map[string]*c13E{"a": {{"k": {1}}}})
	}
}

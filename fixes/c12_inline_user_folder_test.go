package fixes

import (
	"bytes"
	"testing"

	structform "github.com/elastic/go-structform"
	"github.com/elastic/go-structform/gotype"
	"github.com/elastic/go-structform/json"
)

type inner struct{ A, B int }
type outer struct {
	ID int
	In inner `struct:",inline"`
}

// C12: a registered custom folder is used for an inlined field's type too.
func TestC12InlineFieldUsesRegisteredFolder(t *testing.T) {
	var buf bytes.Buffer
	folder := func(in *inner, v structform.ExtVisitor) error {
		v.OnObjectStart(1, structform.AnyType)
		v.OnKey("sum")
		v.OnInt(in.A + in.B)
		return v.OnObjectFinished()
	}
	it, err := gotype.NewIterator(json.NewVisitor(&buf), gotype.Folders(folder))
	if err != nil {
		t.Fatal(err)
	}
	if err := it.Fold(outer{ID: 1, In: inner{A: 2, B: 3}}); err != nil {
		t.Fatal(err)
	}
	if got, want := buf.String(), `{"id":1,"sum":5}`; got != want {
		t.Errorf("got %s want %s", got, want)
	}
}

type folderStruct struct{ N int }

func (f folderStruct) Fold(v structform.ExtVisitor) error {
	v.OnObjectStart(1, structform.AnyType)
	v.OnKey("n")
	v.OnInt(f.N)
	return v.OnObjectFinished()
}

// C11/C12: an inlined struct field whose type implements Folder is folded, not a crash.
func TestC12InlineStructImplementingFolder(t *testing.T) {
	defer func() {
		if r := recover(); r != nil {
			t.Errorf("panic: %v", r)
		}
	}()
	var buf bytes.Buffer
	v := struct {
		ID int
		F  folderStruct `struct:",inline"`
	}{ID: 1, F: folderStruct{N: 7}}
	if err := gotype.Fold(v, json.NewVisitor(&buf)); err != nil {
		t.Fatal(err)
	}
	if got, want := buf.String(), `{"id":1,"n":7}`; got != want {
		t.Errorf("got %s want %s", got, want)
	}
}

package fixes

import (
	"bytes"
	"io"
	"testing"
	"testing/iotest"
	"time"

	"github.com/elastic/go-structform/cborl"
	"github.com/elastic/go-structform/json"
	"github.com/elastic/go-structform/ubjson"
	"github.com/elastic/go-structform/visitors"
)

type nexter interface{ Next() error }

func drain(t *testing.T, name string, d nexter) (n int, err error) {
	done := make(chan struct{})
	go func() {
		defer close(done)
		for {
			if err = d.Next(); err != nil {
				return
			}
			n++
			if n > 100 {
				return
			}
		}
	}()
	select {
	case <-done:
	case <-time.After(2 * time.Second):
		t.Fatalf("%s: Next hangs", name)
	}
	return
}

// C18: the io.Reader decoders deliver each value and then io.EOF.
func TestC18ReaderDecodersWork(t *testing.T) {
	vs := visitors.NilVisitor()
	n, err := drain(t, "json", json.NewDecoder(bytes.NewReader([]byte(`{"a":1} [1,2] `)), 8, vs))
	if n != 2 || err != io.EOF {
		t.Errorf("json: n=%d err=%v", n, err)
	}
	// data delivered together with io.EOF must not be lost
	n, err = drain(t, "cborl", cborl.NewDecoder(iotest.DataErrReader(bytes.NewReader([]byte{0x82, 0x01, 0x02})), 16, vs))
	if n != 1 || err != io.EOF {
		t.Errorf("cborl DataErrReader: n=%d err=%v", n, err)
	}
}

// C03/C18: a stream that ends inside a value is an error, not a clean end.
func TestC18TruncatedStreamIsAnError(t *testing.T) {
	vs := visitors.NilVisitor()
	if _, err := drain(t, "json", json.NewDecoder(bytes.NewReader([]byte(`{"a":[1,`)), 64, vs)); err == nil || err == io.EOF {
		t.Errorf("json truncated: err=%v", err)
	}
	if _, err := drain(t, "ubjson", ubjson.NewDecoder(bytes.NewReader([]byte("[#i\x03i\x01")), 64, vs)); err == nil || err == io.EOF {
		t.Errorf("ubjson truncated: err=%v", err)
	}
	if _, err := drain(t, "cborl", cborl.NewDecoder(bytes.NewReader([]byte{0x83, 0x01}), 64, vs)); err == nil || err == io.EOF {
		t.Errorf("cborl truncated reader: err=%v", err)
	}
	if _, err := drain(t, "cborl", cborl.NewBytesDecoder([]byte{0x83, 0x01}, vs)); err == nil || err == io.EOF {
		t.Errorf("cborl truncated bytes: err=%v", err)
	}
	if err := cborl.Parse([]byte{0x19, 0x01}, vs); err == nil {
		t.Errorf("cborl.Parse accepted a truncated item")
	}
	if err := cborl.ParseString("\x62a", vs); err == nil {
		t.Errorf("cborl.ParseString accepted a truncated item")
	}
	if _, err := cborl.ParseReader(bytes.NewReader([]byte{0x9f, 0x01}), vs); err == nil {
		t.Errorf("cborl.ParseReader accepted a truncated item")
	}
	if err := cborl.Parse([]byte{0x83, 0x01, 0x02, 0x03}, vs); err != nil {
		t.Errorf("cborl.Parse rejected a complete item: %v", err)
	}
}

// zeroThenData returns (0, nil) once before every real read, which io.Reader permits.
type zeroThenData struct {
	r    io.Reader
	flip bool
}

func (z *zeroThenData) Read(p []byte) (int, error) {
	z.flip = !z.flip
	if z.flip {
		return 0, nil
	}
	return z.r.Read(p)
}

func TestC03ZeroByteReadsAreHarmless(t *testing.T) {
	vs := visitors.NilVisitor()
	defer func() {
		if r := recover(); r != nil {
			t.Errorf("panic: %v", r)
		}
	}()
	if n, err := drain(t, "ubjson", ubjson.NewDecoder(&zeroThenData{r: bytes.NewReader([]byte("[i\x01i\x02]"))}, 2, vs)); n != 1 || err != io.EOF {
		t.Errorf("ubjson: n=%d err=%v", n, err)
	}
	if n, err := drain(t, "cborl", cborl.NewDecoder(&zeroThenData{r: bytes.NewReader([]byte{0x9f, 0x01, 0x02, 0xff})}, 1, vs)); n != 1 || err != io.EOF {
		t.Errorf("cborl: n=%d err=%v", n, err)
	}
}

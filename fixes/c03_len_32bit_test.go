package fixes

import (
	"testing"

	"github.com/elastic/go-structform/cborl"
	"github.com/elastic/go-structform/ubjson"
	"github.com/elastic/go-structform/visitors"
)

// C03/C05/C06 on 32-bit platforms (run with GOARCH=386): a 64-bit wire length that does not fit int
// is refused, not truncated (0x1_0000_0002 became 2 and the rest of the payload was parsed as new items).
func TestC03WireLengthDoesNotFitInt(t *testing.T) {
	if ^uint(0)>>32 != 0 {
		t.Skip("only meaningful where int has 32 bits")
	}
	vs := visitors.NilVisitor()
	if err := cborl.Parse([]byte{0x7B, 0, 0, 0, 1, 0, 0, 0, 2, 'a', 'b'}, vs); err == nil {
		t.Errorf("cborl: text length 2^32+2 accepted")
	}
	if err := ubjson.Parse([]byte{'S', 'L', 0, 0, 0, 1, 0, 0, 0, 2, 'a', 'b'}, vs); err == nil {
		t.Errorf("ubjson: string length 2^32+2 accepted")
	}
}

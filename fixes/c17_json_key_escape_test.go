package fixes

import (
	"testing"

	"github.com/elastic/go-structform/json"
	"github.com/elastic/go-structform/visitors"
)

// C17: a reused json.Parser behaves like a fresh one. A document abandoned
// right after a backslash inside a string left the escape flag set; values
// re-initialise the flag when a string starts, object keys did not.
func TestC17JSONKeyAfterAbandonedEscape(t *testing.T) {
	for _, doc := range []string{`{"":1}`, `{"\"":1}`, `{"a":{"":[]}}`} {
		fresh := json.NewParser(visitors.NilVisitor())
		if err := fresh.Parse([]byte(doc)); err != nil {
			t.Fatalf("fresh parser rejects %s: %v", doc, err)
		}
		reused := json.NewParser(visitors.NilVisitor())
		if err := reused.Parse([]byte(`{"a\`)); err == nil {
			t.Fatalf("truncated document accepted")
		}
		if err := reused.Parse([]byte(doc)); err != nil {
			t.Errorf("reused parser rejects %s (a fresh one accepts it): %v", doc, err)
		}
	}
}

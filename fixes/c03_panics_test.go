package fixes

import (
	"testing"

	"github.com/elastic/go-structform/cborl"
	"github.com/elastic/go-structform/gotype"
	"github.com/elastic/go-structform/visitors"
)

// C03/C05: unsupported CBOR items are refused with an error, not a panic.
func TestC03CBORUnsupportedItemsAreErrors(t *testing.T) {
	for _, in := range [][]byte{{0xC0, 0x00}, {0xF9, 0x00, 0x00}} {
		func() {
			defer func() {
				if r := recover(); r != nil {
					t.Errorf("% x: panic %v", in, r)
				}
			}()
			if err := cborl.Parse(in, visitors.NilVisitor()); err == nil {
				t.Errorf("% x: accepted", in)
			}
		}()
	}
}

// C11/C14: a target type that cannot be handled is refused with an error.
func TestC11UnsupportedTargetIsError(t *testing.T) {
	defer func() {
		if r := recover(); r != nil {
			t.Errorf("panic %v", r)
		}
	}()
	var arr [3]int
	if _, err := gotype.NewUnfolder(&arr); err == nil {
		t.Errorf("NewUnfolder(*[3]int) succeeded")
	}
	var ch chan int
	if _, err := gotype.NewUnfolder(&ch); err == nil {
		t.Errorf("NewUnfolder(*chan int) succeeded")
	}
}

package fixes

import (
	"testing"

	"github.com/elastic/go-structform/ubjson"
	"github.com/elastic/go-structform/visitors"
)

// C03: ubjson input that ends inside a value or an unterminated container is an error.
func TestC03UBJSONTruncatedInputs(t *testing.T) {
	vs := visitors.NilVisitor()
	for _, in := range []string{"[Z", "S", "Si\x05ab", "[#i\x01[Z", "{i\x01a", "[#i\x02[#i\x01Z", "[[#i\x01Z", "{#i\x02i\x01a[#i\x01Z"} {
		if err := ubjson.Parse([]byte(in), vs); err == nil {
			t.Errorf("%q: truncated input accepted", in)
		}
	}
	for _, in := range []string{"[#i\x01Z", "[#i\x02[#i\x01ZZ", "{#i\x01i\x01a[#i\x01Z", "[#i\x01[$i#i\x01\x05", "Z", "[Z]"} {
		if err := ubjson.Parse([]byte(in), vs); err != nil {
			t.Errorf("%q: complete input rejected: %v", in, err)
		}
	}
}

package fixes

import (
	"bytes"
	"testing"

	"github.com/elastic/go-structform/gotype"
	"github.com/elastic/go-structform/json"
)

type inlP struct{ A int }
type outerP struct {
	ID int
	P  *inlP `struct:",inline"`
	Z  int
}

// C09/C12: a nil pointer to an inlined struct contributes no members (no key-less null inside the object).
func TestC09InlineNilPointer(t *testing.T) {
	var buf bytes.Buffer
	if err := gotype.Fold(outerP{ID: 1, Z: 2}, json.NewVisitor(&buf)); err != nil {
		t.Fatal(err)
	}
	if got, want := buf.String(), `{"id":1,"z":2}`; got != want {
		t.Errorf("got %s want %s", got, want)
	}
	buf.Reset()
	if err := gotype.Fold(outerP{ID: 1, P: &inlP{A: 7}, Z: 2}, json.NewVisitor(&buf)); err != nil {
		t.Fatal(err)
	}
	if got, want := buf.String(), `{"id":1,"a":7,"z":2}`; got != want {
		t.Errorf("got %s want %s", got, want)
	}
}

package fixes

import (
	"bytes"
	"testing"

	"github.com/elastic/go-structform/gotype"
	"github.com/elastic/go-structform/json"
)

type c12InnerI struct {
	X int
	I interface{} `struct:",inline"`
}
type c12OuterI struct {
	A int
	I interface{} `struct:",inline"`
}

// C12/C11: inline fields are replaced by the members of their value. The
// folder for an inlined interface{} is cached per type and owns ONE
// ExpectObjVisitor; when the inlined value itself inlined an interface{}, the
// folder was re-entered, made the visitor its own target and recursed until
// the stack overflowed (fatal error, not recoverable).
func TestC12NestedInlineInterface(t *testing.T) {
	var buf bytes.Buffer
	v := c12OuterI{A: 1, I: c12InnerI{X: 2, I: map[string]interface{}{"k": 3}}}
	if err := gotype.Fold(v, json.NewVisitor(&buf)); err != nil {
		t.Fatal(err)
	}
	if got, want := buf.String(), `{"a":1,"x":2,"k":3}`; got != want {
		t.Errorf("got %s want %s", got, want)
	}
	// the folder is usable again afterwards, also for a flat value
	buf.Reset()
	if err := gotype.Fold(c12OuterI{A: 4, I: map[string]interface{}{"z": 5}}, json.NewVisitor(&buf)); err != nil {
		t.Fatal(err)
	}
	if got, want := buf.String(), `{"a":4,"z":5}`; got != want {
		t.Errorf("got %s want %s", got, want)
	}
}

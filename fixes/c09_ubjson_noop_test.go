package fixes

import (
	"fmt"
	"strings"
	"testing"
	"testing/iotest"

	structform "github.com/elastic/go-structform"
	"github.com/elastic/go-structform/ubjson"
)

// evRec records the event stream.
type evRec struct{ ev []string }

func (r *evRec) add(s string) error                                    { r.ev = append(r.ev, s); return nil }
func (r *evRec) OnObjectStart(l int, _ structform.BaseType) error       { return r.add(fmt.Sprintf("{%d", l)) }
func (r *evRec) OnObjectFinished() error                                { return r.add("}") }
func (r *evRec) OnKey(s string) error                                   { return r.add("k:" + s) }
func (r *evRec) OnArrayStart(l int, _ structform.BaseType) error        { return r.add(fmt.Sprintf("[%d", l)) }
func (r *evRec) OnArrayFinished() error                                 { return r.add("]") }
func (r *evRec) OnNil() error                                           { return r.add("nil") }
func (r *evRec) OnBool(b bool) error                                    { return r.add(fmt.Sprint(b)) }
func (r *evRec) OnString(s string) error                                { return r.add("s:" + s) }
func (r *evRec) OnInt8(i int8) error                                    { return r.add(fmt.Sprint(i)) }
func (r *evRec) OnInt16(i int16) error                                  { return r.add(fmt.Sprint(i)) }
func (r *evRec) OnInt32(i int32) error                                  { return r.add(fmt.Sprint(i)) }
func (r *evRec) OnInt64(i int64) error                                  { return r.add(fmt.Sprint(i)) }
func (r *evRec) OnInt(i int) error                                      { return r.add(fmt.Sprint(i)) }
func (r *evRec) OnByte(b byte) error                                    { return r.add(fmt.Sprint(b)) }
func (r *evRec) OnUint8(u uint8) error                                  { return r.add(fmt.Sprint(u)) }
func (r *evRec) OnUint16(u uint16) error                                { return r.add(fmt.Sprint(u)) }
func (r *evRec) OnUint32(u uint32) error                                { return r.add(fmt.Sprint(u)) }
func (r *evRec) OnUint64(u uint64) error                                { return r.add(fmt.Sprint(u)) }
func (r *evRec) OnUint(u uint) error                                    { return r.add(fmt.Sprint(u)) }
func (r *evRec) OnFloat32(f float32) error                              { return r.add(fmt.Sprint(f)) }
func (r *evRec) OnFloat64(f float64) error                              { return r.add(fmt.Sprint(f)) }

// C09/C06: a no-op marker carries no value. It is skipped; it is neither an
// element of a counted container nor the value of an object member.
func TestC09UbjsonNoopIsNotAValue(t *testing.T) {
	cases := []struct{ in, want string }{
		{"[#i\x02Ni\x01i\x02", "[2 1 2 ]"},
		{"[#i\x02i\x01NNi\x02", "[2 1 2 ]"},
		{"{#i\x01i\x01aNi\x05", "{1 k:a 5 }"},
		{"{i\x01aNi\x05}", "{-1 k:a 5 }"},
		{"{i\x01aNNZi\x01bT}", "{-1 k:a nil k:b true }"},
		{"[NNi\x01N]", "[-1 1 ]"},
		{"[#i\x01[#i\x01Ni\x07", "[1 [1 7 ] ]"},
	}
	for _, c := range cases {
		for chunk := 0; chunk < 2; chunk++ {
			r := &evRec{}
			var err error
			if chunk == 0 {
				err = ubjson.Parse([]byte(c.in), r)
			} else {
				_, err = ubjson.ParseReader(iotest.OneByteReader(strings.NewReader(c.in)), r)
			}
			got := strings.Join(r.ev, " ")
			if err != nil || got != strings.TrimSpace(c.want) {
				t.Errorf("%q (mode %d): events %q err %v, want %q", c.in, chunk, got, err, c.want)
			}
		}
	}
}

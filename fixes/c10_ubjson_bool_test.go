package fixes

import (
	"bytes"
	"testing"

	structform "github.com/elastic/go-structform"
	"github.com/elastic/go-structform/ubjson"
)

// C07/C10/C17: OnBoolArray / OnBoolObject behave like their expansion.
func TestC10UBJSONBoolContainers(t *testing.T) {
	enc := func(f func(v *ubjson.Visitor)) string {
		var buf bytes.Buffer
		f(ubjson.NewVisitor(&buf))
		return buf.String()
	}
	for _, a := range [][]bool{{}, {true}, {true, false}} {
		a := a
		got := enc(func(v *ubjson.Visitor) {
			v.OnArrayStart(-1, structform.AnyType)
			v.OnBoolArray(a)
			v.OnInt8(1)
			v.OnArrayFinished()
		})
		want := enc(func(v *ubjson.Visitor) {
			v.OnArrayStart(-1, structform.AnyType)
			v.OnArrayStart(len(a), structform.BoolType)
			for _, b := range a {
				v.OnBool(b)
			}
			v.OnArrayFinished()
			v.OnInt8(1)
			v.OnArrayFinished()
		})
		if got != want {
			t.Errorf("OnBoolArray(%v): %q, expansion %q", a, got, want)
		}
	}
	got := enc(func(v *ubjson.Visitor) { v.OnBoolObject(map[string]bool{"a": true}) })
	want := enc(func(v *ubjson.Visitor) {
		v.OnObjectStart(1, structform.BoolType)
		v.OnKey("a")
		v.OnBool(true)
		v.OnObjectFinished()
	})
	if got != want {
		t.Errorf("OnBoolObject: %q, expansion %q", got, want)
	}
}

package fixes

import (
	"fmt"
	"strings"
	"testing"

	structform "github.com/elastic/go-structform"
	"github.com/elastic/go-structform/ubjson"
	"github.com/elastic/go-structform/visitors"
)

type evlog2 struct {
	structform.ExtVisitor
	ev []string
}

func (l *evlog2) OnInt8(v int8) error     { l.ev = append(l.ev, fmt.Sprint("i", v)); return nil }
func (l *evlog2) OnArrayFinished() error  { l.ev = append(l.ev, "]"); return nil }
func (l *evlog2) OnArrayStart(n int, t structform.BaseType) error {
	l.ev = append(l.ev, fmt.Sprint("[", n))
	return nil
}

// C06/C17: the element type of an optimized container applies to exactly that container.
func TestC06TypedArrayOfTypedArrays(t *testing.T) {
	l := &evlog2{ExtVisitor: structform.EnsureExtVisitor(visitors.NilVisitor())}
	doc := "[$[#i\x02$i#i\x01\x05$i#i\x01\x06"
	if err := ubjson.Parse([]byte(doc), l); err != nil {
		t.Fatalf("err=%v events=%v", err, l.ev)
	}
	if got := strings.Join(l.ev, " "); got != "[2 [1 i5 ] [1 i6 ] ]" {
		t.Errorf("events %q", got)
	}
	// a later document on the same parser must not see the stale element type
	l2 := &evlog2{ExtVisitor: structform.EnsureExtVisitor(visitors.NilVisitor())}
	p := ubjson.NewParser(l2)
	if err := p.Parse([]byte("[$i#i\x01\x07")); err != nil {
		t.Fatal(err)
	}
	if err := p.Parse([]byte("[$[#i\x01$i#i\x01\x08")); err != nil {
		t.Fatalf("second document: %v (events %v)", err, l2.ev)
	}
}

package fixes

import (
	"bytes"
	"testing"

	"github.com/elastic/go-structform/cborl"
	"github.com/elastic/go-structform/gotype"
	"github.com/elastic/go-structform/ubjson"
)

type c09Inner struct {
	X int
	Y int
	Z int
}

type c09T struct {
	A string `struct:",omitempty"`
	B int
	C c09Inner `struct:",inline"`
}

// C09/C11: a struct with omitempty or inlined fields announced len(fields)
// members and then reported fewer (or more); the length-prefixed encoders
// wrote documents their own parsers reject.
func TestC09StructMemberCount(t *testing.T) {
	in := c09T{B: 1, C: c09Inner{2, 3, 4}}

	var buf bytes.Buffer
	if err := gotype.Fold(in, cborl.NewVisitor(&buf)); err != nil {
		t.Fatal(err)
	}
	var out c09T
	u, _ := gotype.NewUnfolder(&out)
	if err := cborl.Parse(buf.Bytes(), u); err != nil || out != in {
		t.Errorf("cbor round trip: bytes=%x err=%v out=%+v", buf.Bytes(), err, out)
	}

	buf.Reset()
	if err := gotype.Fold(in, ubjson.NewVisitor(&buf)); err != nil {
		t.Fatal(err)
	}
	var out2 c09T
	u2, _ := gotype.NewUnfolder(&out2)
	if err := ubjson.Parse(buf.Bytes(), u2); err != nil || out2 != in {
		t.Errorf("ubjson round trip: bytes=%q err=%v out=%+v", buf.Bytes(), err, out2)
	}

	// a struct without such fields still announces its exact member count (definite-length map)
	buf.Reset()
	if err := gotype.Fold(c09Inner{1, 2, 3}, cborl.NewVisitor(&buf)); err != nil {
		t.Fatal(err)
	}
	if buf.Bytes()[0] != 0xa3 {
		t.Errorf("plain struct no longer encoded as a definite-length map: %x", buf.Bytes())
	}
}

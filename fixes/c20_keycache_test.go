package fixes

import (
	"reflect"
	"testing"

	"github.com/elastic/go-structform/gotype"
	"github.com/elastic/go-structform/json"
)

// C20: the key cache never changes results, for any capacity (including 0).
func TestC20KeyCacheAnyCapacity(t *testing.T) {
	doc := []byte(`{"a":1,"b":2,"c":3,"a2":4,"b":5}`)
	var want map[string]interface{}
	u, _ := gotype.NewUnfolder(&want)
	if err := json.Parse(doc, u); err != nil {
		t.Fatal(err)
	}
	for _, capacity := range []int{0, 1, 2, 3, 10} {
		func() {
			defer func() {
				if r := recover(); r != nil {
					t.Errorf("capacity %d: panic %v", capacity, r)
				}
			}()
			var got map[string]interface{}
			u, _ := gotype.NewUnfolder(nil)
			u.EnableKeyCache(capacity)
			for i := 0; i < 3; i++ {
				got = nil
				u.SetTarget(&got)
				if err := json.Parse(doc, u); err != nil {
					t.Fatalf("capacity %d: %v", capacity, err)
				}
				if !reflect.DeepEqual(got, want) {
					t.Errorf("capacity %d round %d: %v want %v", capacity, i, got, want)
				}
			}
		}()
	}
}

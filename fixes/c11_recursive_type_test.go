package fixes

import (
	"testing"

	"github.com/elastic/go-structform/gotype"
	"github.com/elastic/go-structform/visitors"
)

type c11N struct {
	V    int
	Next *c11N
}

type c11Inl struct {
	V   int
	Sub *c11Inl `struct:",inline"`
}

type c11M map[string]c11M
type c11S []c11S

type c11Leaf struct{ X int }
type c11Diamond struct {
	A, B c11Leaf
	C, D *c11Leaf
	E    []c11Leaf
}

// C11/C14: a type that contains itself is refused with an error when folding
// or when the target is set; before the repair both type compilers recursed
// until the stack overflowed (fatal, not recoverable).
func TestC11RecursiveTypesAreRefused(t *testing.T) {
	vs := visitors.NilVisitor()
	for name, v := range map[string]interface{}{
		"struct via pointer": &c11N{V: 1, Next: &c11N{V: 2}},
		"inlined pointer":    c11Inl{V: 1},
		"map of itself":      c11M{"a": nil},
		"slice of itself":    c11S{nil},
	} {
		if err := gotype.Fold(v, vs); err == nil {
			t.Errorf("Fold(%s): no error", name)
		}
	}
	if _, err := gotype.NewUnfolder(&c11N{}); err == nil {
		t.Errorf("NewUnfolder(&N{}): no error")
	}
	// the same type used several times is not a type that contains itself
	d := c11Diamond{A: c11Leaf{1}, C: &c11Leaf{2}, E: []c11Leaf{{3}}}
	if err := gotype.Fold(d, vs); err != nil {
		t.Errorf("Fold(diamond): %v", err)
	}
	if _, err := gotype.NewUnfolder(&c11Diamond{}); err != nil {
		t.Errorf("NewUnfolder(diamond): %v", err)
	}
	// an iterator stays usable after it refused a type
	it, _ := gotype.NewIterator(vs)
	if err := it.Fold(&c11N{}); err == nil {
		t.Errorf("Iterator.Fold(&N{}): no error")
	}
	if err := it.Fold(d); err != nil {
		t.Errorf("Iterator.Fold(diamond) after a refused type: %v", err)
	}
	if err := it.Fold(&c11N{}); err == nil {
		t.Errorf("Iterator.Fold(&N{}) second time: no error")
	}
}

#!/bin/bash
# usage: tools_seedconfirm.sh <mutant-dir> ; confirms on a scratch copy of the CURRENT /repo:
#  demo passes without patch; suite passes with patch; demo fails with patch. Prints CONFIRMED or why not.
set -u
d=$1
export GOFLAGS=-mod=mod GOPROXY=off GOSUMDB=off GOTOOLCHAIN=local GOWORK=off
tmp=$(mktemp -d /tmp/seedconf.XXXXXX); trap 'rm -rf "$tmp"' EXIT
rsync -a --exclude .git /repo/ "$tmp/repo/"
dir=$(jq -r '.demo_dir // "n/a"' "$d/meta.json")
kind=$(jq -r '.demo_kind // "test"' "$d/meta.json")
if [ "$kind" != "test" ] || [ ! -f "$d/demo_test.go" ]; then echo "$d: UNSUPPORTED demo kind $kind"; exit 2; fi
dir=${dir#./}; dir=${dir%/}
race=""; if jq -r '.demo_cmd // ""' "$d/meta.json" | grep -q -- "-race"; then race="-race"; fi
arch=""; if jq -r '.demo_cmd // ""' "$d/meta.json" | grep -q "GOARCH=386"; then arch=386; fi
demo() { if [ -n "$arch" ]; then GOARCH=$arch timeout 240 go test $race -vet=off -count=1 "$@"; else timeout 240 go test $race -vet=off -count=1 "$@"; fi; }
cd "$tmp/repo"
cp "$d/demo_test.go" "$dir/zz_demo_test.go"
if ! demo ./$dir >$tmp/clean.log 2>&1; then echo "$d: demo FAILS on clean tree"; tail -5 $tmp/clean.log; exit 1; fi
rm "$dir/zz_demo_test.go"
if ! patch -p1 -s --no-backup-if-mismatch < "$d/patch.diff" >/dev/null 2>&1; then echo "$d: PATCH DOES NOT APPLY"; exit 2; fi
if ! timeout 300 go test -vet=off -count=1 ./... >$tmp/suite.log 2>&1; then echo "$d: suite FAILS with patch"; grep -m3 FAIL $tmp/suite.log; exit 1; fi
cp "$d/demo_test.go" "$dir/zz_demo_test.go"
if demo ./$dir >$tmp/mut.log 2>&1; then echo "$d: demo PASSES with patch (not a break)"; exit 1; fi
echo "$d: CONFIRMED"

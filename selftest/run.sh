#!/bin/bash
# Self test of the checker: every patch under selftest/mutants/ breaks one rule
# instance in a way that still compiles. Each is applied to a scratch copy of
# /repo's current working tree (outside /repo and /verif, removed afterwards)
# and the named property check must exit 1 and name the expected construct.
#   usage: selftest/run.sh [PROPERTY-ID]   (no argument: all mutants)
# A mutant file <name>.patch has a sidecar <name>.expect with lines
#   <property-id> <substring that must occur in the check's output>
# Mutants whose patch no longer applies are reported and count as failures.
set -u
here=$(cd "$(dirname "$0")" && pwd)
want=${1:-}
export GOFLAGS=-mod=mod GOPROXY=off GOSUMDB=off GOTOOLCHAIN=local GOWORK=off
tmp=$(mktemp -d "${TMPDIR:-/tmp}/sfselftest.XXXXXX")
trap 'rm -rf "$tmp"' EXIT
fail=0; ran=0
# (mutants run in parallel, one scratch copy per mutant)
mutant_one() {
  patch=$1; want=$2; tmp=$3
  exp="${patch%.patch}.expect"
  [ -e "$exp" ] || { echo "SELFTEST FAIL missing .expect for $patch"; exit 0; }
  if [ -n "$want" ] && ! grep -q "^$want[ @]" "$exp"; then exit 0; fi
  w="$tmp/m.$(basename "$patch")"; mkdir -p "$w/repo"
  rsync -a --exclude .git /repo/ "$w/repo/"
  if ! (cd "$w/repo" && patch -p1 -s --no-backup-if-mismatch < "$patch" >/dev/null 2>&1); then
    echo "SELFTEST FAIL $(basename "$patch"): patch does not apply to the current tree"; rm -rf "$w"; exit 0
  fi
  while read -r prop needle; do
    [ -z "$prop" ] && continue
    case "$prop" in \#*) continue;; esac
    tier=quick
    case "$prop" in *@thorough) tier=thorough; prop=${prop%@thorough};; esac
    if [ -n "$want" ] && [ "$prop" != "$want" ]; then continue; fi
    out=$(/verif/bin/sfcheck -property "$prop" -tier "$tier" -repo "$w/repo" -no-evidence 2>&1); rc=$?
    echo "MUTANT-RAN"
    if [ $rc -ne 1 ] || ! printf '%s' "$out" | grep -qF -- "$needle"; then
      echo "SELFTEST FAIL $(basename "$patch") property=$prop: expected exit 1 naming '$needle' (exit $rc)"
    else
      echo "selftest ok  $(basename "$patch") property=$prop fires on '$needle'"
    fi
  done < "$exp"
  rm -rf "$w"
}
export -f mutant_one
mout=$(ls "$here"/mutants/*.patch 2>/dev/null | xargs -P "${SELFTEST_JOBS:-8}" -I{} bash -c 'mutant_one "$1" "$2" "$3"' _ {} "$want" "$tmp")
ran=$(printf '%s\n' "$mout" | grep -c '^MUTANT-RAN$')
printf '%s\n' "$mout" | grep -v '^MUTANT-RAN$' | grep . | sort || true
if printf '%s\n' "$mout" | grep -q '^SELFTEST FAIL'; then fail=1; fi
# Behaviour-preserving edits (renames, extracted helpers, changed loop forms ... written by independent
# sub-agents, /verif/benign/<id>/patch.diff): the check must stay silent on every one of them.
# (run in parallel, one scratch copy per edit)
benign_one() {
  bd=$1; want=$2; tmp=$3
  [ -e "$bd/patch.diff" ] || exit 0
  w="$tmp/b.$(basename "$bd")"; mkdir -p "$w/repo"
  rsync -a --exclude .git /repo/ "$w/repo/"
  if ! (cd "$w/repo" && patch -p1 -s --no-backup-if-mismatch < "$bd/patch.diff" >/dev/null 2>&1); then
    echo "selftest skip benign $(basename "$bd"): patch does not apply to the current tree"; rm -rf "$w"; exit 0
  fi
  props=$want; [ -z "$props" ] && props=$(/verif/bin/sfcheck list | cut -f1)
  for prop in $props; do
    out=$(/verif/bin/sfcheck -property "$prop" -repo "$w/repo" -no-evidence 2>&1); rc=$?
    echo "BENIGN-RAN"
    if [ $rc -ne 0 ]; then
      echo "SELFTEST FAIL benign $(basename "$bd") property=$prop: alarm on a behaviour-preserving edit (exit $rc): $(printf '%s' "$out" | grep -m1 'violated\|UNDECIDED' | cut -c1-200)"
    fi
  done
  rm -rf "$w"
}
export -f benign_one
bout=$(ls -d "$here"/../benign/*/ 2>/dev/null | xargs -P "${SELFTEST_JOBS:-8}" -I{} bash -c 'benign_one "$1" "$2" "$3"' _ {} "$want" "$tmp")
bran=$(printf '%s\n' "$bout" | grep -c '^BENIGN-RAN$')
printf '%s\n' "$bout" | grep -v '^BENIGN-RAN$' | grep . || true
if printf '%s\n' "$bout" | grep -q '^SELFTEST FAIL'; then fail=1; fi
echo "selftest: $ran mutant checks run, $bran silent-on-benign checks run, failures=$fail"
[ $fail -eq 0 ] || { echo "VIOLATION property=${want:-SELFTEST} replay=$here/mutants"; exit 1; }
exit 0

#!/bin/sh
# Placeholder until the mutant corpus is in place: succeeds without output.
exit 0

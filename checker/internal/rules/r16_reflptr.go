package rules

import (
	"fmt"
	"go/token"

	"golang.org/x/tools/go/ssa"

	"sfcheck/internal/core"
)

// R16 REFLPTR-INDIRECT. ReflValuePtr(v) hands out the data word of a
// reflect.Value as "pointer to v's data". The word is such a pointer only if
// the value is stored indirectly; a non-addressable value of a pointer-shaped
// type (a struct whose only field is a pointer, a named map, a pointer) is
// kept IN the word. Every argument of ReflValuePtr is therefore one of
//   - the result of (reflect.Value).Elem() (a pointer's referent is addressable;
//     this includes reflect.New(t).Elem()),
//   - a value for which CanAddr() was found true on the way to the call,
//   - a phi of such values.
// Anything else reinterprets the contents of v as a pointer to v.

func reflValueMethod(v ssa.Value, name string) (*ssa.Call, bool) {
	c, ok := v.(*ssa.Call)
	if !ok {
		return nil, false
	}
	sc := c.Common().StaticCallee()
	if sc == nil || funcPkgPath(sc) != "reflect" || sc.Name() != name || sc.Signature.Recv() == nil {
		return nil, false
	}
	return c, true
}

func canAddrGuarded(v ssa.Value, blk *ssa.BasicBlock) bool {
	for b := blk; b != nil; b = b.Idom() {
		d := b.Idom()
		if d == nil {
			break
		}
		ifi, ok := d.Instrs[len(d.Instrs)-1].(*ssa.If)
		if !ok {
			continue
		}
		cond, want := ifi.Cond, true
		for {
			u, ok := cond.(*ssa.UnOp)
			if !ok || u.Op != token.NOT {
				break
			}
			cond, want = u.X, !want
		}
		c, ok := reflValueMethod(cond, "CanAddr")
		if !ok || len(c.Common().Args) == 0 || c.Common().Args[0] != v {
			continue
		}
		succ := d.Succs[0]
		if !want {
			succ = d.Succs[1]
		}
		// the outcome "addressable" must be the only way into b
		if succ == b && len(succ.Preds) == 1 || succ.Dominates(b) && len(succ.Preds) == 1 {
			return true
		}
	}
	return false
}

func reflPtrAccepted(v ssa.Value, blk *ssa.BasicBlock, depth int) bool {
	if depth > 6 {
		return false
	}
	if _, ok := reflValueMethod(v, "Elem"); ok {
		return true
	}
	if phi, ok := v.(*ssa.Phi); ok {
		for i, e := range phi.Edges {
			pred := phi.Block().Preds[i]
			// the edge itself is the "addressable" outcome of a CanAddr test of this value
			if ifi, ok := pred.Instrs[len(pred.Instrs)-1].(*ssa.If); ok {
				cond, want := ifi.Cond, true
				for {
					u, ok := cond.(*ssa.UnOp)
					if !ok || u.Op != token.NOT {
						break
					}
					cond, want = u.X, !want
				}
				if c, ok := reflValueMethod(cond, "CanAddr"); ok && len(c.Common().Args) > 0 && c.Common().Args[0] == e {
					succ := pred.Succs[0]
					if !want {
						succ = pred.Succs[1]
					}
					other := pred.Succs[1]
					if !want {
						other = pred.Succs[0]
					}
					if succ == phi.Block() && other != phi.Block() {
						continue
					}
				}
			}
			if !reflPtrAccepted(e, pred, depth+1) {
				return false
			}
		}
		return len(phi.Edges) > 0
	}
	return canAddrGuarded(v, blk)
}

func reflPtrIndirect(p *core.Prog, r *core.Result) {
	n := 0
	for _, f := range p.ModFuncs() {
		ord := 0
		for _, b := range f.Blocks {
			for _, in := range b.Instrs {
				c, ok := in.(*ssa.Call)
				if !ok {
					continue
				}
				sc := c.Common().StaticCallee()
				if sc == nil || core.FuncName(sc) != "ReflValuePtr" || !p.InModule(sc) || len(c.Common().Args) != 1 {
					continue
				}
				n++
				ord++
				fkey := core.FuncKey(f)
				pos := p.Pos(c.Pos())
				if reflPtrAccepted(c.Common().Args[0], b, 0) {
					r.Ok(".REFLPTR-INDIRECT", pos, fkey+": the value whose data word is taken is a pointer's referent or was found addressable")
				} else {
					r.Fail(".REFLPTR-INDIRECT", fmt.Sprintf("%s|ReflValuePtr#%d", fkey, ord), pos, fkey+" takes the data word of a reflect.Value as a pointer to its data although the value is neither a pointer's referent (Elem()) nor known to be addressable (CanAddr()): for a non-addressable value of a pointer-shaped type (a struct with a single pointer field, a named map, a pointer) the word holds the value itself, and the callee receives the contents of T reinterpreted as *T", "")
				}
			}
		}
	}
	r.Floor("reflvalueptr_sites", n, 2)
}

package rules

import (
	"fmt"
	"go/constant"
	"go/token"
	"go/types"
	"sort"
	"strings"

	"golang.org/x/tools/go/ssa"
)

// ---------------------------------------------------------------------
// A small path-sensitive explorer over the SSA form of ONE function.
//
// It enumerates abstract paths (block sequences) exhaustively with
// memoisation on (block, client state key). Client states must come from a
// finite domain for termination; a state cap is a safety net only, and
// hitting it is reported to the caller (who reports "undecided").
//
// go/ssa already splits && and || into blocks and lowers switches into
// comparison chains, so branch refinement is plain If handling; phis are
// resolved per incoming edge, which is what makes "which value is returned on
// this path" exact.
// ---------------------------------------------------------------------

// PathClient is implemented by each rule.
type PathClient[S any] interface {
	// Key must identify the state up to behavioural equivalence.
	Key(s S) string
	// Phis assigns all phis of a block at once, given the index of the
	// incoming edge.
	Phis(s S, blk *ssa.BasicBlock, pred int) S
	// Instr transfers over one non-phi, non-control instruction. ok=false
	// stops the path (e.g. the client recorded a verdict). A client may
	// return extra alternative states (forks) that continue after the same
	// instruction.
	Instr(s S, in ssa.Instruction) (next S, ok bool, forks []S)
	// Branch refines the state for one outcome of an If; ok=false means the
	// edge is infeasible in this state.
	Branch(s S, cond ssa.Value, outcome bool) (S, bool)
	// Return is called at every reachable Return.
	Return(s S, ret *ssa.Return)
}

type pwItem[S any] struct {
	blk   *ssa.BasicBlock
	idx   int
	s     S
	trail []int // block indices, for diagnostics
}

// WalkPaths explores fn from (start, idx) with the initial state.
// Returns the number of abstract states visited and whether the cap was hit.
func WalkPaths[S any](c PathClient[S], start *ssa.BasicBlock, idx int, init S, maxStates int, onTrail func(trail []int)) (int, bool) {
	seen := map[string]bool{}
	work := []pwItem[S]{{blk: start, idx: idx, s: init, trail: []int{start.Index}}}
	states := 0
	for len(work) > 0 {
		it := work[len(work)-1]
		work = work[:len(work)-1]
		states++
		if states > maxStates {
			return states, true
		}
		s := it.s
		blk := it.blk
		alive := true
		i := it.idx
		for ; i < len(blk.Instrs) && alive; i++ {
			in := blk.Instrs[i]
			switch x := in.(type) {
			case *ssa.Phi:
				continue // handled on edge
			case *ssa.If:
				for k, outcome := range []bool{true, false} {
					ns, ok := c.Branch(s, x.Cond, outcome)
					if !ok {
						continue
					}
					succ := blk.Succs[k]
					ns = c.Phis(ns, succ, predIndex(succ, blk))
					key := fmt.Sprintf("%d|%s", succ.Index, c.Key(ns))
					if seen[key] {
						continue
					}
					seen[key] = true
					work = append(work, pwItem[S]{blk: succ, idx: 0, s: ns, trail: appendTrail(it.trail, succ.Index)})
				}
				alive = false
			case *ssa.Jump:
				succ := blk.Succs[0]
				ns := c.Phis(s, succ, predIndex(succ, blk))
				key := fmt.Sprintf("%d|%s", succ.Index, c.Key(ns))
				if !seen[key] {
					seen[key] = true
					work = append(work, pwItem[S]{blk: succ, idx: 0, s: ns, trail: appendTrail(it.trail, succ.Index)})
				}
				alive = false
			case *ssa.Return:
				if onTrail != nil {
					onTrail(it.trail)
				}
				c.Return(s, x)
				alive = false
			case *ssa.Panic:
				alive = false
			default:
				var ok bool
				var forks []S
				s, ok, forks = c.Instr(s, in)
				for _, fs := range forks {
					key := fmt.Sprintf("%d@%d|%s", blk.Index, i+1, c.Key(fs))
					if !seen[key] {
						seen[key] = true
						work = append(work, pwItem[S]{blk: blk, idx: i + 1, s: fs, trail: it.trail})
					}
				}
				if !ok {
					alive = false
				}
			}
		}
	}
	return states, false
}

func appendTrail(t []int, b int) []int {
	if len(t) > 200 {
		return t
	}
	n := make([]int, len(t)+1)
	copy(n, t)
	n[len(t)] = b
	return n
}

func predIndex(succ, pred *ssa.BasicBlock) int {
	for i, p := range succ.Preds {
		if p == pred {
			return i
		}
	}
	return -1
}

// ---------------------------------------------------------------------
// Address keys: a canonical name for an address expression rooted at a
// parameter, free variable, local allocation or global, through field
// selection and (un-indexed) loads. Two occurrences of p.err in one function
// are different SSA values (no CSE) but get the same key.
// ---------------------------------------------------------------------

func addrKey(v ssa.Value) string {
	switch x := v.(type) {
	case *ssa.Parameter:
		return "P:" + x.Name()
	case *ssa.FreeVar:
		return "F:" + x.Name()
	case *ssa.Global:
		return "G:" + x.String()
	case *ssa.Alloc:
		return fmt.Sprintf("A:%p", x)
	case *ssa.FieldAddr:
		k := addrKey(x.X)
		if k == "" {
			return ""
		}
		return fmt.Sprintf("%s.%d", k, x.Field)
	case *ssa.UnOp:
		if x.Op == token.MUL {
			k := addrKey(x.X)
			if k == "" {
				return ""
			}
			return "*(" + k + ")"
		}
	case *ssa.IndexAddr:
		k := addrKey(x.X)
		if k == "" {
			return ""
		}
		if c, ok := x.Index.(*ssa.Const); ok && c.Value != nil {
			return fmt.Sprintf("%s[%s]", k, c.Value.String())
		}
		return ""
	}
	return ""
}

// ---------------------------------------------------------------------
// valueSet: small immutable set of SSA values with a canonical key.
// ---------------------------------------------------------------------

type valueSet struct {
	ids []int // sorted
}

type valueNumbering struct {
	num map[ssa.Value]int
	rev []ssa.Value
}

func newNumbering() *valueNumbering { return &valueNumbering{num: map[ssa.Value]int{}} }

func (n *valueNumbering) id(v ssa.Value) int {
	if i, ok := n.num[v]; ok {
		return i
	}
	i := len(n.rev)
	n.num[v] = i
	n.rev = append(n.rev, v)
	return i
}

func (s valueSet) has(id int) bool {
	i := sort.SearchInts(s.ids, id)
	return i < len(s.ids) && s.ids[i] == id
}

func (s valueSet) with(id int) valueSet {
	if s.has(id) {
		return s
	}
	n := make([]int, 0, len(s.ids)+1)
	i := sort.SearchInts(s.ids, id)
	n = append(n, s.ids[:i]...)
	n = append(n, id)
	n = append(n, s.ids[i:]...)
	return valueSet{n}
}

func (s valueSet) without(id int) valueSet {
	if !s.has(id) {
		return s
	}
	n := make([]int, 0, len(s.ids))
	for _, x := range s.ids {
		if x != id {
			n = append(n, x)
		}
	}
	return valueSet{n}
}

func (s valueSet) key() string {
	var sb strings.Builder
	for _, x := range s.ids {
		fmt.Fprintf(&sb, "%d,", x)
	}
	return sb.String()
}

func (s valueSet) empty() bool { return len(s.ids) == 0 }

// stringSet: immutable sorted set of strings (memory keys).
type stringSet struct{ ks []string }

func (s stringSet) has(k string) bool {
	i := sort.SearchStrings(s.ks, k)
	return i < len(s.ks) && s.ks[i] == k
}
func (s stringSet) with(k string) stringSet {
	if s.has(k) {
		return s
	}
	n := append(append([]string{}, s.ks...), k)
	sort.Strings(n)
	return stringSet{n}
}
func (s stringSet) without(k string) stringSet {
	if !s.has(k) {
		return s
	}
	var n []string
	for _, x := range s.ks {
		if x != k {
			n = append(n, x)
		}
	}
	return stringSet{n}
}
func (s stringSet) key() string { return strings.Join(s.ks, ";") }
func (s stringSet) empty() bool { return len(s.ks) == 0 }
func (s stringSet) list() []string { return s.ks }

// ---------------------------------------------------------------------
// helpers on conditions
// ---------------------------------------------------------------------

// nilTest recognises `x == nil` / `x != nil` and returns x and whether the
// TRUE outcome means "x is nil".
func nilTest(cond ssa.Value) (x ssa.Value, trueMeansNil bool, ok bool) {
	b, isBin := cond.(*ssa.BinOp)
	if !isBin || (b.Op != token.EQL && b.Op != token.NEQ) {
		return nil, false, false
	}
	var other ssa.Value
	if isNilConst(b.Y) {
		other = b.X
	} else if isNilConst(b.X) {
		other = b.Y
	} else {
		return nil, false, false
	}
	return other, b.Op == token.EQL, true
}

func isNilConst(v ssa.Value) bool {
	c, ok := v.(*ssa.Const)
	return ok && c.Value == nil && !isBasicConstType(c.Type())
}

func isBasicConstType(t types.Type) bool {
	_, ok := t.Underlying().(*types.Basic)
	return ok
}

// constBool returns the value of a boolean constant.
func constBool(v ssa.Value) (val, ok bool) {
	c, isC := v.(*ssa.Const)
	if !isC || c.Value == nil || c.Value.Kind() != constant.Bool {
		return false, false
	}
	return constant.BoolVal(c.Value), true
}

// describeTrail renders a block trail.
func describeTrail(fn *ssa.Function, trail []int) string {
	var sb strings.Builder
	for i, b := range trail {
		if i > 0 {
			sb.WriteString("→")
		}
		fmt.Fprintf(&sb, "b%d", b)
		if b < len(fn.Blocks) && fn.Blocks[b].Comment != "" {
			sb.WriteString("(" + fn.Blocks[b].Comment + ")")
		}
	}
	return sb.String()
}

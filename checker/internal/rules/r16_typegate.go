package rules

import (
	"fmt"
	"go/token"
	"go/types"
	"sort"

	"golang.org/x/tools/go/ssa"

	"sfcheck/internal/core"
)

// R16 TYPE-GATE: a function that reinterprets memory as a map or interface
// type through unsafe.Pointer is only correct for exactly that type (a
// map[string]error is not a map[string]interface{}: an itab pointer would be
// read as a type descriptor). Wherever such a function is SELECTED for a
// reflect.Type, the selection is by type identity - an == between two
// reflect.Type values that came out true on the path, or a table keyed by
// reflect.Type - never by Kind() alone.

func isReflectType(t types.Type) bool {
	n, ok := t.(*types.Named)
	return ok && n.Obj().Pkg() != nil && n.Obj().Pkg().Path() == "reflect" && core.TypeName(n) == "Type"
}

// reinterpretsAs returns a description of the map/interface type f
// reinterprets unsafe memory as, or "".
func reinterpretsAs(f *ssa.Function) string {
	for _, b := range f.Blocks {
		for _, in := range b.Instrs {
			cv, ok := in.(*ssa.Convert)
			if !ok {
				continue
			}
			if bt, ok := cv.X.Type().Underlying().(*types.Basic); !ok || bt.Kind() != types.UnsafePointer {
				continue
			}
			pt, ok := cv.Type().Underlying().(*types.Pointer)
			if !ok {
				continue
			}
			switch pt.Elem().Underlying().(type) {
			case *types.Map, *types.Interface:
				return types.TypeString(pt.Elem(), func(p *types.Package) string { return p.Name() })
			}
		}
	}
	return ""
}

type tgState struct{ identity bool }
type tgClient struct {
	target *ssa.Function
	bad    []token.Pos
	seen   int
}

func (k *tgClient) Key(s tgState) string { return fmt.Sprint(s.identity) }
func (k *tgClient) Phis(s tgState, blk *ssa.BasicBlock, pred int) tgState {
	for _, in := range blk.Instrs {
		phi, ok := in.(*ssa.Phi)
		if !ok {
			break
		}
		if pred >= 0 && pred < len(phi.Edges) && k.isTarget(phi.Edges[pred]) {
			k.seen++
			if !s.identity {
				k.bad = append(k.bad, phi.Pos())
			}
		}
	}
	return s
}
func (k *tgClient) isTarget(v ssa.Value) bool {
	for i := 0; i < 4; i++ {
		switch x := v.(type) {
		case *ssa.Function:
			return x == k.target
		case *ssa.ChangeType:
			v = x.X
		case *ssa.MakeInterface:
			v = x.X
		default:
			return false
		}
	}
	return false
}
func (k *tgClient) Instr(s tgState, in ssa.Instruction) (tgState, bool, []tgState) {
	// any other use of the target as a value (argument, store)
	for _, op := range in.Operands(nil) {
		if *op != nil && k.isTarget(*op) {
			if c, ok := in.(ssa.CallInstruction); ok && c.Common().Value == *op {
				continue // a direct call is not a selection
			}
			if _, isPhi := in.(*ssa.Phi); isPhi {
				continue
			}
			k.seen++
			if !s.identity {
				k.bad = append(k.bad, token.Pos(instrPos(in)))
			}
		}
	}
	return s, true, nil
}
func (k *tgClient) Branch(s tgState, cond ssa.Value, outcome bool) (tgState, bool) {
	if bo, ok := cond.(*ssa.BinOp); ok && (bo.Op == token.EQL && outcome || bo.Op == token.NEQ && !outcome) {
		if isReflectType(bo.X.Type()) && isReflectType(bo.Y.Type()) {
			s.identity = true
		}
	}
	return s, true
}
func (k *tgClient) Return(s tgState, ret *ssa.Return) {
	for _, rv := range ret.Results {
		if k.isTarget(rv) {
			k.seen++
			if !s.identity {
				k.bad = append(k.bad, token.Pos(instrPos(ret)))
			}
		}
	}
}

func typeGate(p *core.Prog, r *core.Result) {
	var targets []*ssa.Function
	what := map[*ssa.Function]string{}
	for _, f := range p.ModFuncs() {
		pk := core.FuncPkg(f)
		if pk == nil || pk.Name() != "gotype" {
			continue
		}
		if w := reinterpretsAs(f); w != "" {
			targets = append(targets, f)
			what[f] = w
		}
	}
	sort.Slice(targets, func(i, j int) bool { return targets[i].Pos() < targets[j].Pos() })
	selections := 0
	for _, g := range targets {
		// where is g used as a value?
		for _, f := range p.ModFuncs() {
			pk := core.FuncPkg(f)
			if pk == nil || pk.Name() != "gotype" {
				continue
			}
			uses := false
			for _, b := range f.Blocks {
				for _, in := range b.Instrs {
					for _, op := range in.Operands(nil) {
						if *op == ssa.Value(g) {
							if c, ok := in.(ssa.CallInstruction); ok && c.Common().Value == *op {
								continue
							}
							uses = true
						}
					}
				}
			}
			if !uses {
				continue
			}
			gkey, fkey := core.FuncKey(g), core.FuncKey(f)
			if isInitFunc(f) {
				// table initialiser: the key must be a reflect.Type
				okTable := true
				for _, b := range f.Blocks {
					for _, in := range b.Instrs {
						mu, ok := in.(*ssa.MapUpdate)
						if !ok {
							continue
						}
						v := mu.Value
						if ct, ok := v.(*ssa.ChangeType); ok {
							v = ct.X
						}
						if v != ssa.Value(g) {
							continue
						}
						selections++
						if mt, ok := mu.Map.Type().Underlying().(*types.Map); !ok || !isReflectType(mt.Key()) {
							okTable = false
						}
					}
				}
				if okTable {
					r.Ok(".TYPE-GATE", p.Pos(g.Pos()), fmt.Sprintf("%s (reads memory as %s) is registered in a table keyed by reflect.Type", gkey, what[g]))
				} else {
					r.Fail(".TYPE-GATE", gkey+"|"+fkey, p.Pos(g.Pos()), fmt.Sprintf("%s reads memory as %s but is registered under a key that is not a reflect.Type", gkey, what[g]), "")
				}
				continue
			}
			k := &tgClient{target: g}
			_, capped := WalkPaths[tgState](k, f.Blocks[0], 0, tgState{}, 200000, nil)
			selections += k.seen
			switch {
			case capped:
				r.Undecided(".TYPE-GATE", gkey+"|"+fkey, "state cap hit in "+fkey)
			case len(k.bad) > 0:
				r.Fail(".TYPE-GATE", gkey+"|"+fkey, p.Pos(k.bad[0]), fmt.Sprintf("%s selects %s, which reads the value's memory as %s through unsafe.Pointer, on a path without a reflect.Type identity test (a Kind() test admits every other map/interface type of that kind, whose memory has a different layout)", fkey, gkey, what[g]), "")
			default:
				r.Ok(".TYPE-GATE", p.Pos(f.Pos()), fmt.Sprintf("%s selects %s (reads memory as %s) only behind a reflect.Type identity test", fkey, gkey, what[g]))
			}
		}
	}
	r.Stats["unsafe_map_or_interface_reinterpreters"] = len(targets)
	r.Floor("reinterpreter_selections", selections, 10)
}

// EMPTY-IFACE-GATE (unfold side): the interface{} unfolders store whatever
// the stream delivers (a string, a float64, a map) through *interface{},
// *[]interface{} or *map[string]interface{}. Only the EMPTY interface can hold
// every such value; a non-empty interface has an itab where the empty one has
// a type word. In the functions that select an unfolder for a reflect.Type,
// every path that has seen Kind() == reflect.Interface for a type value and
// returns an unfolder has also seen NumMethod() == 0 for the same type value.

type eiState struct {
	ifc  valueSet // type values whose Kind()==Interface on this path
	zero valueSet // type values whose NumMethod()==0 on this path
}
type eiClient struct {
	p   *core.Prog
	fn  *ssa.Function
	num *valueNumbering
	bad string
	n   int
}

func (k *eiClient) Key(s eiState) string                               { return s.ifc.key() + "|" + s.zero.key() }
func (k *eiClient) Phis(s eiState, _ *ssa.BasicBlock, _ int) eiState  { return s }
func (k *eiClient) Instr(s eiState, _ ssa.Instruction) (eiState, bool, []eiState) {
	return s, true, nil
}
func typeMethodCall(v ssa.Value, name string) (ssa.Value, bool) {
	c, ok := v.(*ssa.Call)
	if !ok || !c.Common().IsInvoke() || c.Common().Method.Name() != name || !isReflectType(c.Common().Value.Type()) {
		return nil, false
	}
	return c.Common().Value, true
}
func (k *eiClient) Branch(s eiState, cond ssa.Value, outcome bool) (eiState, bool) {
	bo, ok := cond.(*ssa.BinOp)
	if !ok || (bo.Op != token.EQL && bo.Op != token.NEQ) {
		return s, true
	}
	eq := outcome == (bo.Op == token.EQL)
	if tv, ok := typeMethodCall(bo.X, "Kind"); ok {
		if c, ok := constIntVal(bo.Y); ok && c == 20 && eq { // reflect.Interface
			k.n++
			s.ifc = s.ifc.with(k.num.id(tv))
		}
	}
	if tv, ok := typeMethodCall(bo.X, "NumMethod"); ok {
		if c, ok := constIntVal(bo.Y); ok && c == 0 && eq {
			s.zero = s.zero.with(k.num.id(tv))
		}
	}
	return s, true
}
func (k *eiClient) Return(s eiState, ret *ssa.Return) {
	if len(ret.Results) == 0 || isNilConst(ret.Results[0]) {
		return
	}
	for _, id := range s.ifc.ids {
		if !s.zero.has(id) {
			k.bad = "returns an unfolder at " + k.p.Pos(token.Pos(instrPos(ret))) + " on a path that saw Kind()==reflect.Interface but not NumMethod()==0 for the same type"
		}
	}
}

func emptyIfaceGate(p *core.Prog, r *core.Result) {
	n := 0
	for _, f := range p.ModFuncs() {
		pk := core.FuncPkg(f)
		if pk == nil || pk.Name() != "gotype" || f.Signature.Results().Len() == 0 {
			continue
		}
		rn := namedOf(f.Signature.Results().At(0).Type())
		if rn == nil || (core.TypeName(rn) != "ptrUnfolder" && core.TypeName(rn) != "reflUnfolder") {
			continue
		}
		k := &eiClient{p: p, fn: f, num: newNumbering()}
		_, capped := WalkPaths[eiState](k, f.Blocks[0], 0, eiState{}, 400000, nil)
		if k.n == 0 {
			continue
		}
		n++
		fkey := core.FuncKey(f)
		switch {
		case capped:
			r.Undecided(".EMPTY-IFACE-GATE", fkey, "state cap hit")
		case k.bad != "":
			r.Fail(".EMPTY-IFACE-GATE", fkey+"|iface", p.Pos(f.Pos()), fkey+" "+k.bad+": a target whose (element) type is a non-empty interface (fmt.Stringer, error) is written through the interface{} unfolders, which store a type word where the interface expects an itab (memory corruption; the first method call crashes)", "")
		default:
			r.Ok(".EMPTY-IFACE-GATE", p.Pos(f.Pos()), fkey+": interface{} unfolders are selected only for empty interface types")
		}
	}
	r.Floor("unfolder_selectors_with_interface_arm", n, 2)
}

package rules

import (
	"fmt"
	"go/constant"
	"go/token"
	"go/types"
	"strings"

	"golang.org/x/tools/go/ssa"

	"sfcheck/internal/core"
)

// R13 ALLOC-TAINT: a length announced by the stream (the len argument of
// OnArrayStart/OnObjectStart on the unfolder side; the remaining-length
// entries of the binary parsers) never sizes an allocation unless it has been
// bounded by a constant.

type r13 struct {
	p       *core.Prog
	r       *core.Result
	seen    map[ssa.Value]bool
	srcDesc map[ssa.Value]string
	sinks   int
}

// upperBoundedAt: is v known to be <= some constant when control is in blk?
// Looks for a dominating If that compares v (or a value it was converted
// from/to) with a constant on the edge leading to blk.
func upperBoundedAt(v ssa.Value, blk *ssa.BasicBlock) bool {
	same := func(a ssa.Value) bool {
		for {
			if a == v {
				return true
			}
			switch x := a.(type) {
			case *ssa.Convert:
				a = x.X
			case *ssa.ChangeType:
				a = x.X
			default:
				return false
			}
		}
	}
	for d := blk; d != nil; d = d.Idom() {
		id := d.Idom()
		if id == nil {
			break
		}
		iff, ok := id.Instrs[len(id.Instrs)-1].(*ssa.If)
		if !ok {
			continue
		}
		bo, ok := iff.Cond.(*ssa.BinOp)
		if !ok {
			continue
		}
		// which edge of id leads to d (only if d is entered solely through that edge)
		var onTrue, onFalse bool
		if id.Succs[0] == d && len(d.Preds) == 1 {
			onTrue = true
		}
		if id.Succs[1] == d && len(d.Preds) == 1 {
			onFalse = true
		}
		if !onTrue && !onFalse {
			continue
		}
		isConst := func(x ssa.Value) bool {
			c, ok := x.(*ssa.Const)
			return ok && c.Value != nil && c.Value.Kind() == constant.Int
		}
		var upperOnTrue, known bool
		switch {
		case same(bo.X) && isConst(bo.Y):
			switch bo.Op {
			case token.LSS, token.LEQ:
				upperOnTrue, known = true, true
			case token.GTR, token.GEQ:
				upperOnTrue, known = false, true
			}
		case same(bo.Y) && isConst(bo.X):
			switch bo.Op {
			case token.GTR, token.GEQ:
				upperOnTrue, known = true, true
			case token.LSS, token.LEQ:
				upperOnTrue, known = false, true
			}
		}
		if known && (upperOnTrue && onTrue || !upperOnTrue && onFalse) {
			return true
		}
	}
	return false
}

// boundedFunc: every return value of f is a constant or is upper-bounded by a
// constant where it is returned (a clamp helper such as
// `if l > max { return max }; return l`).
func boundedFunc(f *ssa.Function) bool {
	if f == nil || f.Blocks == nil || f.Signature.Results().Len() != 1 {
		return false
	}
	for _, b := range f.Blocks {
		for _, in := range b.Instrs {
			ret, ok := in.(*ssa.Return)
			if !ok {
				continue
			}
			v := ret.Results[0]
			if _, isC := v.(*ssa.Const); isC {
				continue
			}
			if upperBoundedAt(v, b) {
				continue
			}
			if phi, ok := v.(*ssa.Phi); ok {
				okAll := true
				for i, e := range phi.Edges {
					if _, isC := e.(*ssa.Const); isC {
						continue
					}
					if !upperBoundedAt(e, phi.Block().Preds[i]) && !edgeBounds(e, phi.Block().Preds[i], phi.Block()) {
						okAll = false
					}
				}
				if okAll {
					continue
				}
			}
			return false
		}
	}
	return true
}

// edgeBounds: pred ends in an If comparing v with a constant and the edge
// pred->succ is the one on which v <= const.
func edgeBounds(v ssa.Value, pred, succ *ssa.BasicBlock) bool {
	iff, ok := pred.Instrs[len(pred.Instrs)-1].(*ssa.If)
	if !ok {
		return false
	}
	bo, ok := iff.Cond.(*ssa.BinOp)
	if !ok {
		return false
	}
	isConst := func(x ssa.Value) bool {
		c, ok := x.(*ssa.Const)
		return ok && c.Value != nil && c.Value.Kind() == constant.Int
	}
	onTrue := pred.Succs[0] == succ
	var upperOnTrue, known bool
	switch {
	case bo.X == v && isConst(bo.Y):
		switch bo.Op {
		case token.LSS, token.LEQ:
			upperOnTrue, known = true, true
		case token.GTR, token.GEQ:
			upperOnTrue, known = false, true
		}
	case bo.Y == v && isConst(bo.X):
		switch bo.Op {
		case token.GTR, token.GEQ:
			upperOnTrue, known = true, true
		case token.LSS, token.LEQ:
			upperOnTrue, known = false, true
		}
	}
	return known && upperOnTrue == onTrue
}

func (t *r13) sink(v ssa.Value, at ssa.Instruction, what, src string) {
	t.sinks++
	f := at.Parent()
	fkey := core.FuncKey(f)
	pos := t.p.Pos(token.Pos(instrPos(at)))
	if upperBoundedAt(v, at.Block()) {
		t.r.Ok(".SIZED-BY-LENGTH", pos, fkey+": "+what+" sized by "+src+" behind a constant upper bound")
		return
	}
	t.r.Fail(".SIZED-BY-LENGTH", fkey+"|"+what, pos, fmt.Sprintf("%s: %s is sized by %s, which the sender chooses and need not back with data (a few bytes announcing 2^28 elements allocate gigabytes; 2^62 panics in makeslice)", fkey, what, src), "")
}

func (t *r13) taint(v ssa.Value, src string) {
	if t.seen[v] {
		return
	}
	t.seen[v] = true
	refs := v.Referrers()
	if refs == nil {
		return
	}
	for _, ref := range *refs {
		switch x := ref.(type) {
		case *ssa.Convert:
			t.taint(x, src)
		case *ssa.ChangeType:
			t.taint(x, src)
		case *ssa.BinOp:
			switch x.Op {
			case token.ADD, token.SUB, token.MUL, token.SHL, token.QUO:
				t.taint(x, src)
			}
		case *ssa.Phi:
			// clamp shape: this edge arrives bounded
			bounded := false
			for i, e := range x.Edges {
				if e == v && (edgeBounds(v, x.Block().Preds[i], x.Block()) || upperBoundedAt(v, x.Block().Preds[i])) {
					bounded = true
				}
			}
			if !bounded {
				t.taint(x, src)
			}
		case *ssa.MakeSlice:
			if x.Len == v || x.Cap == v {
				t.sink(v, x, "make([]T, n)", src)
			}
		case *ssa.MakeMap:
			if x.Reserve == v {
				t.sink(v, x, "make(map, n)", src)
			}
		case *ssa.MakeChan:
			if x.Size == v {
				t.sink(v, x, "make(chan, n)", src)
			}
		case ssa.CallInstruction:
			cc := x.Common()
			sc := cc.StaticCallee()
			args := callArgs(cc)
			for ai, a := range args {
				if a != v {
					continue
				}
				if sc == nil {
					continue
				}
				pk := funcPkgPath(sc)
				name := core.FuncName(sc)
				switch {
				case pk == "reflect" && (name == "MakeSlice" || name == "MakeMapWithSize" || name == "MakeChan"):
					t.sink(v, x, "reflect."+name, src)
				case (pk == "bytes" || pk == "strings") && name == "Grow":
					t.sink(v, x, pk+".Grow", src)
				case t.p.InModule(sc) && sc.Blocks != nil:
					if boundedFunc(sc) {
						continue // clamp helper: its result is bounded
					}
					if ai < len(sc.Params) {
						t.taint(sc.Params[ai], src)
					}
					// result depends on the argument?
					if val, ok := x.(*ssa.Call); ok && sc.Signature.Results().Len() == 1 && returnsDerivedFrom(sc, sc.Params[ai]) {
						t.taint(val, src)
					}
				}
			}
		}
	}
}

// returnsDerivedFrom: some return value of f is computed from param.
func returnsDerivedFrom(f *ssa.Function, param *ssa.Parameter) bool {
	for _, b := range f.Blocks {
		for _, in := range b.Instrs {
			if ret, ok := in.(*ssa.Return); ok {
				for _, rv := range ret.Results {
					for _, o := range origins(rv) {
						if o == ssa.Value(param) {
							return true
						}
					}
					if bo, ok := rv.(*ssa.BinOp); ok && (bo.X == ssa.Value(param) || bo.Y == ssa.Value(param)) {
						return true
					}
				}
			}
		}
	}
	return false
}

// R13 runs the rule. scope: "gotype" (announced lengths on the consumer
// side), "parsers" (wire lengths in cborl/ubjson), or both.
func R13(scopes ...string) func(p *core.Prog) *core.Result {
	return func(p *core.Prog) *core.Result {
		r := core.NewResult("R13", "an announced / wire length never sizes an allocation (make, reflect.MakeSlice, reflect.MakeMapWithSize, Grow) unless bounded by a constant ("+strings.Join(scopes, ",")+")")
		t := &r13{p: p, r: r, seen: map[ssa.Value]bool{}}
		sources := 0
		for _, sc := range scopes {
			switch sc {
			case "gotype":
				for _, f := range p.ModFuncs() {
					pk := core.FuncPkg(f)
					if pk == nil || pk.Name() != "gotype" || f.Signature.Recv() == nil {
						continue
					}
					if core.FuncName(f) != "OnArrayStart" && core.FuncName(f) != "OnObjectStart" {
						continue
					}
					for _, prm := range f.Params[1:] {
						if b, ok := prm.Type().Underlying().(*types.Basic); ok && b.Kind() == types.Int {
							sources++
							t.taint(prm, "the length announced by "+core.FuncName(f))
						}
					}
				}
			case "parsers":
				for _, f := range p.ModFuncs() {
					pk := core.FuncPkg(f)
					if pk == nil || (pk.Name() != "cborl" && pk.Name() != "ubjson") {
						continue
					}
					for _, b := range f.Blocks {
						for _, in := range b.Instrs {
							ld, ok := in.(*ssa.UnOp)
							if !ok || ld.Op != token.MUL {
								continue
							}
							fa, ok := ld.X.(*ssa.FieldAddr)
							if !ok {
								continue
							}
							st, ok := fa.X.Type().Underlying().(*types.Pointer).Elem().Underlying().(*types.Struct)
							if !ok || core.FieldName(st, fa.Field) != "current" {
								continue
							}
							if n := namedOf(fa.X.Type()); n == nil || core.TypeName(n) != "lengthStack" {
								continue
							}
							sources++
							t.taint(ld, "the length read from the wire ("+pk.Name()+" length.current)")
						}
					}
				}
			}
		}
		r.Stats["length_sources"] = sources
		r.Stats["allocation_sinks_reached"] = t.sinks
		if t.sinks == 0 {
			// nothing reaches an allocation: the clause holds; record it as one discharged obligation per scope
			for _, sc := range scopes {
				r.Ok(".SIZED-BY-LENGTH", "-", sc+": no length source reaches any allocation size")
			}
		}
		min := 0
		for _, sc := range scopes {
			if sc == "gotype" {
				min += 30
			} else {
				min += 10
			}
		}
		r.Floor("length_sources", sources, min)
		return r
	}
}

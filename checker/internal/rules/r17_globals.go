package rules

import (
	"fmt"
	"go/token"
	"go/types"
	"sort"
	"strings"

	"golang.org/x/tools/go/ssa"

	"sfcheck/internal/core"
)

// R17 GLOBAL-IMMUTABLE: outside package initialisers nothing writes to a
// package-level variable of the library, nor through memory reachable from
// one; types whose only instances are init-time singletons have no method
// that stores through its receiver; the library starts no goroutine and uses
// no sync/atomic primitive (so the absence of shared writes is the whole
// argument).
func R17(p *core.Prog) *core.Result {
	r := core.NewResult("R17", "no package-level variable (nor memory reachable from one) is written outside package initialisers; init-time singletons have no receiver-mutating methods; no goroutines/sync in the library")
	sum := ComputeWriteSummaries(p)

	// enumerate globals
	type ginfo struct {
		g      *ssa.Global
		writes []string
	}
	globals := map[*ssa.Global]*ginfo{}
	var glist []*ssa.Global
	for _, name := range sortedKeys(p.SPkgs) {
		sp := p.SPkgs[name]
		for _, mn := range sortedKeys(sp.Members) {
			if g, ok := sp.Members[mn].(*ssa.Global); ok {
				globals[g] = &ginfo{g: g}
				glist = append(glist, g)
			}
		}
	}
	r.Stats["globals"] = len(glist)

	globalRoots := func(v ssa.Value) []*ssa.Global {
		var out []*ssa.Global
		for _, o := range origins(v) {
			if g, ok := o.(*ssa.Global); ok && globals[g] != nil {
				out = append(out, g)
			}
		}
		return out
	}

	funcs := p.ModFuncs()
	nonInit := 0
	goStmts := 0
	for _, f := range funcs {
		if isInitFunc(f) {
			continue
		}
		nonInit++
		f := f
		// (1) direct writes rooted at a global
		writeSites(f, func(in ssa.Instruction, ref ssa.Value, what string) {
			for _, g := range globalRoots(ref) {
				if lockHeld(in) {
					r.Stats["writes_under_lock"]++
					continue
				}
				globals[g].writes = append(globals[g].writes,
					fmt.Sprintf("%s in %s at %s", what, core.FuncKey(f), p.Pos(in.Pos())))
			}
		})
		// (2) global-rooted reference handed to something that writes through it
		for _, b := range f.Blocks {
			for _, in := range b.Instrs {
				if _, ok := in.(*ssa.Go); ok {
					goStmts++
					r.Fail(".NO-GOROUTINE", core.FuncKey(f)+"|go", p.Pos(in.Pos()),
						"library code starts a goroutine in "+core.FuncKey(f)+"; the no-shared-state argument assumes sequential code inside an instance", "")
				}
				site, ok := in.(ssa.CallInstruction)
				if !ok {
					continue
				}
				c := site.Common()
				if _, isB := c.Value.(*ssa.Builtin); isB {
					continue
				}
				args := callArgs(c)
				callees := calleesOf(p, site)
				for ai, a := range args {
					gs := globalRoots(a)
					if len(gs) == 0 {
						continue
					}
					for _, cal := range callees {
						why := ""
						if cal.Blocks == nil || !p.InModule(cal) {
							if externalWriter(cal, ai) {
								why = "external writer " + cal.String()
							}
						} else if sum.Writes[cal][ai] {
							why = core.FuncKey(cal) + " writes through parameter " + fmt.Sprint(ai) + " (" + sum.Why[cal][ai] + ")"
						}
						if why != "" {
							for _, g := range gs {
								globals[g].writes = append(globals[g].writes,
									fmt.Sprintf("passed in %s at %s to %s", core.FuncKey(f), p.Pos(in.Pos()), why))
							}
						}
					}
				}
			}
		}
	}
	r.Stats["functions_outside_init"] = nonInit
	r.Stats["go_statements"] = goStmts

	for _, g := range glist {
		gi := globals[g]
		key := g.Pkg.Pkg.Name() + "." + g.Name()
		if len(gi.writes) == 0 {
			r.Ok(".GLOBAL", p.Pos(g.Pos()), "package-level variable "+key+": no write reachable outside initialisers")
			continue
		}
		sort.Strings(gi.writes)
		r.Fail(".GLOBAL", key, p.Pos(g.Pos()),
			"package-level variable "+key+" is written outside package initialisers: "+gi.writes[0], strings.Join(gi.writes, "; "))
	}

	// (3) singleton types: allocated in init only, stored (transitively) in a global
	initAlloc := map[*types.Named]bool{}
	otherAlloc := map[*types.Named]bool{}
	for _, f := range funcs {
		for _, b := range f.Blocks {
			for _, in := range b.Instrs {
				a, ok := in.(*ssa.Alloc)
				if !ok || !a.Heap {
					continue
				}
				n := namedOf(a.Type())
				if n == nil || n.Obj().Pkg() == nil || !strings.HasPrefix(n.Obj().Pkg().Path(), core.ModPath) {
					continue
				}
				if isInitFunc(f) {
					initAlloc[n] = true
				} else {
					otherAlloc[n] = true
				}
			}
		}
	}
	// value-typed globals (var x T) count as init-time instances too
	for _, g := range glist {
		if n := namedOf(g.Type()); n != nil && n.Obj().Pkg() != nil && strings.HasPrefix(n.Obj().Pkg().Path(), core.ModPath) {
			if _, isPtr := g.Type().(*types.Pointer).Elem().(*types.Pointer); !isPtr {
				initAlloc[n] = true
			}
		}
	}
	singletons := 0
	var names []*types.Named
	for n := range initAlloc {
		names = append(names, n)
	}
	sort.Slice(names, func(i, j int) bool { return names[i].String() < names[j].String() })
	for _, n := range names {
		if otherAlloc[n] {
			r.Stats["types_allocated_in_init_and_elsewhere"]++
			r.Stats["mixed:"+n.String()]++
			continue
		}
		singletons++
		// every method with this receiver: no write through the receiver
		bad := ""
		for _, f := range funcs {
			if f.Signature.Recv() == nil || namedOf(f.Signature.Recv().Type()) != n || isInitFunc(f) {
				continue
			}
			if sum.Writes[f][0] {
				if _, isPtr := f.Signature.Recv().Type().(*types.Pointer); isPtr {
					bad = core.FuncKey(f) + " writes through its receiver: " + sum.Why[f][0]
					break
				}
			}
		}
		key := n.Obj().Pkg().Name() + "." + core.TypeName(n)
		if bad != "" {
			r.Fail(".SINGLETON", key, p.Pos(n.Obj().Pos()),
				"type "+key+" is instantiated only in package initialisers (shared singleton) but "+bad, "")
		} else {
			r.Ok(".SINGLETON", p.Pos(n.Obj().Pos()), "singleton type "+key+": no method writes through its receiver")
		}
	}
	r.Stats["singleton_types"] = singletons

	// (3b) LEAK: a global whose static type reaches a struct type that the
	// library mutates at run time (and that is not an init-only singleton)
	// must not be read at run time at all: the flow from such a read to the
	// mutating code goes through instance fields, which this analysis does
	// not follow, so the read itself is the violation.
	mutated := map[*types.Named]string{}
	for _, f := range funcs {
		if isInitFunc(f) {
			continue
		}
		f := f
		writeSites(f, func(in ssa.Instruction, ref ssa.Value, what string) {
			fresh := true
			for _, o := range origins(ref) {
				if !isLocalAllocRoot(o) {
					fresh = false
				}
			}
			if fresh {
				return // initialising an object this function has just allocated
			}
			for _, n := range chainTypes(ref) {
				if _, ok := mutated[n]; !ok {
					mutated[n] = what + " in " + core.FuncKey(f) + " at " + p.Pos(in.Pos())
				}
			}
		})
	}
	r.Stats["runtime_mutated_struct_types"] = len(mutated)
	mutableGlobals := 0
	for _, g := range glist {
		elem := g.Type().(*types.Pointer).Elem()
		var hit *types.Named
		for _, n := range reachableNamed(elem) {
			if _, ok := mutated[n]; ok && (otherAlloc[n] || !initAlloc[n]) {
				hit = n
				break
			}
		}
		if hit == nil {
			continue
		}
		mutableGlobals++
		key := g.Pkg.Pkg.Name() + "." + g.Name()
		loads := []string{}
		if refs := g.Referrers(); refs != nil {
			for _, ref := range *refs {
				if !isInitFunc(ref.Parent()) {
					loads = append(loads, core.FuncKey(ref.Parent())+" at "+p.Pos(ref.Pos()))
				}
			}
		}
		// ssa.Global has no referrer list; scan operands instead
		for _, f := range funcs {
			if isInitFunc(f) {
				continue
			}
			for _, b := range f.Blocks {
				for _, in := range b.Instrs {
					for _, op := range in.Operands(nil) {
						if *op == ssa.Value(g) {
							loads = append(loads, core.FuncKey(f)+" at "+p.Pos(in.Pos()))
						}
					}
				}
			}
		}
		if len(loads) == 0 {
			r.Ok(".LEAK", p.Pos(g.Pos()), "global "+key+" holds run-time-mutable type "+core.TypeName(hit)+" but is never used outside initialisers")
		} else {
			sort.Strings(loads)
			r.Fail(".LEAK", key, p.Pos(g.Pos()),
				"package-level variable "+key+" holds a value of type "+core.TypeName(hit)+", which the library mutates at run time ("+mutated[hit]+"), and is used outside initialisers in "+loads[0]+": instances would share mutable state", strings.Join(loads, "; "))
		}
	}
	r.Stats["globals_of_mutable_type"] = mutableGlobals

	// (3c) ALIASED-FIELD: an instance field that is made to point into global memory (e.g. a slice of a
	// package-level table) must never be written through: the write would land in the shared table.
	type fieldKey struct {
		t *types.Named
		f int
	}
	aliased := map[fieldKey]string{}
	for _, f := range funcs {
		for _, b := range f.Blocks {
			for _, in := range b.Instrs {
				st, ok := in.(*ssa.Store)
				if !ok {
					continue
				}
				fa, ok := st.Addr.(*ssa.FieldAddr)
				if !ok {
					continue
				}
				n := namedOf(fa.X.Type())
				if n == nil {
					continue
				}
				switch st.Val.Type().Underlying().(type) {
				case *types.Slice, *types.Map, *types.Pointer:
				default:
					continue
				}
				for _, g := range globalRoots(st.Val) {
					aliased[fieldKey{n, fa.Field}] = g.Pkg.Pkg.Name() + "." + g.Name() + " (assigned in " + core.FuncKey(f) + " at " + p.Pos(st.Pos()) + ")"
				}
			}
		}
	}
	r.Stats["instance_fields_aliasing_globals"] = len(aliased)
	if len(aliased) > 0 {
		through := map[fieldKey]string{}
		for _, f := range funcs {
			if isInitFunc(f) {
				continue
			}
			f := f
			writeSites(f, func(in ssa.Instruction, ref ssa.Value, what string) {
				seen := map[ssa.Value]bool{}
				var walk func(v ssa.Value)
				walk = func(v ssa.Value) {
					if v == nil || seen[v] {
						return
					}
					seen[v] = true
					switch x := v.(type) {
					case *ssa.IndexAddr:
						walk(x.X)
					case *ssa.Slice:
						walk(x.X)
					case *ssa.Phi:
						for _, e := range x.Edges {
							walk(e)
						}
					case *ssa.FieldAddr:
						walk(x.X)
					case *ssa.UnOp:
						if x.Op.String() == "*" {
							if fa, ok := x.X.(*ssa.FieldAddr); ok {
								if n := namedOf(fa.X.Type()); n != nil {
									if _, ok := aliased[fieldKey{n, fa.Field}]; ok {
										through[fieldKey{n, fa.Field}] = what + " in " + core.FuncKey(f) + " at " + p.Pos(in.Pos())
									}
								}
							}
							walk(x.X)
						}
					}
				}
				walk(ref)
			})
		}
		var fks []fieldKey
		for k := range aliased {
			fks = append(fks, k)
		}
		sort.Slice(fks, func(i, j int) bool {
			return fks[i].t.String()+fmt.Sprint(fks[i].f) < fks[j].t.String()+fmt.Sprint(fks[j].f)
		})
		for _, k := range fks {
			fname := core.FieldName(k.t.Underlying().(*types.Struct), k.f)
			key := k.t.Obj().Pkg().Name() + "." + core.TypeName(k.t) + "." + fname
			if w, bad := through[k]; bad {
				r.Fail(".ALIASED-FIELD", key, p.Pos(k.t.Obj().Pos()), "instance field "+key+" points into package-level memory "+aliased[k]+" and is written through ("+w+"): one instance changes the table every other instance reads", "")
			} else {
				r.Ok(".ALIASED-FIELD", p.Pos(k.t.Obj().Pos()), "instance field "+key+" aliases "+aliased[k]+" and is only read through")
			}
		}
	}

	// (4) sync / atomic use
	syncUses := 0
	for _, pk := range p.All {
		for id, obj := range pk.TypesInfo.Uses {
			if obj.Pkg() != nil && (obj.Pkg().Path() == "sync" || obj.Pkg().Path() == "sync/atomic") {
				syncUses++
				_ = id
			}
		}
	}
	r.Stats["sync_uses"] = syncUses

	r.Floor("globals", len(glist), 200)
	r.Floor("singleton_types", singletons, 10)
	// CAPTURED-ESCAPE: an option value (Folders(...), Unfolders(...)) is a closure over maps it built once. The
	// same option value may be passed to any number of constructors, so the closure only READS its captured
	// state: it never stores a captured map/slice/pointer into the options struct it fills in (later options
	// would then write into the shared map, and two instances built from the same option would share it).
	{
		n := 0
		for _, f := range p.ModFuncs() {
			pk := core.FuncPkg(f)
			if pk == nil || pk.Name() != "gotype" || len(f.FreeVars) == 0 || len(f.Params) != 1 {
				continue
			}
			pn := namedOf(f.Params[0].Type())
			if pn == nil || !strings.Contains(strings.ToLower(core.TypeName(pn)), "options") {
				continue
			}
			n++
			bad := ""
			for _, b := range f.Blocks {
				for _, in := range b.Instrs {
					st, ok := in.(*ssa.Store)
					if !ok || !rootedAt(st.Addr, f.Params[0]) {
						continue
					}
					switch st.Val.Type().Underlying().(type) {
					case *types.Map, *types.Slice, *types.Pointer, *types.Chan:
					default:
						continue
					}
					v := st.Val
					if ld, ok := v.(*ssa.UnOp); ok && ld.Op == token.MUL {
						v = ld.X
					}
					if fv, ok := v.(*ssa.FreeVar); ok {
						bad = "stores its captured " + fv.Name() + " into the options at " + p.Pos(st.Pos())
					}
				}
			}
			fkey := core.FuncKey(f)
			if bad == "" {
				r.Ok(".CAPTURED-ESCAPE", p.Pos(f.Pos()), fkey+": the option closure copies out of its captured state, it does not hand it over by reference")
			} else {
				r.Fail(".CAPTURED-ESCAPE", fkey+"|capture", p.Pos(f.Pos()), fkey+" "+bad+": the option value can be used for several constructors; a later option then merges into the shared map, and instances built from the same option share mutable state", "")
			}
		}
		r.Floor("option_closures", n, 2)
	}
	return r
}

// lockHeld reports whether a call to (*sync.Mutex).Lock or
// (*sync.RWMutex).Lock dominates the instruction in its function (accepted
// idiom: a write to shared state under a lock is not an unsynchronised write).
func lockHeld(in ssa.Instruction) bool {
	f := in.Parent()
	for _, b := range f.Blocks {
		for _, x := range b.Instrs {
			c, ok := x.(*ssa.Call)
			if !ok {
				continue
			}
			cal := c.Common().StaticCallee()
			if cal == nil || funcPkgPath(cal) != "sync" || cal.Name() != "Lock" {
				continue
			}
			if b == in.Block() {
				for _, y := range b.Instrs {
					if y == x {
						return true
					}
					if y == in {
						break
					}
				}
			} else if b.Dominates(in.Block()) {
				return true
			}
		}
	}
	return false
}

func sortedKeys[V any](m map[string]V) []string {
	out := make([]string, 0, len(m))
	for k := range m {
		out = append(out, k)
	}
	sort.Strings(out)
	return out
}

func init() {
	register(&PropSpec{
		ID:         "C19",
		Level:      "proof",
		Decided:    "instances share no mutable library memory: every package-level variable of the 7 library packages is an obligation, discharged when no store, map update, append/copy destination or write-through call rooted at it is reachable outside package initialisers; types instantiated only at init time (shared singletons) have no receiver-mutating method; parser/decoder inputs are only read (R16d); no goroutine is started and no sync primitive is relied upon. Unfolder objects (cached per type in registries that user-registered unfolders share across Unfolder instances) are never written by methods that run at event time (R23 SHARED-UNFOLDER).",
		NotDecided: "result equality under contention is a consequence of the absence of shared mutable state, not separately observed; user-supplied visitors, writers, folders and targets are assumed not to be shared; writes performed through reflect.Value setters on values derived from globals are only recognised when the Value is built from a global in the same function.",
		Assumptions: []string{
			"io.Writer.Write and user visitors do not modify the byte slices handed to them (io.Writer contract, StringRefVisitor documentation)",
			"external (standard library) callees write only through the arguments listed in the deny-list of summaries.go",
			"instances are not shared between goroutines by the user",
		},
		TrustedBase: baseTrusted,
		Rules: []RuleRun{
			{"R17", R17},
			{"R23", R23},
		},
		LevelText: "Proof by exhaustive static obligation discharge: one obligation per package-level variable (and per init-only singleton type); each is discharged when no write rooted at it is reachable outside package initialisers in the SSA of the whole library. If all are discharged, two instances share no mutable library memory, hence no data race on library state and no cross-instance interference, for every schedule - which no finite set of interleavings can show.",
		Technique: "who-may-write analysis over SSA: global-rooted store/map-update/append/copy sites, interprocedural write-through parameter summaries (fixpoint), init-only singleton receiver immutability, type-based leak rule; receiver-immutability of cached unfolder objects in every method that runs at event time",
		DesignRef: "DESIGN.md section 2 R17, section 3 C19",
	})
}

// chainTypes returns the module struct types whose fields lie on the address
// chain of a written reference (x.f = v, x.m[k] = v, x.s[i] = v, append(x.s…)).
func chainTypes(v ssa.Value) []*types.Named {
	var out []*types.Named
	seen := map[ssa.Value]bool{}
	var walk func(v ssa.Value)
	walk = func(v ssa.Value) {
		if v == nil || seen[v] {
			return
		}
		seen[v] = true
		switch x := v.(type) {
		case *ssa.FieldAddr:
			if n := namedOf(x.X.Type()); n != nil && n.Obj().Pkg() != nil && strings.HasPrefix(n.Obj().Pkg().Path(), core.ModPath) {
				out = append(out, n)
			}
			walk(x.X)
		case *ssa.IndexAddr:
			walk(x.X)
		case *ssa.Slice:
			walk(x.X)
		case *ssa.UnOp:
			if x.Op.String() == "*" {
				walk(x.X)
			}
		case *ssa.ChangeType:
			walk(x.X)
		case *ssa.Convert:
			walk(x.X)
		case *ssa.Phi:
			for _, e := range x.Edges {
				walk(e)
			}
		}
	}
	walk(v)
	return out
}

// reachableNamed lists the module's named struct types reachable from t
// through pointers, struct fields, and slice/array/map elements.
func reachableNamed(t types.Type) []*types.Named {
	var out []*types.Named
	seen := map[types.Type]bool{}
	var walk func(t types.Type)
	walk = func(t types.Type) {
		if t == nil || seen[t] {
			return
		}
		seen[t] = true
		switch x := t.(type) {
		case *types.Named:
			if x.Obj().Pkg() != nil && strings.HasPrefix(x.Obj().Pkg().Path(), core.ModPath) {
				out = append(out, x)
				walk(x.Underlying())
			}
		case *types.Alias:
			walk(types.Unalias(x))
		case *types.Pointer:
			walk(x.Elem())
		case *types.Slice:
			walk(x.Elem())
		case *types.Array:
			walk(x.Elem())
		case *types.Map:
			walk(x.Key())
			walk(x.Elem())
		case *types.Struct:
			for i := 0; i < x.NumFields(); i++ {
				walk(x.Field(i).Type())
			}
		}
	}
	walk(t)
	return out
}

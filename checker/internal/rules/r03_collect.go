package rules

import (
	"fmt"
	"go/constant"
	"go/token"
	"go/types"
	"sort"
	"strings"

	"golang.org/x/tools/go/ssa"

	"sfcheck/internal/core"
)

// R3 COLLECT-GUARD / TRIM-GUARD: a chunk boundary inside a token changes
// nothing but the park buffer.
//
// (A) cborl, ubjson: after `rest, tmp := p.collect(b, n)` (or a getUintN
//     wrapper) on every path on which the token is incomplete (tmp == nil /
//     done == false) there is no parser-state effect and no visitor event
//     until the function returns; and a park field that remembers a consumed
//     prefix (ubjson's marker) is not cleared on a path that then turns out
//     incomplete. In collect itself every `return X, nil` has X == nil.
// (C) json: after whitespace trimming the grammar position (currentState /
//     states) is changed only once the rest is known to be non-empty.

// park fields: parser fields that hold a partially received token. Stores to
// them are parking, not a change of grammar position. Frozen from reading.
var parkFields = map[string]map[string]bool{
	"json":   {"literalBuffer": true, "inEscape": true, "isDouble": true, "required": true, "err": true},
	"cborl":  {"buffer": true, "err": true},
	"ubjson": {"buffer": true, "marker": true, "err": true},
}

// fieldOfReceiver returns the name of the top-level receiver field an address
// lies in ("" if not receiver rooted).
func fieldOfReceiver(f *ssa.Function, addr ssa.Value) string {
	if f.Signature.Recv() == nil {
		return ""
	}
	recv := ssa.Value(f.Params[0])
	var found string
	seen := map[ssa.Value]bool{}
	var walk func(v ssa.Value, lastField string)
	walk = func(v ssa.Value, lastField string) {
		if v == nil || seen[v] {
			return
		}
		seen[v] = true
		if v == recv {
			found = lastField
			return
		}
		switch x := v.(type) {
		case *ssa.FieldAddr:
			st := x.X.Type().Underlying().(*types.Pointer).Elem().Underlying().(*types.Struct)
			walk(x.X, core.FieldName(st, x.Field))
		case *ssa.IndexAddr:
			walk(x.X, lastField)
		case *ssa.UnOp:
			if x.Op == token.MUL {
				walk(x.X, lastField)
			}
		case *ssa.Slice:
			walk(x.X, lastField)
		case *ssa.Phi:
			for _, e := range x.Edges {
				walk(e, lastField)
			}
		}
	}
	walk(addr, "")
	return found
}

type r3state struct {
	incomplete bool     // the token was found incomplete on this path
	cleared    string   // a prefix park field was reset earlier on this path
	tmpNil     valueSet // collect results (tmp) / done flags tied to "incomplete when nil/false"
	bt, bf     valueSet
}

type r3client struct {
	p     *core.Prog
	fam   *parserFamily
	fn    *ssa.Function
	num   *valueNumbering
	tmps  map[int]bool // value ids: tmp slices of collect calls
	dones map[int]bool // value ids: done flags of wrapper calls
	bad   map[string]string
	sites int
}

func (k *r3client) Key(s r3state) string {
	return fmt.Sprintf("%v|%s|%s|%s", s.incomplete, s.cleared, s.bt.key(), s.bf.key())
}

func (k *r3client) Phis(s r3state, blk *ssa.BasicBlock, pred int) r3state {
	type upd struct {
		id     int
		bt, bf bool
	}
	var ups []upd
	for _, in := range blk.Instrs {
		phi, ok := in.(*ssa.Phi)
		if !ok {
			break
		}
		if pred < 0 || pred >= len(phi.Edges) {
			continue
		}
		e := phi.Edges[pred]
		u := upd{id: k.num.id(phi)}
		if cv, ok := constBool(e); ok {
			u.bt, u.bf = cv, !cv
		} else {
			u.bt, u.bf = s.bt.has(k.num.id(e)), s.bf.has(k.num.id(e))
		}
		ups = append(ups, u)
	}
	for _, u := range ups {
		s.bt, s.bf = s.bt.without(u.id), s.bf.without(u.id)
		if u.bt {
			s.bt = s.bt.with(u.id)
		}
		if u.bf {
			s.bf = s.bf.with(u.id)
		}
	}
	return s
}

func (k *r3client) fail(kind, msg string) {
	if k.bad == nil {
		k.bad = map[string]string{}
	}
	k.bad[kind] = msg
}

func (k *r3client) isWrapper(sc *ssa.Function) bool {
	// a method that calls collect and returns (rest, done bool, value)
	if sc == nil || sc.Blocks == nil || k.fam.collect == nil {
		return false
	}
	res := sc.Signature.Results()
	if res.Len() != 3 {
		return false
	}
	if b, ok := res.At(1).Type().Underlying().(*types.Basic); !ok || b.Kind() != types.Bool {
		return false
	}
	for _, b := range sc.Blocks {
		for _, in := range b.Instrs {
			if c, ok := in.(*ssa.Call); ok && c.Common().StaticCallee() == k.fam.collect {
				return true
			}
		}
	}
	return false
}

func (k *r3client) Instr(s r3state, in ssa.Instruction) (r3state, bool, []r3state) {
	pos := k.p.Pos(token.Pos(instrPos(in)))
	switch x := in.(type) {
	case *ssa.Store:
		fld := fieldOfReceiver(k.fn, x.Addr)
		if fld == "" {
			break
		}
		park := parkFields[k.fam.pkg][fld]
		if s.incomplete && !park {
			k.fail("STATE", fmt.Sprintf("stores to parser field %q at %s on a path on which the collected token is incomplete: the state advances although the token has not arrived; the result depends on where the chunk boundary falls", fld, pos))
		}
		if park && fld != "err" && fld != "buffer" && fld != "literalBuffer" {
			// clearing a prefix park field: store of a zero constant
			if c, ok := x.Val.(*ssa.Const); ok && c.Value != nil && c.Value.Kind() == constant.Int && constant.Sign(c.Value) == 0 {
				s.cleared = fld + " at " + pos
			}
		}
	case *ssa.Call:
		cc := x.Common()
		sc := cc.StaticCallee()
		if sc != nil && (sc == k.fam.collect || k.isWrapper(sc)) {
			k.sites++
			// a new token starts being collected: earlier verdicts concern earlier tokens
			s.incomplete = false
		} else if s.incomplete {
			if cc.IsInvoke() && cc.Method.Pkg() != nil && cc.Method.Pkg().Path() == core.ModPath {
				k.fail("EVENT", fmt.Sprintf("delivers visitor event %s at %s on a path on which the collected token is incomplete", cc.Method.Name(), pos))
			}
			if k.fam.isStateEffect(k.fn, x) {
				k.fail("STATE", fmt.Sprintf("calls state-changing %s at %s on a path on which the collected token is incomplete", core.FuncKey(sc), pos))
			}
		}
	}
	return s, true, nil
}

// incompleteWhen reports whether taking `outcome` on cond establishes that a
// collected token is incomplete.
func (k *r3client) incompleteWhen(cond ssa.Value, outcome bool) bool {
	// tmp == nil / tmp != nil
	if x, trueMeansNil, ok := nilTest(cond); ok {
		if ex, ok := x.(*ssa.Extract); ok && ex.Index == 1 {
			if call, ok := ex.Tuple.(*ssa.Call); ok && call.Common().StaticCallee() == k.fam.collect {
				return outcome == trueMeansNil
			}
		}
	}
	// done flag of a wrapper
	if ex, ok := cond.(*ssa.Extract); ok && ex.Index == 1 {
		if call, ok := ex.Tuple.(*ssa.Call); ok && k.isWrapper(call.Common().StaticCallee()) {
			return !outcome
		}
	}
	return false
}

func (k *r3client) Branch(s r3state, cond ssa.Value, outcome bool) (r3state, bool) {
	for {
		u, ok := cond.(*ssa.UnOp)
		if !ok || u.Op != token.NOT {
			break
		}
		cond, outcome = u.X, !outcome
	}
	id := k.num.id(cond)
	if s.bt.has(id) && !outcome || s.bf.has(id) && outcome {
		return s, false
	}
	if cv, ok := constBool(cond); ok && cv != outcome {
		return s, false
	}
	if k.incompleteWhen(cond, outcome) {
		s.incomplete = true
		if s.cleared != "" {
			k.fail("CLEARED", "resets park field "+s.cleared+" before the token is known to be complete: when the chunk ends inside the token the remembered prefix is lost")
		}
	}
	if b, isB := cond.Type().Underlying().(*types.Basic); isB && b.Kind() == types.Bool {
		if outcome {
			s.bt = s.bt.with(id)
		} else {
			s.bf = s.bf.with(id)
		}
	}
	return s, true
}

func (k *r3client) Return(s r3state, ret *ssa.Return) {}

// ---- (C) json trim guard ----

type r3jstate struct {
	chunk    int      // id of the latest chunk version (result of trimLeft) whose emptiness is untested; -1 none
	empty    valueSet // versions known empty
	nonempty valueSet
	stored   string // a position store happened while `chunk` was untested (where)
	bt, bf   valueSet
}

type r3jclient struct {
	p     *core.Prog
	fam   *parserFamily
	fn    *ssa.Function
	num   *valueNumbering
	bad   map[string]string
	trims int
}

func (k *r3jclient) Key(s r3jstate) string {
	return fmt.Sprintf("%d|%s|%s|%s|%s|%s", s.chunk, s.empty.key(), s.nonempty.key(), s.stored, s.bt.key(), s.bf.key())
}
func (k *r3jclient) Phis(s r3jstate, blk *ssa.BasicBlock, pred int) r3jstate {
	for _, in := range blk.Instrs {
		phi, ok := in.(*ssa.Phi)
		if !ok {
			break
		}
		if pred < 0 || pred >= len(phi.Edges) {
			continue
		}
		e := phi.Edges[pred]
		if s.chunk >= 0 && k.num.id(e) == s.chunk {
			// the untested version flows on under a new name
			s.chunk = k.num.id(phi)
		}
		if s.empty.has(k.num.id(e)) {
			s.empty = s.empty.with(k.num.id(phi))
		}
		if s.nonempty.has(k.num.id(e)) {
			s.nonempty = s.nonempty.with(k.num.id(phi))
		}
	}
	return s
}
func (k *r3jclient) fail(kind, msg string) {
	if k.bad == nil {
		k.bad = map[string]string{}
	}
	k.bad[kind] = msg
}
func (k *r3jclient) positionEffect(in ssa.Instruction) string {
	switch x := in.(type) {
	case *ssa.Store:
		fld := fieldOfReceiver(k.fn, x.Addr)
		if fld != "" && !parkFields["json"][fld] {
			// parking the machine in its failure state is not a move of the grammar position
			if nc := k.p.Const(k.fam.pkg, failStateConst[k.fam.pkg]); nc != nil {
				if fv, ok := constIntVal(nc.Value); ok {
					if c, ok := constIntVal(x.Val); ok && c == fv && types.Identical(x.Val.Type(), nc.Type()) {
						return ""
					}
				}
			}
			return "store to " + fld
		}
	case *ssa.Call:
		if k.fam.isStateEffect(k.fn, x) {
			sc := x.Common().StaticCallee()
			// pushState/popState change the position; methods that only park do not exist in json
			return "call of " + core.FuncKey(sc)
		}
	}
	return ""
}
func (k *r3jclient) Instr(s r3jstate, in ssa.Instruction) (r3jstate, bool, []r3jstate) {
	pos := k.p.Pos(token.Pos(instrPos(in)))
	if call, ok := in.(*ssa.Call); ok {
		if sc := call.Common().StaticCallee(); sc != nil && core.FuncName(sc) == "trimLeft" && core.FuncPkg(sc) == core.FuncPkg(k.fn) {
			k.trims++
			s.chunk = k.num.id(call)
			if k.fn == k.fam.feedUntil {
				// the dispatcher loop: stores of earlier iterations belong to earlier tokens
				s.stored = ""
			}
			return s, true, nil
		}
	}
	if what := k.positionEffect(in); what != "" {
		if s.chunk >= 0 && s.empty.has(s.chunk) {
			k.fail("EMPTY", fmt.Sprintf("%s at %s on a path on which the whitespace-trimmed chunk is known to be empty: the grammar position moves although no character of the next token has been seen", what, pos))
		} else if s.chunk < 0 || !s.nonempty.has(s.chunk) {
			s.stored = what + " at " + pos
		}
	}
	return s, true, nil
}
func (k *r3jclient) Branch(s r3jstate, cond ssa.Value, outcome bool) (r3jstate, bool) {
	for {
		u, ok := cond.(*ssa.UnOp)
		if !ok || u.Op != token.NOT {
			break
		}
		cond, outcome = u.X, !outcome
	}
	id := k.num.id(cond)
	if s.bt.has(id) && !outcome || s.bf.has(id) && outcome {
		return s, false
	}
	if bo, ok := cond.(*ssa.BinOp); ok {
		for _, pr := range [][2]ssa.Value{{bo.X, bo.Y}, {bo.Y, bo.X}} {
			call, ok := pr[0].(*ssa.Call)
			if !ok {
				continue
			}
			bi, ok := call.Common().Value.(*ssa.Builtin)
			if !ok || bi.Name() != "len" || !isIntConst(pr[1], 0) {
				continue
			}
			arg := k.num.id(call.Common().Args[0])
			lenIsX := pr[0] == bo.X
			var emptyOnTrue, known bool
			switch bo.Op {
			case token.EQL:
				emptyOnTrue, known = true, true
			case token.NEQ:
				emptyOnTrue, known = false, true
			case token.GTR:
				if lenIsX {
					emptyOnTrue, known = false, true
				}
			case token.LEQ:
				if lenIsX {
					emptyOnTrue, known = true, true
				}
			case token.LSS:
				if !lenIsX {
					emptyOnTrue, known = false, true
				}
			case token.GEQ:
				if !lenIsX {
					emptyOnTrue, known = true, true
				}
			}
			if !known {
				continue
			}
			if outcome == emptyOnTrue {
				s.empty = s.empty.with(arg)
				if arg == s.chunk && s.stored != "" {
					k.fail("BEFORE-TEST", s.stored+" happens after whitespace trimming but before the rest is tested for emptiness; on the empty outcome the grammar position has moved although no character of the next token has been seen")
				}
			} else {
				s.nonempty = s.nonempty.with(arg)
			}
		}
	}
	if b, isB := cond.Type().Underlying().(*types.Basic); isB && b.Kind() == types.Bool {
		if outcome {
			s.bt = s.bt.with(id)
		} else {
			s.bf = s.bf.with(id)
		}
	}
	return s, true
}
func (k *r3jclient) Return(s r3jstate, ret *ssa.Return) {}

// R3 runs the rule.
func R3(pkgs ...string) func(p *core.Prog) *core.Result {
	return func(p *core.Prog) *core.Result {
		r := core.NewResult("R3", "a token that is incomplete at the end of a chunk changes nothing but the park buffer ("+strings.Join(pkgs, ",")+"): no state effect or event after an incomplete collect, no park-prefix reset before completeness is known, collect hands back nil when incomplete; json moves its grammar position after whitespace only when a character is there")
		collectSites, trimSites := 0, 0
		for _, pk := range pkgs {
			fam, err := buildFamily(p, pk)
			if err != nil {
				r.Undecided("", pk, err.Error())
				continue
			}
			var fns []*ssa.Function
			for f := range fam.steps {
				fns = append(fns, f)
			}
			fns = append(fns, fam.feedUntil)
			sort.Slice(fns, func(i, j int) bool { return fns[i].Pos() < fns[j].Pos() })
			if pk == "json" {
				for _, f := range fns {
					k := &r3jclient{p: p, fam: fam, fn: f, num: newNumbering()}
					_, capped := WalkPaths[r3jstate](k, f.Blocks[0], 0, r3jstate{chunk: -1}, 300000, nil)
					trimSites += k.trims
					fkey := core.FuncKey(f)
					if capped {
						r.Undecided(".TRIM-GUARD", fkey, "state cap hit")
						continue
					}
					if k.trims == 0 {
						continue
					}
					if len(k.bad) == 0 {
						r.Ok(".TRIM-GUARD", p.Pos(f.Pos()), fkey+": after trimLeft the grammar position changes only behind a non-empty test")
					}
					for _, kind := range sortedKeys(k.bad) {
						r.Fail(".TRIM-GUARD", fkey+"|"+kind, p.Pos(f.Pos()), fkey+": "+k.bad[kind], "")
					}
				}
				continue
			}
			if fam.collect == nil {
				r.Undecided(".COLLECT-GUARD", pk, "no (*Parser).collect in "+pk)
				continue
			}
			// collect itself: every `return X, nil` has X == nil
			okc := true
			for _, b := range fam.collect.Blocks {
				for _, in := range b.Instrs {
					if ret, ok := in.(*ssa.Return); ok && len(ret.Results) == 2 && isNilConst(ret.Results[1]) && !isNilConst(ret.Results[0]) {
						okc = false
						r.Fail(".COLLECT-NIL", core.FuncKey(fam.collect), p.Pos(token.Pos(instrPos(ret))), core.FuncKey(fam.collect)+" returns a non-nil rest together with a nil token: an incomplete token must swallow the whole chunk into the park buffer", "")
					}
				}
			}
			if okc {
				r.Ok(".COLLECT-NIL", p.Pos(fam.collect.Pos()), core.FuncKey(fam.collect)+": incomplete => rest is nil")
			}
			if pk == "ubjson" {
				parkedHead(p, r, fam, fns)
			}
			for _, f := range fns {
				k := &r3client{p: p, fam: fam, fn: f, num: newNumbering()}
				_, capped := WalkPaths[r3state](k, f.Blocks[0], 0, r3state{}, 300000, nil)
				fkey := core.FuncKey(f)
				if capped {
					r.Undecided(".COLLECT-GUARD", fkey, "state cap hit")
					continue
				}
				// count static sites
				n := 0
				for _, b := range f.Blocks {
					for _, in := range b.Instrs {
						if c, ok := in.(*ssa.Call); ok {
							if sc := c.Common().StaticCallee(); sc != nil && (sc == fam.collect || k.isWrapper(sc)) {
								n++
							}
						}
					}
				}
				if n == 0 {
					continue
				}
				collectSites += n
				if len(k.bad) == 0 {
					for i := 0; i < n; i++ {
						r.Ok(".COLLECT-GUARD", p.Pos(f.Pos()), fkey+": incomplete token => no state effect, no event")
					}
					continue
				}
				for _, kind := range sortedKeys(k.bad) {
					r.Fail(".COLLECT-GUARD", fkey+"|"+kind, p.Pos(f.Pos()), fkey+": "+k.bad[kind], "")
				}
			}
		}
		r.Stats["collect_sites"] = collectSites
		r.Stats["trim_sites"] = trimSites
		for _, pk := range pkgs {
			if pk == "json" {
				r.Floor("trim_sites", trimSites, 6)
			}
		}
		if len(pkgs) > 1 || (len(pkgs) == 1 && pkgs[0] != "json") {
			r.Floor("collect_sites", collectSites, 10)
		}
		return r
	}
}

// ---- PARKED-HEAD (ubjson) ----
// stepLen parks the length marker and leaves the state unchanged when the
// length bytes have not arrived. A step that, in the same state, first looks
// at the chunk head as a MARKER and then calls stepLen is re-entered with the
// length bytes at the head of the next chunk: the head read must be behind
// `p.marker == noMarker`.
type phState struct {
	head   bool // the chunk head was interpreted without knowing that no marker is parked
	noMark bool
}
type phClient struct {
	p     *core.Prog
	fn    *ssa.Function
	chunk ssa.Value
	bad   string
	calls int
}

func (k *phClient) Key(s phState) string                             { return fmt.Sprint(s.head, s.noMark) }
func (k *phClient) Phis(s phState, _ *ssa.BasicBlock, _ int) phState { return s }
func (k *phClient) Return(phState, *ssa.Return)                      {}
func (k *phClient) Instr(s phState, in ssa.Instruction) (phState, bool, []phState) {
	switch x := in.(type) {
	case *ssa.IndexAddr:
		if x.X == k.chunk && !s.noMark {
			if c, ok := constIntVal(x.Index); ok && c == 0 {
				s.head = true
			}
		}
	case *ssa.Call:
		if sc := x.Common().StaticCallee(); sc != nil && core.FuncName(sc) == "stepLen" {
			k.calls++
			if s.head {
				k.bad = "looks at the first byte of the chunk as a marker and then, in the same state, calls stepLen at " + k.p.Pos(x.Pos()) + ": when the length bytes arrive in a later chunk the step is re-entered with a LENGTH byte at the head and interprets it as a marker (a key length of 125 = '}' split after its length marker ends the object)"
			}
		}
	}
	return s, true, nil
}
func (k *phClient) Branch(s phState, cond ssa.Value, outcome bool) (phState, bool) {
	if bo, ok := cond.(*ssa.BinOp); ok && (bo.Op == token.EQL || bo.Op == token.NEQ) {
		for _, pr := range [][2]ssa.Value{{bo.X, bo.Y}, {bo.Y, bo.X}} {
			ld, ok := pr[0].(*ssa.UnOp)
			if !ok || ld.Op != token.MUL {
				continue
			}
			if fieldOfReceiver(k.fn, ld.X) != "marker" || !isIntConst(pr[1], 0) {
				continue
			}
			if (bo.Op == token.EQL) == outcome {
				s.noMark = true
			}
		}
	}
	return s, true
}

func parkedHead(p *core.Prog, r *core.Result, fam *parserFamily, fns []*ssa.Function) {
	n := 0
	for _, f := range fns {
		sf, ok := fam.steps[f]
		if !ok || core.FuncName(f) == "stepLen" {
			continue
		}
		k := &phClient{p: p, fn: f, chunk: sf.chunk}
		WalkPaths[phState](k, f.Blocks[0], 0, phState{}, 100000, nil)
		if k.calls == 0 {
			continue
		}
		n++
		if k.bad == "" {
			r.Ok(".PARKED-HEAD", p.Pos(f.Pos()), core.FuncKey(f)+": no marker interpretation of the chunk head precedes stepLen in the same state")
		} else {
			r.Fail(".PARKED-HEAD", core.FuncKey(f), p.Pos(f.Pos()), core.FuncKey(f)+" "+k.bad, "")
		}
	}
	r.Floor("steplen_callers", n, 5)
}

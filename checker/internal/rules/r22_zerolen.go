package rules

import (
	"fmt"
	"go/token"

	"golang.org/x/tools/go/ssa"

	"sfcheck/internal/core"
)

// R22 ZERO-LENGTH-REFUSED (cborl). RFC 7049 allows length 0 for every item
// that carries a length (text and byte strings - also as map keys -, arrays,
// maps), and the library's own encoder writes such items (OnKey("") gives
// a1 60 ..). No arm of the parser may therefore answer "the announced length
// is 0" with an error: a branch on `remaining length == 0` whose taken side
// does nothing but pick a constant error and leave.
func zeroLengthRefused(p *core.Prog, r *core.Result) {
	tests := 0
	for _, f := range p.ModFuncs() {
		pk := core.FuncPkg(f)
		if pk == nil || pk.Name() != "cborl" || f.Signature.Recv() == nil || namedOf(f.Signature.Recv().Type()) == nil || core.TypeName(namedOf(f.Signature.Recv().Type())) != "Parser" {
			continue
		}
		ord := 0
		for _, b := range f.Blocks {
			iff, ok := b.Instrs[len(b.Instrs)-1].(*ssa.If)
			if !ok {
				continue
			}
			bo, ok := iff.Cond.(*ssa.BinOp)
			if !ok || (bo.Op != token.EQL && bo.Op != token.NEQ) || !isIntConst(bo.Y, 0) {
				continue
			}
			ld, ok := bo.X.(*ssa.UnOp)
			if !ok || ld.Op != token.MUL {
				continue
			}
			fa, ok := ld.X.(*ssa.FieldAddr)
			if !ok {
				continue
			}
			n := namedOf(fa.X.Type())
			if n == nil || core.TypeName(n) != "lengthStack" {
				continue
			}
			tests++
			zero := b.Succs[0]
			if bo.Op == token.NEQ {
				zero = b.Succs[1]
			}
			// the zero side: no call at all, loads a package-level error, leaves
			refuses, calls := false, false
			for _, in := range zero.Instrs {
				if _, ok := in.(ssa.CallInstruction); ok {
					calls = true
				}
			}
			for _, in := range zero.Instrs {
				if u, ok := in.(*ssa.UnOp); ok && u.Op == token.MUL {
					if _, isG := u.X.(*ssa.Global); isG && isErrorType(u.Type()) {
						refuses = true
					}
				}
			}
			if refuses && !calls {
				ord++
				r.Fail(".ZERO-LENGTH-REFUSED", fmt.Sprintf("%s|refusal#%d", core.FuncKey(f), ord), p.Pos(iff.Cond.Pos()), fmt.Sprintf("%s answers an announced length of 0 with a constant error (%s): a zero-length item is well-formed CBOR and the library's own encoder writes it (an empty object key is a1 60 ..), so the parser refuses the encoder's output", core.FuncKey(f), p.Pos(zero.Instrs[0].Pos())), "")
			} else {
				r.Ok(".ZERO-LENGTH-REFUSED", p.Pos(iff.Cond.Pos()), core.FuncKey(f)+": the zero-length side of this test delivers the item")
			}
		}
	}
	r.Floor("zero_length_tests", tests, 3)
}

package rules

import (
	"fmt"
	"sort"
	"strings"

	"golang.org/x/tools/go/ssa"

	"sfcheck/internal/core"
)

// R25 COUPLING (C08): the Visitor interface is the only coupling between a
// parser and an encoder. The compiler guarantees that every encoder HAS every
// method; it does not guarantee that the method does anything but refuse.
// ALPHABET: every event a parser can emit (the invoke sites on the visitor in
// the parser's own code, including the by-reference string events behind
// MakeStringRefVisitor) is implemented by every encoder by a method that has a
// path that can succeed; an event that one of the nine pairs refuses
// unconditionally makes every source document containing it untranscodable.

func R25(p *core.Prog) *core.Result {
	r := core.NewResult("R25", "parser/encoder coupling: every visitor event a parser's code can emit is implemented by every encoder with at least one path that can succeed (all nine source/target pairs)")
	codecs := []string{"json", "cborl", "ubjson"}
	emitted := map[string]map[string]string{} // parser pkg -> event -> first site
	for _, pk := range codecs {
		emitted[pk] = map[string]string{}
		for _, f := range p.ModFuncs() {
			fp := core.FuncPkg(f)
			if fp == nil || fp.Name() != pk || f.Signature.Recv() == nil {
				continue
			}
			rn := namedOf(f.Signature.Recv().Type())
			if rn == nil || (core.TypeName(rn) != "Parser" && core.TypeName(rn) != "Decoder") {
				continue
			}
			for _, b := range f.Blocks {
				for _, in := range b.Instrs {
					c, ok := in.(*ssa.Call)
					if !ok || !c.Common().IsInvoke() {
						continue
					}
					m := c.Common().Method
					if m.Pkg() == nil || m.Pkg().Path() != core.ModPath || !strings.HasPrefix(m.Name(), "On") {
						continue
					}
					if _, seen := emitted[pk][m.Name()]; !seen {
						emitted[pk][m.Name()] = p.Pos(c.Pos())
					}
				}
			}
		}
		if len(emitted[pk]) < 8 {
			r.Undecided(".ALPHABET", pk+"|emitted", fmt.Sprintf("only %d distinct visitor events found in the %s parser: anchors lost", len(emitted[pk]), pk))
		}
	}
	// by-reference events are bridged for consumers that do not implement them
	bridge := map[string]string{"OnStringRef": "OnString", "OnKeyRef": "OnKey"}
	haveBridge := p.LookupFunc("structform", "MakeStringRefVisitor") != nil
	pairs := 0
	for _, src := range codecs {
		evs := sortedKeys(emitted[src])
		for _, dst := range codecs {
			pairs++
			var bad []string
			for _, ev := range evs {
				f := p.LookupFunc(dst, "(*Visitor)."+ev)
				if f == nil {
					if alt, ok := bridge[ev]; ok && haveBridge {
						f = p.LookupFunc(dst, "(*Visitor)."+alt)
					}
				}
				if f == nil {
					bad = append(bad, ev+" (emitted at "+emitted[src][ev]+") has no implementation")
					continue
				}
				if alwaysErrors(f, map[*ssa.Function]bool{}) {
					bad = append(bad, ev+" (emitted at "+emitted[src][ev]+") is refused unconditionally by "+core.FuncKey(f))
				}
			}
			sort.Strings(bad)
			key := src + "->" + dst
			if len(bad) == 0 {
				r.Ok(".ALPHABET", "-", fmt.Sprintf("%s: all %d events the %s parser emits have an implementation in the %s encoder that can succeed", key, len(evs), src, dst))
			} else {
				r.Fail(".ALPHABET", key+"|"+strings.SplitN(bad[0], " ", 2)[0], "-", fmt.Sprintf("transcoding %s: %s - every %s document containing such a value cannot be transcoded", key, strings.Join(bad, "; "), src), "")
			}
		}
	}
	r.Floor("source_target_pairs", pairs, 9)
	return r
}

package rules

import (
	"fmt"
	"go/constant"
	"go/token"
	"go/types"
	"math/big"
	"sort"
	"strings"

	"golang.org/x/tools/go/ssa"
)

// ---------------------------------------------------------------------
// A small interval domain over big integers for the integer-typed SSA values
// of one function, explored path-sensitively (see pathwalk.go). Values whose
// interval is the full range of their type are not stored.
// ---------------------------------------------------------------------

type ival struct{ lo, hi *big.Int }

func (a ival) String() string { return "[" + a.lo.String() + "," + a.hi.String() + "]" }

func (a ival) within(b ival) bool { return a.lo.Cmp(b.lo) >= 0 && a.hi.Cmp(b.hi) <= 0 }

func hull(a, b ival) ival {
	lo, hi := a.lo, a.hi
	if b.lo.Cmp(lo) < 0 {
		lo = b.lo
	}
	if b.hi.Cmp(hi) > 0 {
		hi = b.hi
	}
	return ival{lo, hi}
}

var (
	bigZero = big.NewInt(0)
	bigOne  = big.NewInt(1)
)

func bi(x int64) *big.Int { return big.NewInt(x) }

// intTypeInfo returns bit width and signedness of an integer type.
func intTypeInfo(t types.Type, sizes types.Sizes) (bits int, signed bool, ok bool) {
	b, isB := t.Underlying().(*types.Basic)
	if !isB || b.Info()&types.IsInteger == 0 {
		return 0, false, false
	}
	return int(sizes.Sizeof(b)) * 8, b.Info()&types.IsUnsigned == 0, true
}

func rangeOf(bits int, signed bool) ival {
	if signed {
		hi := new(big.Int).Lsh(bigOne, uint(bits-1))
		lo := new(big.Int).Neg(hi)
		return ival{lo, new(big.Int).Sub(hi, bigOne)}
	}
	hi := new(big.Int).Lsh(bigOne, uint(bits))
	return ival{big.NewInt(0), new(big.Int).Sub(hi, bigOne)}
}

func typeRange(t types.Type, sizes types.Sizes) (ival, bool) {
	bits, signed, ok := intTypeInfo(t, sizes)
	if !ok {
		return ival{}, false
	}
	return rangeOf(bits, signed), true
}

// wrapInto maps interval a into the range of a W-bit type when the whole
// interval lies in one wrap window (a uniform shift by k*2^W); ok=false when
// it spans more than one window.
func wrapInto(a ival, bits int, signed bool) (ival, bool) {
	r := rangeOf(bits, signed)
	if a.within(r) {
		return a, true
	}
	mod := new(big.Int).Lsh(bigOne, uint(bits))
	// window index of lo and hi
	win := func(x *big.Int) *big.Int {
		off := new(big.Int).Sub(x, r.lo)
		q := new(big.Int)
		m := new(big.Int)
		q.DivMod(off, mod, m) // floor division (Euclidean, mod > 0)
		return q
	}
	wl, wh := win(a.lo), win(a.hi)
	if wl.Cmp(wh) != 0 {
		return r, false
	}
	shift := new(big.Int).Mul(wl, mod)
	return ival{new(big.Int).Sub(a.lo, shift), new(big.Int).Sub(a.hi, shift)}, true
}

// istate: interval environment (copy on write) + known booleans.
type istate struct {
	iv     map[int]ival
	bt, bf valueSet
	eq     map[int]ssa.Value // boolean phi id -> the value it equals on this path
}

func (s istate) key() string {
	ids := make([]int, 0, len(s.iv))
	for id := range s.iv {
		ids = append(ids, id)
	}
	sort.Ints(ids)
	var sb strings.Builder
	for _, id := range ids {
		fmt.Fprintf(&sb, "%d:%s,%s;", id, s.iv[id].lo.String(), s.iv[id].hi.String())
	}
	eids := make([]int, 0, len(s.eq))
	for id := range s.eq {
		eids = append(eids, id)
	}
	sort.Ints(eids)
	for _, id := range eids {
		fmt.Fprintf(&sb, "e%d=%p;", id, s.eq[id])
	}
	return sb.String() + "|" + s.bt.key() + "|" + s.bf.key()
}

func (s istate) set(id int, v ival, full ival) istate {
	n := make(map[int]ival, len(s.iv)+1)
	for k, x := range s.iv {
		n[k] = x
	}
	if v.lo.Cmp(full.lo) <= 0 && v.hi.Cmp(full.hi) >= 0 {
		delete(n, id)
	} else {
		n[id] = v
	}
	s.iv = n
	return s
}

type ienv struct {
	num   *valueNumbering
	sizes types.Sizes
	// loadBound gives an invariant interval for a load from memory (field
	// invariants established by a pre-pass), if any.
	loadBound func(ld *ssa.UnOp) (ival, bool)
}

func constIval(v ssa.Value) (ival, bool) {
	c, ok := v.(*ssa.Const)
	if !ok || c.Value == nil || c.Value.Kind() != constant.Int {
		return ival{}, false
	}
	x, ok := new(big.Int).SetString(c.Value.ExactString(), 10)
	if !ok {
		return ival{}, false
	}
	return ival{x, x}, true
}

// get returns the interval of an integer value in state s.
func (e *ienv) get(s istate, v ssa.Value) (ival, bool) {
	if c, ok := constIval(v); ok {
		return c, true
	}
	full, ok := typeRange(v.Type(), e.sizes)
	if !ok {
		return ival{}, false
	}
	if x, ok := s.iv[e.num.id(v)]; ok {
		return x, true
	}
	// structural facts that need no state
	if ex, ok := v.(*ssa.Extract); ok && ex.Index == 0 {
		if c, ok := ex.Tuple.(*ssa.Call); ok {
			if iv, ok := parseUintBound(c); ok {
				return iv, true
			}
		}
	}
	switch x := v.(type) {
	case *ssa.UnOp:
		if x.Op == token.MUL && e.loadBound != nil {
			if iv, ok := e.loadBound(x); ok {
				return iv, true
			}
		}
	case *ssa.Call:
		if b, ok := x.Common().Value.(*ssa.Builtin); ok && (b.Name() == "len" || b.Name() == "cap") {
			hi := full.hi
			if at, ok := x.Common().Args[0].Type().Underlying().(*types.Array); ok {
				n := bi(at.Len())
				return ival{n, n}, true
			}
			if pt, ok := x.Common().Args[0].Type().Underlying().(*types.Pointer); ok {
				if at, ok := pt.Elem().Underlying().(*types.Array); ok {
					n := bi(at.Len())
					return ival{n, n}, true
				}
			}
			return ival{big.NewInt(0), hi}, true
		}
	}
	return full, true
}

func clampTo(a, r ival) (ival, bool) {
	if a.within(r) {
		return a, true
	}
	return r, false
}

// evalBinOp computes the interval of x OP y for integer operands; exact=false
// means the mathematical result may leave the type's range (wraps).
func (e *ienv) evalBinOp(s istate, b *ssa.BinOp) (ival, bool) {
	full, ok := typeRange(b.Type(), e.sizes)
	if !ok {
		return ival{}, false
	}
	x, okx := e.get(s, b.X)
	y, oky := e.get(s, b.Y)
	if !okx || !oky {
		return full, true
	}
	_, signed, _ := intTypeInfo(b.Type(), e.sizes)
	nonneg := func(a ival) bool { return a.lo.Sign() >= 0 }
	var r ival
	switch b.Op {
	case token.ADD:
		r = ival{new(big.Int).Add(x.lo, y.lo), new(big.Int).Add(x.hi, y.hi)}
	case token.SUB:
		// remainder extraction x - (x/K)*K
		if k, ok := remainderPattern(b); ok {
			xx, _ := e.get(s, b.X)
			if nonneg(xx) {
				return ival{big.NewInt(0), new(big.Int).Sub(k, bigOne)}, true
			}
		}
		r = ival{new(big.Int).Sub(x.lo, y.hi), new(big.Int).Sub(x.hi, y.lo)}
	case token.MUL:
		c := []*big.Int{new(big.Int).Mul(x.lo, y.lo), new(big.Int).Mul(x.lo, y.hi), new(big.Int).Mul(x.hi, y.lo), new(big.Int).Mul(x.hi, y.hi)}
		lo, hi := c[0], c[0]
		for _, v := range c[1:] {
			if v.Cmp(lo) < 0 {
				lo = v
			}
			if v.Cmp(hi) > 0 {
				hi = v
			}
		}
		r = ival{lo, hi}
	case token.QUO:
		if y.lo.Sign() > 0 && nonneg(x) {
			r = ival{new(big.Int).Quo(x.lo, y.hi), new(big.Int).Quo(x.hi, y.lo)}
		} else {
			return full, true
		}
	case token.REM:
		if y.lo.Sign() > 0 && nonneg(x) {
			r = ival{big.NewInt(0), new(big.Int).Sub(y.hi, bigOne)}
			if x.hi.Cmp(r.hi) < 0 {
				r.hi = x.hi
			}
		} else {
			return full, true
		}
	case token.AND:
		if nonneg(x) && nonneg(y) {
			hi := x.hi
			if y.hi.Cmp(hi) < 0 {
				hi = y.hi
			}
			r = ival{big.NewInt(0), hi}
		} else if nonneg(y) && !signed {
			r = ival{big.NewInt(0), y.hi}
		} else {
			return full, true
		}
	case token.OR, token.XOR:
		if nonneg(x) && nonneg(y) {
			m := x.hi
			if y.hi.Cmp(m) > 0 {
				m = y.hi
			}
			hi := new(big.Int).Sub(new(big.Int).Lsh(bigOne, uint(m.BitLen())), bigOne)
			lo := big.NewInt(0)
			if b.Op == token.OR {
				lo = x.lo
				if y.lo.Cmp(lo) > 0 {
					lo = y.lo
				}
			}
			r = ival{lo, hi}
		} else {
			return full, true
		}
	case token.SHL:
		if nonneg(x) && nonneg(y) && y.hi.IsInt64() && y.hi.Int64() < 128 {
			r = ival{new(big.Int).Lsh(x.lo, uint(y.lo.Int64())), new(big.Int).Lsh(x.hi, uint(y.hi.Int64()))}
		} else {
			return full, true
		}
	case token.SHR:
		if nonneg(x) && nonneg(y) && y.hi.IsInt64() && y.hi.Int64() < 128 {
			r = ival{new(big.Int).Rsh(x.lo, uint(y.hi.Int64())), new(big.Int).Rsh(x.hi, uint(y.lo.Int64()))}
		} else {
			return full, true
		}
	default:
		return full, true
	}
	if r.within(full) {
		return r, true
	}
	// wraps around: uniform shift if one window
	bits, sg, _ := intTypeInfo(b.Type(), e.sizes)
	w, one := wrapInto(r, bits, sg)
	return w, one
}

// remainderPattern: b is X - (X/K)*K with constant K > 0.
func remainderPattern(b *ssa.BinOp) (*big.Int, bool) {
	mul, ok := b.Y.(*ssa.BinOp)
	if !ok || mul.Op != token.MUL {
		return nil, false
	}
	for _, pr := range [][2]ssa.Value{{mul.X, mul.Y}, {mul.Y, mul.X}} {
		q, ok := pr[0].(*ssa.BinOp)
		if !ok || q.Op != token.QUO || q.X != b.X {
			continue
		}
		k1, ok1 := constIval(q.Y)
		k2, ok2 := constIval(pr[1])
		if ok1 && ok2 && k1.lo.Cmp(k2.lo) == 0 && k1.lo.Sign() > 0 {
			return k1.lo, true
		}
	}
	return nil, false
}

func (e *ienv) evalUnOp(s istate, u *ssa.UnOp) (ival, bool) {
	full, ok := typeRange(u.Type(), e.sizes)
	if !ok {
		return ival{}, false
	}
	x, okx := e.get(s, u.X)
	if !okx {
		return full, true
	}
	bits, signed, _ := intTypeInfo(u.Type(), e.sizes)
	switch u.Op {
	case token.XOR: // ^x
		if signed {
			m1 := big.NewInt(-1)
			return ival{new(big.Int).Sub(m1, x.hi), new(big.Int).Sub(m1, x.lo)}, true
		}
		max := rangeOf(bits, false).hi
		return ival{new(big.Int).Sub(max, x.hi), new(big.Int).Sub(max, x.lo)}, true
	case token.SUB: // -x
		r := ival{new(big.Int).Neg(x.hi), new(big.Int).Neg(x.lo)}
		if r.within(full) {
			return r, true
		}
		w, _ := wrapInto(r, bits, signed)
		return w, true
	}
	return full, true
}

// refine narrows the interval of v for the outcome of `v OP c`.
func refineCmp(a ival, op token.Token, c ival, outcome bool) (ival, bool) {
	if !outcome {
		switch op {
		case token.LSS:
			op = token.GEQ
		case token.LEQ:
			op = token.GTR
		case token.GTR:
			op = token.LEQ
		case token.GEQ:
			op = token.LSS
		case token.EQL:
			op = token.NEQ
		case token.NEQ:
			op = token.EQL
		}
	}
	lo, hi := a.lo, a.hi
	switch op {
	case token.LSS: // v < c  => v <= c.hi-1
		h := new(big.Int).Sub(c.hi, bigOne)
		if h.Cmp(hi) < 0 {
			hi = h
		}
	case token.LEQ:
		if c.hi.Cmp(hi) < 0 {
			hi = c.hi
		}
	case token.GTR:
		l := new(big.Int).Add(c.lo, bigOne)
		if l.Cmp(lo) > 0 {
			lo = l
		}
	case token.GEQ:
		if c.lo.Cmp(lo) > 0 {
			lo = c.lo
		}
	case token.EQL:
		if c.lo.Cmp(lo) > 0 {
			lo = c.lo
		}
		if c.hi.Cmp(hi) < 0 {
			hi = c.hi
		}
	case token.NEQ:
		if c.lo.Cmp(c.hi) == 0 {
			if c.lo.Cmp(lo) == 0 {
				lo = new(big.Int).Add(lo, bigOne)
			} else if c.lo.Cmp(hi) == 0 {
				hi = new(big.Int).Sub(hi, bigOne)
			}
		}
	}
	if lo.Cmp(hi) > 0 {
		return a, false // infeasible
	}
	return ival{lo, hi}, true
}

func flipCmp(op token.Token) token.Token {
	switch op {
	case token.LSS:
		return token.GTR
	case token.LEQ:
		return token.GEQ
	case token.GTR:
		return token.LSS
	case token.GEQ:
		return token.LEQ
	}
	return op
}

// isBackEdge: pred -> blk is a loop back edge.
func isBackEdge(blk *ssa.BasicBlock, pred int) bool {
	if pred < 0 || pred >= len(blk.Preds) {
		return false
	}
	return blk.Dominates(blk.Preds[pred])
}

// parseUintBound: strconv.ParseUint(string(b[i:i+n]), base, _) with constant
// n and base yields a value below base^n.
func parseUintBound(c *ssa.Call) (ival, bool) {
	sc := c.Common().StaticCallee()
	if sc == nil || funcPkgPath(sc) != "strconv" || sc.Name() != "ParseUint" || len(c.Common().Args) != 3 {
		return ival{}, false
	}
	base, ok := constIval(c.Common().Args[1])
	if !ok || base.lo.Sign() <= 0 {
		return ival{}, false
	}
	cv, ok := c.Common().Args[0].(*ssa.Convert)
	if !ok {
		return ival{}, false
	}
	sl, ok := cv.X.(*ssa.Slice)
	if !ok || sl.Low == nil || sl.High == nil {
		return ival{}, false
	}
	n := int64(-1)
	if hb, ok := sl.High.(*ssa.BinOp); ok && hb.Op == token.ADD {
		if lb, ok := sl.Low.(*ssa.BinOp); ok && lb.Op == token.ADD && lb.X == hb.X {
			// [i+a : i+b]
			a, oka := constIval(lb.Y)
			b, okb := constIval(hb.Y)
			if oka && okb {
				n = new(big.Int).Sub(b.lo, a.lo).Int64()
			}
		} else if hb.X == sl.Low {
			if k, ok := constIval(hb.Y); ok {
				n = k.lo.Int64()
			}
		}
	}
	if n <= 0 || n > 16 {
		return ival{}, false
	}
	hi := new(big.Int).Exp(base.lo, big.NewInt(n), nil)
	return ival{big.NewInt(0), hi.Sub(hi, bigOne)}, true
}

// mayWrap: the mathematical result of an unsigned ADD/MUL can exceed the
// type's range for operands in their current intervals.
func (e *ienv) mayWrap(s istate, b *ssa.BinOp) bool {
	full, ok := typeRange(b.Type(), e.sizes)
	if !ok {
		return false
	}
	x, okx := e.get(s, b.X)
	y, oky := e.get(s, b.Y)
	if !okx || !oky {
		return false
	}
	var hi *big.Int
	switch b.Op {
	case token.ADD:
		hi = new(big.Int).Add(x.hi, y.hi)
	case token.MUL:
		hi = new(big.Int).Mul(x.hi, y.hi)
	default:
		return false
	}
	return hi.Cmp(full.hi) > 0
}

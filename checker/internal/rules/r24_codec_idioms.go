package rules

import (
	"fmt"
	"go/token"
	"go/types"
	"sort"
	"strings"

	"golang.org/x/tools/go/ssa"

	"sfcheck/internal/core"
)

// R24 CODEC-IDIOMS (second batch of structural invariants of the hand-written
// codecs; each is a necessary condition of a property clause, confirmed on
// today's tree):
//
// (a) RESLICE-EXTEND: a slice grows through append only. Re-slicing a slice
//     beyond its own length (x[:len(x)+k]) is legal up to cap(x) and a panic
//     beyond; without a dominating capacity test it bounds the nesting depth /
//     token size by whatever capacity the slice happens to have.
// (b) FRAME-STALE: the top entry of a parser stack (X.current) is not updated
//     after a call that may PUSH onto the same stack in the same invocation:
//     after a nested container was started, X.current is the child's entry,
//     not the entry the update was meant for.
// (c) EFFECT-BEFORE-COLLECT: a step function is re-run from its dispatch
//     point when a token turns out to be incomplete. No irreversible effect
//     (stack push/pop, update of a stack top, visitor event) may therefore
//     precede a possibly-incomplete collect() in the same invocation, unless
//     the step marker is advanced in between (so the re-run resumes behind the
//     effect).

func inPkgs(f *ssa.Function, in map[string]bool) bool {
	pk := core.FuncPkg(f)
	return pk != nil && in[pk.Name()]
}

func R24(pkgs ...string) func(p *core.Prog) *core.Result {
	in := map[string]bool{}
	for _, k := range pkgs {
		in[k] = true
	}
	var parts []string
	if in["parsers"] {
		parts = append(parts, "parsers: slices grow by append only; a stack top is not updated after a call that may push the same stack; no irreversible effect precedes a possibly-incomplete collect; a suspension after a state change continues exactly where the re-entry starts")
	}
	if in["enc"] {
		parts = append(parts, "encoders: exactly one element separator per scalar value (json); text and byte payloads reach the writer whole (cborl, ubjson)")
	}
	if in["sticky"] {
		parts = append(parts, "push mode: a failed Write parks the state machine in its failure state")
	}
	return func(p *core.Prog) *core.Result {
		r := core.NewResult("R24", "structural invariants of the codecs ("+strings.Join(pkgs, ",")+") - "+strings.Join(parts, "; "))
		if in["parsers"] {
			resliceExtend(p, r, in)
			frameStale(p, r, in)
			effectBeforeCollect(p, r, in)
			resumeMatch(p, r, in)
			indexTranslation(p, r, in)
		}
		if in["enc"] {
			if in["json"] {
				separatorOnce(p, r)
			}
			payloadWhole(p, r, in)
			refValueParity(p, r, in)
		}
		if in["sticky"] {
			stickyFail(p, r, in)
		}
		return r
	}
}

// ---- (a) ----

// lenOfSame: v is len(y) (possibly + const) for a y that denotes the same
// slice as x; returns the constant added.
func lenPlusConst(v ssa.Value, x ssa.Value) (int64, bool) {
	k := int64(0)
	for {
		switch e := v.(type) {
		case *ssa.BinOp:
			if e.Op == token.ADD {
				if c, ok := constIntVal(e.Y); ok {
					k += c
					v = e.X
					continue
				}
				if c, ok := constIntVal(e.X); ok {
					k += c
					v = e.Y
					continue
				}
			}
			return 0, false
		case *ssa.Call:
			if b, ok := e.Common().Value.(*ssa.Builtin); ok && b.Name() == "len" {
				y := e.Common().Args[0]
				if y == x {
					return k, true
				}
				ky, kx := addrKey(y), addrKey(x)
				if ky != "" && ky == kx {
					return k, true
				}
			}
			return 0, false
		default:
			return 0, false
		}
	}
}

func resliceExtend(p *core.Prog, r *core.Result, in map[string]bool) {
	n := 0
	for _, f := range p.ModFuncs() {
		if !inPkgs(f, in) {
			continue
		}
		for _, b := range f.Blocks {
			for _, ins := range b.Instrs {
				sl, ok := ins.(*ssa.Slice)
				if !ok || sl.High == nil {
					continue
				}
				if _, isSlice := sl.X.Type().Underlying().(*types.Slice); !isSlice {
					continue
				}
				n++
				k, ok := lenPlusConst(sl.High, sl.X)
				if !ok || k <= 0 {
					continue
				}
				// a capacity test anywhere in the function on the same slice excuses it
				guarded := false
				for _, b2 := range f.Blocks {
					for _, i2 := range b2.Instrs {
						if c, ok := i2.(*ssa.Call); ok {
							if bi, ok := c.Common().Value.(*ssa.Builtin); ok && bi.Name() == "cap" {
								y := c.Common().Args[0]
								if y == sl.X || addrKey(y) != "" && addrKey(y) == addrKey(sl.X) {
									guarded = true
								}
							}
						}
					}
				}
				pos := p.Pos(sl.Pos())
				if guarded {
					r.Ok(".RESLICE-EXTEND", pos, core.FuncKey(f)+": re-slice beyond the length is guarded by a capacity test")
				} else {
					r.Fail(".RESLICE-EXTEND", core.FuncKey(f)+"|reslice", pos, fmt.Sprintf("%s extends a slice by re-slicing it to len+%d without a capacity test: beyond the capacity the slice happens to have (the inline backing array) this panics instead of growing", core.FuncKey(f), k), "")
				}
			}
		}
	}
	r.Stats["slice_expressions_with_upper_bound"] = n
}

// ---- (b) ----

// stackFieldOf: addr is &recv.<stack>.current (a field named current of a
// struct-typed field of the receiver whose type has push and pop); returns the
// stack field name and its named type.
func stackTopAddr(f *ssa.Function, addr ssa.Value) (string, *types.Named) {
	fa, ok := addr.(*ssa.FieldAddr)
	if !ok {
		return "", nil
	}
	st, ok := fa.X.Type().Underlying().(*types.Pointer).Elem().Underlying().(*types.Struct)
	if !ok || core.FieldName(st, fa.Field) != "current" {
		return "", nil
	}
	outer, ok := fa.X.(*ssa.FieldAddr)
	if !ok || f.Signature.Recv() == nil || len(f.Params) == 0 || outer.X != ssa.Value(f.Params[0]) {
		return "", nil
	}
	n := namedOf(fa.X.Type())
	if n == nil || !hasPushPop(n) {
		return "", nil
	}
	ost := outer.X.Type().Underlying().(*types.Pointer).Elem().Underlying().(*types.Struct)
	return core.FieldName(ost, outer.Field), n
}

func hasPushPop(n *types.Named) bool {
	ms := types.NewMethodSet(types.NewPointer(n))
	hasPush, hasPop := false, false
	for j := 0; j < ms.Len(); j++ {
		switch methodName(ms.At(j).Obj()) {
		case "push":
			hasPush = true
		case "pop":
			hasPop = true
		}
	}
	return hasPush && hasPop
}

// mayCall: f transitively (static calls within the module) calls a method
// named `name` on the stack type `on`.
func mayCallStackOp(f *ssa.Function, on *types.Named, name string, memo map[*ssa.Function]int8) bool {
	if v, ok := memo[f]; ok {
		return v == 1
	}
	memo[f] = 0
	for _, b := range f.Blocks {
		for _, in := range b.Instrs {
			c, ok := in.(ssa.CallInstruction)
			if !ok {
				continue
			}
			sc := c.Common().StaticCallee()
			if sc == nil {
				continue
			}
			if core.FuncName(sc) == name && sc.Signature.Recv() != nil && namedOf(sc.Signature.Recv().Type()) == on {
				memo[f] = 1
				return true
			}
			if core.FuncPkg(sc) == core.FuncPkg(f) && mayCallStackOp(sc, on, name, memo) {
				memo[f] = 1
				return true
			}
		}
	}
	return false
}

func frameStale(p *core.Prog, r *core.Result, in map[string]bool) {
	n := 0
	memos := map[*types.Named]map[*ssa.Function]int8{}
	for _, f := range p.ModFuncs() {
		if !inPkgs(f, in) {
			continue
		}
		for _, b := range f.Blocks {
			for _, ins := range b.Instrs {
				st, ok := ins.(*ssa.Store)
				if !ok {
					continue
				}
				field, stackT := stackTopAddr(f, st.Addr)
				if stackT == nil {
					continue
				}
				// read-modify-write of the top entry
				bo, ok := st.Val.(*ssa.BinOp)
				if !ok {
					continue
				}
				rmw := false
				for _, op := range []ssa.Value{bo.X, bo.Y} {
					if ld, ok := op.(*ssa.UnOp); ok && ld.Op == token.MUL && addrKey(ld.X) != "" && addrKey(ld.X) == addrKey(st.Addr) {
						rmw = true
					}
				}
				if !rmw {
					continue
				}
				n++
				if memos[stackT] == nil {
					memos[stackT] = map[*ssa.Function]int8{}
				}
				bad := ""
				for _, b2 := range f.Blocks {
					for _, i2 := range b2.Instrs {
						c, ok := i2.(ssa.CallInstruction)
						if !ok {
							continue
						}
						sc := c.Common().StaticCallee()
						if sc == nil || core.FuncPkg(sc) != core.FuncPkg(f) {
							continue
						}
						pushes := core.FuncName(sc) == "push" && sc.Signature.Recv() != nil && namedOf(sc.Signature.Recv().Type()) == stackT
						if !pushes && !mayCallStackOp(sc, stackT, "push", memos[stackT]) {
							continue
						}
						if reaches(i2, st) {
							bad = fmt.Sprintf("%s (which may push onto the %s stack) at %s", core.FuncKey(sc), field, p.Pos(c.Pos()))
						}
					}
				}
				pos := p.Pos(st.Pos())
				if bad == "" {
					r.Ok(".FRAME-STALE", pos, fmt.Sprintf("%s: %s.current is updated before anything in this invocation can push onto the stack", core.FuncKey(f), field))
				} else {
					r.Fail(".FRAME-STALE", fmt.Sprintf("%s|%s.current", core.FuncKey(f), field), pos, fmt.Sprintf("%s updates %s.current after calling %s: if the call started a nested container, the top of the stack is the child's entry and the update (element countdown) hits the wrong container", core.FuncKey(f), field, bad), "")
				}
			}
		}
	}
	if in["cborl"] || in["ubjson"] {
		r.Floor("stack_top_updates", n, 2)
	}
}

// ---- (c) ----

// collectLike: calls that may report an incomplete token and ask for a re-run:
// (*Parser).collect and thin wrappers around it (no stores, no other module calls).
func collectLike(p *core.Prog, pkg string) map[*ssa.Function]bool {
	out := map[*ssa.Function]bool{}
	col := p.LookupFunc(pkg, "(*Parser).collect")
	if col == nil {
		return out
	}
	out[col] = true
	for _, f := range p.ModFuncs() {
		pk := core.FuncPkg(f)
		if pk == nil || pk.Name() != pkg || f == col {
			continue
		}
		calls, other := false, false
		for _, b := range f.Blocks {
			for _, in := range b.Instrs {
				switch x := in.(type) {
				case *ssa.Store:
					other = true
				case ssa.CallInstruction:
					sc := x.Common().StaticCallee()
					if sc == col {
						calls = true
					} else if sc == nil || core.FuncPkg(sc) == pk {
						if _, isB := x.Common().Value.(*ssa.Builtin); !isB {
							other = true
						}
					}
				}
			}
		}
		if calls && !other {
			out[f] = true
		}
	}
	return out
}

func effectBeforeCollect(p *core.Prog, r *core.Result, in map[string]bool) {
	n := 0
	for _, pk := range []string{"cborl", "ubjson"} {
		if !in[pk] {
			continue
		}
		cl := collectLike(p, pk)
		if len(cl) == 0 {
			r.Undecided(".EFFECT-BEFORE-COLLECT", pk+".collect", "collect not found")
			continue
		}
		for _, f := range p.ModFuncs() {
			fp := core.FuncPkg(f)
			if fp == nil || fp.Name() != pk || cl[f] || f.Signature.Recv() == nil {
				continue
			}
			for _, b := range f.Blocks {
				for _, ins := range b.Instrs {
					call, ok := ins.(*ssa.Call)
					if !ok || !cl[call.Common().StaticCallee()] {
						continue
					}
					n++
					bad := ""
					for _, b2 := range f.Blocks {
						for _, i2 := range b2.Instrs {
							what := ""
							switch x := i2.(type) {
							case *ssa.Store:
								if fld, st := stackTopAddr(f, x.Addr); st != nil {
									what = "update of " + fld + ".current"
								}
							case *ssa.Call:
								cc := x.Common()
								if cc.IsInvoke() && strings.HasPrefix(cc.Method.Name(), "On") {
									what = "visitor event " + cc.Method.Name()
								} else if sc := cc.StaticCallee(); sc != nil && sc.Signature.Recv() != nil && (core.FuncName(sc) == "push" || core.FuncName(sc) == "pop") && namedOf(sc.Signature.Recv().Type()) != nil && hasPushPop(namedOf(sc.Signature.Recv().Type())) {
									what = namedOf(sc.Signature.Recv().Type()).Obj().Name() + "." + core.FuncName(sc)
								} else if sc != nil && core.FuncPkg(sc) == fp && (strings.HasPrefix(core.FuncName(sc), "pop") || strings.HasPrefix(core.FuncName(sc), "push")) {
									what = core.FuncName(sc)
								}
							}
							if what == "" || i2 == ssa.Instruction(call) {
								continue
							}
							if !reachesForward(i2, call) {
								continue
							}
							bad = what + " at " + p.Pos(token.Pos(instrPos(i2)))
						}
					}
					pos := p.Pos(call.Pos())
					if bad == "" {
						r.Ok(".EFFECT-BEFORE-COLLECT", pos, core.FuncKey(f)+": nothing irreversible precedes this possibly-incomplete collect in the same invocation")
					} else {
						r.Fail(".EFFECT-BEFORE-COLLECT", core.FuncKey(f)+"|"+strings.SplitN(bad, " at ", 2)[0], pos, fmt.Sprintf("%s: %s precedes a collect that may find the token incomplete; the step is then re-run from the top with the next chunk and the effect happens a second time (the result depends on where the input was cut)", core.FuncKey(f), bad), "")
					}
				}
			}
		}
	}
	if in["cborl"] || in["ubjson"] {
		r.Floor("collect_call_sites", n, 8)
	}
}

// reachesForward: b can execute after a without taking a loop back edge.
func reachesForward(a, b ssa.Instruction) bool {
	ba, bb := a.Block(), b.Block()
	if ba == bb {
		ia, ib := -1, -1
		for i, in := range ba.Instrs {
			if in == a {
				ia = i
			}
			if in == b {
				ib = i
			}
		}
		return ia < ib
	}
	seen := map[*ssa.BasicBlock]bool{}
	var work []*ssa.BasicBlock
	push := func(from *ssa.BasicBlock) {
		for _, s := range from.Succs {
			if isBackEdge(s, predIndex(s, from)) {
				continue
			}
			work = append(work, s)
		}
	}
	push(ba)
	for len(work) > 0 {
		x := work[len(work)-1]
		work = work[:len(work)-1]
		if seen[x] {
			continue
		}
		seen[x] = true
		if x == bb {
			return true
		}
		push(x)
	}
	return false
}

// ---- (d) RESUME-MATCH ----
//
// In a dispatcher arm that has already moved the machine to state S' and then
// suspends on an empty chunk (`if len(b) == 0 { break }`), the code that runs
// when the chunk is NOT empty must be exactly what a later re-entry in state
// S' runs: the non-empty continuation has to be the arm of S' itself (a
// fallthrough). Anything in between (an event, a store) would be executed
// when the input arrives in one piece and skipped when it is cut right there.

type rmState struct {
	in, cur int64 // 1 + state constant dispatched on / current; 0 unknown
}
type rmSusp struct {
	ifBlk       *ssa.BasicBlock
	emptyOnTrue bool
	in, cur     int64
}
type rmClient struct {
	fn    *ssa.Function
	tag   string
	chunk ssa.Value
	susp  map[string]rmSusp
}

func (k *rmClient) Key(s rmState) string                             { return fmt.Sprintf("%d|%d", s.in, s.cur) }
func (k *rmClient) Phis(s rmState, _ *ssa.BasicBlock, _ int) rmState { return s }
func (k *rmClient) Return(rmState, *ssa.Return)                      {}
func (k *rmClient) Instr(s rmState, in ssa.Instruction) (rmState, bool, []rmState) {
	switch x := in.(type) {
	case *ssa.Store:
		ak := addrKey(x.Addr)
		if i := strings.Index(ak, "."); !strings.HasPrefix(ak, "P:") || i < 0 || ak[i+1:] != k.tag {
			break
		}
		if c, ok := constIntVal(x.Val); ok {
			s.cur = c + 1
			break
		}
		if bo, ok := x.Val.(*ssa.BinOp); ok && s.cur != 0 && fieldPath(bo.X) == k.tag {
			if c, ok := constIntVal(bo.Y); ok {
				switch bo.Op {
				case token.AND:
					s.cur = ((s.cur - 1) & c) + 1
					return s, true, nil
				case token.AND_NOT:
					s.cur = ((s.cur - 1) &^ c) + 1
					return s, true, nil
				case token.OR:
					s.cur = ((s.cur - 1) | c) + 1
					return s, true, nil
				}
			}
		}
		s.cur = 0
	case ssa.CallInstruction:
		// a module callee may change the state
		if sc := x.Common().StaticCallee(); sc != nil && core.FuncPkg(sc) == core.FuncPkg(k.fn) && sc.Signature.Recv() != nil {
			s.cur = 0
		}
	}
	return s, true, nil
}
func (k *rmClient) Branch(s rmState, cond ssa.Value, outcome bool) (rmState, bool) {
	bo, ok := cond.(*ssa.BinOp)
	if !ok {
		return s, true
	}
	if bo.Op == token.EQL && fieldPath(bo.X) == k.tag {
		if c, ok := constIntVal(bo.Y); ok {
			if outcome {
				s.in, s.cur = c+1, c+1
			}
			return s, true
		}
	}
	// len(chunk) == 0 / != 0
	if call, ok := bo.X.(*ssa.Call); ok && (bo.Op == token.EQL || bo.Op == token.NEQ) && isIntConst(bo.Y, 0) {
		if bi, ok := call.Common().Value.(*ssa.Builtin); ok && bi.Name() == "len" && call.Common().Args[0] == k.chunk {
			if s.in != 0 && s.cur != 0 && s.cur != s.in && outcome {
				if refs := cond.Referrers(); refs != nil {
					for _, rf := range *refs {
						if ifi, ok := rf.(*ssa.If); ok {
							k.susp[fmt.Sprintf("%d|%d|%d", ifi.Block().Index, s.in, s.cur)] = rmSusp{ifi.Block(), bo.Op == token.EQL, s.in, s.cur}
						}
					}
				}
			}
		}
	}
	return s, true
}

func skipTrivial(b *ssa.BasicBlock) *ssa.BasicBlock {
	for i := 0; i < 8; i++ {
		if len(b.Instrs) == 1 {
			if _, ok := b.Instrs[0].(*ssa.Jump); ok {
				b = b.Succs[0]
				continue
			}
		}
		break
	}
	return b
}

func resumeMatch(p *core.Prog, r *core.Result, in map[string]bool) {
	n := 0
	for _, pk := range []string{"cborl", "ubjson", "json"} {
		if !in[pk] {
			continue
		}
		fam, err := buildFamily(p, pk)
		if err != nil {
			continue
		}
		tag := reentryTagPath(fam.feedUntil)
		if tag == "" {
			continue // this dispatcher never re-enters on an empty chunk
		}
		for f, sf := range fam.steps {
			k := &rmClient{fn: f, tag: tag, chunk: sf.chunk, susp: map[string]rmSusp{}}
			WalkPaths[rmState](k, f.Blocks[0], 0, rmState{}, 200000, nil)
			for _, sk := range sortedKeys(k.susp) {
				su := k.susp[sk]
				n++
				cont := su.ifBlk.Succs[1]
				if !su.emptyOnTrue {
					cont = su.ifBlk.Succs[0]
				}
				cont = skipTrivial(cont)
				// dispatch target of the state the machine was moved to
				var target *ssa.BasicBlock
				for _, b := range f.Blocks {
					if len(b.Instrs) == 0 {
						continue
					}
					ifi, ok := b.Instrs[len(b.Instrs)-1].(*ssa.If)
					if !ok {
						continue
					}
					bo, ok := ifi.Cond.(*ssa.BinOp)
					if !ok || bo.Op != token.EQL || fieldPath(bo.X) != tag {
						continue
					}
					if c, ok := constIntVal(bo.Y); ok && c+1 == su.cur {
						target = skipTrivial(b.Succs[0])
					}
				}
				pos := p.Pos(token.Pos(instrPos(su.ifBlk.Instrs[len(su.ifBlk.Instrs)-1])))
				key := fmt.Sprintf("%s|%#x->%#x", core.FuncKey(f), su.in-1, su.cur-1)
				switch {
				case target == nil:
					r.Fail(".RESUME-MATCH", key, pos, fmt.Sprintf("%s: the arm of state %#x moves the machine to state %#x and suspends on an empty chunk, but the dispatcher has no arm for %#x", core.FuncKey(f), su.in-1, su.cur-1, su.cur-1), "")
				case target != cont:
					r.Fail(".RESUME-MATCH", key, pos, fmt.Sprintf("%s: the arm of state %#x moves the machine to state %#x and suspends when the chunk is empty; with a non-empty chunk it goes on with code (block %d) that is not the arm of %#x (block %d): what runs in between is executed when the input arrives in one piece and skipped when it is cut exactly here", core.FuncKey(f), su.in-1, su.cur-1, cont.Index, su.cur-1, target.Index), "")
				default:
					r.Ok(".RESUME-MATCH", pos, fmt.Sprintf("%s: suspension in state %#x after moving to %#x continues exactly where a re-entry in %#x starts", core.FuncKey(f), su.in-1, su.cur-1, su.cur-1))
				}
			}
		}
	}
	if in["cborl"] {
		r.Floor("suspensions_after_state_change", n, 2)
	}
}

// ---- call counting on success paths ----

type ccState struct {
	n      int
	nonnil valueSet
}
type ccCtx struct {
	target *ssa.Function
	sums   map[*ssa.Function]map[int]bool
	busy   map[*ssa.Function]bool
}
type ccClient struct {
	c   *ccCtx
	fn  *ssa.Function
	num *valueNumbering
	out map[int]bool
}

func (k *ccClient) Key(s ccState) string { return fmt.Sprintf("%d|%s", s.n, s.nonnil.key()) }
func (k *ccClient) Phis(s ccState, blk *ssa.BasicBlock, pred int) ccState {
	type upd struct {
		id     int
		nonnil bool
	}
	var ups []upd
	for _, in := range blk.Instrs {
		phi, ok := in.(*ssa.Phi)
		if !ok {
			break
		}
		if pred < 0 || pred >= len(phi.Edges) {
			continue
		}
		e := phi.Edges[pred]
		ups = append(ups, upd{k.num.id(phi), s.nonnil.has(k.num.id(e)) || definitelyNonNilError(e)})
	}
	for _, u := range ups {
		s.nonnil = s.nonnil.without(u.id)
		if u.nonnil {
			s.nonnil = s.nonnil.with(u.id)
		}
	}
	return s
}
func (k *ccClient) Instr(s ccState, in ssa.Instruction) (ccState, bool, []ccState) {
	c, ok := in.(*ssa.Call)
	if !ok {
		return s, true, nil
	}
	sc := c.Common().StaticCallee()
	if sc == nil {
		return s, true, nil
	}
	if sc == k.c.target {
		if s.n < 3 {
			s.n++
		}
		return s, true, nil
	}
	if sc.Signature.Recv() == nil || k.fn.Signature.Recv() == nil || len(c.Common().Args) == 0 || c.Common().Args[0] != ssa.Value(k.fn.Params[0]) {
		return s, true, nil
	}
	sum := k.c.counts(sc)
	if sum == nil {
		return s, true, nil
	}
	var outs []ccState
	for n := 0; n <= 3; n++ {
		if sum[n] {
			ns := s
			ns.n += n
			if ns.n > 3 {
				ns.n = 3
			}
			outs = append(outs, ns)
		}
	}
	if len(outs) == 0 {
		return s, false, nil
	}
	return outs[0], true, outs[1:]
}
func (k *ccClient) Branch(s ccState, cond ssa.Value, outcome bool) (ccState, bool) {
	if x, trueMeansNil, ok := nilTest(cond); ok && isErrorType(x.Type()) {
		isNil := outcome == trueMeansNil
		if isNil && s.nonnil.has(k.num.id(x)) {
			return s, false
		}
		if !isNil {
			s.nonnil = s.nonnil.with(k.num.id(x))
		}
	}
	return s, true
}
func (k *ccClient) Return(s ccState, ret *ssa.Return) {
	if ei := errResultIndex(k.fn.Signature); ei >= 0 {
		rv := ret.Results[ei]
		if definitelyNonNilError(rv) || s.nonnil.has(k.num.id(rv)) {
			return
		}
	}
	k.out[s.n] = true
}

// counts: how many times target is called on the success paths of f
// (0,1,2,3+), following static calls on the same receiver.
func (c *ccCtx) counts(f *ssa.Function) map[int]bool {
	if s, ok := c.sums[f]; ok {
		return s
	}
	if c.busy[f] || f.Blocks == nil {
		return nil
	}
	c.busy[f] = true
	defer delete(c.busy, f)
	k := &ccClient{c: c, fn: f, num: newNumbering(), out: map[int]bool{}}
	_, capped := WalkPaths[ccState](k, f.Blocks[0], 0, ccState{}, 200000, nil)
	if capped {
		c.sums[f] = nil
		return nil
	}
	c.sums[f] = k.out
	return k.out
}

// ---- (e) SEPARATOR-ONCE (json encoder) ----
//
// Every scalar event writes exactly one value, so the element-separator logic
// (tryElemNext: the ',' between array elements) runs exactly once on every
// path that can succeed - none would glue two values together, two would
// write an empty element.

func separatorOnce(p *core.Prog, r *core.Result) {
	sep := p.LookupFunc("json", "(*Visitor).tryElemNext")
	if sep == nil {
		r.Undecided(".SEPARATOR-ONCE", "json.(*Visitor).tryElemNext", "element separator function not found")
		return
	}
	c := &ccCtx{target: sep, sums: map[*ssa.Function]map[int]bool{}, busy: map[*ssa.Function]bool{}}
	n := 0
	for _, ev := range scalarEvents {
		f := p.LookupFunc("json", "(*Visitor)."+ev)
		if f == nil {
			r.Undecided(".SEPARATOR-ONCE", "json.(*Visitor)."+ev, "event method not found")
			continue
		}
		n++
		cs := c.counts(f)
		fkey := core.FuncKey(f)
		switch {
		case cs == nil:
			r.Undecided(".SEPARATOR-ONCE", fkey, "paths of "+fkey+" could not be enumerated")
		case len(cs) == 1 && cs[1]:
			r.Ok(".SEPARATOR-ONCE", p.Pos(f.Pos()), fkey+": the element separator logic runs exactly once on every path that can succeed")
		default:
			var got []string
			for i := 0; i <= 3; i++ {
				if cs[i] {
					got = append(got, fmt.Sprint(i))
				}
			}
			r.Fail(".SEPARATOR-ONCE", fkey+"|count", p.Pos(f.Pos()), fmt.Sprintf("%s runs the element separator logic %s times on some path that can succeed (must be exactly once per value: 0 glues two array elements together, 2 writes an empty element ',,')", fkey, strings.Join(got, " or ")), "")
		}
	}
	r.Floor("json_scalar_events", n, 17)
}

// ---- (f) PAYLOAD-WHOLE (cborl / ubjson encoders) ----
//
// The binary encoders write text and byte payloads verbatim after a length
// prefix. On every path that can succeed, the payload parameter reaches the
// output writer as a whole (not through a bounded scratch copy, not
// re-sliced), or is known to be empty.

type pwState struct {
	done   bool
	nonnil valueSet
}
type pwCtx struct {
	p    *core.Prog
	sums map[string]int8 // func|param -> 1 whole, 2 not
	busy map[string]bool
}
type pwClient struct {
	c   *pwCtx
	fn  *ssa.Function
	prm ssa.Value
	num *valueNumbering
	bad string
}

// wholeOf: v is the payload itself or a zero-copy/converted view of all of it.
func (k *pwClient) wholeOf(v ssa.Value) bool {
	for i := 0; i < 6; i++ {
		if v == k.prm {
			return true
		}
		switch x := v.(type) {
		case *ssa.Convert:
			v = x.X
		case *ssa.ChangeType:
			v = x.X
		case *ssa.Call:
			sc := x.Common().StaticCallee()
			if sc != nil && (core.FuncName(sc) == "str2Bytes" || core.FuncName(sc) == "bytes2Str" || core.FuncName(sc) == "Str2Bytes" || core.FuncName(sc) == "Bytes2Str") && len(x.Common().Args) == 1 {
				v = x.Common().Args[0]
				continue
			}
			return false
		default:
			return false
		}
	}
	return false
}

func (k *pwClient) Key(s pwState) string { return fmt.Sprintf("%v|%s", s.done, s.nonnil.key()) }
func (k *pwClient) Phis(s pwState, blk *ssa.BasicBlock, pred int) pwState {
	type upd struct {
		id     int
		nonnil bool
	}
	var ups []upd
	for _, in := range blk.Instrs {
		phi, ok := in.(*ssa.Phi)
		if !ok {
			break
		}
		if pred < 0 || pred >= len(phi.Edges) {
			continue
		}
		e := phi.Edges[pred]
		ups = append(ups, upd{k.num.id(phi), s.nonnil.has(k.num.id(e)) || definitelyNonNilError(e)})
	}
	for _, u := range ups {
		s.nonnil = s.nonnil.without(u.id)
		if u.nonnil {
			s.nonnil = s.nonnil.with(u.id)
		}
	}
	return s
}
func (k *pwClient) Instr(s pwState, in ssa.Instruction) (pwState, bool, []pwState) {
	c, ok := in.(*ssa.Call)
	if !ok {
		return s, true, nil
	}
	sc := c.Common().StaticCallee()
	if sc == nil {
		return s, true, nil
	}
	for ai, a := range c.Common().Args {
		if !k.wholeOf(a) {
			continue
		}
		if core.FuncName(sc) == "write" || core.FuncName(sc) == "Write" {
			s.done = true
		} else if core.FuncPkg(sc) == core.FuncPkg(k.fn) && ai < len(sc.Params) && k.c.whole(sc, ai) {
			s.done = true
		}
	}
	return s, true, nil
}
func (k *pwClient) Branch(s pwState, cond ssa.Value, outcome bool) (pwState, bool) {
	if x, trueMeansNil, ok := nilTest(cond); ok && isErrorType(x.Type()) {
		isNil := outcome == trueMeansNil
		if isNil && s.nonnil.has(k.num.id(x)) {
			return s, false
		}
		if !isNil {
			s.nonnil = s.nonnil.with(k.num.id(x))
		}
	}
	// len(payload) == 0
	if bo, ok := cond.(*ssa.BinOp); ok && (bo.Op == token.EQL || bo.Op == token.NEQ) && isIntConst(bo.Y, 0) {
		if call, ok := bo.X.(*ssa.Call); ok {
			if bi, ok := call.Common().Value.(*ssa.Builtin); ok && bi.Name() == "len" && k.wholeOf(call.Common().Args[0]) {
				if outcome == (bo.Op == token.EQL) {
					s.done = true // nothing to write
				}
			}
		}
	}
	return s, true
}
func (k *pwClient) Return(s pwState, ret *ssa.Return) {
	if ei := errResultIndex(k.fn.Signature); ei >= 0 {
		rv := ret.Results[ei]
		if definitelyNonNilError(rv) || s.nonnil.has(k.num.id(rv)) {
			return
		}
	}
	if !s.done {
		k.bad = "a path that can succeed returns at " + k.c.p.Pos(token.Pos(instrPos(ret))) + " without having handed the whole payload to the writer"
	}
}

func (c *pwCtx) whole(f *ssa.Function, pi int) bool {
	key := fmt.Sprintf("%p|%d", f, pi)
	if v, ok := c.sums[key]; ok {
		return v == 1
	}
	if c.busy[key] || f.Blocks == nil || pi >= len(f.Params) {
		return false
	}
	c.busy[key] = true
	defer delete(c.busy, key)
	k := &pwClient{c: c, fn: f, prm: f.Params[pi], num: newNumbering()}
	_, capped := WalkPaths[pwState](k, f.Blocks[0], 0, pwState{}, 100000, nil)
	if capped || k.bad != "" {
		c.sums[key] = 2
		return false
	}
	c.sums[key] = 1
	return true
}

func (c *pwCtx) why(f *ssa.Function, pi int) string {
	k := &pwClient{c: c, fn: f, prm: f.Params[pi], num: newNumbering()}
	WalkPaths[pwState](k, f.Blocks[0], 0, pwState{}, 100000, nil)
	return k.bad
}

func payloadWhole(p *core.Prog, r *core.Result, in map[string]bool) {
	n := 0
	for _, pk := range []string{"cborl", "ubjson"} {
		if !in[pk] {
			continue
		}
		c := &pwCtx{p: p, sums: map[string]int8{}, busy: map[string]bool{}}
		for _, name := range []string{"OnString", "OnStringRef", "OnKey", "OnKeyRef"} {
			f := p.LookupFunc(pk, "(*Visitor)."+name)
			if f == nil {
				r.Undecided(".PAYLOAD-WHOLE", pk+".(*Visitor)."+name, "event method not found")
				continue
			}
			n++
			fkey := core.FuncKey(f)
			if c.whole(f, 1) {
				r.Ok(".PAYLOAD-WHOLE", p.Pos(f.Pos()), fkey+": the payload reaches the writer whole (or is empty) on every path that can succeed")
				continue
			}
			// name the innermost function that loses it
			why, where := c.why(f, 1), fkey
			seen := map[*ssa.Function]bool{}
			var dig func(g *ssa.Function, pi int)
			dig = func(g *ssa.Function, pi int) {
				if seen[g] {
					return
				}
				seen[g] = true
				k := &pwClient{c: c, fn: g, prm: g.Params[pi], num: newNumbering()}
				for _, b := range g.Blocks {
					for _, ins := range b.Instrs {
						call, ok := ins.(*ssa.Call)
						if !ok {
							continue
						}
						sc := call.Common().StaticCallee()
						if sc == nil || core.FuncPkg(sc) != core.FuncPkg(g) {
							continue
						}
						for ai, a := range call.Common().Args {
							if k.wholeOf(a) && ai < len(sc.Params) && !c.whole(sc, ai) {
								why, where = c.why(sc, ai), core.FuncKey(sc)
								dig(sc, ai)
							}
						}
					}
				}
			}
			dig(f, 1)
			r.Fail(".PAYLOAD-WHOLE", fkey+"|payload", p.Pos(f.Pos()), fmt.Sprintf("%s: in %s %s (a bounded scratch copy or a re-slice silently truncates long payloads)", fkey, where, why), "")
		}
	}
	r.Floor("payload_events", n, 4)
}

// ---- (g) STICKY-FAIL (push-mode parsers) ----
//
// Parser.Write is the io.Writer face of a parser: a document arrives in many
// writes. When one of them fails (visitor error, malformed input) the state
// machine is parked in its failure state before the error is returned, so
// that a caller who keeps writing (io.MultiWriter, a logger that ignores
// errors) gets the stored error back and the visitor sees nothing more of the
// failed document.

// frozen: the failure-state constant of each parser (confirmed by reading:
// the dispatcher arm of this state returns the stored error without touching
// the visitor).
var failStateConst = map[string]string{"json": "failedState", "cborl": "stFail", "ubjson": "stFail"}

type sfState struct {
	parked bool
	nnmem  stringSet
}
type sfClient struct {
	p       *core.Prog
	fn      *ssa.Function
	failVal int64
	bad     string
}

func (k *sfClient) Key(s sfState) string                             { return fmt.Sprintf("%v|%s", s.parked, s.nnmem.key()) }
func (k *sfClient) Phis(s sfState, _ *ssa.BasicBlock, _ int) sfState { return s }
func (k *sfClient) isFailValue(v ssa.Value, depth int) bool {
	if depth > 4 {
		return false
	}
	if c, ok := constIntVal(v); ok {
		return c == k.failVal
	}
	if ld, ok := v.(*ssa.UnOp); ok && ld.Op == token.MUL {
		if a, ok := ld.X.(*ssa.Alloc); ok {
			for _, sv := range storedInto(a) {
				if k.isFailValue(sv, depth+1) {
					return true
				}
			}
		}
	}
	return false
}
func (k *sfClient) Instr(s sfState, in ssa.Instruction) (sfState, bool, []sfState) {
	switch x := in.(type) {
	case *ssa.Store:
		if rootedAt(x.Addr, k.fn.Params[0]) {
			if k.isFailValue(x.Val, 0) {
				s.parked = true
			}
			// a new value in a field forgets what was known about it
			if ak := addrKey(x.Addr); ak != "" {
				s.nnmem = s.nnmem.without(ak)
			}
		}
	}
	return s, true, nil
}
func (k *sfClient) Branch(s sfState, cond ssa.Value, outcome bool) (sfState, bool) {
	if x, trueMeansNil, ok := nilTest(cond); ok && isErrorType(x.Type()) {
		if ld, ok := x.(*ssa.UnOp); ok && ld.Op == token.MUL {
			if ak := addrKey(ld.X); ak != "" && outcome != trueMeansNil {
				s.nnmem = s.nnmem.with(ak)
			}
		}
	}
	return s, true
}
func (k *sfClient) Return(s sfState, ret *ssa.Return) {
	ei := errResultIndex(k.fn.Signature)
	if ei < 0 {
		return
	}
	rv := ret.Results[ei]
	failing := definitelyNonNilError(rv)
	if ld, ok := rv.(*ssa.UnOp); ok && ld.Op == token.MUL && s.nnmem.has(addrKey(ld.X)) {
		failing = true
	}
	if failing && !s.parked {
		k.bad = "returns a non-nil error at " + k.p.Pos(token.Pos(instrPos(ret))) + " without having stored the failure state"
	}
}

func stickyFail(p *core.Prog, r *core.Result, in map[string]bool) {
	n := 0
	for _, pk := range []string{"json", "cborl", "ubjson"} {
		if !in[pk] {
			continue
		}
		f := p.LookupFunc(pk, "(*Parser).Write")
		sp := p.SPkgs[pk]
		if f == nil || sp == nil {
			r.Undecided(".STICKY-FAIL", pk+".(*Parser).Write", "push-mode entry point not found")
			continue
		}
		nc := p.Const(pk, failStateConst[pk])
		if nc == nil {
			r.Undecided(".STICKY-FAIL", pk+"."+failStateConst[pk], "failure-state constant not found")
			continue
		}
		fv, ok := constIntVal(nc.Value)
		if !ok {
			r.Undecided(".STICKY-FAIL", pk+"."+failStateConst[pk], "failure-state constant is not an integer")
			continue
		}
		n++
		k := &sfClient{p: p, fn: f, failVal: fv}
		_, capped := WalkPaths[sfState](k, f.Blocks[0], 0, sfState{}, 100000, nil)
		fkey := core.FuncKey(f)
		switch {
		case capped:
			r.Undecided(".STICKY-FAIL", fkey, "state cap hit")
		case k.bad == "":
			r.Ok(".STICKY-FAIL", p.Pos(f.Pos()), fkey+": every failing return is preceded by a store of "+failStateConst[pk]+" into the parser")
		default:
			r.Fail(".STICKY-FAIL", fkey+"|park", p.Pos(f.Pos()), fkey+" "+k.bad+" ("+failStateConst[pk]+"): the machine stays where the failed event left it, and the next Write resumes the failed document and delivers further (mis-framed) events to the visitor that already failed", "")
		}
	}
	r.Floor("push_mode_entry_points", n, 3)
	failParks(p, r, in)
}

// ---- (g2) FAIL-PARKS (every entry point that feeds the machine) ----
//
// The same holds for every way into the machine, not only Write: an error of
// the dispatcher (a visitor error, malformed input) leaves the machine in the
// middle of the failed document, and a caller that goes on - the next Next of
// a pull decoder, a Write after a failed Parse, the next Parse of the binary
// parsers, which do not reset - resumes that document: the visitor that just
// failed gets further, mis-framed events, and the stacks the failed step left
// half updated are used again (cborl: a length entry of -1 sizes a slice).
// Decided as: the dispatcher parks the machine on every failing return, or
// else every exported function that can return the dispatcher's error does so
// only after parking. Unexported helpers that hand the error on pass the
// obligation to their callers.

type fpState struct {
	parked        bool
	feedErr       valueSet // values that are the error of a not-parking feed call
	nonnil, isnil valueSet
	feMem, nilMem stringSet // fields holding such an error / known to hold nil
}
type fpClient struct {
	p       *core.Prog
	fn      *ssa.Function
	num     *valueNumbering
	failVal int64
	family  map[*ssa.Function]bool // returns the dispatcher's error without parking
	bad     string
	leaks   bool // some return may carry an un-parked dispatcher error
	own     bool // fn is the dispatcher: every error it returns counts
	anyCall bool // end-of-input check: the error of any call (a visitor event, a helper that delivers events) counts
	// the named type of the failure-state constant (nil if it is a plain integer type): a branch on
	// <state field> == <failure state> establishes that the machine is parked already
	failType types.Type
}

func (k *fpClient) Key(s fpState) string {
	return fmt.Sprintf("%v|%s|%s|%s|%s|%s", s.parked, s.feedErr.key(), s.nonnil.key(), s.isnil.key(), s.feMem.key(), s.nilMem.key())
}
func (k *fpClient) Phis(s fpState, blk *ssa.BasicBlock, pred int) fpState {
	type upd struct {
		id            int
		fe, nn, isnil bool
	}
	var ups []upd
	for _, in := range blk.Instrs {
		phi, ok := in.(*ssa.Phi)
		if !ok {
			break
		}
		if pred < 0 || pred >= len(phi.Edges) {
			continue
		}
		e := phi.Edges[pred]
		id := k.num.id(e)
		ups = append(ups, upd{k.num.id(phi), s.feedErr.has(id), s.nonnil.has(id) || definitelyNonNilError(e), s.isnil.has(id) || isNilConst(e)})
	}
	set := func(vs valueSet, id int, on bool) valueSet {
		if on {
			return vs.with(id)
		}
		return vs.without(id)
	}
	for _, u := range ups {
		s.feedErr, s.nonnil, s.isnil = set(s.feedErr, u.id, u.fe), set(s.nonnil, u.id, u.nn), set(s.isnil, u.id, u.isnil)
	}
	return s
}
func (k *fpClient) isFailValue(v ssa.Value, depth int) bool {
	if depth > 4 {
		return false
	}
	if c, ok := constIntVal(v); ok {
		return c == k.failVal
	}
	if ld, ok := v.(*ssa.UnOp); ok && ld.Op == token.MUL {
		if a, ok := ld.X.(*ssa.Alloc); ok {
			for _, sv := range storedInto(a) {
				if k.isFailValue(sv, depth+1) {
					return true
				}
			}
		}
	}
	return false
}
func (k *fpClient) Instr(s fpState, in ssa.Instruction) (fpState, bool, []fpState) {
	switch x := in.(type) {
	case *ssa.Store:
		if len(k.fn.Params) > 0 && rootedAt(x.Addr, k.fn.Params[0]) && k.isFailValue(x.Val, 0) {
			s.parked = true
		}
		if ak := addrKey(x.Addr); ak != "" && isErrorType(x.Val.Type()) {
			s.feMem, s.nilMem = s.feMem.without(ak), s.nilMem.without(ak)
			if s.feedErr.has(k.num.id(x.Val)) {
				s.feMem = s.feMem.with(ak)
			}
			if isNilConst(x.Val) || s.isnil.has(k.num.id(x.Val)) {
				s.nilMem = s.nilMem.with(ak)
			}
		}
	case *ssa.UnOp:
		if x.Op == token.MUL && isErrorType(x.Type()) {
			if ak := addrKey(x.X); ak != "" {
				id := k.num.id(x)
				s.feedErr, s.isnil = s.feedErr.without(id), s.isnil.without(id)
				if s.feMem.has(ak) {
					s.feedErr = s.feedErr.with(id)
				}
				if s.nilMem.has(ak) {
					s.isnil = s.isnil.with(id)
				}
			}
		}
	case *ssa.Call:
		sc := x.Common().StaticCallee()
		if k.anyCall && !(sc != nil && k.family[sc]) {
			if _, isB := x.Common().Value.(*ssa.Builtin); isB {
				break
			}
			if isErrorType(x.Type()) {
				s.feedErr = s.feedErr.with(k.num.id(x))
			}
			if refs := x.Referrers(); refs != nil {
				for _, rf := range *refs {
					if ex, ok := rf.(*ssa.Extract); ok && isErrorType(ex.Type()) {
						s.feedErr = s.feedErr.with(k.num.id(ex))
					}
				}
			}
			break
		}
		if sc == nil || !k.family[sc] {
			break
		}
		// a new attempt: what an earlier attempt parked does not cover this one
		s.parked = false
		ei := errResultIndex(sc.Signature)
		if refs := x.Referrers(); refs != nil && ei >= 0 {
			for _, rf := range *refs {
				if ex, ok := rf.(*ssa.Extract); ok && ex.Index == ei {
					s.feedErr = s.feedErr.with(k.num.id(ex))
				}
			}
		}
		if sc.Signature.Results().Len() == 1 && ei == 0 {
			s.feedErr = s.feedErr.with(k.num.id(x))
		}
	}
	return s, true, nil
}
func (k *fpClient) Branch(s fpState, cond ssa.Value, outcome bool) (fpState, bool) {
	for {
		u, ok := cond.(*ssa.UnOp)
		if !ok || u.Op != token.NOT {
			break
		}
		cond, outcome = u.X, !outcome
	}
	if bo, ok := cond.(*ssa.BinOp); ok && bo.Op == token.EQL && outcome && k.failType != nil && len(k.fn.Params) > 0 {
		for _, pr := range [][2]ssa.Value{{bo.X, bo.Y}, {bo.Y, bo.X}} {
			if c, ok := constIntVal(pr[1]); ok && c == k.failVal && types.Identical(pr[0].Type(), k.failType) {
				if ld, ok := pr[0].(*ssa.UnOp); ok && ld.Op == token.MUL && rootedAt(ld.X, k.fn.Params[0]) {
					s.parked = true
				}
			}
		}
	}
	if x, trueMeansNil, ok := nilTest(cond); ok && isErrorType(x.Type()) {
		id := k.num.id(x)
		isNil := outcome == trueMeansNil
		if isNil && (s.nonnil.has(id) || definitelyNonNilError(x)) || !isNil && s.isnil.has(id) {
			return s, false
		}
		if isNil {
			s.isnil = s.isnil.with(id)
		} else {
			s.nonnil = s.nonnil.with(id)
		}
		if ld, ok := x.(*ssa.UnOp); ok && ld.Op == token.MUL {
			if ak := addrKey(ld.X); ak != "" {
				if isNil {
					s.nilMem = s.nilMem.with(ak)
				} else {
					s.nilMem = s.nilMem.without(ak)
				}
			}
		}
	}
	return s, true
}
func (k *fpClient) Return(s fpState, ret *ssa.Return) {
	ei := errResultIndex(k.fn.Signature)
	if ei < 0 {
		return
	}
	rv := ret.Results[ei]
	id := k.num.id(rv)
	if isNilConst(rv) || s.isnil.has(id) {
		return
	}
	carries := s.feedErr.has(id)
	if k.own {
		carries = true
	}
	if carries && !s.parked {
		k.leaks = true
		if k.bad == "" {
			k.bad = "can return the dispatcher's error at " + k.p.Pos(token.Pos(instrPos(ret))) + " without the machine having been parked in its failure state"
		}
	}
}

func failParks(p *core.Prog, r *core.Result, in map[string]bool) {
	n := 0
	for _, pk := range []string{"json", "cborl", "ubjson"} {
		if !in[pk] {
			continue
		}
		fam, err := buildFamily(p, pk)
		nc := p.Const(pk, failStateConst[pk])
		if err != nil || nc == nil {
			r.Undecided(".FAIL-PARKS", pk, "dispatcher or failure-state constant not found")
			continue
		}
		fv, ok := constIntVal(nc.Value)
		if !ok {
			continue
		}
		var failType types.Type
		if _, isNamed := nc.Type().(*types.Named); isNamed {
			failType = nc.Type()
		}
		run := func(f *ssa.Function, family map[*ssa.Function]bool, own bool) (*fpClient, bool) {
			k := &fpClient{p: p, fn: f, num: newNumbering(), failVal: fv, family: family, own: own, failType: failType}
			_, capped := WalkPaths[fpState](k, f.Blocks[0], 0, fpState{}, 200000, nil)
			return k, capped
		}
		// the end-of-input check may deliver events of its own (a pending number, containers that need no more
		// input): a visitor error there parks the machine as well
		if fin := p.LookupFunc(pk, "(*Parser).finalize"); fin != nil {
			k := &fpClient{p: p, fn: fin, num: newNumbering(), failVal: fv, family: map[*ssa.Function]bool{}, anyCall: true}
			_, capped := WalkPaths[fpState](k, fin.Blocks[0], 0, fpState{}, 200000, nil)
			n++
			switch {
			case capped:
				r.Undecided(".FAIL-PARKS", core.FuncKey(fin), "state cap hit")
			case !k.leaks:
				r.Ok(".FAIL-PARKS", p.Pos(fin.Pos()), core.FuncKey(fin)+": an error of an event delivered at end of input is returned only after the machine was parked")
			default:
				r.Fail(".FAIL-PARKS", core.FuncKey(fin)+"|park", p.Pos(fin.Pos()), core.FuncKey(fin)+" "+strings.Replace(k.bad, "the dispatcher's error", "the error of an event it delivered at end of input", 1)+" ("+failStateConst[pk]+"): a caller that goes on (the next Next, a Write) gets the events of the failed document again", "")
			}
		}
		fu := fam.feedUntil
		k0, capped := run(fu, map[*ssa.Function]bool{}, true)
		if capped {
			r.Undecided(".FAIL-PARKS", core.FuncKey(fu), "state cap hit")
			continue
		}
		if !k0.leaks {
			n++
			r.Ok(".FAIL-PARKS", p.Pos(fu.Pos()), core.FuncKey(fu)+": every failing return of the dispatcher is behind a store of "+failStateConst[pk]+": no entry point can resume a failed document")
			continue
		}
		// the dispatcher does not park: everybody who can return its error must
		family := map[*ssa.Function]bool{fu: true}
		var pkgFuncs []*ssa.Function
		for _, g := range p.ModFuncs() {
			if gp := core.FuncPkg(g); gp != nil && gp.Name() == pk && g.Blocks != nil && g.Parent() == nil {
				pkgFuncs = append(pkgFuncs, g)
			}
		}
		sort.Slice(pkgFuncs, func(i, j int) bool { return pkgFuncs[i].Pos() < pkgFuncs[j].Pos() })
		calls := func(g *ssa.Function) bool {
			for _, b := range g.Blocks {
				for _, i := range b.Instrs {
					if c, ok := i.(*ssa.Call); ok && c.Common().StaticCallee() != nil && family[c.Common().StaticCallee()] {
						return true
					}
				}
			}
			return false
		}
		for changed := true; changed; {
			changed = false
			for _, g := range pkgFuncs {
				if family[g] || !calls(g) || (g.Object() != nil && g.Object().Exported()) {
					continue
				}
				if k, capped := run(g, family, false); capped || k.leaks {
					family[g] = true
					changed = true
				}
			}
		}
		for _, g := range pkgFuncs {
			if family[g] || !calls(g) {
				continue
			}
			n++
			k, capped := run(g, family, false)
			gkey := core.FuncKey(g)
			switch {
			case capped:
				r.Undecided(".FAIL-PARKS", gkey, "state cap hit")
			case !k.leaks:
				r.Ok(".FAIL-PARKS", p.Pos(g.Pos()), gkey+": the dispatcher's error is returned only after the machine was parked in "+failStateConst[pk])
			default:
				r.Fail(".FAIL-PARKS", gkey+"|park", p.Pos(g.Pos()), gkey+" "+k.bad+" ("+failStateConst[pk]+"): the machine stays in the middle of the failed document, and the next call on the same instance resumes it - the visitor that failed gets further, mis-framed events, and half-updated stacks are used again", "")
			}
		}
	}
	r.Floor("fail_parking_sites", n, 1)
}

// ---- (h) INDEX-TRANSLATION (json) ----
//
// A scan that ranges over a window of the chunk (buf = b[o:]) and turns its
// range index i into a position in the chunk by adding a correction d (stop =
// i + d) must translate the same way on every path: d - o is one constant.
// When the window is moved on one path without the correction following (or
// the other way round) the token is cut one byte short or long for exactly
// the inputs that take that path - which depends on where the chunk was cut.

type itState struct {
	off map[int]int64 // slice value id -> offset relative to the chunk
	cv  map[int]int64 // int value id -> constant value
}

func (s itState) key() string {
	var parts []string
	for _, m := range []map[int]int64{s.off, s.cv} {
		var ks []int
		for k := range m {
			ks = append(ks, k)
		}
		for i := 1; i < len(ks); i++ {
			for j := i; j > 0 && ks[j] < ks[j-1]; j-- {
				ks[j], ks[j-1] = ks[j-1], ks[j]
			}
		}
		for _, k := range ks {
			parts = append(parts, fmt.Sprintf("%d:%d", k, m[k]))
		}
		parts = append(parts, "|")
	}
	return strings.Join(parts, ",")
}
func cloneI64(m map[int]int64) map[int]int64 {
	n := make(map[int]int64, len(m)+1)
	for k, v := range m {
		n[k] = v
	}
	return n
}

type itClient struct {
	num *valueNumbering
	rec map[*ssa.BinOp]map[int64]bool
}

func (k *itClient) Key(s itState) string { return s.key() }
func (k *itClient) constOf(s itState, v ssa.Value) (int64, bool) {
	if c, ok := constIntVal(v); ok {
		return c, true
	}
	c, ok := s.cv[k.num.id(v)]
	return c, ok
}
func (k *itClient) Phis(s itState, blk *ssa.BasicBlock, pred int) itState {
	off, cv := cloneI64(s.off), cloneI64(s.cv)
	for _, in := range blk.Instrs {
		phi, ok := in.(*ssa.Phi)
		if !ok {
			break
		}
		if pred < 0 || pred >= len(phi.Edges) {
			continue
		}
		e := phi.Edges[pred]
		id := k.num.id(phi)
		delete(off, id)
		delete(cv, id)
		if isByteSlice(phi.Type()) {
			if o, ok := s.off[k.num.id(e)]; ok {
				off[id] = o
			}
		} else if c, ok := k.constOf(s, e); ok {
			cv[id] = c
		}
	}
	return itState{off, cv}
}
func (k *itClient) Instr(s itState, in ssa.Instruction) (itState, bool, []itState) {
	switch x := in.(type) {
	case *ssa.Slice:
		if o, ok := s.off[k.num.id(x.X)]; ok {
			low := int64(0)
			known := true
			if x.Low != nil {
				low, known = k.constOf(s, x.Low)
			}
			if known {
				off := cloneI64(s.off)
				off[k.num.id(x)] = o + low
				s.off = off
			}
		}
	case *ssa.BinOp:
		if x.Op != token.ADD {
			break
		}
		for _, pr := range [][2]ssa.Value{{x.X, x.Y}, {x.Y, x.X}} {
			d, ok := k.constOf(s, pr[1])
			if !ok {
				continue
			}
			if _, isC := pr[0].(*ssa.Const); isC {
				continue
			}
			// the loop's own induction step (i = i + 1 feeding i's phi) is not a translation
			if phi, ok := pr[0].(*ssa.Phi); ok {
				induct := false
				for _, e := range phi.Edges {
					if e == ssa.Value(x) {
						induct = true
					}
				}
				if induct {
					continue
				}
			}
			refs := pr[0].Referrers()
			if refs == nil {
				continue
			}
			for _, rf := range *refs {
				ia, ok := rf.(*ssa.IndexAddr)
				if !ok || ia.Index != pr[0] {
					continue
				}
				if o, ok := s.off[k.num.id(ia.X)]; ok {
					if k.rec[x] == nil {
						k.rec[x] = map[int64]bool{}
					}
					k.rec[x][d-o] = true
				}
			}
		}
	}
	return s, true, nil
}
func (k *itClient) Branch(s itState, _ ssa.Value, _ bool) (itState, bool) { return s, true }
func (k *itClient) Return(itState, *ssa.Return)                           {}

func indexTranslation(p *core.Prog, r *core.Result, in map[string]bool) {
	n := 0
	for _, pk := range []string{"json", "cborl", "ubjson"} {
		if !in[pk] {
			continue
		}
		fam, err := buildFamily(p, pk)
		if err != nil {
			continue
		}
		for f, sf := range fam.steps {
			k := &itClient{num: newNumbering(), rec: map[*ssa.BinOp]map[int64]bool{}}
			init := itState{off: map[int]int64{k.num.id(sf.chunk): 0}, cv: map[int]int64{}}
			_, capped := WalkPaths[itState](k, f.Blocks[0], 0, init, 200000, nil)
			if capped {
				continue // not a scan of this shape
			}
			var ops []*ssa.BinOp
			for bo := range k.rec {
				ops = append(ops, bo)
			}
			sort.Slice(ops, func(i, j int) bool { return ops[i].Pos() < ops[j].Pos() })
			for i, bo := range ops {
				n++
				fkey := core.FuncKey(f)
				pos := p.Pos(bo.Pos())
				if len(k.rec[bo]) == 1 {
					r.Ok(".INDEX-TRANSLATION", pos, fkey+": window index is translated to a chunk position the same way on every path")
				} else {
					var vs []string
					for v := range k.rec[bo] {
						vs = append(vs, fmt.Sprint(v))
					}
					sort.Strings(vs)
					r.Fail(".INDEX-TRANSLATION", fmt.Sprintf("%s|translate#%d", fkey, i+1), pos, fmt.Sprintf("%s turns an index into a window of the chunk into a chunk position by a correction that differs from the window's offset by %s depending on the path: on one of them the token boundary is off by one (the window was moved without the correction following)", fkey, strings.Join(vs, " or ")), "")
				}
			}
		}
	}
	if in["json"] {
		r.Floor("window_index_translations", n, 1)
	}
}

// ---- (i) REF-VALUE-PARITY (encoders) ----
//
// OnString/OnStringRef and OnKey/OnKeyRef are the same event with the text
// passed two ways. In each encoder the two members of a pair make the same
// calls on the encoder with the same constant arguments (major type, marker
// flag, ...); only the way the text is converted differs.
func refValueParity(p *core.Prog, r *core.Result, in map[string]bool) {
	sig := func(f *ssa.Function) string {
		var calls []string
		for _, b := range f.Blocks {
			for _, ins := range b.Instrs {
				c, ok := ins.(*ssa.Call)
				if !ok {
					continue
				}
				sc := c.Common().StaticCallee()
				if sc == nil || sc.Signature.Recv() == nil || len(c.Common().Args) == 0 || c.Common().Args[0] != ssa.Value(f.Params[0]) {
					continue
				}
				var args []string
				for _, a := range c.Common().Args[1:] {
					if k, ok := a.(*ssa.Const); ok && k.Value != nil {
						args = append(args, k.Value.ExactString())
					} else if isNilConst(a) {
						args = append(args, "nil")
					} else {
						args = append(args, "_")
					}
				}
				calls = append(calls, strings.TrimSuffix(core.FuncName(sc), "Ref")+"("+strings.Join(args, ",")+")")
			}
		}
		sort.Strings(calls)
		return strings.Join(calls, " ")
	}
	n := 0
	for _, pk := range []string{"json", "cborl", "ubjson"} {
		if !in[pk] {
			continue
		}
		for _, pr := range [][2]string{{"OnString", "OnStringRef"}, {"OnKey", "OnKeyRef"}} {
			a := p.LookupFunc(pk, "(*Visitor)."+pr[0])
			b := p.LookupFunc(pk, "(*Visitor)."+pr[1])
			if a == nil || b == nil {
				r.Undecided(".REF-VALUE-PARITY", pk+"."+pr[0], "event pair not found")
				continue
			}
			n++
			sa, sb := sig(a), sig(b)
			// a by-reference event that simply forwards to its by-value twin (or the other way round) is trivially equal
			if sa == strings.TrimSuffix(pr[0], "Ref")+"(_)" || sb == strings.TrimSuffix(pr[0], "Ref")+"(_)" || sa == sb {
				r.Ok(".REF-VALUE-PARITY", p.Pos(b.Pos()), fmt.Sprintf("%s: %s and %s make the same calls with the same constants", pk, pr[0], pr[1]))
			} else {
				r.Fail(".REF-VALUE-PARITY", fmt.Sprintf("%s.(*Visitor).%s~%s", pk, pr[0], pr[1]), p.Pos(b.Pos()), fmt.Sprintf("%s: %s calls [%s] but %s calls [%s]: the same text is written differently (other major type / marker) depending on whether the producer passes it by value or by reference - parsers pass by reference, recordings and Fold by value", pk, pr[0], sa, pr[1], sb), "")
			}
		}
	}
	r.Floor("ref_value_pairs", n, 2*len([]string{"json", "cborl", "ubjson"}))
}

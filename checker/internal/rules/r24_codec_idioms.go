package rules

import (
	"fmt"
	"go/token"
	"go/types"
	"sort"
	"strings"

	"golang.org/x/tools/go/ssa"

	"sfcheck/internal/core"
)

// R24 CODEC-IDIOMS (second batch of structural invariants of the hand-written
// codecs; each is a necessary condition of a property clause, confirmed on
// today's tree):
//
// (a) RESLICE-EXTEND: a slice grows through append only. Re-slicing a slice
//     beyond its own length (x[:len(x)+k]) is legal up to cap(x) and a panic
//     beyond; without a dominating capacity test it bounds the nesting depth /
//     token size by whatever capacity the slice happens to have.
// (b) FRAME-STALE: the top entry of a parser stack (X.current) is not updated
//     after a call that may PUSH onto the same stack in the same invocation:
//     after a nested container was started, X.current is the child's entry,
//     not the entry the update was meant for.
// (c) EFFECT-BEFORE-COLLECT: a step function is re-run from its dispatch
//     point when a token turns out to be incomplete. No irreversible effect
//     (stack push/pop, update of a stack top, visitor event) may therefore
//     precede a possibly-incomplete collect() in the same invocation, unless
//     the step marker is advanced in between (so the re-run resumes behind the
//     effect).

func inPkgs(f *ssa.Function, in map[string]bool) bool {
	pk := core.FuncPkg(f)
	return pk != nil && in[pk.Name()]
}

func R24(pkgs ...string) func(p *core.Prog) *core.Result {
	in := map[string]bool{}
	for _, k := range pkgs {
		in[k] = true
	}
	var parts []string
	if in["parsers"] {
		parts = append(parts, "parsers: slices grow by append only; a stack top is not updated after a call that may push the same stack; no irreversible effect precedes a possibly-incomplete collect; a suspension after a state change continues exactly where the re-entry starts")
	}
	if in["enc"] {
		parts = append(parts, "encoders: exactly one element separator per scalar value (json); text and byte payloads reach the writer whole (cborl, ubjson)")
	}
	if in["sticky"] {
		parts = append(parts, "push mode: a failed Write parks the state machine in its failure state")
	}
	return func(p *core.Prog) *core.Result {
		r := core.NewResult("R24", "structural invariants of the codecs ("+strings.Join(pkgs, ",")+") - "+strings.Join(parts, "; "))
		if in["parsers"] {
			resliceExtend(p, r, in)
			frameStale(p, r, in)
			effectBeforeCollect(p, r, in)
			resumeMatch(p, r, in)
			indexTranslation(p, r, in)
			valuelessArm(p, r, in)
			consumeExamined(p, r, in)
			eventArgChunkFree(p, r, in)
			headOfCollected(p, r, in)
			feedAll(p, r, in)
			markerSign(p, r, in)
			indefNoLength(p, r, in)
		}
		if in["enc"] {
			if in["json"] {
				separatorOnce(p, r)
			}
			payloadWhole(p, r, in)
			refValueParity(p, r, in)
		}
		if in["sticky"] {
			stickyFail(p, r, in)
		}
		return r
	}
}

// ---- (a) ----

// lenOfSame: v is len(y) (possibly + const) for a y that denotes the same
// slice as x; returns the constant added.
func lenPlusConst(v ssa.Value, x ssa.Value) (int64, bool) {
	k := int64(0)
	for {
		switch e := v.(type) {
		case *ssa.BinOp:
			if e.Op == token.ADD {
				if c, ok := constIntVal(e.Y); ok {
					k += c
					v = e.X
					continue
				}
				if c, ok := constIntVal(e.X); ok {
					k += c
					v = e.Y
					continue
				}
			}
			return 0, false
		case *ssa.Call:
			if b, ok := e.Common().Value.(*ssa.Builtin); ok && b.Name() == "len" {
				y := e.Common().Args[0]
				if y == x {
					return k, true
				}
				ky, kx := addrKey(y), addrKey(x)
				if ky != "" && ky == kx {
					return k, true
				}
			}
			return 0, false
		default:
			return 0, false
		}
	}
}

func resliceExtend(p *core.Prog, r *core.Result, in map[string]bool) {
	n := 0
	for _, f := range p.ModFuncs() {
		if !inPkgs(f, in) {
			continue
		}
		for _, b := range f.Blocks {
			for _, ins := range b.Instrs {
				sl, ok := ins.(*ssa.Slice)
				if !ok || sl.High == nil {
					continue
				}
				if _, isSlice := sl.X.Type().Underlying().(*types.Slice); !isSlice {
					continue
				}
				n++
				k, ok := lenPlusConst(sl.High, sl.X)
				if !ok || k <= 0 {
					continue
				}
				// a capacity test anywhere in the function on the same slice excuses it
				guarded := false
				for _, b2 := range f.Blocks {
					for _, i2 := range b2.Instrs {
						if c, ok := i2.(*ssa.Call); ok {
							if bi, ok := c.Common().Value.(*ssa.Builtin); ok && bi.Name() == "cap" {
								y := c.Common().Args[0]
								if y == sl.X || addrKey(y) != "" && addrKey(y) == addrKey(sl.X) {
									guarded = true
								}
							}
						}
					}
				}
				pos := p.Pos(sl.Pos())
				if guarded {
					r.Ok(".RESLICE-EXTEND", pos, core.FuncKey(f)+": re-slice beyond the length is guarded by a capacity test")
				} else {
					r.Fail(".RESLICE-EXTEND", core.FuncKey(f)+"|reslice", pos, fmt.Sprintf("%s extends a slice by re-slicing it to len+%d without a capacity test: beyond the capacity the slice happens to have (the inline backing array) this panics instead of growing", core.FuncKey(f), k), "")
				}
			}
		}
	}
	r.Stats["slice_expressions_with_upper_bound"] = n
}

// ---- (b) ----

// stackFieldOf: addr is &recv.<stack>.current (a field named current of a
// struct-typed field of the receiver whose type has push and pop); returns the
// stack field name and its named type.
func stackTopAddr(f *ssa.Function, addr ssa.Value) (string, *types.Named) {
	fa, ok := addr.(*ssa.FieldAddr)
	if !ok {
		return "", nil
	}
	st, ok := fa.X.Type().Underlying().(*types.Pointer).Elem().Underlying().(*types.Struct)
	if !ok || core.FieldName(st, fa.Field) != "current" {
		return "", nil
	}
	outer, ok := fa.X.(*ssa.FieldAddr)
	if !ok || f.Signature.Recv() == nil || len(f.Params) == 0 || outer.X != ssa.Value(f.Params[0]) {
		return "", nil
	}
	n := namedOf(fa.X.Type())
	if n == nil || !hasPushPop(n) {
		return "", nil
	}
	ost := outer.X.Type().Underlying().(*types.Pointer).Elem().Underlying().(*types.Struct)
	return core.FieldName(ost, outer.Field), n
}

func hasPushPop(n *types.Named) bool {
	ms := types.NewMethodSet(types.NewPointer(n))
	hasPush, hasPop := false, false
	for j := 0; j < ms.Len(); j++ {
		switch methodName(ms.At(j).Obj()) {
		case "push":
			hasPush = true
		case "pop":
			hasPop = true
		}
	}
	return hasPush && hasPop
}

// mayCall: f transitively (static calls within the module) calls a method
// named `name` on the stack type `on`.
func mayCallStackOp(f *ssa.Function, on *types.Named, name string, memo map[*ssa.Function]int8) bool {
	if v, ok := memo[f]; ok {
		return v == 1
	}
	memo[f] = 0
	for _, b := range f.Blocks {
		for _, in := range b.Instrs {
			c, ok := in.(ssa.CallInstruction)
			if !ok {
				continue
			}
			sc := c.Common().StaticCallee()
			if sc == nil {
				continue
			}
			if core.FuncName(sc) == name && sc.Signature.Recv() != nil && namedOf(sc.Signature.Recv().Type()) == on {
				memo[f] = 1
				return true
			}
			if core.FuncPkg(sc) == core.FuncPkg(f) && mayCallStackOp(sc, on, name, memo) {
				memo[f] = 1
				return true
			}
		}
	}
	return false
}

func frameStale(p *core.Prog, r *core.Result, in map[string]bool) {
	n := 0
	memos := map[*types.Named]map[*ssa.Function]int8{}
	for _, f := range p.ModFuncs() {
		if !inPkgs(f, in) {
			continue
		}
		for _, b := range f.Blocks {
			for _, ins := range b.Instrs {
				st, ok := ins.(*ssa.Store)
				if !ok {
					continue
				}
				field, stackT := stackTopAddr(f, st.Addr)
				if stackT == nil {
					continue
				}
				// read-modify-write of the top entry
				bo, ok := st.Val.(*ssa.BinOp)
				if !ok {
					continue
				}
				rmw := false
				for _, op := range []ssa.Value{bo.X, bo.Y} {
					if ld, ok := op.(*ssa.UnOp); ok && ld.Op == token.MUL && addrKey(ld.X) != "" && addrKey(ld.X) == addrKey(st.Addr) {
						rmw = true
					}
				}
				if !rmw {
					continue
				}
				n++
				if memos[stackT] == nil {
					memos[stackT] = map[*ssa.Function]int8{}
				}
				bad := ""
				for _, b2 := range f.Blocks {
					for _, i2 := range b2.Instrs {
						c, ok := i2.(ssa.CallInstruction)
						if !ok {
							continue
						}
						sc := c.Common().StaticCallee()
						if sc == nil || core.FuncPkg(sc) != core.FuncPkg(f) {
							continue
						}
						pushes := core.FuncName(sc) == "push" && sc.Signature.Recv() != nil && namedOf(sc.Signature.Recv().Type()) == stackT
						if !pushes && !mayCallStackOp(sc, stackT, "push", memos[stackT]) {
							continue
						}
						if reaches(i2, st) {
							bad = fmt.Sprintf("%s (which may push onto the %s stack) at %s", core.FuncKey(sc), field, p.Pos(c.Pos()))
						}
					}
				}
				pos := p.Pos(st.Pos())
				if bad == "" {
					r.Ok(".FRAME-STALE", pos, fmt.Sprintf("%s: %s.current is updated before anything in this invocation can push onto the stack", core.FuncKey(f), field))
				} else {
					r.Fail(".FRAME-STALE", fmt.Sprintf("%s|%s.current", core.FuncKey(f), field), pos, fmt.Sprintf("%s updates %s.current after calling %s: if the call started a nested container, the top of the stack is the child's entry and the update (element countdown) hits the wrong container", core.FuncKey(f), field, bad), "")
				}
			}
		}
	}
	if in["cborl"] || in["ubjson"] {
		r.Floor("stack_top_updates", n, 2)
	}
}

// ---- (c) ----

// collectLike: calls that may report an incomplete token and ask for a re-run:
// (*Parser).collect and thin wrappers around it (no stores, no other module calls).
func collectLike(p *core.Prog, pkg string) map[*ssa.Function]bool {
	out := map[*ssa.Function]bool{}
	col := p.LookupFunc(pkg, "(*Parser).collect")
	if col == nil {
		return out
	}
	out[col] = true
	for _, f := range p.ModFuncs() {
		pk := core.FuncPkg(f)
		if pk == nil || pk.Name() != pkg || f == col {
			continue
		}
		calls, other := false, false
		for _, b := range f.Blocks {
			for _, in := range b.Instrs {
				switch x := in.(type) {
				case *ssa.Store:
					other = true
				case ssa.CallInstruction:
					sc := x.Common().StaticCallee()
					if sc == col {
						calls = true
					} else if sc == nil || core.FuncPkg(sc) == pk {
						if _, isB := x.Common().Value.(*ssa.Builtin); !isB {
							other = true
						}
					}
				}
			}
		}
		if calls && !other {
			out[f] = true
		}
	}
	return out
}

func effectBeforeCollect(p *core.Prog, r *core.Result, in map[string]bool) {
	n := 0
	for _, pk := range []string{"cborl", "ubjson"} {
		if !in[pk] {
			continue
		}
		cl := collectLike(p, pk)
		if len(cl) == 0 {
			r.Undecided(".EFFECT-BEFORE-COLLECT", pk+".collect", "collect not found")
			continue
		}
		for _, f := range p.ModFuncs() {
			fp := core.FuncPkg(f)
			if fp == nil || fp.Name() != pk || cl[f] || f.Signature.Recv() == nil {
				continue
			}
			for _, b := range f.Blocks {
				for _, ins := range b.Instrs {
					call, ok := ins.(*ssa.Call)
					if !ok || !cl[call.Common().StaticCallee()] {
						continue
					}
					n++
					bad := ""
					for _, b2 := range f.Blocks {
						for _, i2 := range b2.Instrs {
							what := ""
							switch x := i2.(type) {
							case *ssa.Store:
								if fld, st := stackTopAddr(f, x.Addr); st != nil {
									what = "update of " + fld + ".current"
								}
							case *ssa.Call:
								cc := x.Common()
								if cc.IsInvoke() && strings.HasPrefix(cc.Method.Name(), "On") {
									what = "visitor event " + cc.Method.Name()
								} else if sc := cc.StaticCallee(); sc != nil && sc.Signature.Recv() != nil && (core.FuncName(sc) == "push" || core.FuncName(sc) == "pop") && namedOf(sc.Signature.Recv().Type()) != nil && hasPushPop(namedOf(sc.Signature.Recv().Type())) {
									what = namedOf(sc.Signature.Recv().Type()).Obj().Name() + "." + core.FuncName(sc)
								} else if sc != nil && core.FuncPkg(sc) == fp && (strings.HasPrefix(core.FuncName(sc), "pop") || strings.HasPrefix(core.FuncName(sc), "push")) {
									what = core.FuncName(sc)
								}
							}
							if what == "" || i2 == ssa.Instruction(call) {
								continue
							}
							if !reachesForward(i2, call) {
								continue
							}
							bad = what + " at " + p.Pos(token.Pos(instrPos(i2)))
						}
					}
					pos := p.Pos(call.Pos())
					if bad == "" {
						r.Ok(".EFFECT-BEFORE-COLLECT", pos, core.FuncKey(f)+": nothing irreversible precedes this possibly-incomplete collect in the same invocation")
					} else {
						r.Fail(".EFFECT-BEFORE-COLLECT", core.FuncKey(f)+"|"+strings.SplitN(bad, " at ", 2)[0], pos, fmt.Sprintf("%s: %s precedes a collect that may find the token incomplete; the step is then re-run from the top with the next chunk and the effect happens a second time (the result depends on where the input was cut)", core.FuncKey(f), bad), "")
					}
				}
			}
		}
	}
	if in["cborl"] || in["ubjson"] {
		r.Floor("collect_call_sites", n, 8)
	}
}

// reachesForward: b can execute after a without taking a loop back edge.
func reachesForward(a, b ssa.Instruction) bool {
	ba, bb := a.Block(), b.Block()
	if ba == bb {
		ia, ib := -1, -1
		for i, in := range ba.Instrs {
			if in == a {
				ia = i
			}
			if in == b {
				ib = i
			}
		}
		return ia < ib
	}
	seen := map[*ssa.BasicBlock]bool{}
	var work []*ssa.BasicBlock
	push := func(from *ssa.BasicBlock) {
		for _, s := range from.Succs {
			if isBackEdge(s, predIndex(s, from)) {
				continue
			}
			work = append(work, s)
		}
	}
	push(ba)
	for len(work) > 0 {
		x := work[len(work)-1]
		work = work[:len(work)-1]
		if seen[x] {
			continue
		}
		seen[x] = true
		if x == bb {
			return true
		}
		push(x)
	}
	return false
}

// ---- (d) RESUME-MATCH ----
//
// In a dispatcher arm that has already moved the machine to state S' and then
// suspends on an empty chunk (`if len(b) == 0 { break }`), the code that runs
// when the chunk is NOT empty must be exactly what a later re-entry in state
// S' runs: the non-empty continuation has to be the arm of S' itself (a
// fallthrough). Anything in between (an event, a store) would be executed
// when the input arrives in one piece and skipped when it is cut right there.

type rmState struct {
	in, cur int64 // 1 + state constant dispatched on / current; 0 unknown
}
type rmSusp struct {
	ifBlk       *ssa.BasicBlock
	emptyOnTrue bool
	in, cur     int64
}
type rmClient struct {
	fn    *ssa.Function
	tag   string
	chunk ssa.Value
	susp  map[string]rmSusp
}

func (k *rmClient) Key(s rmState) string                             { return fmt.Sprintf("%d|%d", s.in, s.cur) }
func (k *rmClient) Phis(s rmState, _ *ssa.BasicBlock, _ int) rmState { return s }
func (k *rmClient) Return(rmState, *ssa.Return)                      {}
func (k *rmClient) Instr(s rmState, in ssa.Instruction) (rmState, bool, []rmState) {
	switch x := in.(type) {
	case *ssa.Store:
		ak := addrKey(x.Addr)
		if i := strings.Index(ak, "."); !strings.HasPrefix(ak, "P:") || i < 0 || ak[i+1:] != k.tag {
			break
		}
		if c, ok := constIntVal(x.Val); ok {
			s.cur = c + 1
			break
		}
		if bo, ok := x.Val.(*ssa.BinOp); ok && s.cur != 0 && fieldPath(bo.X) == k.tag {
			if c, ok := constIntVal(bo.Y); ok {
				switch bo.Op {
				case token.AND:
					s.cur = ((s.cur - 1) & c) + 1
					return s, true, nil
				case token.AND_NOT:
					s.cur = ((s.cur - 1) &^ c) + 1
					return s, true, nil
				case token.OR:
					s.cur = ((s.cur - 1) | c) + 1
					return s, true, nil
				}
			}
		}
		s.cur = 0
	case ssa.CallInstruction:
		// a module callee may change the state
		if sc := x.Common().StaticCallee(); sc != nil && core.FuncPkg(sc) == core.FuncPkg(k.fn) && sc.Signature.Recv() != nil {
			s.cur = 0
		}
	}
	return s, true, nil
}
func (k *rmClient) Branch(s rmState, cond ssa.Value, outcome bool) (rmState, bool) {
	bo, ok := cond.(*ssa.BinOp)
	if !ok {
		return s, true
	}
	if bo.Op == token.EQL && fieldPath(bo.X) == k.tag {
		if c, ok := constIntVal(bo.Y); ok {
			if outcome {
				s.in, s.cur = c+1, c+1
			}
			return s, true
		}
	}
	// len(chunk) == 0 / != 0
	if call, ok := bo.X.(*ssa.Call); ok && (bo.Op == token.EQL || bo.Op == token.NEQ) && isIntConst(bo.Y, 0) {
		if bi, ok := call.Common().Value.(*ssa.Builtin); ok && bi.Name() == "len" && call.Common().Args[0] == k.chunk {
			if s.in != 0 && s.cur != 0 && s.cur != s.in && outcome {
				if refs := cond.Referrers(); refs != nil {
					for _, rf := range *refs {
						if ifi, ok := rf.(*ssa.If); ok {
							k.susp[fmt.Sprintf("%d|%d|%d", ifi.Block().Index, s.in, s.cur)] = rmSusp{ifi.Block(), bo.Op == token.EQL, s.in, s.cur}
						}
					}
				}
			}
		}
	}
	return s, true
}

func skipTrivial(b *ssa.BasicBlock) *ssa.BasicBlock {
	for i := 0; i < 8; i++ {
		if len(b.Instrs) == 1 {
			if _, ok := b.Instrs[0].(*ssa.Jump); ok {
				b = b.Succs[0]
				continue
			}
		}
		break
	}
	return b
}

func resumeMatch(p *core.Prog, r *core.Result, in map[string]bool) {
	n := 0
	for _, pk := range []string{"cborl", "ubjson", "json"} {
		if !in[pk] {
			continue
		}
		fam, err := buildFamily(p, pk)
		if err != nil {
			continue
		}
		tag := reentryTagPath(fam.feedUntil)
		if tag == "" {
			continue // this dispatcher never re-enters on an empty chunk
		}
		for f, sf := range fam.steps {
			k := &rmClient{fn: f, tag: tag, chunk: sf.chunk, susp: map[string]rmSusp{}}
			WalkPaths[rmState](k, f.Blocks[0], 0, rmState{}, 200000, nil)
			for _, sk := range sortedKeys(k.susp) {
				su := k.susp[sk]
				n++
				cont := su.ifBlk.Succs[1]
				if !su.emptyOnTrue {
					cont = su.ifBlk.Succs[0]
				}
				cont = skipTrivial(cont)
				// dispatch target of the state the machine was moved to
				var target *ssa.BasicBlock
				for _, b := range f.Blocks {
					if len(b.Instrs) == 0 {
						continue
					}
					ifi, ok := b.Instrs[len(b.Instrs)-1].(*ssa.If)
					if !ok {
						continue
					}
					bo, ok := ifi.Cond.(*ssa.BinOp)
					if !ok || bo.Op != token.EQL || fieldPath(bo.X) != tag {
						continue
					}
					if c, ok := constIntVal(bo.Y); ok && c+1 == su.cur {
						target = skipTrivial(b.Succs[0])
					}
				}
				pos := p.Pos(token.Pos(instrPos(su.ifBlk.Instrs[len(su.ifBlk.Instrs)-1])))
				key := fmt.Sprintf("%s|%#x->%#x", core.FuncKey(f), su.in-1, su.cur-1)
				switch {
				case target == nil:
					r.Fail(".RESUME-MATCH", key, pos, fmt.Sprintf("%s: the arm of state %#x moves the machine to state %#x and suspends on an empty chunk, but the dispatcher has no arm for %#x", core.FuncKey(f), su.in-1, su.cur-1, su.cur-1), "")
				case target != cont:
					r.Fail(".RESUME-MATCH", key, pos, fmt.Sprintf("%s: the arm of state %#x moves the machine to state %#x and suspends when the chunk is empty; with a non-empty chunk it goes on with code (block %d) that is not the arm of %#x (block %d): what runs in between is executed when the input arrives in one piece and skipped when it is cut exactly here", core.FuncKey(f), su.in-1, su.cur-1, cont.Index, su.cur-1, target.Index), "")
				default:
					r.Ok(".RESUME-MATCH", pos, fmt.Sprintf("%s: suspension in state %#x after moving to %#x continues exactly where a re-entry in %#x starts", core.FuncKey(f), su.in-1, su.cur-1, su.cur-1))
				}
			}
		}
	}
	if in["cborl"] {
		r.Floor("suspensions_after_state_change", n, 2)
	}
}

// ---- call counting on success paths ----

type ccState struct {
	n      int
	nonnil valueSet
}
type ccCtx struct {
	target *ssa.Function
	sums   map[*ssa.Function]map[int]bool
	busy   map[*ssa.Function]bool
}
type ccClient struct {
	c   *ccCtx
	fn  *ssa.Function
	num *valueNumbering
	out map[int]bool
}

func (k *ccClient) Key(s ccState) string { return fmt.Sprintf("%d|%s", s.n, s.nonnil.key()) }
func (k *ccClient) Phis(s ccState, blk *ssa.BasicBlock, pred int) ccState {
	type upd struct {
		id     int
		nonnil bool
	}
	var ups []upd
	for _, in := range blk.Instrs {
		phi, ok := in.(*ssa.Phi)
		if !ok {
			break
		}
		if pred < 0 || pred >= len(phi.Edges) {
			continue
		}
		e := phi.Edges[pred]
		ups = append(ups, upd{k.num.id(phi), s.nonnil.has(k.num.id(e)) || definitelyNonNilError(e)})
	}
	for _, u := range ups {
		s.nonnil = s.nonnil.without(u.id)
		if u.nonnil {
			s.nonnil = s.nonnil.with(u.id)
		}
	}
	return s
}
func (k *ccClient) Instr(s ccState, in ssa.Instruction) (ccState, bool, []ccState) {
	c, ok := in.(*ssa.Call)
	if !ok {
		return s, true, nil
	}
	sc := c.Common().StaticCallee()
	if sc == nil {
		return s, true, nil
	}
	if sc == k.c.target {
		if s.n < 3 {
			s.n++
		}
		return s, true, nil
	}
	if sc.Signature.Recv() == nil || k.fn.Signature.Recv() == nil || len(c.Common().Args) == 0 || c.Common().Args[0] != ssa.Value(k.fn.Params[0]) {
		return s, true, nil
	}
	sum := k.c.counts(sc)
	if sum == nil {
		return s, true, nil
	}
	var outs []ccState
	for n := 0; n <= 3; n++ {
		if sum[n] {
			ns := s
			ns.n += n
			if ns.n > 3 {
				ns.n = 3
			}
			outs = append(outs, ns)
		}
	}
	if len(outs) == 0 {
		return s, false, nil
	}
	return outs[0], true, outs[1:]
}
func (k *ccClient) Branch(s ccState, cond ssa.Value, outcome bool) (ccState, bool) {
	if x, trueMeansNil, ok := nilTest(cond); ok && isErrorType(x.Type()) {
		isNil := outcome == trueMeansNil
		if isNil && s.nonnil.has(k.num.id(x)) {
			return s, false
		}
		if !isNil {
			s.nonnil = s.nonnil.with(k.num.id(x))
		}
	}
	return s, true
}
func (k *ccClient) Return(s ccState, ret *ssa.Return) {
	if ei := errResultIndex(k.fn.Signature); ei >= 0 {
		rv := ret.Results[ei]
		if definitelyNonNilError(rv) || s.nonnil.has(k.num.id(rv)) {
			return
		}
	}
	k.out[s.n] = true
}

// counts: how many times target is called on the success paths of f
// (0,1,2,3+), following static calls on the same receiver.
func (c *ccCtx) counts(f *ssa.Function) map[int]bool {
	if s, ok := c.sums[f]; ok {
		return s
	}
	if c.busy[f] || f.Blocks == nil {
		return nil
	}
	c.busy[f] = true
	defer delete(c.busy, f)
	k := &ccClient{c: c, fn: f, num: newNumbering(), out: map[int]bool{}}
	_, capped := WalkPaths[ccState](k, f.Blocks[0], 0, ccState{}, 200000, nil)
	if capped {
		c.sums[f] = nil
		return nil
	}
	c.sums[f] = k.out
	return k.out
}

// ---- (e) SEPARATOR-ONCE (json encoder) ----
//
// Every scalar event writes exactly one value, so the element-separator logic
// (tryElemNext: the ',' between array elements) runs exactly once on every
// path that can succeed - none would glue two values together, two would
// write an empty element.

func separatorOnce(p *core.Prog, r *core.Result) {
	sep := p.LookupFunc("json", "(*Visitor).tryElemNext")
	if sep == nil {
		r.Undecided(".SEPARATOR-ONCE", "json.(*Visitor).tryElemNext", "element separator function not found")
		return
	}
	c := &ccCtx{target: sep, sums: map[*ssa.Function]map[int]bool{}, busy: map[*ssa.Function]bool{}}
	n := 0
	for _, ev := range scalarEvents {
		f := p.LookupFunc("json", "(*Visitor)."+ev)
		if f == nil {
			r.Undecided(".SEPARATOR-ONCE", "json.(*Visitor)."+ev, "event method not found")
			continue
		}
		n++
		cs := c.counts(f)
		fkey := core.FuncKey(f)
		switch {
		case cs == nil:
			r.Undecided(".SEPARATOR-ONCE", fkey, "paths of "+fkey+" could not be enumerated")
		case len(cs) == 1 && cs[1]:
			r.Ok(".SEPARATOR-ONCE", p.Pos(f.Pos()), fkey+": the element separator logic runs exactly once on every path that can succeed")
		default:
			var got []string
			for i := 0; i <= 3; i++ {
				if cs[i] {
					got = append(got, fmt.Sprint(i))
				}
			}
			r.Fail(".SEPARATOR-ONCE", fkey+"|count", p.Pos(f.Pos()), fmt.Sprintf("%s runs the element separator logic %s times on some path that can succeed (must be exactly once per value: 0 glues two array elements together, 2 writes an empty element ',,')", fkey, strings.Join(got, " or ")), "")
		}
	}
	r.Floor("json_scalar_events", n, 17)
}

// ---- (f) PAYLOAD-WHOLE (cborl / ubjson encoders) ----
//
// The binary encoders write text and byte payloads verbatim after a length
// prefix. On every path that can succeed, the payload parameter reaches the
// output writer as a whole (not through a bounded scratch copy, not
// re-sliced), or is known to be empty.

type pwState struct {
	done   bool
	nonnil valueSet
}
type pwCtx struct {
	p    *core.Prog
	sums map[string]int8 // func|param -> 1 whole, 2 not
	busy map[string]bool
}
type pwClient struct {
	c   *pwCtx
	fn  *ssa.Function
	prm ssa.Value
	num *valueNumbering
	bad string
}

// wholeOf: v is the payload itself or a zero-copy/converted view of all of it.
func (k *pwClient) wholeOf(v ssa.Value) bool {
	for i := 0; i < 6; i++ {
		if v == k.prm {
			return true
		}
		switch x := v.(type) {
		case *ssa.Convert:
			v = x.X
		case *ssa.ChangeType:
			v = x.X
		case *ssa.Call:
			sc := x.Common().StaticCallee()
			if sc != nil && (core.FuncName(sc) == "str2Bytes" || core.FuncName(sc) == "bytes2Str" || core.FuncName(sc) == "Str2Bytes" || core.FuncName(sc) == "Bytes2Str") && len(x.Common().Args) == 1 {
				v = x.Common().Args[0]
				continue
			}
			return false
		default:
			return false
		}
	}
	return false
}

func (k *pwClient) Key(s pwState) string { return fmt.Sprintf("%v|%s", s.done, s.nonnil.key()) }
func (k *pwClient) Phis(s pwState, blk *ssa.BasicBlock, pred int) pwState {
	type upd struct {
		id     int
		nonnil bool
	}
	var ups []upd
	for _, in := range blk.Instrs {
		phi, ok := in.(*ssa.Phi)
		if !ok {
			break
		}
		if pred < 0 || pred >= len(phi.Edges) {
			continue
		}
		e := phi.Edges[pred]
		ups = append(ups, upd{k.num.id(phi), s.nonnil.has(k.num.id(e)) || definitelyNonNilError(e)})
	}
	for _, u := range ups {
		s.nonnil = s.nonnil.without(u.id)
		if u.nonnil {
			s.nonnil = s.nonnil.with(u.id)
		}
	}
	return s
}
func (k *pwClient) Instr(s pwState, in ssa.Instruction) (pwState, bool, []pwState) {
	c, ok := in.(*ssa.Call)
	if !ok {
		return s, true, nil
	}
	sc := c.Common().StaticCallee()
	if sc == nil {
		return s, true, nil
	}
	for ai, a := range c.Common().Args {
		if !k.wholeOf(a) {
			continue
		}
		if core.FuncName(sc) == "write" || core.FuncName(sc) == "Write" {
			s.done = true
		} else if core.FuncPkg(sc) == core.FuncPkg(k.fn) && ai < len(sc.Params) && k.c.whole(sc, ai) {
			s.done = true
		}
	}
	return s, true, nil
}
func (k *pwClient) Branch(s pwState, cond ssa.Value, outcome bool) (pwState, bool) {
	if x, trueMeansNil, ok := nilTest(cond); ok && isErrorType(x.Type()) {
		isNil := outcome == trueMeansNil
		if isNil && s.nonnil.has(k.num.id(x)) {
			return s, false
		}
		if !isNil {
			s.nonnil = s.nonnil.with(k.num.id(x))
		}
	}
	// len(payload) == 0
	if bo, ok := cond.(*ssa.BinOp); ok && (bo.Op == token.EQL || bo.Op == token.NEQ) && isIntConst(bo.Y, 0) {
		if call, ok := bo.X.(*ssa.Call); ok {
			if bi, ok := call.Common().Value.(*ssa.Builtin); ok && bi.Name() == "len" && k.wholeOf(call.Common().Args[0]) {
				if outcome == (bo.Op == token.EQL) {
					s.done = true // nothing to write
				}
			}
		}
	}
	return s, true
}
func (k *pwClient) Return(s pwState, ret *ssa.Return) {
	if ei := errResultIndex(k.fn.Signature); ei >= 0 {
		rv := ret.Results[ei]
		if definitelyNonNilError(rv) || s.nonnil.has(k.num.id(rv)) {
			return
		}
	}
	if !s.done {
		k.bad = "a path that can succeed returns at " + k.c.p.Pos(token.Pos(instrPos(ret))) + " without having handed the whole payload to the writer"
	}
}

func (c *pwCtx) whole(f *ssa.Function, pi int) bool {
	key := fmt.Sprintf("%p|%d", f, pi)
	if v, ok := c.sums[key]; ok {
		return v == 1
	}
	if c.busy[key] || f.Blocks == nil || pi >= len(f.Params) {
		return false
	}
	c.busy[key] = true
	defer delete(c.busy, key)
	k := &pwClient{c: c, fn: f, prm: f.Params[pi], num: newNumbering()}
	_, capped := WalkPaths[pwState](k, f.Blocks[0], 0, pwState{}, 100000, nil)
	if capped || k.bad != "" {
		c.sums[key] = 2
		return false
	}
	c.sums[key] = 1
	return true
}

func (c *pwCtx) why(f *ssa.Function, pi int) string {
	k := &pwClient{c: c, fn: f, prm: f.Params[pi], num: newNumbering()}
	WalkPaths[pwState](k, f.Blocks[0], 0, pwState{}, 100000, nil)
	return k.bad
}

func payloadWhole(p *core.Prog, r *core.Result, in map[string]bool) {
	n := 0
	for _, pk := range []string{"cborl", "ubjson"} {
		if !in[pk] {
			continue
		}
		c := &pwCtx{p: p, sums: map[string]int8{}, busy: map[string]bool{}}
		for _, name := range []string{"OnString", "OnStringRef", "OnKey", "OnKeyRef"} {
			f := p.LookupFunc(pk, "(*Visitor)."+name)
			if f == nil {
				r.Undecided(".PAYLOAD-WHOLE", pk+".(*Visitor)."+name, "event method not found")
				continue
			}
			n++
			fkey := core.FuncKey(f)
			if c.whole(f, 1) {
				r.Ok(".PAYLOAD-WHOLE", p.Pos(f.Pos()), fkey+": the payload reaches the writer whole (or is empty) on every path that can succeed")
				continue
			}
			// name the innermost function that loses it
			why, where := c.why(f, 1), fkey
			seen := map[*ssa.Function]bool{}
			var dig func(g *ssa.Function, pi int)
			dig = func(g *ssa.Function, pi int) {
				if seen[g] {
					return
				}
				seen[g] = true
				k := &pwClient{c: c, fn: g, prm: g.Params[pi], num: newNumbering()}
				for _, b := range g.Blocks {
					for _, ins := range b.Instrs {
						call, ok := ins.(*ssa.Call)
						if !ok {
							continue
						}
						sc := call.Common().StaticCallee()
						if sc == nil || core.FuncPkg(sc) != core.FuncPkg(g) {
							continue
						}
						for ai, a := range call.Common().Args {
							if k.wholeOf(a) && ai < len(sc.Params) && !c.whole(sc, ai) {
								why, where = c.why(sc, ai), core.FuncKey(sc)
								dig(sc, ai)
							}
						}
					}
				}
			}
			dig(f, 1)
			r.Fail(".PAYLOAD-WHOLE", fkey+"|payload", p.Pos(f.Pos()), fmt.Sprintf("%s: in %s %s (a bounded scratch copy or a re-slice silently truncates long payloads)", fkey, where, why), "")
		}
	}
	r.Floor("payload_events", n, 4)
}

// ---- (g) STICKY-FAIL (push-mode parsers) ----
//
// Parser.Write is the io.Writer face of a parser: a document arrives in many
// writes. When one of them fails (visitor error, malformed input) the state
// machine is parked in its failure state before the error is returned, so
// that a caller who keeps writing (io.MultiWriter, a logger that ignores
// errors) gets the stored error back and the visitor sees nothing more of the
// failed document.

// frozen: the failure-state constant of each parser (confirmed by reading:
// the dispatcher arm of this state returns the stored error without touching
// the visitor).
var failStateConst = map[string]string{"json": "failedState", "cborl": "stFail", "ubjson": "stFail"}

type sfState struct {
	parked bool
	nnmem  stringSet
}
type sfClient struct {
	p       *core.Prog
	fn      *ssa.Function
	failVal int64
	bad     string
}

func (k *sfClient) Key(s sfState) string                             { return fmt.Sprintf("%v|%s", s.parked, s.nnmem.key()) }
func (k *sfClient) Phis(s sfState, _ *ssa.BasicBlock, _ int) sfState { return s }
func (k *sfClient) isFailValue(v ssa.Value, depth int) bool {
	if depth > 4 {
		return false
	}
	if c, ok := constIntVal(v); ok {
		return c == k.failVal
	}
	if ld, ok := v.(*ssa.UnOp); ok && ld.Op == token.MUL {
		if a, ok := ld.X.(*ssa.Alloc); ok {
			for _, sv := range storedInto(a) {
				if k.isFailValue(sv, depth+1) {
					return true
				}
			}
		}
	}
	return false
}
func (k *sfClient) Instr(s sfState, in ssa.Instruction) (sfState, bool, []sfState) {
	switch x := in.(type) {
	case *ssa.Store:
		if rootedAt(x.Addr, k.fn.Params[0]) {
			if k.isFailValue(x.Val, 0) {
				s.parked = true
			}
			// a new value in a field forgets what was known about it
			if ak := addrKey(x.Addr); ak != "" {
				s.nnmem = s.nnmem.without(ak)
			}
		}
	}
	return s, true, nil
}
func (k *sfClient) Branch(s sfState, cond ssa.Value, outcome bool) (sfState, bool) {
	if x, trueMeansNil, ok := nilTest(cond); ok && isErrorType(x.Type()) {
		if ld, ok := x.(*ssa.UnOp); ok && ld.Op == token.MUL {
			if ak := addrKey(ld.X); ak != "" && outcome != trueMeansNil {
				s.nnmem = s.nnmem.with(ak)
			}
		}
	}
	return s, true
}
func (k *sfClient) Return(s sfState, ret *ssa.Return) {
	ei := errResultIndex(k.fn.Signature)
	if ei < 0 {
		return
	}
	rv := ret.Results[ei]
	failing := definitelyNonNilError(rv)
	if ld, ok := rv.(*ssa.UnOp); ok && ld.Op == token.MUL && s.nnmem.has(addrKey(ld.X)) {
		failing = true
	}
	if failing && !s.parked {
		k.bad = "returns a non-nil error at " + k.p.Pos(token.Pos(instrPos(ret))) + " without having stored the failure state"
	}
}

func stickyFail(p *core.Prog, r *core.Result, in map[string]bool) {
	n := 0
	for _, pk := range []string{"json", "cborl", "ubjson"} {
		if !in[pk] {
			continue
		}
		f := p.LookupFunc(pk, "(*Parser).Write")
		sp := p.SPkgs[pk]
		if f == nil || sp == nil {
			r.Undecided(".STICKY-FAIL", pk+".(*Parser).Write", "push-mode entry point not found")
			continue
		}
		nc := p.Const(pk, failStateConst[pk])
		if nc == nil {
			r.Undecided(".STICKY-FAIL", pk+"."+failStateConst[pk], "failure-state constant not found")
			continue
		}
		fv, ok := constIntVal(nc.Value)
		if !ok {
			r.Undecided(".STICKY-FAIL", pk+"."+failStateConst[pk], "failure-state constant is not an integer")
			continue
		}
		n++
		k := &sfClient{p: p, fn: f, failVal: fv}
		_, capped := WalkPaths[sfState](k, f.Blocks[0], 0, sfState{}, 100000, nil)
		fkey := core.FuncKey(f)
		switch {
		case capped:
			r.Undecided(".STICKY-FAIL", fkey, "state cap hit")
		case k.bad == "":
			r.Ok(".STICKY-FAIL", p.Pos(f.Pos()), fkey+": every failing return is preceded by a store of "+failStateConst[pk]+" into the parser")
		default:
			r.Fail(".STICKY-FAIL", fkey+"|park", p.Pos(f.Pos()), fkey+" "+k.bad+" ("+failStateConst[pk]+"): the machine stays where the failed event left it, and the next Write resumes the failed document and delivers further (mis-framed) events to the visitor that already failed", "")
		}
	}
	r.Floor("push_mode_entry_points", n, 3)
	failParks(p, r, in)
}

// ---- (g2) FAIL-PARKS (every entry point that feeds the machine) ----
//
// The same holds for every way into the machine, not only Write: an error of
// the dispatcher (a visitor error, malformed input) leaves the machine in the
// middle of the failed document, and a caller that goes on - the next Next of
// a pull decoder, a Write after a failed Parse, the next Parse of the binary
// parsers, which do not reset - resumes that document: the visitor that just
// failed gets further, mis-framed events, and the stacks the failed step left
// half updated are used again (cborl: a length entry of -1 sizes a slice).
// Decided as: the dispatcher parks the machine on every failing return, or
// else every exported function that can return the dispatcher's error does so
// only after parking. Unexported helpers that hand the error on pass the
// obligation to their callers.

type fpState struct {
	parked        bool
	feedErr       valueSet // values that are the error of a not-parking feed call
	nonnil, isnil valueSet
	feMem, nilMem stringSet // fields holding such an error / known to hold nil
}
type fpClient struct {
	p       *core.Prog
	fn      *ssa.Function
	num     *valueNumbering
	failVal int64
	family  map[*ssa.Function]bool // returns the dispatcher's error without parking
	bad     string
	leaks   bool // some return may carry an un-parked dispatcher error
	own     bool // fn is the dispatcher: every error it returns counts
	anyCall bool // end-of-input check: the error of any call (a visitor event, a helper that delivers events) counts
	// the named type of the failure-state constant (nil if it is a plain integer type): a branch on
	// <state field> == <failure state> establishes that the machine is parked already
	failType types.Type
}

func (k *fpClient) Key(s fpState) string {
	return fmt.Sprintf("%v|%s|%s|%s|%s|%s", s.parked, s.feedErr.key(), s.nonnil.key(), s.isnil.key(), s.feMem.key(), s.nilMem.key())
}
func (k *fpClient) Phis(s fpState, blk *ssa.BasicBlock, pred int) fpState {
	type upd struct {
		id            int
		fe, nn, isnil bool
	}
	var ups []upd
	for _, in := range blk.Instrs {
		phi, ok := in.(*ssa.Phi)
		if !ok {
			break
		}
		if pred < 0 || pred >= len(phi.Edges) {
			continue
		}
		e := phi.Edges[pred]
		id := k.num.id(e)
		ups = append(ups, upd{k.num.id(phi), s.feedErr.has(id), s.nonnil.has(id) || definitelyNonNilError(e), s.isnil.has(id) || isNilConst(e)})
	}
	set := func(vs valueSet, id int, on bool) valueSet {
		if on {
			return vs.with(id)
		}
		return vs.without(id)
	}
	for _, u := range ups {
		s.feedErr, s.nonnil, s.isnil = set(s.feedErr, u.id, u.fe), set(s.nonnil, u.id, u.nn), set(s.isnil, u.id, u.isnil)
	}
	return s
}
func (k *fpClient) isFailValue(v ssa.Value, depth int) bool {
	if depth > 4 {
		return false
	}
	if c, ok := constIntVal(v); ok {
		return c == k.failVal
	}
	if ld, ok := v.(*ssa.UnOp); ok && ld.Op == token.MUL {
		if a, ok := ld.X.(*ssa.Alloc); ok {
			for _, sv := range storedInto(a) {
				if k.isFailValue(sv, depth+1) {
					return true
				}
			}
		}
	}
	return false
}
func (k *fpClient) Instr(s fpState, in ssa.Instruction) (fpState, bool, []fpState) {
	switch x := in.(type) {
	case *ssa.Store:
		if len(k.fn.Params) > 0 && rootedAt(x.Addr, k.fn.Params[0]) && k.isFailValue(x.Val, 0) {
			s.parked = true
		}
		if ak := addrKey(x.Addr); ak != "" && isErrorType(x.Val.Type()) {
			s.feMem, s.nilMem = s.feMem.without(ak), s.nilMem.without(ak)
			if s.feedErr.has(k.num.id(x.Val)) {
				s.feMem = s.feMem.with(ak)
			}
			if isNilConst(x.Val) || s.isnil.has(k.num.id(x.Val)) {
				s.nilMem = s.nilMem.with(ak)
			}
		}
	case *ssa.UnOp:
		if x.Op == token.MUL && isErrorType(x.Type()) {
			if ak := addrKey(x.X); ak != "" {
				id := k.num.id(x)
				s.feedErr, s.isnil = s.feedErr.without(id), s.isnil.without(id)
				if s.feMem.has(ak) {
					s.feedErr = s.feedErr.with(id)
				}
				if s.nilMem.has(ak) {
					s.isnil = s.isnil.with(id)
				}
			}
		}
	case *ssa.Call:
		sc := x.Common().StaticCallee()
		if k.anyCall && !(sc != nil && k.family[sc]) {
			if _, isB := x.Common().Value.(*ssa.Builtin); isB {
				break
			}
			if isErrorType(x.Type()) {
				s.feedErr = s.feedErr.with(k.num.id(x))
			}
			if refs := x.Referrers(); refs != nil {
				for _, rf := range *refs {
					if ex, ok := rf.(*ssa.Extract); ok && isErrorType(ex.Type()) {
						s.feedErr = s.feedErr.with(k.num.id(ex))
					}
				}
			}
			break
		}
		if sc == nil || !k.family[sc] {
			break
		}
		// a new attempt: what an earlier attempt parked does not cover this one
		s.parked = false
		ei := errResultIndex(sc.Signature)
		if refs := x.Referrers(); refs != nil && ei >= 0 {
			for _, rf := range *refs {
				if ex, ok := rf.(*ssa.Extract); ok && ex.Index == ei {
					s.feedErr = s.feedErr.with(k.num.id(ex))
				}
			}
		}
		if sc.Signature.Results().Len() == 1 && ei == 0 {
			s.feedErr = s.feedErr.with(k.num.id(x))
		}
	}
	return s, true, nil
}
func (k *fpClient) Branch(s fpState, cond ssa.Value, outcome bool) (fpState, bool) {
	for {
		u, ok := cond.(*ssa.UnOp)
		if !ok || u.Op != token.NOT {
			break
		}
		cond, outcome = u.X, !outcome
	}
	if bo, ok := cond.(*ssa.BinOp); ok && bo.Op == token.EQL && outcome && k.failType != nil && len(k.fn.Params) > 0 {
		for _, pr := range [][2]ssa.Value{{bo.X, bo.Y}, {bo.Y, bo.X}} {
			if c, ok := constIntVal(pr[1]); ok && c == k.failVal && types.Identical(pr[0].Type(), k.failType) {
				if ld, ok := pr[0].(*ssa.UnOp); ok && ld.Op == token.MUL && rootedAt(ld.X, k.fn.Params[0]) {
					s.parked = true
				}
			}
		}
	}
	if x, trueMeansNil, ok := nilTest(cond); ok && isErrorType(x.Type()) {
		id := k.num.id(x)
		isNil := outcome == trueMeansNil
		if isNil && (s.nonnil.has(id) || definitelyNonNilError(x)) || !isNil && s.isnil.has(id) {
			return s, false
		}
		if isNil {
			s.isnil = s.isnil.with(id)
		} else {
			s.nonnil = s.nonnil.with(id)
		}
		if ld, ok := x.(*ssa.UnOp); ok && ld.Op == token.MUL {
			if ak := addrKey(ld.X); ak != "" {
				if isNil {
					s.nilMem = s.nilMem.with(ak)
				} else {
					s.nilMem = s.nilMem.without(ak)
				}
			}
		}
	}
	return s, true
}
func (k *fpClient) Return(s fpState, ret *ssa.Return) {
	ei := errResultIndex(k.fn.Signature)
	if ei < 0 {
		return
	}
	rv := ret.Results[ei]
	id := k.num.id(rv)
	if isNilConst(rv) || s.isnil.has(id) {
		return
	}
	carries := s.feedErr.has(id)
	if k.own {
		carries = true
	}
	if carries && !s.parked {
		k.leaks = true
		if k.bad == "" {
			k.bad = "can return the dispatcher's error at " + k.p.Pos(token.Pos(instrPos(ret))) + " without the machine having been parked in its failure state"
		}
	}
}

func failParks(p *core.Prog, r *core.Result, in map[string]bool) {
	n := 0
	for _, pk := range []string{"json", "cborl", "ubjson"} {
		if !in[pk] {
			continue
		}
		fam, err := buildFamily(p, pk)
		nc := p.Const(pk, failStateConst[pk])
		if err != nil || nc == nil {
			r.Undecided(".FAIL-PARKS", pk, "dispatcher or failure-state constant not found")
			continue
		}
		fv, ok := constIntVal(nc.Value)
		if !ok {
			continue
		}
		var failType types.Type
		if _, isNamed := nc.Type().(*types.Named); isNamed {
			failType = nc.Type()
		}
		run := func(f *ssa.Function, family map[*ssa.Function]bool, own bool) (*fpClient, bool) {
			k := &fpClient{p: p, fn: f, num: newNumbering(), failVal: fv, family: family, own: own, failType: failType}
			_, capped := WalkPaths[fpState](k, f.Blocks[0], 0, fpState{}, 200000, nil)
			return k, capped
		}
		// the end-of-input check may deliver events of its own (a pending number, containers that need no more
		// input): a visitor error there parks the machine as well
		if fin := p.LookupFunc(pk, "(*Parser).finalize"); fin != nil {
			k := &fpClient{p: p, fn: fin, num: newNumbering(), failVal: fv, family: map[*ssa.Function]bool{}, anyCall: true}
			_, capped := WalkPaths[fpState](k, fin.Blocks[0], 0, fpState{}, 200000, nil)
			n++
			switch {
			case capped:
				r.Undecided(".FAIL-PARKS", core.FuncKey(fin), "state cap hit")
			case !k.leaks:
				r.Ok(".FAIL-PARKS", p.Pos(fin.Pos()), core.FuncKey(fin)+": an error of an event delivered at end of input is returned only after the machine was parked")
			default:
				r.Fail(".FAIL-PARKS", core.FuncKey(fin)+"|park", p.Pos(fin.Pos()), core.FuncKey(fin)+" "+strings.Replace(k.bad, "the dispatcher's error", "the error of an event it delivered at end of input", 1)+" ("+failStateConst[pk]+"): a caller that goes on (the next Next, a Write) gets the events of the failed document again", "")
			}
		}
		fu := fam.feedUntil
		k0, capped := run(fu, map[*ssa.Function]bool{}, true)
		if capped {
			r.Undecided(".FAIL-PARKS", core.FuncKey(fu), "state cap hit")
			continue
		}
		if !k0.leaks {
			n++
			r.Ok(".FAIL-PARKS", p.Pos(fu.Pos()), core.FuncKey(fu)+": every failing return of the dispatcher is behind a store of "+failStateConst[pk]+": no entry point can resume a failed document")
			continue
		}
		// the dispatcher does not park: everybody who can return its error must
		family := map[*ssa.Function]bool{fu: true}
		var pkgFuncs []*ssa.Function
		for _, g := range p.ModFuncs() {
			if gp := core.FuncPkg(g); gp != nil && gp.Name() == pk && g.Blocks != nil && g.Parent() == nil {
				pkgFuncs = append(pkgFuncs, g)
			}
		}
		sort.Slice(pkgFuncs, func(i, j int) bool { return pkgFuncs[i].Pos() < pkgFuncs[j].Pos() })
		calls := func(g *ssa.Function) bool {
			for _, b := range g.Blocks {
				for _, i := range b.Instrs {
					if c, ok := i.(*ssa.Call); ok && c.Common().StaticCallee() != nil && family[c.Common().StaticCallee()] {
						return true
					}
				}
			}
			return false
		}
		for changed := true; changed; {
			changed = false
			for _, g := range pkgFuncs {
				if family[g] || !calls(g) || (g.Object() != nil && g.Object().Exported()) {
					continue
				}
				if k, capped := run(g, family, false); capped || k.leaks {
					family[g] = true
					changed = true
				}
			}
		}
		for _, g := range pkgFuncs {
			if family[g] || !calls(g) {
				continue
			}
			n++
			k, capped := run(g, family, false)
			gkey := core.FuncKey(g)
			switch {
			case capped:
				r.Undecided(".FAIL-PARKS", gkey, "state cap hit")
			case !k.leaks:
				r.Ok(".FAIL-PARKS", p.Pos(g.Pos()), gkey+": the dispatcher's error is returned only after the machine was parked in "+failStateConst[pk])
			default:
				r.Fail(".FAIL-PARKS", gkey+"|park", p.Pos(g.Pos()), gkey+" "+k.bad+" ("+failStateConst[pk]+"): the machine stays in the middle of the failed document, and the next call on the same instance resumes it - the visitor that failed gets further, mis-framed events, and half-updated stacks are used again", "")
			}
		}
	}
	r.Floor("fail_parking_sites", n, 1)
}

// ---- (h) INDEX-TRANSLATION (json) ----
//
// A scan that ranges over a window of the chunk (buf = b[o:]) and turns its
// range index i into a position in the chunk by adding a correction d (stop =
// i + d) must translate the same way on every path: d - o is one constant.
// When the window is moved on one path without the correction following (or
// the other way round) the token is cut one byte short or long for exactly
// the inputs that take that path - which depends on where the chunk was cut.

type itState struct {
	off map[int]int64 // slice value id -> offset relative to the chunk
	cv  map[int]int64 // int value id -> constant value
}

func (s itState) key() string {
	var parts []string
	for _, m := range []map[int]int64{s.off, s.cv} {
		var ks []int
		for k := range m {
			ks = append(ks, k)
		}
		for i := 1; i < len(ks); i++ {
			for j := i; j > 0 && ks[j] < ks[j-1]; j-- {
				ks[j], ks[j-1] = ks[j-1], ks[j]
			}
		}
		for _, k := range ks {
			parts = append(parts, fmt.Sprintf("%d:%d", k, m[k]))
		}
		parts = append(parts, "|")
	}
	return strings.Join(parts, ",")
}
func cloneI64(m map[int]int64) map[int]int64 {
	n := make(map[int]int64, len(m)+1)
	for k, v := range m {
		n[k] = v
	}
	return n
}

type itClient struct {
	num *valueNumbering
	rec map[*ssa.BinOp]map[int64]bool
}

func (k *itClient) Key(s itState) string { return s.key() }
func (k *itClient) constOf(s itState, v ssa.Value) (int64, bool) {
	if c, ok := constIntVal(v); ok {
		return c, true
	}
	c, ok := s.cv[k.num.id(v)]
	return c, ok
}
func (k *itClient) Phis(s itState, blk *ssa.BasicBlock, pred int) itState {
	off, cv := cloneI64(s.off), cloneI64(s.cv)
	for _, in := range blk.Instrs {
		phi, ok := in.(*ssa.Phi)
		if !ok {
			break
		}
		if pred < 0 || pred >= len(phi.Edges) {
			continue
		}
		e := phi.Edges[pred]
		id := k.num.id(phi)
		delete(off, id)
		delete(cv, id)
		if isByteSlice(phi.Type()) {
			if o, ok := s.off[k.num.id(e)]; ok {
				off[id] = o
			}
		} else if c, ok := k.constOf(s, e); ok {
			cv[id] = c
		}
	}
	return itState{off, cv}
}
func (k *itClient) Instr(s itState, in ssa.Instruction) (itState, bool, []itState) {
	switch x := in.(type) {
	case *ssa.Slice:
		if o, ok := s.off[k.num.id(x.X)]; ok {
			low := int64(0)
			known := true
			if x.Low != nil {
				low, known = k.constOf(s, x.Low)
			}
			if known {
				off := cloneI64(s.off)
				off[k.num.id(x)] = o + low
				s.off = off
			}
		}
	case *ssa.BinOp:
		if x.Op != token.ADD {
			break
		}
		for _, pr := range [][2]ssa.Value{{x.X, x.Y}, {x.Y, x.X}} {
			d, ok := k.constOf(s, pr[1])
			if !ok {
				continue
			}
			if _, isC := pr[0].(*ssa.Const); isC {
				continue
			}
			// the loop's own induction step (i = i + 1 feeding i's phi) is not a translation
			if phi, ok := pr[0].(*ssa.Phi); ok {
				induct := false
				for _, e := range phi.Edges {
					if e == ssa.Value(x) {
						induct = true
					}
				}
				if induct {
					continue
				}
			}
			refs := pr[0].Referrers()
			if refs == nil {
				continue
			}
			for _, rf := range *refs {
				ia, ok := rf.(*ssa.IndexAddr)
				if !ok || ia.Index != pr[0] {
					continue
				}
				if o, ok := s.off[k.num.id(ia.X)]; ok {
					if k.rec[x] == nil {
						k.rec[x] = map[int64]bool{}
					}
					k.rec[x][d-o] = true
				}
			}
		}
	}
	return s, true, nil
}
func (k *itClient) Branch(s itState, _ ssa.Value, _ bool) (itState, bool) { return s, true }
func (k *itClient) Return(itState, *ssa.Return)                           {}

func indexTranslation(p *core.Prog, r *core.Result, in map[string]bool) {
	n := 0
	for _, pk := range []string{"json", "cborl", "ubjson"} {
		if !in[pk] {
			continue
		}
		fam, err := buildFamily(p, pk)
		if err != nil {
			continue
		}
		for f, sf := range fam.steps {
			k := &itClient{num: newNumbering(), rec: map[*ssa.BinOp]map[int64]bool{}}
			init := itState{off: map[int]int64{k.num.id(sf.chunk): 0}, cv: map[int]int64{}}
			_, capped := WalkPaths[itState](k, f.Blocks[0], 0, init, 200000, nil)
			if capped {
				continue // not a scan of this shape
			}
			var ops []*ssa.BinOp
			for bo := range k.rec {
				ops = append(ops, bo)
			}
			sort.Slice(ops, func(i, j int) bool { return ops[i].Pos() < ops[j].Pos() })
			for i, bo := range ops {
				n++
				fkey := core.FuncKey(f)
				pos := p.Pos(bo.Pos())
				if len(k.rec[bo]) == 1 {
					r.Ok(".INDEX-TRANSLATION", pos, fkey+": window index is translated to a chunk position the same way on every path")
				} else {
					var vs []string
					for v := range k.rec[bo] {
						vs = append(vs, fmt.Sprint(v))
					}
					sort.Strings(vs)
					r.Fail(".INDEX-TRANSLATION", fmt.Sprintf("%s|translate#%d", fkey, i+1), pos, fmt.Sprintf("%s turns an index into a window of the chunk into a chunk position by a correction that differs from the window's offset by %s depending on the path: on one of them the token boundary is off by one (the window was moved without the correction following)", fkey, strings.Join(vs, " or ")), "")
				}
			}
		}
	}
	if in["json"] {
		r.Floor("window_index_translations", n, 1)
	}
}

// ---- (i) REF-VALUE-PARITY (encoders) ----
//
// OnString/OnStringRef and OnKey/OnKeyRef are the same event with the text
// passed two ways. In each encoder the two members of a pair make the same
// calls on the encoder with the same constant arguments (major type, marker
// flag, ...); only the way the text is converted differs.
func refValueParity(p *core.Prog, r *core.Result, in map[string]bool) {
	sig := func(f *ssa.Function) string {
		var calls []string
		for _, b := range f.Blocks {
			for _, ins := range b.Instrs {
				c, ok := ins.(*ssa.Call)
				if !ok {
					continue
				}
				sc := c.Common().StaticCallee()
				if sc == nil || sc.Signature.Recv() == nil || len(c.Common().Args) == 0 || c.Common().Args[0] != ssa.Value(f.Params[0]) {
					continue
				}
				var args []string
				for _, a := range c.Common().Args[1:] {
					if k, ok := a.(*ssa.Const); ok && k.Value != nil {
						args = append(args, k.Value.ExactString())
					} else if isNilConst(a) {
						args = append(args, "nil")
					} else {
						args = append(args, "_")
					}
				}
				calls = append(calls, strings.TrimSuffix(core.FuncName(sc), "Ref")+"("+strings.Join(args, ",")+")")
			}
		}
		sort.Strings(calls)
		return strings.Join(calls, " ")
	}
	n := 0
	for _, pk := range []string{"json", "cborl", "ubjson"} {
		if !in[pk] {
			continue
		}
		for _, pr := range [][2]string{{"OnString", "OnStringRef"}, {"OnKey", "OnKeyRef"}} {
			a := p.LookupFunc(pk, "(*Visitor)."+pr[0])
			b := p.LookupFunc(pk, "(*Visitor)."+pr[1])
			if a == nil || b == nil {
				r.Undecided(".REF-VALUE-PARITY", pk+"."+pr[0], "event pair not found")
				continue
			}
			n++
			sa, sb := sig(a), sig(b)
			// a by-reference event that simply forwards to its by-value twin (or the other way round) is trivially equal
			if sa == strings.TrimSuffix(pr[0], "Ref")+"(_)" || sb == strings.TrimSuffix(pr[0], "Ref")+"(_)" || sa == sb {
				r.Ok(".REF-VALUE-PARITY", p.Pos(b.Pos()), fmt.Sprintf("%s: %s and %s make the same calls with the same constants", pk, pr[0], pr[1]))
			} else {
				r.Fail(".REF-VALUE-PARITY", fmt.Sprintf("%s.(*Visitor).%s~%s", pk, pr[0], pr[1]), p.Pos(b.Pos()), fmt.Sprintf("%s: %s calls [%s] but %s calls [%s]: the same text is written differently (other major type / marker) depending on whether the producer passes it by value or by reference - parsers pass by reference, recordings and Fold by value", pk, pr[0], sa, pr[1], sb), "")
			}
		}
	}
	r.Floor("ref_value_pairs", n, 2*len([]string{"json", "cborl", "ubjson"}))
}


// ---- (i) VALUELESS-ARM ----
//
// The value dispatcher of a parser may have an arm that consumes input without
// delivering or starting a value (ubjson: the no-op marker N). A caller that
// has already spent an element of an announced count on the value, or that
// stands behind an object key, must not reach the dispatcher with that
// marker: the container would hold fewer elements than it announced, the key
// would get no value. Decided as: which marker selects the valueless arm is
// derived from the dispatcher and the marker table; every call of the
// dispatcher in a function that emits keys, or behind a countdown (x = x - 1 on
// parser state) on the same path, is behind a test that excludes that marker
// for the same chunk.

type vlState struct {
	effect bool
	sliced valueSet // values that are x[c:] with c >= 1 on this path: input was consumed
	isnil  valueSet
	eqs    stringSet // "<value id>=<const>" established by taken == branches
}
type vlClient struct {
	fn        *ssa.Function
	num       *valueNumbering
	valueless []stringSet
}

func (k *vlClient) Key(s vlState) string {
	return fmt.Sprintf("%v|%s|%s|%s", s.effect, s.isnil.key(), s.eqs.key(), s.sliced.key())
}
func (k *vlClient) Phis(s vlState, blk *ssa.BasicBlock, pred int) vlState {
	type upd struct {
		id     int
		nil    bool
		sliced bool
	}
	var ups []upd
	for _, in := range blk.Instrs {
		phi, ok := in.(*ssa.Phi)
		if !ok {
			break
		}
		if pred < 0 || pred >= len(phi.Edges) {
			continue
		}
		e := phi.Edges[pred]
		ups = append(ups, upd{k.num.id(phi), isNilConst(e) || s.isnil.has(k.num.id(e)), s.sliced.has(k.num.id(e))})
	}
	for _, u := range ups {
		s.isnil, s.sliced = s.isnil.without(u.id), s.sliced.without(u.id)
		if u.nil {
			s.isnil = s.isnil.with(u.id)
		}
		if u.sliced {
			s.sliced = s.sliced.with(u.id)
		}
	}
	return s
}
func (k *vlClient) Instr(s vlState, in ssa.Instruction) (vlState, bool, []vlState) {
	if sl, ok := in.(*ssa.Slice); ok && sl.Low != nil && isByteSlice(sl.X.Type()) {
		if c, ok := constIntVal(sl.Low); ok && c >= 1 {
			s.sliced = s.sliced.with(k.num.id(sl))
		}
	}
	if c, ok := in.(ssa.CallInstruction); ok {
		cc := c.Common()
		if cc.IsInvoke() {
			s.effect = true
		} else if sc := cc.StaticCallee(); sc != nil && sc.Signature.Recv() != nil && len(cc.Args) > 0 && len(k.fn.Params) > 0 && (cc.Args[0] == ssa.Value(k.fn.Params[0]) || rootedAt(cc.Args[0], k.fn.Params[0])) {
			s.effect = true // a method of the parser or of one of its stacks: pushes the value's state, reports it, ...
		} else if sc == nil {
			if _, isB := cc.Value.(*ssa.Builtin); !isB {
				s.effect = true
			}
		}
	}
	if st, ok := in.(*ssa.Store); ok && len(k.fn.Params) > 0 && rootedAt(st.Addr, k.fn.Params[0]) {
		s.effect = true
	}
	return s, true, nil
}
func (k *vlClient) Branch(s vlState, cond ssa.Value, outcome bool) (vlState, bool) {
	if bo, ok := cond.(*ssa.BinOp); ok && bo.Op == token.EQL && outcome {
		if c, ok := constIntVal(bo.Y); ok {
			s.eqs = s.eqs.with(fmt.Sprintf("%d=%d", k.num.id(bo.X), c))
		}
	}
	if x, trueMeansNil, ok := nilTest(cond); ok && isErrorType(x.Type()) && outcome == trueMeansNil {
		s.isnil = s.isnil.with(k.num.id(x))
	}
	return s, true
}
func (k *vlClient) Return(s vlState, ret *ssa.Return) {
	ei := errResultIndex(k.fn.Signature)
	if ei < 0 || s.effect {
		return
	}
	rv := ret.Results[ei]
	consumed := false
	for _, res := range ret.Results {
		if isByteSlice(res.Type()) && s.sliced.has(k.num.id(res)) {
			consumed = true
		}
	}
	if consumed && (isNilConst(rv) || s.isnil.has(k.num.id(rv))) {
		k.valueless = append(k.valueless, s.eqs)
	}
}

type vcState struct {
	counted, excluded bool
	bt, bf            valueSet
}
type vcClient struct {
	num      *valueNumbering
	p        *core.Prog
	fn       *ssa.Function
	disp     *ssa.Function
	markers  map[int64]bool
	isObject bool
	bad      map[string]string
	sites    int
}

func (k *vcClient) Key(s vcState) string {
	return fmt.Sprintf("%v|%v|%s|%s", s.counted, s.excluded, s.bt.key(), s.bf.key())
}
func (k *vcClient) Phis(s vcState, _ *ssa.BasicBlock, _ int) vcState { return s }
func (k *vcClient) Return(vcState, *ssa.Return)                       {}
func (k *vcClient) Instr(s vcState, in ssa.Instruction) (vcState, bool, []vcState) {
	switch x := in.(type) {
	case *ssa.Store:
		if bo, ok := x.Val.(*ssa.BinOp); ok && bo.Op == token.SUB && isIntConst(bo.Y, 1) && len(k.fn.Params) > 0 && rootedAt(x.Addr, k.fn.Params[0]) {
			if ld, ok := bo.X.(*ssa.UnOp); ok && ld.Op == token.MUL && addrKey(ld.X) != "" && addrKey(ld.X) == addrKey(x.Addr) {
				s.counted = true
			}
		}
	case *ssa.Call:
		if x.Common().StaticCallee() != k.disp {
			break
		}
		k.sites++
		if (s.counted || k.isObject) && !s.excluded {
			why := "behind an object key"
			if s.counted {
				why = "after an element of the announced count was spent on it"
			}
			if k.bad == nil {
				k.bad = map[string]string{}
			}
			k.bad[k.p.Pos(x.Pos())] = why
		}
	}
	return s, true, nil
}
func (k *vcClient) Branch(s vcState, cond ssa.Value, outcome bool) (vcState, bool) {
	for {
		u, ok := cond.(*ssa.UnOp)
		if !ok || u.Op != token.NOT {
			break
		}
		cond, outcome = u.X, !outcome
	}
	// the same boolean (a flag parameter, say) cannot be true at one test and false at the next
	if _, isPrm := cond.(*ssa.Parameter); isPrm {
		id := k.num.id(cond)
		if s.bt.has(id) && !outcome || s.bf.has(id) && outcome {
			return s, false
		}
		if outcome {
			s.bt = s.bt.with(id)
		} else {
			s.bf = s.bf.with(id)
		}
	}
	bo, ok := cond.(*ssa.BinOp)
	if !ok || (bo.Op != token.EQL && bo.Op != token.NEQ) {
		return s, true
	}
	for _, pr := range [][2]ssa.Value{{bo.X, bo.Y}, {bo.Y, bo.X}} {
		c, ok := constIntVal(pr[1])
		if !ok || !k.markers[c] {
			continue
		}
		ld, ok := pr[0].(*ssa.UnOp)
		if !ok || ld.Op != token.MUL {
			continue
		}
		ia, ok := ld.X.(*ssa.IndexAddr)
		if !ok || !isIntConst(ia.Index, 0) || !isByteSlice(ia.X.Type()) {
			continue
		}
		notMarker := (bo.Op == token.EQL) != outcome
		if notMarker {
			s.excluded = true
		}
	}
	return s, true
}

func valuelessArm(p *core.Prog, r *core.Result, in map[string]bool) {
	n := 0
	for _, pk := range []string{"json", "cborl", "ubjson"} {
		if !in[pk] {
			continue
		}
		V := p.LookupFunc(pk, "(*Parser).stepValue")
		if V == nil || V.Blocks == nil {
			continue
		}
		n++
		k := &vlClient{fn: V, num: newNumbering()}
		if _, capped := WalkPaths[vlState](k, V.Blocks[0], 0, vlState{}, 200000, nil); capped {
			r.Undecided(".VALUELESS-ARM", core.FuncKey(V), "state cap hit")
			continue
		}
		vkey := core.FuncKey(V)
		if len(k.valueless) == 0 {
			r.Ok(".VALUELESS-ARM", p.Pos(V.Pos()), vkey+": every successful return delivered or started a value")
			continue
		}
		// which marker selects the arm: a taken `x == K` with x a component of the marker table's result for b[0]
		markers := map[int64]bool{}
		for _, eqs := range k.valueless {
			for _, e := range eqs.list() {
				var id int
				var c int64
				fmt.Sscanf(e, "%d=%d", &id, &c)
				if id >= len(k.num.rev) {
					continue
				}
				v := k.num.rev[id]
				if ld, ok := v.(*ssa.UnOp); ok && ld.Op == token.MUL {
					if ia, ok := ld.X.(*ssa.IndexAddr); ok && isIntConst(ia.Index, 0) {
						markers[c] = true // the arm is keyed on b[0] itself
						continue
					}
				}
				ref, ok := resolveComp(v, 0)
				if !ok {
					continue
				}
				F := ref.call.Common().StaticCallee()
				if F == nil || F.Blocks == nil || len(F.Params) == 0 {
					continue
				}
				for _, b := range F.Blocks {
					ret, ok := b.Instrs[len(b.Instrs)-1].(*ssa.Return)
					if !ok {
						continue
					}
					cv, zero, ok := returnComponent(ret, ref.path)
					if !ok || zero {
						continue
					}
					if kc, ok := constIntVal(cv); !ok || kc != c {
						continue
					}
					for d := b; d != nil && d.Idom() != nil; d = d.Idom() {
						id := d.Idom()
						iff, ok := id.Instrs[len(id.Instrs)-1].(*ssa.If)
						if !ok || id.Succs[0] != d || len(d.Preds) != 1 {
							continue
						}
						bo, ok := iff.Cond.(*ssa.BinOp)
						if !ok || bo.Op != token.EQL {
							continue
						}
						if _, isPrm := bo.X.(*ssa.Parameter); isPrm {
							if m, ok := constIntVal(bo.Y); ok {
								markers[m] = true
							}
						}
					}
				}
			}
		}
		if len(markers) == 0 {
			r.Undecided(".VALUELESS-ARM", vkey+"|marker", vkey+" has an arm that consumes input without delivering or starting a value, but the marker that selects it could not be derived")
			continue
		}
		var ms []string
		for m := range markers {
			ms = append(ms, fmt.Sprintf("%#x", m))
		}
		sort.Strings(ms)
		for _, g := range p.ModFuncs() {
			if gp := core.FuncPkg(g); gp == nil || gp.Name() != pk || g.Blocks == nil || g == V {
				continue
			}
			calls, isObject := false, false
			for _, b := range g.Blocks {
				for _, i := range b.Instrs {
					if c, ok := i.(*ssa.Call); ok {
						if c.Common().StaticCallee() == V {
							calls = true
						}
						if c.Common().IsInvoke() && (c.Common().Method.Name() == "OnKey" || c.Common().Method.Name() == "OnKeyRef") {
							isObject = true
						}
					}
				}
			}
			if !calls {
				continue
			}
			ck := &vcClient{num: newNumbering(), p: p, fn: g, disp: V, markers: markers, isObject: isObject}
			_, capped := WalkPaths[vcState](ck, g.Blocks[0], 0, vcState{}, 200000, nil)
			gkey := core.FuncKey(g)
			switch {
			case capped:
				r.Undecided(".VALUELESS-ARM", gkey, "state cap hit")
			case len(ck.bad) == 0:
				r.Ok(".VALUELESS-ARM", p.Pos(g.Pos()), fmt.Sprintf("%s: the value dispatcher is not reached with the valueless marker (%s) behind a key or a spent count", gkey, strings.Join(ms, ",")))
			default:
				pos := sortedKeys(ck.bad)[0]
				r.Fail(".VALUELESS-ARM", gkey+"|valueless", p.Pos(g.Pos()), fmt.Sprintf("%s calls %s at %s %s without excluding the marker %s, for which the dispatcher consumes the byte and delivers nothing: the container holds one element less than it announced, or the key gets no value - an accepted input yields a malformed event stream", gkey, vkey, pos, ck.bad[pos], strings.Join(ms, ",")), "")
			}
		}
	}
	r.Floor("value_dispatchers", n, 1)
}


// ---- (j) CONSUME-EXAMINED ----
//
// A step hands back a shorter chunk (consumes input) on a successful return
// only on paths that looked at the bytes it consumes: indexed the chunk, or
// passed (a slice of) it to a comparison, scan, collector or event. A literal
// whose first bytes arrive in one chunk and are merely counted, to be compared
// "when the token is complete", accepts a misspelling that a whole-buffer parse
// rejects.

type ceState struct {
	examined bool
	isnil    valueSet
}
type ceClient struct {
	p     *core.Prog
	fn    *ssa.Function
	sf    *stepFn
	num   *valueNumbering
	bad   string
	sites int
}

func (k *ceClient) Key(s ceState) string { return fmt.Sprintf("%v|%s", s.examined, s.isnil.key()) }
func (k *ceClient) Phis(s ceState, blk *ssa.BasicBlock, pred int) ceState {
	type upd struct {
		id  int
		nil bool
	}
	var ups []upd
	for _, in := range blk.Instrs {
		phi, ok := in.(*ssa.Phi)
		if !ok {
			break
		}
		if pred < 0 || pred >= len(phi.Edges) {
			continue
		}
		e := phi.Edges[pred]
		ups = append(ups, upd{k.num.id(phi), isNilConst(e) || s.isnil.has(k.num.id(e))})
	}
	for _, u := range ups {
		s.isnil = s.isnil.without(u.id)
		if u.nil {
			s.isnil = s.isnil.with(u.id)
		}
	}
	return s
}
func (k *ceClient) fromChunk(v ssa.Value) bool {
	for _, o := range origins(v) {
		if o == ssa.Value(k.sf.chunk) {
			return true
		}
	}
	return false
}
func (k *ceClient) Instr(s ceState, in ssa.Instruction) (ceState, bool, []ceState) {
	switch x := in.(type) {
	case *ssa.IndexAddr:
		if k.fromChunk(x.X) {
			s.examined = true
		}
	case *ssa.Index:
		if k.fromChunk(x.X) {
			s.examined = true
		}
	case *ssa.Range, *ssa.Next:
		s.examined = true
	case *ssa.Slice:
		// a window x[:h] over the chunk that is indexed, ranged over or handed on: the bytes are processed through
		// it, even on the path on which the window happens to be empty
		if x.High != nil && k.fromChunk(x.X) && x.Referrers() != nil {
			for _, rf := range *x.Referrers() {
				switch y := rf.(type) {
				case *ssa.IndexAddr, *ssa.Index, *ssa.Range:
					s.examined = true
				case ssa.CallInstruction:
					if bi, ok := y.Common().Value.(*ssa.Builtin); !ok || bi.Name() != "cap" {
						s.examined = true
					}
				}
			}
		}
	case ssa.CallInstruction:
		cc := x.Common()
		if bi, ok := cc.Value.(*ssa.Builtin); ok && (bi.Name() == "len" || bi.Name() == "cap") {
			break
		}
		for _, a := range cc.Args {
			if (isByteSlice(a.Type()) || isStringOrBytes(a.Type())) && k.fromChunk(a) {
				s.examined = true
			}
		}
	}
	return s, true, nil
}
func (k *ceClient) Branch(s ceState, cond ssa.Value, outcome bool) (ceState, bool) {
	if x, trueMeansNil, ok := nilTest(cond); ok && isErrorType(x.Type()) && outcome == trueMeansNil {
		s.isnil = s.isnil.with(k.num.id(x))
	}
	return s, true
}
func (k *ceClient) Return(s ceState, ret *ssa.Return) {
	if k.sf.errIdx >= 0 {
		rv := ret.Results[k.sf.errIdx]
		if definitelyNonNilError(rv) {
			return
		}
	}
	rest := ret.Results[k.sf.restIdx]
	sl, ok := rest.(*ssa.Slice)
	if !ok || sl.Low == nil || !k.fromChunk(sl.X) {
		return
	}
	if _, ok := constIntVal(sl.Low); ok {
		return // a fixed number of bytes (a marker, a bracket): the caller or the dispatcher looked at them
	}
	k.sites++
	if !s.examined && k.boundedScan(sl.Low) {
		return // the bytes b[0..n) are looked at by a loop `i < n` over the chunk; on this path n happens to be 0
	}
	if !s.examined {
		k.bad = "hands back the chunk shortened (" + k.p.Pos(token.Pos(instrPos(ret))) + ") on a path that never looked at the bytes it consumes"
	}
}

// boundedScan: the function indexes the chunk with an index that is compared
// `< n` for the very n by which the chunk is shortened.
func (k *ceClient) boundedScan(n ssa.Value) bool {
	for _, b := range k.fn.Blocks {
		for _, in := range b.Instrs {
			ia, ok := in.(*ssa.IndexAddr)
			if !ok || !k.fromChunk(ia.X) || ia.Index.Referrers() == nil {
				continue
			}
			for _, rf := range *ia.Index.Referrers() {
				if bo, ok := rf.(*ssa.BinOp); ok && bo.Op == token.LSS && bo.X == ia.Index && bo.Y == n {
					return true
				}
			}
		}
	}
	return false
}

func consumeExamined(p *core.Prog, r *core.Result, in map[string]bool) {
	n := 0
	for _, pk := range []string{"json", "cborl", "ubjson"} {
		if !in[pk] {
			continue
		}
		fam, err := buildFamily(p, pk)
		if err != nil {
			continue
		}
		var fns []*ssa.Function
		for f := range fam.steps {
			fns = append(fns, f)
		}
		sort.Slice(fns, func(i, j int) bool { return fns[i].Pos() < fns[j].Pos() })
		for _, f := range fns {
			k := &ceClient{p: p, fn: f, sf: fam.steps[f], num: newNumbering()}
			_, capped := WalkPaths[ceState](k, f.Blocks[0], 0, ceState{}, 200000, nil)
			if capped || k.sites == 0 {
				continue
			}
			n++
			fkey := core.FuncKey(f)
			if k.bad == "" {
				r.Ok(".CONSUME-EXAMINED", p.Pos(f.Pos()), fkey+": input is consumed only on paths that looked at it")
			} else {
				r.Fail(".CONSUME-EXAMINED", fkey+"|unexamined", p.Pos(f.Pos()), fkey+" "+k.bad+": what these bytes are is decided, if at all, by a later chunk - the verdict depends on where the input was cut", "")
			}
		}
	}
	if in["json"] {
		r.Floor("consuming_steps", n, 1)
	}
}


// ---- (k) HEAD-OF-COLLECTED ----
//
// A multi-byte token that may be split across chunks is assembled by collect;
// while bytes of it are parked, b[0] of the next chunk is NOT the token's first
// byte. A step that indexes the very chunk value it then hands to collect
// (to peek at the sign, say) reads the wrong byte after a resume - unless it
// has established that nothing is parked.

type hcState struct {
	idx      valueSet // chunk values indexed while parked bytes were not excluded
	bufEmpty bool
	eqs      stringSet // "<value id>=<const>": the value was found equal to the constant on this path
}
type hcClient struct {
	p       *core.Prog
	fn      *ssa.Function
	sf      *stepFn
	fam     *parserFamily
	num     *valueNumbering
	bad     string
	collect int
}

func (k *hcClient) Key(s hcState) string {
	return fmt.Sprintf("%s|%v|%s", s.idx.key(), s.bufEmpty, s.eqs.key())
}
func (k *hcClient) Phis(s hcState, blk *ssa.BasicBlock, pred int) hcState {
	type upd struct {
		id int
		on bool
	}
	var ups []upd
	for _, in := range blk.Instrs {
		phi, ok := in.(*ssa.Phi)
		if !ok {
			break
		}
		if pred < 0 || pred >= len(phi.Edges) || !isByteSlice(phi.Type()) {
			continue
		}
		ups = append(ups, upd{k.num.id(phi), s.idx.has(k.num.id(phi.Edges[pred]))})
	}
	for _, u := range ups {
		s.idx = s.idx.without(u.id)
		if u.on {
			s.idx = s.idx.with(u.id)
		}
	}
	return s
}
func (k *hcClient) Instr(s hcState, in ssa.Instruction) (hcState, bool, []hcState) {
	switch x := in.(type) {
	case *ssa.IndexAddr:
		if isByteSlice(x.X.Type()) && !s.bufEmpty {
			for _, o := range origins(x.X) {
				if o == ssa.Value(k.sf.chunk) {
					s.idx = s.idx.with(k.num.id(x.X))
				}
			}
		}
	case *ssa.Call:
		sc := x.Common().StaticCallee()
		if sc == nil {
			break
		}
		isCollect := sc == k.fam.collect
		if !isCollect && sc.Blocks != nil {
			// a thin wrapper: a step-shaped method whose first call is collect on its own chunk
			if sf2 := k.fam.steps[sc]; sf2 != nil || strings.HasPrefix(core.FuncName(sc), "getUint") {
				for _, b := range sc.Blocks {
					for _, i2 := range b.Instrs {
						if c2, ok := i2.(*ssa.Call); ok && c2.Common().StaticCallee() == k.fam.collect {
							isCollect = strings.HasPrefix(core.FuncName(sc), "getUint")
						}
					}
				}
			}
		}
		if !isCollect {
			break
		}
		k.collect++
		for _, a := range x.Common().Args {
			if isByteSlice(a.Type()) && s.idx.has(k.num.id(a)) {
				k.bad = "indexes the chunk and then hands the same chunk to " + core.FuncName(sc) + " at " + k.p.Pos(x.Pos()) + " without having established that no bytes of the token are parked"
			}
		}
	}
	return s, true, nil
}
func (k *hcClient) Branch(s hcState, cond ssa.Value, outcome bool) (hcState, bool) {
	for {
		u, ok := cond.(*ssa.UnOp)
		if !ok || u.Op != token.NOT {
			break
		}
		cond, outcome = u.X, !outcome
	}
	// the dispatched step is one value: it cannot equal two different constants on one path
	if bo, ok := cond.(*ssa.BinOp); ok && (bo.Op == token.EQL || bo.Op == token.NEQ) {
		if c, ok := constIntVal(bo.Y); ok {
			if _, isCall := bo.X.(*ssa.Call); !isCall {
				id := k.num.id(bo.X)
				isEq := (bo.Op == token.EQL) == outcome
				pre := fmt.Sprintf("%d=", id)
				for _, e := range s.eqs.list() {
					if strings.HasPrefix(e, pre) {
						known := e[len(pre):]
						if isEq && known != fmt.Sprint(c) || !isEq && known == fmt.Sprint(c) {
							return s, false
						}
					}
				}
				if isEq {
					s.eqs = s.eqs.with(fmt.Sprintf("%d=%d", id, c))
				}
			}
		}
	}
	bo, ok := cond.(*ssa.BinOp)
	if !ok || !isIntConst(bo.Y, 0) {
		return s, true
	}
	call, ok := bo.X.(*ssa.Call)
	if !ok {
		return s, true
	}
	if bi, ok := call.Common().Value.(*ssa.Builtin); !ok || bi.Name() != "len" {
		return s, true
	}
	ld, ok := call.Common().Args[0].(*ssa.UnOp)
	if !ok || ld.Op != token.MUL || !parkFields[k.fam.pkg][fieldOfReceiver(k.fn, ld.X)] {
		return s, true
	}
	switch bo.Op {
	case token.EQL, token.LEQ:
		s.bufEmpty = outcome
	case token.NEQ, token.GTR:
		s.bufEmpty = !outcome
	}
	return s, true
}
func (k *hcClient) Return(hcState, *ssa.Return) {}

func headOfCollected(p *core.Prog, r *core.Result, in map[string]bool) {
	n := 0
	for _, pk := range []string{"cborl", "ubjson"} {
		if !in[pk] {
			continue
		}
		fam, err := buildFamily(p, pk)
		if err != nil || fam.collect == nil {
			continue
		}
		var fns []*ssa.Function
		for f := range fam.steps {
			fns = append(fns, f)
		}
		sort.Slice(fns, func(i, j int) bool { return fns[i].Pos() < fns[j].Pos() })
		for _, f := range fns {
			k := &hcClient{p: p, fn: f, sf: fam.steps[f], fam: fam, num: newNumbering()}
			_, capped := WalkPaths[hcState](k, f.Blocks[0], 0, hcState{}, 200000, nil)
			if capped || k.collect == 0 {
				continue
			}
			n++
			fkey := core.FuncKey(f)
			if k.bad == "" {
				r.Ok(".HEAD-OF-COLLECTED", p.Pos(f.Pos()), fkey+": the chunk handed to the collector was not indexed before")
			} else {
				r.Fail(".HEAD-OF-COLLECTED", fkey+"|peek", p.Pos(f.Pos()), fkey+" "+k.bad+": when the token was split by an earlier chunk the byte it looks at is a later byte of the token (or of the next one), so the step decides differently depending on where the input was cut", "")
			}
		}
	}
	r.Floor("collecting_steps", n, 1)
}


// ---- (l) FEED-ALL ----
//
// feed reports success only when the whole chunk went through the machine:
// every nil return is reached directly from the test that found the rest of
// the chunk empty. Leaving the loop early ("nothing consumed, wait for more")
// drops the rest of the chunk while Write still answers len(b), nil.

type faState struct{ lastEmpty bool }
type faClient struct {
	fn  *ssa.Function
	p   *core.Prog
	bad string
	n   int
}

func (k *faClient) Key(s faState) string                              { return fmt.Sprint(s.lastEmpty) }
func (k *faClient) Phis(s faState, _ *ssa.BasicBlock, _ int) faState { return s }
func (k *faClient) Instr(s faState, in ssa.Instruction) (faState, bool, []faState) {
	return s, true, nil
}
func (k *faClient) Branch(s faState, cond ssa.Value, outcome bool) (faState, bool) {
	for {
		u, ok := cond.(*ssa.UnOp)
		if !ok || u.Op != token.NOT {
			break
		}
		cond, outcome = u.X, !outcome
	}
	s.lastEmpty = false
	if bo, ok := cond.(*ssa.BinOp); ok && isIntConst(bo.Y, 0) {
		if c, ok := bo.X.(*ssa.Call); ok {
			if bi, ok := c.Common().Value.(*ssa.Builtin); ok && bi.Name() == "len" && isByteSlice(c.Common().Args[0].Type()) {
				switch bo.Op {
				case token.GTR, token.NEQ:
					s.lastEmpty = !outcome
				case token.EQL, token.LEQ:
					s.lastEmpty = outcome
				}
			}
		}
	}
	return s, true
}
func (k *faClient) Return(s faState, ret *ssa.Return) {
	ei := errResultIndex(k.fn.Signature)
	if ei < 0 || !isNilConst(ret.Results[ei]) {
		return
	}
	k.n++
	if !s.lastEmpty {
		k.bad = "returns nil at " + k.p.Pos(token.Pos(instrPos(ret))) + " on a path whose last test was not the one that found the rest of the chunk empty"
	}
}

func feedAll(p *core.Prog, r *core.Result, in map[string]bool) {
	n := 0
	for _, pk := range []string{"json", "cborl", "ubjson"} {
		if !in[pk] {
			continue
		}
		f := p.LookupFunc(pk, "(*Parser).feed")
		if f == nil || f.Blocks == nil {
			continue
		}
		k := &faClient{fn: f, p: p}
		if _, capped := WalkPaths[faState](k, f.Blocks[0], 0, faState{}, 100000, nil); capped || k.n == 0 {
			continue
		}
		n++
		fkey := core.FuncKey(f)
		if k.bad == "" {
			r.Ok(".FEED-ALL", p.Pos(f.Pos()), fkey+": success is reported only when the rest of the chunk is empty")
		} else {
			r.Fail(".FEED-ALL", fkey+"|early", p.Pos(f.Pos()), fkey+" "+k.bad+": the unprocessed rest of the chunk is dropped while Write reports the whole chunk as written - the next document on the same parser starts in the middle", "")
		}
	}
	r.Floor("feed_loops", n, 1)
}

// ---- (m) MARKER-SIGN (ubjson) ----
//
// The payload byte of the unsigned 8-bit marker is not converted through int8:
// lengths and values 128..255 written with U would turn negative.

type msgState struct{ isU bool }
type msgClient struct {
	fn   *ssa.Function
	p    *core.Prog
	uval int64
	bad  string
	arms int
}

func (k *msgClient) Key(s msgState) string                               { return fmt.Sprint(s.isU) }
func (k *msgClient) Phis(s msgState, _ *ssa.BasicBlock, _ int) msgState { return s }
func (k *msgClient) Return(msgState, *ssa.Return)                       {}
func (k *msgClient) Branch(s msgState, cond ssa.Value, outcome bool) (msgState, bool) {
	if bo, ok := cond.(*ssa.BinOp); ok && bo.Op == token.EQL {
		if c, ok := constIntVal(bo.Y); ok && c == k.uval {
			if bt, ok := bo.X.Type().Underlying().(*types.Basic); ok && bt.Kind() == types.Uint8 {
				if outcome {
					s.isU = true
					k.arms++
				}
			}
		}
	}
	return s, true
}
func (k *msgClient) Instr(s msgState, in ssa.Instruction) (msgState, bool, []msgState) {
	if cv, ok := in.(*ssa.Convert); ok && s.isU {
		if bt, ok := cv.Type().Underlying().(*types.Basic); ok && bt.Kind() == types.Int8 {
			if ld, ok := cv.X.(*ssa.UnOp); ok && ld.Op == token.MUL {
				if _, isIdx := ld.X.(*ssa.IndexAddr); isIdx {
					k.bad = "converts the payload byte through int8 at " + k.p.Pos(cv.Pos()) + " on a path selected by the unsigned 8-bit marker"
				}
			}
		}
	}
	return s, true, nil
}

func markerSign(p *core.Prog, r *core.Result, in map[string]bool) {
	if !in["ubjson"] {
		return
	}
	nc := p.Const("ubjson", "uint8Marker")
	if nc == nil {
		return
	}
	uval, _ := constIntVal(nc.Value)
	n := 0
	for _, f := range p.ModFuncs() {
		if gp := core.FuncPkg(f); gp == nil || gp.Name() != "ubjson" || f.Blocks == nil || f.Signature.Recv() == nil {
			continue
		}
		k := &msgClient{fn: f, p: p, uval: uval}
		if _, capped := WalkPaths[msgState](k, f.Blocks[0], 0, msgState{}, 100000, nil); capped || k.arms == 0 {
			continue
		}
		n++
		fkey := core.FuncKey(f)
		if k.bad == "" {
			r.Ok(".MARKER-SIGN", p.Pos(f.Pos()), fkey+": the payload of the unsigned 8-bit marker is read unsigned")
		} else {
			r.Fail(".MARKER-SIGN", fkey+"|int8", p.Pos(f.Pos()), fkey+" "+k.bad+": values and lengths 128..255 written with U become negative (a valid document is refused with 'negative length', or a value changes sign)", "")
		}
	}
	r.Floor("uint8_marker_arms", n, 1)
}

// ---- (n) INDEF-NO-LENGTH (cborl) ----
//
// An indefinite-length container owns no entry on the remaining-length stack
// (nothing was pushed for it): the dispatcher arms of the indefinite states
// (state & stIndef != 0) never pop that stack, directly or through a helper
// shared with the definite containers - the entry they would remove is the
// enclosing container's remaining count.
func indefNoLength(p *core.Prog, r *core.Result, in map[string]bool) {
	if !in["cborl"] {
		return
	}
	fam, err := buildFamily(p, "cborl")
	if err != nil {
		return
	}
	disp := p.LookupFunc("cborl", "(*Parser).execStep")
	indef := p.Const("cborl", "stIndef")
	if disp == nil || indef == nil {
		r.Undecided(".INDEF-NO-LENGTH", "cborl.execStep", "dispatcher or stIndef not found")
		return
	}
	ibit, _ := constIntVal(indef.Value)
	// arms: the calls in the blocks dominated by the true edge of `<dispatched state> == C`
	ak := &armClient{fn: disp, recv: fam.recvNamed, arms: map[int64]map[*ssa.Function]bool{}}
	for _, b := range disp.Blocks {
		iff, ok := b.Instrs[len(b.Instrs)-1].(*ssa.If)
		if !ok {
			continue
		}
		bo, ok := iff.Cond.(*ssa.BinOp)
		if !ok || bo.Op != token.EQL {
			continue
		}
		c, ok := constIntVal(bo.Y)
		if !ok {
			continue
		}
		ld, ok := bo.X.(*ssa.UnOp)
		if !ok || ld.Op != token.MUL || !rootedAt(ld.X, disp.Params[0]) {
			continue
		}
		tb := b.Succs[0] // (an arm another arm falls through into has two predecessors; what it dominates is still its body)
		if ak.arms[c] == nil {
			ak.arms[c] = map[*ssa.Function]bool{}
		}
		for _, d := range disp.Blocks {
			if d != tb && !tb.Dominates(d) {
				continue
			}
			for _, in := range d.Instrs {
				if call, ok := in.(ssa.CallInstruction); ok {
					if sc := call.Common().StaticCallee(); sc != nil && sc.Signature.Recv() != nil {
						ak.arms[c][sc] = true
					}
				}
			}
		}
	}
	// leaves: the function pops the state stack itself - what it does afterwards (reporting the completed value to
	// the enclosing container, which may finish in turn) is the parent's bookkeeping
	leaves := func(f *ssa.Function) bool {
		for _, b := range f.Blocks {
			for _, in := range b.Instrs {
				if c, ok := in.(ssa.CallInstruction); ok {
					if sc := c.Common().StaticCallee(); sc != nil && sc.Signature.Recv() != nil && core.FuncName(sc) == "pop" && namedOf(sc.Signature.Recv().Type()) != nil && core.TypeName(namedOf(sc.Signature.Recv().Type())) == "stateStack" {
						return true
					}
				}
			}
		}
		return false
	}
	var popsLen func(f *ssa.Function, depth int, seen map[*ssa.Function]bool) string
	popsLen = func(f *ssa.Function, depth int, seen map[*ssa.Function]bool) string {
		if f == nil || f.Blocks == nil || depth > 3 || seen[f] {
			return ""
		}
		seen[f] = true
		direct := false
		for _, b := range f.Blocks {
			for _, in := range b.Instrs {
				if c, ok := in.(ssa.CallInstruction); ok {
					if sc := c.Common().StaticCallee(); sc != nil && sc.Signature.Recv() != nil && core.FuncName(sc) == "pop" && namedOf(sc.Signature.Recv().Type()) != nil && core.TypeName(namedOf(sc.Signature.Recv().Type())) == "lengthStack" {
						direct = true
					}
				}
			}
		}
		if direct {
			return core.FuncKey(f)
		}
		if leaves(f) {
			return ""
		}
		for _, b := range f.Blocks {
			for _, in := range b.Instrs {
				c, ok := in.(ssa.CallInstruction)
				if !ok {
					continue
				}
				sc := c.Common().StaticCallee()
				if sc == nil || sc.Signature.Recv() == nil {
					continue
				}
				if core.FuncName(sc) == "pop" && namedOf(sc.Signature.Recv().Type()) != nil && core.TypeName(namedOf(sc.Signature.Recv().Type())) == "lengthStack" {
					return core.FuncKey(f)
				}
				if namedOf(sc.Signature.Recv().Type()) == fam.recvNamed && core.FuncName(sc) != "stepValue" && core.FuncName(sc) != "execStep" {
					if w := popsLen(sc, depth+1, seen); w != "" {
						return w
					}
				}
			}
		}
		return ""
	}
	n := 0
	var states []int64
	for st := range ak.arms {
		states = append(states, st)
	}
	sort.Slice(states, func(i, j int) bool { return states[i] < states[j] })
	for _, st := range states {
		if mj := st & 0xe0; st&ibit == 0 || (mj != 0x80 && mj != 0xa0) {
			continue // only arrays and maps have an indefinite form here
		}
		n++
		bad := ""
		for f := range ak.arms[st] {
			if core.FuncName(f) == "stepValue" || core.FuncName(f) == "execStep" {
				continue // the element itself: balanced by induction
			}
			if core.FuncName(f) == "pop" && namedOf(f.Signature.Recv().Type()) != nil && core.TypeName(namedOf(f.Signature.Recv().Type())) == "lengthStack" {
				bad = "lengthStack.pop directly"
				continue
			}
			if namedOf(f.Signature.Recv().Type()) != fam.recvNamed {
				continue
			}
			if w := popsLen(f, 0, map[*ssa.Function]bool{}); w != "" {
				bad = core.FuncKey(f) + " (pop in " + w + ")"
			}
		}
		key := fmt.Sprintf("cborl.(*Parser).execStep|%#x", st)
		if bad == "" {
			r.Ok(".INDEF-NO-LENGTH", p.Pos(disp.Pos()), fmt.Sprintf("the arm of the indefinite state %#x never pops the remaining-length stack", st))
		} else {
			r.Fail(".INDEF-NO-LENGTH", key, p.Pos(disp.Pos()), fmt.Sprintf("the dispatcher arm of the indefinite-length state %#x calls %s, which pops the remaining-length stack: an indefinite container pushed no entry, so the enclosing definite container loses its remaining count and ends early", st, bad), "")
		}
	}
	r.Floor("indefinite_arms", n, 2)
}

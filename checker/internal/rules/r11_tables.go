package rules

import (
	"fmt"
	"go/ast"
	"go/token"
	"go/types"
	"sort"
	"strings"

	"golang.org/x/tools/go/packages"
	"golang.org/x/tools/go/ssa"

	"sfcheck/internal/core"
)

// R11 TABLES: writer and reader tables agree; dispatchers are total.
//
// (1) the dispatcher switches of the three parsers (feedUntil / execStep) and
//     the BaseType switches of gotype cover every declared constant of their
//     tag type or have a default arm that yields an error;
// (2) ubjson: for every marker, markerToBaseType(m) names the type of the
//     event that the state markerToStartState(m) emits;
// (3) gotype: makeArrayPtr <-> unfoldIfcFinishSubArray and makeMapPtr <->
//     unfoldIfcFinishSubMap cast the scratch slot to the same Go type per
//     BaseType constant, and the unfolder chosen at creation stores through
//     exactly that type.

func findFuncDecl(pk *packages.Package, name string) *ast.FuncDecl {
	name = core.CurrentName(pk.Name, name) // a renamed function keeps answering to the name the rules know
	for _, file := range pk.Syntax {
		for _, d := range file.Decls {
			if f, ok := d.(*ast.FuncDecl); ok && f.Name.Name == name {
				return f
			}
		}
	}
	return nil
}

// constsOfType lists the declared constants of a named type (name -> exact value).
func constsOfType(named *types.Named) map[string]string {
	out := map[string]string{}
	sc := named.Obj().Pkg().Scope()
	for _, n := range sc.Names() {
		if c, ok := sc.Lookup(n).(*types.Const); ok && types.Identical(c.Type(), named) {
			out[n] = c.Val().ExactString()
		}
	}
	return out
}

type caseRow struct {
	names  []string // constant names of the case labels
	clause *ast.CaseClause
}

// switchRows returns the rows of the first switch in fd whose tag has the given named type.
func switchRows(info *types.Info, fd *ast.FuncDecl, tagType string) ([]caseRow, *ast.CaseClause, *ast.SwitchStmt) {
	var rows []caseRow
	var deflt *ast.CaseClause
	var found *ast.SwitchStmt
	ast.Inspect(fd.Body, func(n ast.Node) bool {
		if found != nil {
			return false
		}
		sw, ok := n.(*ast.SwitchStmt)
		if !ok || sw.Tag == nil {
			return true
		}
		tt := info.TypeOf(sw.Tag)
		if tt == nil || !strings.HasSuffix(tt.String(), tagType) {
			return true
		}
		found = sw
		for _, st := range sw.Body.List {
			cc := st.(*ast.CaseClause)
			if cc.List == nil {
				deflt = cc
				continue
			}
			row := caseRow{clause: cc}
			for _, e := range cc.List {
				switch x := e.(type) {
				case *ast.Ident:
					row.names = append(row.names, x.Name)
				case *ast.SelectorExpr:
					row.names = append(row.names, x.Sel.Name)
				default:
					row.names = append(row.names, types.ExprString(e))
				}
			}
			rows = append(rows, row)
		}
		return false
	})
	return rows, deflt, found
}

// firstPointerCast: the first conversion to a pointer type inside a clause.
func firstPointerCast(info *types.Info, n ast.Node) types.Type {
	var out types.Type
	ast.Inspect(n, func(x ast.Node) bool {
		if out != nil {
			return false
		}
		ce, ok := x.(*ast.CallExpr)
		if !ok || len(ce.Args) != 1 {
			return true
		}
		tv, ok := info.Types[ce.Fun]
		if !ok || !tv.IsType() {
			return true
		}
		if pt, ok := tv.Type.Underlying().(*types.Pointer); ok {
			switch pt.Elem().Underlying().(type) {
			case *types.Slice, *types.Map:
				out = tv.Type
				return false
			}
		}
		return true
	})
	return out
}

// defaultYieldsError: the default clause returns / assigns an error or panics.
func defaultYieldsError(info *types.Info, cc *ast.CaseClause) bool {
	ok := false
	ast.Inspect(cc, func(n ast.Node) bool {
		switch x := n.(type) {
		case *ast.ReturnStmt:
			for _, e := range x.Results {
				if t := info.TypeOf(e); t != nil && isErrorType(t) {
					if id, isId := e.(*ast.Ident); !(isId && id.Name == "nil") {
						ok = true
					}
				}
				if ce, isCall := e.(*ast.CallExpr); isCall {
					if t := info.TypeOf(ce); t != nil && isErrorType(t) {
						ok = true
					}
				}
			}
		case *ast.AssignStmt:
			for _, l := range x.Lhs {
				if t := info.TypeOf(l); t != nil && isErrorType(t) {
					ok = true
				}
			}
		case *ast.CallExpr:
			if id, isId := x.Fun.(*ast.Ident); isId && id.Name == "panic" {
				ok = true
			}
		}
		return true
	})
	return ok
}

func R11(p *core.Prog) *core.Result {
	r := core.NewResult("R11", "writer and reader tables agree and dispatchers are total: parser dispatch switches cover their state enum or fail in default; ubjson marker->BaseType matches the event emitted for that marker; gotype scratch-slot creation and completion tables cast to the same Go types per BaseType")

	// ---- (1) totality ----
	type tgt struct{ pkg, fn, tagType string }
	for _, t := range []tgt{
		{"json", "feedUntil", "json.state"},
		{"ubjson", "execStep", "ubjson.stateType"},
		{"ubjson", "markerToStartState", "byte"},
		{"gotype", "makeArrayPtr", "BaseType"},
		{"gotype", "makeMapPtr", "BaseType"},
		{"gotype", "unfoldIfcFinishSubArray", "BaseType"},
		{"gotype", "unfoldIfcFinishSubMap", "BaseType"},
	} {
		pk := p.Pkgs[t.pkg]
		if pk == nil {
			r.Undecided(".TOTAL", t.pkg, "package not loaded")
			continue
		}
		fd := findFuncDecl(pk, t.fn)
		if fd == nil {
			r.Undecided(".TOTAL", t.pkg+"."+t.fn, "function not found")
			continue
		}
		rows, deflt, sw := switchRows(pk.TypesInfo, fd, t.tagType)
		key := t.pkg + "." + t.fn
		if sw == nil {
			r.Undecided(".TOTAL", key, "no switch over "+t.tagType+" found in "+key)
			continue
		}
		pos := p.Pos(sw.Pos())
		if deflt != nil && defaultYieldsError(pk.TypesInfo, deflt) {
			r.Ok(".TOTAL", pos, key+": default arm yields an error")
			continue
		}
		named, _ := pk.TypesInfo.TypeOf(sw.Tag).(*types.Named)
		if named == nil {
			r.Fail(".TOTAL", key, pos, key+": the switch has no default arm that yields an error: an unknown value falls through silently", "")
			continue
		}
		declared := constsOfType(named)
		covered := map[string]bool{}
		for _, row := range rows {
			for _, n := range row.names {
				covered[n] = true
			}
		}
		var missing []string
		for n := range declared {
			if !covered[n] {
				missing = append(missing, n)
			}
		}
		sort.Strings(missing)
		if len(missing) == 0 {
			r.Ok(".TOTAL", pos, fmt.Sprintf("%s covers all %d constants of %s", key, len(declared), core.TypeName(named)))
		} else {
			r.Fail(".TOTAL", key, pos, fmt.Sprintf("%s neither covers %s nor has a default arm that yields an error", key, strings.Join(missing, ",")), "")
		}
	}

	// ---- (2) ubjson marker tables ----
	ubjsonMarkerEvents(p, r)

	// ---- (3) gotype scratch slots ----
	gp := p.Pkgs["gotype"]
	if gp != nil {
		for _, pr := range [][2]string{{"makeArrayPtr", "unfoldIfcFinishSubArray"}, {"makeMapPtr", "unfoldIfcFinishSubMap"}} {
			mk, fin := findFuncDecl(gp, pr[0]), findFuncDecl(gp, pr[1])
			if mk == nil || fin == nil {
				r.Undecided(".SLOT", pr[0], "table functions not found")
				continue
			}
			mrows, _, _ := switchRows(gp.TypesInfo, mk, "BaseType")
			frows, _, _ := switchRows(gp.TypesInfo, fin, "BaseType")
			mt, ft := map[string]types.Type{}, map[string]types.Type{}
			mclause := map[string]*ast.CaseClause{}
			for _, row := range mrows {
				for _, n := range row.names {
					// the typed pointer handed out is the first result of the clause's return statement
					var t types.Type
					ast.Inspect(row.clause, func(x ast.Node) bool {
						if rs, ok := x.(*ast.ReturnStmt); ok && len(rs.Results) >= 1 && t == nil {
							t = gp.TypesInfo.TypeOf(rs.Results[0])
						}
						return true
					})
					if t == nil {
						t = firstPointerCast(gp.TypesInfo, row.clause)
					}
					mt[n] = t
					mclause[n] = row.clause
				}
			}
			for _, row := range frows {
				for _, n := range row.names {
					ft[n] = firstPointerCast(gp.TypesInfo, row.clause)
				}
			}
			names := sortedKeys(mt)
			for _, n := range names {
				pos := p.Pos(mclause[n].Pos())
				key := "gotype." + pr[0] + "|" + n
				a, b := mt[n], ft[n]
				switch {
				case a == nil || b == nil:
					r.Fail(".SLOT", key, pos, fmt.Sprintf("gotype.%s / %s: no scratch-slot cast found for %s on one side", pr[0], pr[1], n), "")
				case !types.Identical(a, b):
					r.Fail(".SLOT", key, pos, fmt.Sprintf("gotype.%s casts the scratch slot for %s to %s but %s reads it back as %s: the bytes of one slice/map header are reinterpreted as another type", pr[0], n, a, pr[1], b), "")
				case slotElemMismatch(n, a) != "":
					r.Fail(".SLOT", key+"|announced", pos, fmt.Sprintf("gotype.%s for %s: %s: a stream that announces this element type is built into a container of another Go type (only a type-exact comparison or a type assertion notices)", pr[0], n, slotElemMismatch(n, a)), "")
				default:
					// the unfolder chosen in the creation clause must store through the same type
					if why := unfolderTargetMismatch(p, gp, mclause[n], a); why != "" {
						r.Fail(".SLOT", key+"|unfolder", pos, fmt.Sprintf("gotype.%s for %s: %s", pr[0], n, why), "")
					} else {
						r.Ok(".SLOT", pos, fmt.Sprintf("%s/%s agree for %s: %s", pr[0], pr[1], n, a))
					}
				}
			}
			r.Floor("slot_rows_"+pr[0], len(names), 15)
		}
	}
	return r
}

// unfolderTargetMismatch: the clause calls newUnfolderArrX()/newUnfolderMapX();
// the returned type's ptr(ctx) method must return the cast type.
func unfolderTargetMismatch(p *core.Prog, gp *packages.Package, cc *ast.CaseClause, cast types.Type) string {
	why := ""
	found := false
	ast.Inspect(cc, func(n ast.Node) bool {
		ce, ok := n.(*ast.CallExpr)
		if !ok {
			return true
		}
		id, ok := ce.Fun.(*ast.Ident)
		if !ok || !strings.HasPrefix(id.Name, "newUnfolder") {
			return true
		}
		rt := gp.TypesInfo.TypeOf(ce)
		if rt == nil {
			return true
		}
		ms := types.NewMethodSet(rt)
		sel := ms.Lookup(gp.Types, "ptr")
		if sel == nil {
			return true
		}
		found = true
		sig := sel.Type().(*types.Signature)
		if sig.Results().Len() == 1 && !types.Identical(sig.Results().At(0).Type(), cast) {
			why = fmt.Sprintf("the slot is cast to %s but the unfolder %s stores through %s", cast, id.Name, sig.Results().At(0).Type())
		}
		return true
	})
	if !found {
		return "no unfolder constructor found in the clause"
	}
	return why
}

// ubjsonMarkerEvents: marker -> state (markerToStartState) -> event
// (stepFixedValue / stepValue / string states) versus marker -> BaseType.
func ubjsonMarkerEvents(p *core.Prog, r *core.Result) {
	up := p.Pkgs["ubjson"]
	if up == nil {
		r.Undecided(".UBJSON-TYPES", "ubjson", "package not loaded")
		return
	}
	info := up.TypesInfo
	m2s := findFuncDecl(up, "markerToStartState")
	m2b := findFuncDecl(up, "markerToBaseType")
	sfv := findFuncDecl(up, "stepFixedValue")
	if m2s == nil || m2b == nil || sfv == nil {
		r.Undecided(".UBJSON-TYPES", "ubjson.tables", "markerToStartState / markerToBaseType / stepFixedValue not found")
		return
	}
	// marker -> (stateType, stateStep)
	type st struct{ typ, step string }
	markerState := map[string]st{}
	rows, _, _ := switchRows(info, m2s, "byte")
	for _, row := range rows {
		var s st
		ast.Inspect(row.clause, func(n ast.Node) bool {
			cl, ok := n.(*ast.CompositeLit)
			if !ok || len(cl.Elts) != 2 {
				return true
			}
			if a, ok := cl.Elts[0].(*ast.Ident); ok {
				s.typ = a.Name
			}
			if b, ok := cl.Elts[1].(*ast.Ident); ok {
				s.step = b.Name
			}
			return false
		})
		for _, n := range row.names {
			markerState[n] = s
		}
	}
	// step -> event (stepFixedValue)
	stepEvent := map[string]string{}
	srows, _, _ := switchRows(info, sfv, "stateStep")
	for _, row := range srows {
		ev := ""
		ast.Inspect(row.clause, func(n ast.Node) bool {
			ce, ok := n.(*ast.CallExpr)
			if !ok {
				return true
			}
			if se, ok := ce.Fun.(*ast.SelectorExpr); ok && strings.HasPrefix(se.Sel.Name, "On") {
				ev = se.Sel.Name
			}
			return true
		})
		for _, n := range row.names {
			stepEvent[n] = ev
		}
	}
	// marker -> BaseType
	markerBase := map[string]string{}
	brows, _, _ := switchRows(info, m2b, "byte")
	for _, row := range brows {
		bt := ""
		ast.Inspect(row.clause, func(n ast.Node) bool {
			if se, ok := n.(*ast.SelectorExpr); ok && strings.HasSuffix(se.Sel.Name, "Type") {
				bt = se.Sel.Name
			}
			return true
		})
		for _, n := range row.names {
			markerBase[n] = bt
		}
	}
	eventBase := map[string]string{"OnBool": "BoolType", "OnByte": "ByteType", "OnInt8": "Int8Type", "OnUint8": "Uint8Type", "OnInt16": "Int16Type", "OnInt32": "Int32Type", "OnInt64": "Int64Type", "OnFloat32": "Float32Type", "OnFloat64": "Float64Type", "OnString": "StringType", "OnStringRef": "StringType"}
	n := 0
	for _, marker := range sortedKeys(markerState) {
		s := markerState[marker]
		var ev string
		switch s.typ {
		case "stFixed":
			ev = stepEvent[s.step]
		case "stString", "stHighPrec":
			ev = "OnString"
		default:
			continue // containers, nil, noop: AnyType
		}
		if s.typ == "stFixed" && ev == "" {
			pos := p.Pos(sfv.Pos())
			if marker == "noopMarker" {
				// the no-op carries no value: stepValue must consume it itself (it has no live arm as a pushed state)
				sv := findFuncDecl(up, "stepValue")
				handled := false
				if sv != nil {
					vrows, _, _ := switchRows(info, sv, "stateStep")
					for _, row := range vrows {
						for _, nm := range row.names {
							if nm == s.step {
								handled = true
							}
						}
					}
				}
				if handled {
					r.Ok(".UBJSON-LIVE", pos, "ubjson noopMarker: consumed by stepValue without an event")
				} else {
					r.Fail(".UBJSON-LIVE", "ubjson.stepValue|"+marker, pos, fmt.Sprintf("ubjson stepValue has no arm for %s (the state of the no-op marker): the no-op is pushed as a value state whose only handler (stepFixedValue) reports nothing for it - a valid no-op is rejected or stalls the machine", s.step), "")
				}
			} else {
				r.Fail(".UBJSON-LIVE", "ubjson.stepFixedValue|"+marker, pos, fmt.Sprintf("ubjson marker %s starts state (%s,%s) but the arm of %s in stepFixedValue reports no event: every value with this marker that reaches the state machine as a pushed state (typed container elements) is rejected or lost", marker, s.typ, s.step, s.step), "")
			}
			continue
		}
		if s.typ == "stFixed" {
			r.Ok(".UBJSON-LIVE", p.Pos(sfv.Pos()), fmt.Sprintf("ubjson %s: state (%s,%s) has an arm in stepFixedValue that reports %s", marker, s.typ, s.step, ev))
		}
		if ev == "OnNil" || ev == "" {
			continue
		}
		n++
		want := eventBase[ev]
		got := markerBase[marker]
		if got == "" {
			got = "AnyType"
		}
		pos := p.Pos(m2b.Pos())
		if want == got {
			r.Ok(".UBJSON-TYPES", pos, fmt.Sprintf("ubjson %s: elements are reported with %s and announced as %s", marker, ev, got))
		} else {
			r.Fail(".UBJSON-TYPES", "ubjson.markerToBaseType|"+marker, pos, fmt.Sprintf("ubjson typed containers with element marker %s announce %s but their elements are reported with %s (%s): a consumer that trusts the announced element type receives events of another type", marker, got, ev, want), "")
		}
	}
	r.Floor("ubjson_marker_rows", n, 10)
	_ = token.NoPos
	_ = ssa.Value(nil)
}


// slotElemMismatch: the scratch slot created for an announced BaseType holds
// elements of the Go type that BaseType names (UintType -> uint, ...).
func slotElemMismatch(caseName string, slot types.Type) string {
	name := caseName
	if i := strings.LastIndex(name, "."); i >= 0 {
		name = name[i+1:]
	}
	var want types.BasicKind = types.Invalid
	for k, v := range kindToBase {
		if v[0] == name {
			want = k
		}
	}
	if name == "ByteType" {
		want = types.Uint8
	}
	if want == types.Invalid {
		return ""
	}
	pt, ok := slot.Underlying().(*types.Pointer)
	if !ok {
		return ""
	}
	var elem types.Type
	switch t := pt.Elem().Underlying().(type) {
	case *types.Slice:
		elem = t.Elem()
	case *types.Map:
		elem = t.Elem()
	default:
		return ""
	}
	if b, ok := elem.Underlying().(*types.Basic); ok && b.Kind() == want {
		return ""
	}
	return fmt.Sprintf("the slot holds elements of type %s, but %s announces %s", elem, name, types.Typ[want])
}

package rules

import (
	"go/ast"
	"go/token"
	"go/types"
	"strings"

	"golang.org/x/tools/go/analysis"
	"golang.org/x/tools/go/analysis/passes/inspect"
	"golang.org/x/tools/go/analysis/passes/unsafeptr"
	"golang.org/x/tools/go/ast/inspector"

	"sfcheck/internal/core"
)

// unsafePtrRule runs the x/tools unsafeptr pass over the library packages
// (misuse of unsafe.Pointer(uintptr) conversions) and additionally requires
// that no uintptr obtained from a pointer is held in a variable: every
// uintptr(unsafe.Pointer(x)) occurs inside a single pointer-arithmetic
// expression unsafe.Pointer(uintptr(p) + off).
func unsafePtrRule(p *core.Prog, r *core.Result) {
	convs := 0
	for _, pk := range p.All {
		pass := &analysis.Pass{
			Analyzer:   unsafeptr.Analyzer,
			Fset:       pk.Fset,
			Files:      pk.Syntax,
			Pkg:        pk.Types,
			TypesInfo:  pk.TypesInfo,
			TypesSizes: pk.TypesSizes,
			ResultOf:   map[*analysis.Analyzer]interface{}{inspect.Analyzer: inspector.New(pk.Syntax)},
			Report: func(d analysis.Diagnostic) {
				r.Fail(".UNSAFEPTR", pk.Name+"|"+p.Pos(d.Pos), p.Pos(d.Pos), "unsafeptr: "+d.Message, "")
			},
		}
		if _, err := unsafeptr.Analyzer.Run(pass); err != nil {
			r.Undecided(".UNSAFEPTR", pk.Name, "unsafeptr pass failed: "+err.Error())
		}
		// uintptr(unsafe.Pointer(x)) must be an operand of arithmetic inside unsafe.Pointer(...)
		for _, file := range pk.Syntax {
			var stack []ast.Node
			ast.Inspect(file, func(n ast.Node) bool {
				if n == nil {
					stack = stack[:len(stack)-1]
					return true
				}
				stack = append(stack, n)
				ce, ok := n.(*ast.CallExpr)
				if !ok || len(ce.Args) != 1 {
					return true
				}
				tv, ok := pk.TypesInfo.Types[ce.Fun]
				if !ok || !tv.IsType() {
					return true
				}
				b, ok := tv.Type.Underlying().(*types.Basic)
				if !ok || b.Kind() != types.Uintptr {
					return true
				}
				at := pk.TypesInfo.TypeOf(ce.Args[0])
				ab, ok := at.Underlying().(*types.Basic)
				if !ok || ab.Kind() != types.UnsafePointer {
					return true
				}
				convs++
				// enclosing chain must reach an unsafe.Pointer(...) conversion through binary/paren expressions only
				okForm := false
				for i := len(stack) - 2; i >= 0; i-- {
					switch x := stack[i].(type) {
					case *ast.BinaryExpr, *ast.ParenExpr:
						continue
					case *ast.CallExpr:
						if tv2, ok := pk.TypesInfo.Types[x.Fun]; ok && tv2.IsType() {
							if b2, ok := tv2.Type.Underlying().(*types.Basic); ok && b2.Kind() == types.UnsafePointer {
								okForm = true
							}
						}
					}
					break
				}
				pos := p.Pos(ce.Pos())
				if okForm {
					r.Ok(".UNSAFEPTR", pos, "uintptr(unsafe.Pointer(x)) used inside a single pointer-arithmetic expression")
				} else {
					fn := pos[:strings.Index(pos, ":")]
					r.Fail(".UNSAFEPTR", pk.Name+"|uintptr-held|"+fn, pos, "a pointer is converted to uintptr outside the single-expression form unsafe.Pointer(uintptr(p)+off): the integer does not keep the object alive and is not updated if the object moves", "")
				}
				return true
			})
		}
	}
	r.Stats["uintptr_of_pointer_conversions"] = convs
	_ = token.NoPos
}

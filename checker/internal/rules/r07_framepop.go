package rules

import (
	"fmt"
	"go/constant"
	"go/token"
	"go/types"
	"sort"

	"golang.org/x/tools/go/ssa"

	"sfcheck/internal/core"
)

// R7 FRAME-TYPE-POP (ubjson). The element type of a typed container lives on
// its own stack (valueState) exactly as long as the container's frame lives on
// the state stack. Wherever a method of the parser decides by a *test of the
// open frame's kind* whether to pop the element type (the end-of-input check
// does: it completes whatever container is open), the decision must be about
// the frame that is popped in the same step:
//
//   - on a path on which the kind of the frame that was open BEFORE the frame
//     pop is known to be a typed container, the element type is popped too
//     (before the step ends: loop back edge or return);
//   - on a path on which it is known to be another kind, it is not;
//   - an element-type pop that follows the frame pop and is guarded by a test
//     of the frame kind read AFTER the pop is deciding on the enclosing
//     container: the completed container's element type leaks, or the
//     enclosing one's is dropped while it is still open.
//
// Knowledge about the frame kind is value-exact (== c / != c against the
// constants it was compared with), is shared by all reads of the open frame's
// kind until the frame stack moves or the kind is written, and is reset at
// every loop back edge (a new step looks at a new frame).

type ftpState struct {
	spop, vpop bool
	unknown    bool
	known      bool
	val        int64
	excl       []int64 // sorted
	pre, post  valueSet
	postGuard  bool // the path passed a typed-kind test on a kind read after the frame pop
}

type ftpClient struct {
	p       *core.Prog
	ctx     *r6ctx
	fn      *ssa.Function
	num     *valueNumbering
	kindT   types.Type
	typed   map[int64]string
	writes  func(*ssa.Function) bool
	bad     map[string]string
	checked int
}

func (k *ftpClient) Key(s ftpState) string {
	return fmt.Sprintf("%v%v%v%v%d%v|%s|%s|%v", s.spop, s.vpop, s.unknown, s.known, s.val, s.excl, s.pre.key(), s.post.key(), s.postGuard)
}

func (k *ftpClient) stepEnd(s ftpState, where string) {
	if !s.spop || s.unknown {
		return
	}
	if s.known {
		k.checked++
		if name, isTyped := k.typed[s.val]; isTyped && !s.vpop {
			k.bad["MISSING"] = fmt.Sprintf("pops a frame whose kind is known to be %s (a typed container) and ends the step (%s) without popping the element-type stack: the element type of the completed container stays behind for whatever follows, and the stack grows with every such document", name, where)
		} else if !isTyped && s.vpop {
			k.bad["SPURIOUS"] = fmt.Sprintf("pops the element-type stack in a step (%s) in which the popped frame is known not to be a typed container: an enclosing typed container loses its element type while it is still open", where)
		}
		return
	}
	if s.vpop && s.postGuard {
		k.bad["STALE-FRAME"] = fmt.Sprintf("pops the element-type stack behind a test of the frame kind that is read after the frame pop (step ends at %s): the test sees the enclosing container, not the completed one", where)
	}
}

func (k *ftpClient) Phis(s ftpState, blk *ssa.BasicBlock, pred int) ftpState {
	if isBackEdge(blk, pred) {
		k.stepEnd(s, "loop back edge at "+k.p.Pos(blk.Instrs[0].Pos()))
		return ftpState{}
	}
	return s
}

func (k *ftpClient) Return(s ftpState, ret *ssa.Return) {
	if ei := errResultIndex(k.fn.Signature); ei >= 0 && definitelyNonNilError(ret.Results[ei]) {
		return
	}
	k.stepEnd(s, "return at "+k.p.Pos(ret.Pos()))
}

func (s ftpState) forget() ftpState {
	s.known, s.val, s.excl = false, 0, nil
	s.pre, s.post = valueSet{}, valueSet{}
	return s
}

// kindLoad: *(&recv.state.current.<kind>) - a read of the open frame's kind.
func (k *ftpClient) kindLoad(u *ssa.UnOp) bool {
	if u.Op != token.MUL || !types.Identical(u.Type(), k.kindT) {
		return false
	}
	fa, ok := u.X.(*ssa.FieldAddr)
	if !ok {
		return false
	}
	par, ok := fa.X.(*ssa.FieldAddr)
	if !ok {
		return false
	}
	pst, _ := par.X.Type().Underlying().(*types.Pointer).Elem().Underlying().(*types.Struct)
	if pst == nil || core.FieldName(pst, par.Field) != "current" {
		return false
	}
	return fieldOfReceiver(k.fn, fa) == "state"
}

func (k *ftpClient) Instr(s ftpState, in ssa.Instruction) (ftpState, bool, []ftpState) {
	switch x := in.(type) {
	case *ssa.UnOp:
		if k.kindLoad(x) {
			if s.spop {
				s.post = s.post.with(k.num.id(x))
			} else {
				s.pre = s.pre.with(k.num.id(x))
			}
		}
	case *ssa.Store:
		et := x.Addr.Type().Underlying().(*types.Pointer).Elem()
		if types.Identical(et, k.kindT) || structHasFieldOf(et, k.kindT) {
			if fieldOfReceiver(k.fn, x.Addr) == "state" {
				s = s.forget()
			}
		}
	case *ssa.Call:
		cc := x.Common()
		sc := cc.StaticCallee()
		if sc == nil || len(cc.Args) == 0 || sc.Signature.Recv() == nil {
			break
		}
		if n := core.FuncName(sc); n == "push" || n == "pop" {
			switch fieldOfReceiver(k.fn, cc.Args[0]) {
			case "state":
				if n == "pop" && !s.spop {
					s.spop = true
				} else {
					s.unknown = true
				}
				return s, true, nil
			case "valueState":
				if n == "pop" && !s.vpop {
					s.vpop = true
				} else {
					s.unknown = true
				}
				return s, true, nil
			}
		}
		if namedOf(sc.Signature.Recv().Type()) == k.ctx.recv && cc.Args[0] == ssa.Value(k.fn.Params[0]) {
			if k.ctx.opaque[sc] {
				s.unknown = true
				return s, true, nil
			}
			sum := k.ctx.summary(sc)
			if sum == nil || sum.top {
				s.unknown = true
				return s, true, nil
			}
			seen := map[[2]int]bool{}
			var outs []ftpState
			for _, dk := range sortedKeys(sum.deltas) {
				d := sum.deltas[dk]
				pr := [2]int{d["state"], d["valueState"]}
				if seen[pr] {
					continue
				}
				seen[pr] = true
				ns := s
				switch {
				case pr[0] == -1 && !ns.spop:
					ns.spop = true
				case pr[0] != 0:
					ns.unknown = true
				}
				switch {
				case pr[1] == -1 && !ns.vpop:
					ns.vpop = true
				case pr[1] != 0:
					ns.unknown = true
				}
				if pr[0] == 0 && k.writes(sc) {
					ns = ns.forget()
				}
				outs = append(outs, ns)
			}
			if len(outs) == 0 {
				return s, false, nil // the callee only returns errors
			}
			return outs[0], true, outs[1:]
		}
	}
	return s, true, nil
}

func (k *ftpClient) Branch(s ftpState, cond ssa.Value, outcome bool) (ftpState, bool) {
	for {
		u, ok := cond.(*ssa.UnOp)
		if !ok || u.Op != token.NOT {
			break
		}
		cond, outcome = u.X, !outcome
	}
	bo, ok := cond.(*ssa.BinOp)
	if !ok || (bo.Op != token.EQL && bo.Op != token.NEQ) {
		return s, true
	}
	ld, c := bo.X, bo.Y
	if _, isC := ld.(*ssa.Const); isC {
		ld, c = c, ld
	}
	cv, isC := c.(*ssa.Const)
	if !isC || cv.Value == nil || cv.Value.Kind() != constant.Int {
		return s, true
	}
	v, _ := constant.Int64Val(cv.Value)
	eq := (bo.Op == token.EQL) == outcome
	id := k.num.id(ld)
	switch {
	case s.pre.has(id):
		if eq {
			if s.known && s.val != v {
				return s, false
			}
			if i := sort.Search(len(s.excl), func(i int) bool { return s.excl[i] >= v }); i < len(s.excl) && s.excl[i] == v {
				return s, false
			}
			s.known, s.val = true, v
		} else {
			if s.known && s.val == v {
				return s, false
			}
			if !s.known {
				i := sort.Search(len(s.excl), func(i int) bool { return s.excl[i] >= v })
				if i == len(s.excl) || s.excl[i] != v {
					ne := make([]int64, 0, len(s.excl)+1)
					ne = append(ne, s.excl[:i]...)
					ne = append(ne, v)
					ne = append(ne, s.excl[i:]...)
					s.excl = ne
				}
			}
		}
	case s.post.has(id):
		if _, isTyped := k.typed[v]; isTyped && eq {
			s.postGuard = true
		}
	}
	return s, true
}

func structHasFieldOf(t, ft types.Type) bool {
	st, ok := t.Underlying().(*types.Struct)
	if !ok {
		return false
	}
	for i := 0; i < st.NumFields(); i++ {
		if types.Identical(st.Field(i).Type(), ft) {
			return true
		}
	}
	return false
}

func r7FramePop(p *core.Prog, r *core.Result, ctx *r6ctx) {
	typed := map[int64]string{}
	var kindT types.Type
	for _, n := range []string{"stArrayTyped", "stObjectTyped"} {
		nc := p.Const("ubjson", n)
		if nc == nil {
			r.Undecided(".FRAME-TYPE-POP", "ubjson."+n, "frame-kind constant "+n+" not found")
			return
		}
		v, _ := constant.Int64Val(nc.Value.Value)
		typed[v] = n
		kindT = nc.Type()
	}
	memo := map[*ssa.Function]int{}
	var writes func(f *ssa.Function) bool
	writes = func(f *ssa.Function) bool {
		if v, ok := memo[f]; ok {
			return v == 1
		}
		memo[f] = 0
		res := false
		for _, b := range f.Blocks {
			for _, in := range b.Instrs {
				switch x := in.(type) {
				case *ssa.Store:
					et := x.Addr.Type().Underlying().(*types.Pointer).Elem()
					if types.Identical(et, kindT) || structHasFieldOf(et, kindT) {
						res = true
					}
				case ssa.CallInstruction:
					if sc := x.Common().StaticCallee(); sc != nil && core.FuncPkg(sc) == core.FuncPkg(f) && writes(sc) {
						res = true
					}
				}
			}
		}
		if res {
			memo[f] = 1
		}
		return res
	}
	var fns []*ssa.Function
	for _, f := range p.ModFuncs() {
		if f.Blocks == nil || f.Signature.Recv() == nil || namedOf(f.Signature.Recv().Type()) != ctx.recv {
			continue
		}
		fns = append(fns, f)
	}
	sort.Slice(fns, func(i, j int) bool { return core.FuncKey(fns[i]) < core.FuncKey(fns[j]) })
	total := 0
	for _, f := range fns {
		k := &ftpClient{p: p, ctx: ctx, fn: f, num: newNumbering(), kindT: kindT, typed: typed, writes: writes, bad: map[string]string{}}
		_, capped := WalkPaths[ftpState](k, f.Blocks[0], 0, ftpState{}, 200000, nil)
		if capped {
			r.Undecided(".FRAME-TYPE-POP", core.FuncKey(f), "state cap hit")
			continue
		}
		total += k.checked
		for _, kk := range sortedKeys(k.bad) {
			r.Fail(".FRAME-TYPE-POP", core.FuncKey(f)+"|"+kk, p.Pos(f.Pos()), core.FuncKey(f)+" "+k.bad[kk], "")
		}
		if len(k.bad) == 0 && k.checked > 0 {
			r.Ok(".FRAME-TYPE-POP", p.Pos(f.Pos()), fmt.Sprintf("%s: on each of its %d frame-popping step paths the element type is popped iff the popped frame is a typed container", core.FuncKey(f), k.checked))
		}
	}
	r.Stats["frame_type_pop_paths"] = total
	r.Floor("frame_type_pop_paths", total, 2)
}

package rules

import (
	"fmt"
	"go/constant"
	"go/token"
	"go/types"
	"sort"
	"strings"

	"golang.org/x/tools/go/ssa"

	"sfcheck/internal/core"
)

// R6 DELTA: every event method of an encoder moves every nesting counter of
// the instance by exactly its contract delta on every path that may return a
// nil error: container starts +1, container finishes -1, everything else
// (scalars, keys, by-reference strings, typed arrays/maps) 0.
//
// Counters are discovered from the receiver type: fields whose type has both
// a push and a pop method (stacks), and int fields that are only ever changed
// by +1/-1 (depth counters).

type counterOp struct {
	field string
	d     int
}

type r6state struct {
	d      map[string]int // field -> delta so far (copy on write)
	top    bool           // unbounded / unknown
	nonnil valueSet
	bt, bf valueSet
}

func (s r6state) add(f string, d int) r6state {
	n := make(map[string]int, len(s.d)+1)
	for k, v := range s.d {
		n[k] = v
	}
	n[f] += d
	if n[f] > 4 || n[f] < -4 {
		s.top = true
	}
	if n[f] == 0 {
		delete(n, f)
	}
	s.d = n
	return s
}

func deltaKey(d map[string]int) string {
	var ks []string
	for k, v := range d {
		ks = append(ks, fmt.Sprintf("%s%+d", k, v))
	}
	sort.Strings(ks)
	return strings.Join(ks, ",")
}

type r6ctx struct {
	p        *core.Prog
	recv     *types.Named
	counters map[string]bool       // counter field names
	sums     map[*ssa.Function]*r6sum
	busy     map[*ssa.Function]bool
	opaque   map[*ssa.Function]bool // calls treated as balanced (delta 0): recursive value dispatchers
	// summaries of methods of helper types embedded by value in the receiver (a counter bundled with its
	// operations), keyed by function and the field path of the helper inside the receiver
	subSums map[string]*r6sum
}

type r6sum struct {
	deltas map[string]map[string]int // key -> delta vector, over nil-able return paths
	bools  map[string]map[int]bool   // key -> known boolean results on that outcome
	top    bool
}

type r6client struct {
	c      *r6ctx
	fn     *ssa.Function
	prefix string // field path of fn's receiver inside the checked receiver type ("" for its own methods)
	num    *valueNumbering
	out    *r6sum
}

// recvPath: addr is the receiver pointer itself or the address of a (nested,
// by-value) field of it; returns the dotted field path ("" for the receiver).
func recvPath(f *ssa.Function, addr ssa.Value) (string, bool) {
	if f.Signature.Recv() == nil || len(f.Params) == 0 {
		return "", false
	}
	var parts []string
	for i := 0; i < 6; i++ {
		if addr == ssa.Value(f.Params[0]) {
			for l, r := 0, len(parts)-1; l < r; l, r = l+1, r-1 {
				parts[l], parts[r] = parts[r], parts[l]
			}
			return strings.Join(parts, "."), true
		}
		fa, ok := addr.(*ssa.FieldAddr)
		if !ok {
			return "", false
		}
		st, ok := fa.X.Type().Underlying().(*types.Pointer).Elem().Underlying().(*types.Struct)
		if !ok {
			return "", false
		}
		parts = append(parts, core.FieldName(st, fa.Field))
		addr = fa.X
	}
	return "", false
}

func joinPath(a, b string) string {
	switch {
	case a == "":
		return b
	case b == "":
		return a
	}
	return a + "." + b
}

// counterAt: the counter a field address of the current function denotes.
func (k *r6client) counterAt(addr ssa.Value) string {
	if rel, ok := recvPath(k.fn, addr); ok {
		if full := joinPath(k.prefix, rel); full != "" && k.c.counters[full] {
			return full
		}
	}
	if k.prefix == "" {
		if f := fieldOfReceiver(k.fn, addr); f != "" && k.c.counters[f] {
			return f
		}
	}
	return ""
}

// exactCounterAt: the address is exactly a counter (not a field inside one).
func (k *r6client) exactCounterAt(addr ssa.Value) string {
	if rel, ok := recvPath(k.fn, addr); ok {
		if full := joinPath(k.prefix, rel); full != "" && k.c.counters[full] {
			return full
		}
	}
	return ""
}

// holdsCounter: some counter lives at or below the field path.
func (c *r6ctx) holdsCounter(path string) bool {
	for cn := range c.counters {
		if cn == path || strings.HasPrefix(cn, path+".") {
			return true
		}
	}
	return false
}

func (k *r6client) Key(s r6state) string {
	return fmt.Sprintf("%s|%v|%s|%s|%s", deltaKey(s.d), s.top, s.nonnil.key(), s.bt.key(), s.bf.key())
}

func (k *r6client) Phis(s r6state, blk *ssa.BasicBlock, pred int) r6state {
	type upd struct {
		id             int
		nonnil, bt, bf bool
	}
	var ups []upd
	for _, in := range blk.Instrs {
		phi, ok := in.(*ssa.Phi)
		if !ok {
			break
		}
		if pred < 0 || pred >= len(phi.Edges) {
			continue
		}
		e := phi.Edges[pred]
		eid := k.num.id(e)
		u := upd{id: k.num.id(phi), nonnil: s.nonnil.has(eid) || definitelyNonNilError(e)}
		if cv, ok := constBool(e); ok {
			u.bt, u.bf = cv, !cv
		} else {
			u.bt, u.bf = s.bt.has(eid), s.bf.has(eid)
		}
		ups = append(ups, u)
	}
	for _, u := range ups {
		s.nonnil, s.bt, s.bf = s.nonnil.without(u.id), s.bt.without(u.id), s.bf.without(u.id)
		if u.nonnil {
			s.nonnil = s.nonnil.with(u.id)
		}
		if u.bt {
			s.bt = s.bt.with(u.id)
		}
		if u.bf {
			s.bf = s.bf.with(u.id)
		}
	}
	return s
}

// recvField: addr is &recv.F (possibly deeper); returns F.
func (k *r6client) recvField(addr ssa.Value) string {
	return fieldOfReceiver(k.fn, addr)
}

func (k *r6client) Instr(s r6state, in ssa.Instruction) (r6state, bool, []r6state) {
	switch x := in.(type) {
	case *ssa.Store:
		// depth++ / depth-- on a counter that is an int itself; a store into a field of a stack-typed counter
		// (x.current--: the element countdown kept in the top entry) is not a push or pop
		if f := k.exactCounterAt(x.Addr); f != "" {
			if bo, ok := x.Val.(*ssa.BinOp); ok && (bo.Op == token.ADD || bo.Op == token.SUB) {
				if ld, ok := bo.X.(*ssa.UnOp); ok && ld.Op == token.MUL && k.exactCounterAt(ld.X) == f && isIntConst(bo.Y, 1) {
					d := 1
					if bo.Op == token.SUB {
						d = -1
					}
					return s.add(f, d), true, nil
				}
			}
			// any other store to a counter (reset) is outside the contract
			if rel, ok := recvPath(k.fn, x.Addr); ok && joinPath(k.prefix, rel) == f {
				s.top = true
			}
		}
	case *ssa.Call:
		cc := x.Common()
		sc := cc.StaticCallee()
		if sc == nil || len(cc.Args) == 0 {
			break
		}
		// push/pop on a counter field
		if (core.FuncName(sc) == "push" || core.FuncName(sc) == "pop") && sc.Signature.Recv() != nil {
			if f := k.counterAt(cc.Args[0]); f != "" {
				d := 1
				if core.FuncName(sc) == "pop" {
					d = -1
				}
				return s.add(f, d), true, nil
			}
		}
		// a method of a helper value embedded in the instance that carries one of the counters
		if rel, ok := recvPath(k.fn, cc.Args[0]); ok && sc.Signature.Recv() != nil && sc.Blocks != nil {
			if sub := joinPath(k.prefix, rel); sub != "" && k.c.holdsCounter(sub) {
				return k.applySummary(s, x, k.c.summaryAt(sc, sub))
			}
		}
		// a method of the same instance
		if sc.Signature.Recv() != nil && namedOf(sc.Signature.Recv().Type()) == k.c.recv && cc.Args[0] == ssa.Value(k.fn.Params[0]) {
			if k.c.opaque[sc] {
				return s, true, nil
			}
			// constant boolean arguments select the callee's behaviour (a helper shared by two flavours of a handler)
			spec := map[int]bool{}
			for i, a := range cc.Args {
				if i == 0 || i >= len(sc.Params) {
					continue
				}
				if cv, ok := constBool(a); ok {
					spec[i] = cv
				} else if s.bt.has(k.num.id(a)) {
					spec[i] = true
				} else if s.bf.has(k.num.id(a)) {
					spec[i] = false
				}
			}
			if len(spec) > 0 {
				return k.applySummary(s, x, k.c.summarySpec(sc, spec))
			}
			return k.applySummary(s, x, k.c.summary(sc))
		}
	}
	return s, true, nil
}

// applySummary continues a path with every outcome of a summarised callee.
func (k *r6client) applySummary(s r6state, x *ssa.Call, sum *r6sum) (r6state, bool, []r6state) {
	if sum == nil || sum.top {
		s.top = true
		return s, true, nil
	}
	var outs []r6state
	for _, dk := range sortedKeys(sum.deltas) {
		ns := s
		for f, d := range sum.deltas[dk] {
			ns = ns.add(f, d)
		}
		if refs := x.Referrers(); refs != nil {
			for _, ref := range *refs {
				if ex, ok := ref.(*ssa.Extract); ok {
					if bv, known := sum.bools[dk][ex.Index]; known {
						id := k.num.id(ex)
						ns.bt, ns.bf = ns.bt.without(id), ns.bf.without(id)
						if bv {
							ns.bt = ns.bt.with(id)
						} else {
							ns.bf = ns.bf.with(id)
						}
					}
				}
			}
		}
		// a single boolean result is the call value itself
		if b, ok := x.Type().Underlying().(*types.Basic); ok && b.Kind() == types.Bool {
			if bv, known := sum.bools[dk][0]; known {
				id := k.num.id(x)
				ns.bt, ns.bf = ns.bt.without(id), ns.bf.without(id)
				if bv {
					ns.bt = ns.bt.with(id)
				} else {
					ns.bf = ns.bf.with(id)
				}
			}
		}
		outs = append(outs, ns)
	}
	if len(outs) == 0 {
		// callee never returns normally with a nil-able error: path ends in error
		return s, true, nil
	}
	return outs[0], true, outs[1:]
}

func (k *r6client) Branch(s r6state, cond ssa.Value, outcome bool) (r6state, bool) {
	for {
		u, ok := cond.(*ssa.UnOp)
		if !ok || u.Op != token.NOT {
			break
		}
		cond, outcome = u.X, !outcome
	}
	id := k.num.id(cond)
	if s.bt.has(id) && !outcome || s.bf.has(id) && outcome {
		return s, false
	}
	if x, trueMeansNil, ok := nilTest(cond); ok && isErrorType(x.Type()) {
		isNil := outcome == trueMeansNil
		if isNil && s.nonnil.has(k.num.id(x)) {
			return s, false
		}
		if !isNil {
			s.nonnil = s.nonnil.with(k.num.id(x))
		}
	}
	if b, isB := cond.Type().Underlying().(*types.Basic); isB && b.Kind() == types.Bool {
		if outcome {
			s.bt = s.bt.with(id)
		} else {
			s.bf = s.bf.with(id)
		}
	}
	return s, true
}

func (k *r6client) Return(s r6state, ret *ssa.Return) {
	ei := errResultIndex(k.fn.Signature)
	if ei >= 0 {
		rv := ret.Results[ei]
		if definitelyNonNilError(rv) || s.nonnil.has(k.num.id(rv)) {
			return // error path: the caller stops
		}
	}
	if s.top {
		k.out.top = true
		return
	}
	bools := map[int]bool{}
	var bk []string
	res := k.fn.Signature.Results()
	for i := 0; i < res.Len(); i++ {
		if b, ok := res.At(i).Type().Underlying().(*types.Basic); !ok || b.Kind() != types.Bool {
			continue
		}
		v := ret.Results[i]
		if cv, ok := constBool(v); ok {
			bools[i] = cv
		} else if s.bt.has(k.num.id(v)) {
			bools[i] = true
		} else if s.bf.has(k.num.id(v)) {
			bools[i] = false
		} else {
			continue
		}
		bk = append(bk, fmt.Sprintf("%d=%v", i, bools[i]))
	}
	key := deltaKey(s.d) + "#" + strings.Join(bk, ",")
	k.out.deltas[key] = s.d
	k.out.bools[key] = bools
}

func (c *r6ctx) summary(f *ssa.Function) *r6sum {
	if s, ok := c.sums[f]; ok {
		return s
	}
	if c.busy[f] || f.Blocks == nil {
		return nil
	}
	c.busy[f] = true
	defer delete(c.busy, f)
	k := &r6client{c: c, fn: f, num: newNumbering(), out: &r6sum{deltas: map[string]map[string]int{}, bools: map[string]map[int]bool{}}}
	_, capped := WalkPaths[r6state](k, f.Blocks[0], 0, r6state{}, 200000, nil)
	if capped {
		k.out.top = true
	}
	c.sums[f] = k.out
	return k.out
}

// summarySpec: the effect of a method of the same instance when some of its
// boolean parameters have known values.
func (c *r6ctx) summarySpec(f *ssa.Function, spec map[int]bool) *r6sum {
	var parts []string
	for i, v := range spec {
		parts = append(parts, fmt.Sprintf("%d=%v", i, v))
	}
	sort.Strings(parts)
	key := fmt.Sprintf("%p|spec|%s", f, strings.Join(parts, ","))
	if s, ok := c.subSums[key]; ok {
		return s
	}
	if c.busy[f] || f.Blocks == nil {
		return nil
	}
	c.busy[f] = true
	defer delete(c.busy, f)
	k := &r6client{c: c, fn: f, num: newNumbering(), out: &r6sum{deltas: map[string]map[string]int{}, bools: map[string]map[int]bool{}}}
	init := r6state{}
	for i, v := range spec {
		if bt, ok := f.Params[i].Type().Underlying().(*types.Basic); !ok || bt.Kind() != types.Bool {
			continue
		}
		if v {
			init.bt = init.bt.with(k.num.id(f.Params[i]))
		} else {
			init.bf = init.bf.with(k.num.id(f.Params[i]))
		}
	}
	_, capped := WalkPaths[r6state](k, f.Blocks[0], 0, init, 200000, nil)
	if capped {
		k.out.top = true
	}
	if c.subSums == nil {
		c.subSums = map[string]*r6sum{}
	}
	c.subSums[key] = k.out
	return k.out
}

// summaryAt: the effect of a method of a helper value that sits at field path
// prefix inside the checked receiver.
func (c *r6ctx) summaryAt(f *ssa.Function, prefix string) *r6sum {
	key := fmt.Sprintf("%p|%s", f, prefix)
	if s, ok := c.subSums[key]; ok {
		return s
	}
	if c.busy[f] || f.Blocks == nil {
		return nil
	}
	c.busy[f] = true
	defer delete(c.busy, f)
	k := &r6client{c: c, fn: f, prefix: prefix, num: newNumbering(), out: &r6sum{deltas: map[string]map[string]int{}, bools: map[string]map[int]bool{}}}
	_, capped := WalkPaths[r6state](k, f.Blocks[0], 0, r6state{}, 200000, nil)
	if capped {
		k.out.top = true
	}
	if c.subSums == nil {
		c.subSums = map[string]*r6sum{}
	}
	c.subSums[key] = k.out
	return k.out
}

// discoverCounters finds the nesting counters of a receiver type: fields (or
// fields of helper structs held by value) with push and pop, and depth ints.
func discoverCounters(p *core.Prog, named *types.Named) map[string]bool {
	out := map[string]bool{}
	discoverCountersAt(named, "", 0, out)
	return out
}

func discoverCountersAt(named *types.Named, prefix string, depth int, out map[string]bool) {
	st, ok := named.Underlying().(*types.Struct)
	if !ok || depth > 2 {
		return
	}
	for i := 0; i < st.NumFields(); i++ {
		f := st.Field(i)
		ft := f.Type()
		fname := joinPath(prefix, core.FieldName(st, i))
		if n := namedOf(ft); n != nil {
			ms := types.NewMethodSet(types.NewPointer(n))
			hasPush, hasPop := false, false
			for j := 0; j < ms.Len(); j++ {
				switch methodName(ms.At(j).Obj()) {
				case "push":
					hasPush = true
				case "pop":
					hasPop = true
				}
			}
			if hasPush && hasPop {
				out[fname] = true
				continue
			}
			// a helper struct of the same package held by value may bundle the counters with their operations
			if _, isStruct := n.Underlying().(*types.Struct); isStruct && n.Obj().Pkg() == named.Obj().Pkg() {
				discoverCountersAt(n, fname, depth+1, out)
			}
		}
		if b, ok := ft.Underlying().(*types.Basic); ok && b.Kind() == types.Int && strings.Contains(strings.ToLower(core.FieldName(st, i)), "depth") {
			out[fname] = true
		}
	}
}

// encoderSpec: one consumer type checked by R6.
type encoderSpec struct {
	pkg, typ string
	// which events open / close a level on the counters of this type
	opens, closes []string
}

var r6encoders = []encoderSpec{
	{"json", "Visitor", []string{"OnArrayStart", "OnObjectStart"}, []string{"OnArrayFinished", "OnObjectFinished"}},
	{"cborl", "Visitor", []string{"OnArrayStart", "OnObjectStart"}, []string{"OnArrayFinished", "OnObjectFinished"}},
	{"ubjson", "Visitor", []string{"OnArrayStart", "OnObjectStart"}, []string{"OnArrayFinished", "OnObjectFinished"}},
	// ExpectObjVisitor strips exactly one object level: only object events count
	{"visitors", "ExpectObjVisitor", []string{"OnObjectStart"}, []string{"OnObjectFinished"}},
}

// R6 runs DELTA for the given packages (empty: all).
func R6(pkgs ...string) func(p *core.Prog) *core.Result {
	want := map[string]bool{}
	for _, k := range pkgs {
		want[k] = true
	}
	return func(p *core.Prog) *core.Result {
		r := core.NewResult("R6", "every event method of an encoder (and of ExpectObjVisitor) moves every nesting counter of the instance by exactly its Visitor-contract delta (+1 start, -1 finish, 0 everything else, including all extended events) on every path that can return a nil error; count/terminator conditions are complementary; ExpectObjVisitor forwards nothing before its inside-object check")
		methods := 0
		for _, es := range r6encoders {
			if len(want) > 0 && !want[es.pkg] {
				continue
			}
			sp := p.SPkgs[es.pkg]
			if sp == nil || sp.Type(es.typ) == nil {
				r.Undecided("", es.pkg+"."+es.typ, "type not found")
				continue
			}
			named := sp.Type(es.typ).Type().(*types.Named)
			ctx := &r6ctx{p: p, recv: named, counters: discoverCounters(p, named), sums: map[*ssa.Function]*r6sum{}, busy: map[*ssa.Function]bool{}}
			if len(ctx.counters) == 0 {
				r.Undecided("", es.pkg+"."+es.typ+"|counters", "no nesting counter (stack with push/pop, or depth int) found on "+es.typ)
				continue
			}
			var cn []string
			for f := range ctx.counters {
				cn = append(cn, f)
			}
			sort.Strings(cn)
			ms := p.SSA.MethodSets.MethodSet(types.NewPointer(named))
			for i := 0; i < ms.Len(); i++ {
				fo, ok := ms.At(i).Obj().(*types.Func)
				if !ok || !strings.HasPrefix(fo.Name(), "On") || !fo.Exported() {
					continue
				}
				f := p.SSA.FuncValue(fo)
				if f == nil || f.Blocks == nil || namedOf(f.Signature.Recv().Type()) != named {
					continue
				}
				methods++
				want := 0
				for _, n := range es.opens {
					if n == fo.Name() {
						want = 1
					}
				}
				for _, n := range es.closes {
					if n == fo.Name() {
						want = -1
					}
				}
				sum := ctx.summary(f)
				fkey := core.FuncKey(f)
				pos := p.Pos(f.Pos())
				if sum == nil || sum.top {
					r.Fail(".DELTA", fkey+"|unbounded", pos, fmt.Sprintf("%s: the effect on the nesting counters (%s) is not a fixed delta (a loop or reset changes them)", fkey, strings.Join(cn, ",")), "")
					continue
				}
				bad := ""
				for _, dk := range sortedKeys(sum.deltas) {
					d := sum.deltas[dk]
					for _, c := range cn {
						if d[c] != want {
							bad = fmt.Sprintf("counter %q moves by %+d on some success path, the Visitor contract requires %+d", c, d[c], want)
						}
					}
				}
				if len(sum.deltas) == 0 {
					// no success path at all: nothing to check (e.g. unsupported event returns error)
					r.Ok(".DELTA", pos, fkey+": no success path")
					continue
				}
				if bad != "" {
					r.Fail(".DELTA", fkey, pos, fkey+": "+bad+" (a stale or missing level swallows or duplicates a later closing marker)", "")
				} else {
					r.Ok(".DELTA", pos, fmt.Sprintf("%s: delta %+d on %s on every success path", fkey, want, strings.Join(cn, ",")))
				}
			}
			if es.typ == "ExpectObjVisitor" {
				checkGuard(p, r, named, ctx.counters)
				// REARM: the adapter is re-armed for the next value with SetActive; a value can be abandoned half way
				// (its folder failed), so re-arming resets every nesting counter the events move
				if sa := p.LookupFunc(es.pkg, "(*"+es.typ+").SetActive"); sa == nil {
					r.Undecided(".REARM", es.pkg+"."+es.typ+".SetActive", "re-arm method not found")
				} else {
					for _, c := range cn {
						reset := storesConstAt(sa, "", c, 0)
						if reset {
							r.Ok(".REARM", p.Pos(sa.Pos()), core.FuncKey(sa)+" resets "+c)
						} else {
							r.Fail(".REARM", core.FuncKey(sa)+"|"+c, p.Pos(sa.Pos()), core.FuncKey(sa)+" re-arms the adapter without resetting "+c+": after a value that failed half way the counter is stale, and the next inlined value's events are checked against the wrong depth", "")
						}
					}
				}
			} else {
				lenTerminator(p, r, es, named)
			}
		}
		minMethods := 30
		if len(want) == 1 && want["visitors"] {
			minMethods = 20
		}
		r.Floor("event_methods", methods, minMethods)
		return r
	}
}

// checkGuard: every event of ExpectObjVisitor other than the object
// start/finish pair calls check() before it forwards anything to the wrapped
// visitor.
func checkGuard(p *core.Prog, r *core.Result, named *types.Named, counters map[string]bool) {
	ms := p.SSA.MethodSets.MethodSet(types.NewPointer(named))
	n := 0
	for i := 0; i < ms.Len(); i++ {
		fo, ok := ms.At(i).Obj().(*types.Func)
		if !ok || !strings.HasPrefix(fo.Name(), "On") || fo.Name() == "OnObjectStart" || fo.Name() == "OnObjectFinished" {
			continue
		}
		f := p.SSA.FuncValue(fo)
		if f == nil || f.Blocks == nil {
			continue
		}
		n++
		// dominance: the block of every invoke on the wrapped visitor is dominated by a block containing a call to the
		// inside-object guard (a method that returns an error while the depth counter is zero), or by the non-zero edge
		// of such a test written inline
		var checkBlocks []*ssa.BasicBlock
		for _, b := range f.Blocks {
			for _, in := range b.Instrs {
				if c, ok := in.(*ssa.Call); ok {
					if sc := c.Common().StaticCallee(); sc != nil && sc != f && sc.Signature.Recv() != nil && namedOf(sc.Signature.Recv().Type()) == named && len(depthGuardEdges(sc, counters)) > 0 {
						checkBlocks = append(checkBlocks, b)
					}
				}
			}
		}
		inline := depthGuardEdges(f, counters)
		ok2 := true
		for _, b := range f.Blocks {
			for _, in := range b.Instrs {
				c, ok := in.(*ssa.Call)
				if !ok || !c.Common().IsInvoke() {
					continue
				}
				dominated := false
				for _, cb := range checkBlocks {
					if cb != b && cb.Dominates(b) {
						dominated = true
					}
				}
				for _, nz := range inline {
					if len(nz.Preds) == 1 && nz.Dominates(b) {
						dominated = true
					}
				}
				if !dominated {
					ok2 = false
				}
			}
		}
		fkey := core.FuncKey(f)
		if ok2 {
			r.Ok(".CHECK-GUARD", p.Pos(f.Pos()), fkey+": forwards only behind check()")
		} else {
			r.Fail(".CHECK-GUARD", fkey, p.Pos(f.Pos()), fkey+" forwards an event to the wrapped visitor without first passing check(): a value outside the expected object reaches the consumer without a key", "")
		}
	}
	r.Floor("expectobj_guarded_methods", n, 20)
}

// storesConstAt: f (whose receiver sits at field path prefix of the checked
// type) stores a constant to the counter at path, itself or through a method of
// the helper value that holds it.
func storesConstAt(f *ssa.Function, prefix, path string, depth int) bool {
	if f.Blocks == nil || depth > 2 {
		return false
	}
	for _, b := range f.Blocks {
		for _, in := range b.Instrs {
			switch x := in.(type) {
			case *ssa.Store:
				if _, isC := x.Val.(*ssa.Const); !isC {
					continue
				}
				if rel, ok := recvPath(f, x.Addr); ok && joinPath(prefix, rel) == path {
					return true
				}
				if prefix == "" && fieldOfReceiver(f, x.Addr) == path {
					return true
				}
			case *ssa.Call:
				sc := x.Common().StaticCallee()
				if sc == nil || sc.Signature.Recv() == nil || len(x.Common().Args) == 0 {
					continue
				}
				if rel, ok := recvPath(f, x.Common().Args[0]); ok {
					sub := joinPath(prefix, rel)
					if sub != "" && (sub == path || strings.HasPrefix(path, sub+".")) && storesConstAt(sc, sub, path, depth+1) {
						return true
					}
				}
			}
		}
	}
	return false
}

// depthGuardEdges: the blocks entered only when a depth counter of the
// receiver is non-zero, where the zero side of the same test returns a non-nil
// error (the "inside the expected object" guard).
func depthGuardEdges(f *ssa.Function, counters map[string]bool) []*ssa.BasicBlock {
	var out []*ssa.BasicBlock
	ei := errResultIndex(f.Signature)
	if ei < 0 || f.Blocks == nil {
		return nil
	}
	isCounter := func(v ssa.Value) bool {
		for i := 0; i < 3; i++ {
			switch x := v.(type) {
			case *ssa.Convert:
				v = x.X
				continue
			case *ssa.ChangeType:
				v = x.X
				continue
			case *ssa.UnOp:
				if x.Op == token.MUL {
					if rel, ok := recvPath(f, x.X); ok && counters[rel] {
						return true
					}
				}
			}
			break
		}
		return false
	}
	for _, b := range f.Blocks {
		iff, ok := b.Instrs[len(b.Instrs)-1].(*ssa.If)
		if !ok {
			continue
		}
		bo, ok := iff.Cond.(*ssa.BinOp)
		if !ok {
			continue
		}
		zeroSucc := -1
		switch {
		case isCounter(bo.X) && isIntConst(bo.Y, 0):
			switch bo.Op {
			case token.EQL, token.LEQ:
				zeroSucc = 0
			case token.NEQ, token.GTR:
				zeroSucc = 1
			}
		case isCounter(bo.Y) && isIntConst(bo.X, 0):
			switch bo.Op {
			case token.EQL, token.GEQ:
				zeroSucc = 0
			case token.NEQ, token.LSS:
				zeroSucc = 1
			}
		}
		if zeroSucc < 0 {
			continue
		}
		zb := b.Succs[zeroSucc]
		ret, ok := zb.Instrs[len(zb.Instrs)-1].(*ssa.Return)
		if !ok || len(zb.Preds) != 1 || !definitelyNonNilError(ret.Results[ei]) {
			continue
		}
		out = append(out, b.Succs[1-zeroSucc])
	}
	return out
}

// threshold normalises `v OP c` (true-set) to (lowerHalf bool, k): the true
// set is {v <= k} when lowerHalf, else {v >= k}.
func threshold(op token.Token, c int64, valueOnLeft bool) (lower bool, k int64, ok bool) {
	if !valueOnLeft {
		switch op {
		case token.LSS:
			op = token.GTR
		case token.LEQ:
			op = token.GEQ
		case token.GTR:
			op = token.LSS
		case token.GEQ:
			op = token.LEQ
		}
	}
	switch op {
	case token.LSS:
		return true, c - 1, true
	case token.LEQ:
		return true, c, true
	case token.GTR:
		return false, c + 1, true
	case token.GEQ:
		return false, c, true
	}
	return false, 0, false
}

// lenTerminator checks that "a count/definite header is written" at start and
// "a terminator is written" at finish are exact complements over the pushed
// value.
func lenTerminator(p *core.Prog, r *core.Result, es encoderSpec, named *types.Named) {
	if es.pkg == "json" {
		return // json has no length-dependent terminators
	}
	// finish side: If on the result of pop() in On*Finished
	type pred struct {
		lower bool
		k     int64
		pos   string
	}
	var term []pred
	var closeRoots, openRoots []*ssa.Function
	for _, n := range es.closes {
		if f := methodOf(p, types.NewPointer(named), p.Pkgs[es.pkg].Types, n); f != nil {
			closeRoots = append(closeRoots, f)
		}
	}
	for _, n := range es.opens {
		if f := methodOf(p, types.NewPointer(named), p.Pkgs[es.pkg].Types, n); f != nil {
			openRoots = append(openRoots, f)
		}
	}
	for _, f := range sameRecvReach(closeRoots, named, 3) {
		for _, b := range f.Blocks {
			iff, ok := b.Instrs[len(b.Instrs)-1].(*ssa.If)
			if !ok {
				continue
			}
			bo, ok := iff.Cond.(*ssa.BinOp)
			if !ok {
				continue
			}
			for _, side := range []bool{true, false} {
				v, cst := bo.X, bo.Y
				if !side {
					v, cst = bo.Y, bo.X
				}
				call, ok := v.(*ssa.Call)
				if !ok || call.Common().StaticCallee() == nil || core.FuncName(call.Common().StaticCallee()) != "pop" {
					continue
				}
				cv, ok := cst.(*ssa.Const)
				if !ok || cv.Value == nil || cv.Value.Kind() != constant.Int {
					continue
				}
				c, _ := constant.Int64Val(cv.Value)
				lower, k, ok := threshold(bo.Op, c, side)
				if !ok {
					continue
				}
				// which successor writes? the one containing a call
				trueWrites := blockHasCall(b.Succs[0])
				if !trueWrites {
					lower, k = !lower, complementK(lower, k)
				}
				term = append(term, pred{lower, k, p.Pos(iff.Cond.Pos())})
			}
		}
	}
	// start side: in the function that pushes, the If on the pushed value
	var cnt []pred
	// the count condition lives on the way from the start event to the function that records the announced length
	// (push), or one call below it - not in the integer encoders further down
	reachAll := sameRecvReach(openRoots, named, 3)
	pushes := func(f *ssa.Function) bool {
		for _, b := range f.Blocks {
			for _, in := range b.Instrs {
				if c, ok := in.(*ssa.Call); ok {
					if sc := c.Common().StaticCallee(); sc != nil && core.FuncName(sc) == "push" && len(c.Common().Args) > 0 && fieldOfReceiver(f, c.Common().Args[0]) != "" {
						return true
					}
				}
			}
		}
		return false
	}
	onChain := map[*ssa.Function]bool{}
	for changed := true; changed; {
		changed = false
		for _, f := range reachAll {
			if onChain[f] {
				continue
			}
			hit := pushes(f)
			for _, g := range sameRecvReach([]*ssa.Function{f}, named, 1) {
				if g != f && onChain[g] {
					hit = true
				}
			}
			if hit {
				onChain[f] = true
				changed = true
			}
		}
	}
	var startCands []*ssa.Function
	seenCand := map[*ssa.Function]bool{}
	for _, f := range reachAll {
		if !onChain[f] {
			continue
		}
		for _, g := range sameRecvReach([]*ssa.Function{f}, named, 1) {
			if !seenCand[g] {
				seenCand[g] = true
				startCands = append(startCands, g)
			}
		}
	}
	sort.Slice(startCands, func(i, j int) bool { return startCands[i].Pos() < startCands[j].Pos() })
	for _, f := range startCands {
		for _, b := range f.Blocks {
			iff, ok := b.Instrs[len(b.Instrs)-1].(*ssa.If)
			if !ok {
				continue
			}
			bo, ok := iff.Cond.(*ssa.BinOp)
			if !ok {
				continue
			}
			for _, side := range []bool{true, false} {
				v, cst := bo.X, bo.Y
				if !side {
					v, cst = bo.Y, bo.X
				}
				prm, ok := v.(*ssa.Parameter)
				if !ok {
					continue
				}
				if bt, ok := prm.Type().Underlying().(*types.Basic); !ok || bt.Kind() != types.Int {
					continue
				}
				cv, ok := cst.(*ssa.Const)
				if !ok || cv.Value == nil || cv.Value.Kind() != constant.Int {
					continue
				}
				c, _ := constant.Int64Val(cv.Value)
				lower, k, ok := threshold(bo.Op, c, side)
				if !ok {
					continue
				}
				// the "count" branch is the one that passes the parameter on
				trueUses := blockUsesValue(b.Succs[0], prm)
				falseUses := blockUsesValue(b.Succs[1], prm)
				if trueUses == falseUses {
					continue
				}
				// a guard that refuses the value (the other branch returns an error) is not the count decision
				other := b.Succs[0]
				if trueUses {
					other = b.Succs[1]
				}
				if ret, ok := other.Instrs[len(other.Instrs)-1].(*ssa.Return); ok {
					if ei := errResultIndex(f.Signature); ei >= 0 && ei < len(ret.Results) && definitelyNonNilError(ret.Results[ei]) {
						continue
					}
				}
				if !trueUses {
					lower, k = !lower, complementK(lower, k)
				}
				cnt = append(cnt, pred{lower, k, p.Pos(iff.Cond.Pos())})
			}
		}
	}
	key := es.pkg + "." + es.typ
	if len(term) == 0 || len(cnt) == 0 {
		r.Undecided(".LEN-TERMINATOR", key, fmt.Sprintf("could not locate the count (%d) / terminator (%d) conditions of %s", len(cnt), len(term), key))
		return
	}
	for _, t := range term {
		for _, c := range cnt {
			// complement: count = {v >= k}, term = {v <= k-1}
			if c.lower != t.lower && ((!c.lower && t.lower && t.k == c.k-1) || (c.lower && !t.lower && t.k == c.k+1)) {
				r.Ok(".LEN-TERMINATOR", t.pos, fmt.Sprintf("%s: terminator condition at %s is the exact complement of the count condition at %s", key, t.pos, c.pos))
			} else {
				r.Fail(".LEN-TERMINATOR", key+"|"+t.pos[:strings.Index(t.pos, ":")], t.pos, fmt.Sprintf("%s: the condition under which a finish event writes a terminator (%s) is not the complement of the condition under which the start event writes a count (%s): for some announced length neither or both are written", key, predString(t.lower, t.k), predString(c.lower, c.k)), "")
			}
		}
	}
}

// sameRecvReach: the roots and the methods of the same receiver type they reach through static calls (bounded depth),
// in a deterministic order.
func sameRecvReach(roots []*ssa.Function, named *types.Named, depth int) []*ssa.Function {
	seen := map[*ssa.Function]bool{}
	var out []*ssa.Function
	var visit func(f *ssa.Function, d int)
	visit = func(f *ssa.Function, d int) {
		if seen[f] || f.Blocks == nil {
			return
		}
		seen[f] = true
		out = append(out, f)
		if d == 0 {
			return
		}
		for _, b := range f.Blocks {
			for _, in := range b.Instrs {
				if c, ok := in.(ssa.CallInstruction); ok {
					if sc := c.Common().StaticCallee(); sc != nil && sc.Signature.Recv() != nil && namedOf(sc.Signature.Recv().Type()) == named {
						visit(sc, d-1)
					}
				}
			}
		}
	}
	for _, r := range roots {
		visit(r, depth)
	}
	sort.Slice(out, func(i, j int) bool { return out[i].Pos() < out[j].Pos() })
	return out
}

func predString(lower bool, k int64) string {
	if lower {
		return fmt.Sprintf("v <= %d", k)
	}
	return fmt.Sprintf("v >= %d", k)
}

func complementK(lower bool, k int64) int64 {
	if lower {
		return k + 1 // complement of v<=k is v>=k+1
	}
	return k - 1
}

func blockHasCall(b *ssa.BasicBlock) bool {
	for _, in := range b.Instrs {
		if _, ok := in.(*ssa.Call); ok {
			return true
		}
	}
	return false
}

func blockUsesValue(b *ssa.BasicBlock, v ssa.Value) bool {
	if len(b.Preds) == 1 {
		// the whole region dominated by this successor
		for _, d := range b.Dominees() {
			if blockUsesValue(d, v) {
				return true
			}
		}
	}
	for _, in := range b.Instrs {
		if c, ok := in.(*ssa.Call); ok {
			for _, a := range c.Common().Args {
				for _, o := range origins(a) {
					if o == v {
						return true
					}
				}
				if cv, ok := a.(*ssa.Convert); ok && cv.X == v {
					return true
				}
			}
		}
	}
	return false
}

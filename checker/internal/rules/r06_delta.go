package rules

import (
	"fmt"
	"go/constant"
	"go/token"
	"go/types"
	"sort"
	"strings"

	"golang.org/x/tools/go/ssa"

	"sfcheck/internal/core"
)

// R6 DELTA: every event method of an encoder moves every nesting counter of
// the instance by exactly its contract delta on every path that may return a
// nil error: container starts +1, container finishes -1, everything else
// (scalars, keys, by-reference strings, typed arrays/maps) 0.
//
// Counters are discovered from the receiver type: fields whose type has both
// a push and a pop method (stacks), and int fields that are only ever changed
// by +1/-1 (depth counters).

type counterOp struct {
	field string
	d     int
}

type r6state struct {
	d      map[string]int // field -> delta so far (copy on write)
	top    bool           // unbounded / unknown
	nonnil valueSet
	bt, bf valueSet
}

func (s r6state) add(f string, d int) r6state {
	n := make(map[string]int, len(s.d)+1)
	for k, v := range s.d {
		n[k] = v
	}
	n[f] += d
	if n[f] > 4 || n[f] < -4 {
		s.top = true
	}
	if n[f] == 0 {
		delete(n, f)
	}
	s.d = n
	return s
}

func deltaKey(d map[string]int) string {
	var ks []string
	for k, v := range d {
		ks = append(ks, fmt.Sprintf("%s%+d", k, v))
	}
	sort.Strings(ks)
	return strings.Join(ks, ",")
}

type r6ctx struct {
	p        *core.Prog
	recv     *types.Named
	counters map[string]bool       // counter field names
	sums     map[*ssa.Function]*r6sum
	busy     map[*ssa.Function]bool
	opaque   map[*ssa.Function]bool // calls treated as balanced (delta 0): recursive value dispatchers
}

type r6sum struct {
	deltas map[string]map[string]int // key -> delta vector, over nil-able return paths
	bools  map[string]map[int]bool   // key -> known boolean results on that outcome
	top    bool
}

type r6client struct {
	c   *r6ctx
	fn  *ssa.Function
	num *valueNumbering
	out *r6sum
}

func (k *r6client) Key(s r6state) string {
	return fmt.Sprintf("%s|%v|%s|%s|%s", deltaKey(s.d), s.top, s.nonnil.key(), s.bt.key(), s.bf.key())
}

func (k *r6client) Phis(s r6state, blk *ssa.BasicBlock, pred int) r6state {
	type upd struct {
		id             int
		nonnil, bt, bf bool
	}
	var ups []upd
	for _, in := range blk.Instrs {
		phi, ok := in.(*ssa.Phi)
		if !ok {
			break
		}
		if pred < 0 || pred >= len(phi.Edges) {
			continue
		}
		e := phi.Edges[pred]
		eid := k.num.id(e)
		u := upd{id: k.num.id(phi), nonnil: s.nonnil.has(eid) || definitelyNonNilError(e)}
		if cv, ok := constBool(e); ok {
			u.bt, u.bf = cv, !cv
		} else {
			u.bt, u.bf = s.bt.has(eid), s.bf.has(eid)
		}
		ups = append(ups, u)
	}
	for _, u := range ups {
		s.nonnil, s.bt, s.bf = s.nonnil.without(u.id), s.bt.without(u.id), s.bf.without(u.id)
		if u.nonnil {
			s.nonnil = s.nonnil.with(u.id)
		}
		if u.bt {
			s.bt = s.bt.with(u.id)
		}
		if u.bf {
			s.bf = s.bf.with(u.id)
		}
	}
	return s
}

// recvField: addr is &recv.F (possibly deeper); returns F.
func (k *r6client) recvField(addr ssa.Value) string {
	return fieldOfReceiver(k.fn, addr)
}

func (k *r6client) Instr(s r6state, in ssa.Instruction) (r6state, bool, []r6state) {
	switch x := in.(type) {
	case *ssa.Store:
		// depth++ / depth--
		f := k.recvField(x.Addr)
		if f != "" && k.c.counters[f] {
			if bo, ok := x.Val.(*ssa.BinOp); ok && (bo.Op == token.ADD || bo.Op == token.SUB) {
				if ld, ok := bo.X.(*ssa.UnOp); ok && ld.Op == token.MUL && k.recvField(ld.X) == f && isIntConst(bo.Y, 1) {
					d := 1
					if bo.Op == token.SUB {
						d = -1
					}
					return s.add(f, d), true, nil
				}
			}
			// any other store to a counter (reset) is outside the contract
			if fa, ok := x.Addr.(*ssa.FieldAddr); ok && fa.X == ssa.Value(k.fn.Params[0]) {
				s.top = true
			}
		}
	case *ssa.Call:
		cc := x.Common()
		sc := cc.StaticCallee()
		if sc == nil || len(cc.Args) == 0 {
			break
		}
		// push/pop on a counter field
		if (core.FuncName(sc) == "push" || core.FuncName(sc) == "pop") && sc.Signature.Recv() != nil {
			if f := k.recvField(cc.Args[0]); f != "" && k.c.counters[f] {
				d := 1
				if core.FuncName(sc) == "pop" {
					d = -1
				}
				return s.add(f, d), true, nil
			}
		}
		// a method of the same instance
		if sc.Signature.Recv() != nil && namedOf(sc.Signature.Recv().Type()) == k.c.recv && cc.Args[0] == ssa.Value(k.fn.Params[0]) {
			if k.c.opaque[sc] {
				return s, true, nil
			}
			sum := k.c.summary(sc)
			if sum == nil || sum.top {
				s.top = true
				return s, true, nil
			}
			var outs []r6state
			for _, dk := range sortedKeys(sum.deltas) {
				ns := s
				for f, d := range sum.deltas[dk] {
					ns = ns.add(f, d)
				}
				if refs := x.Referrers(); refs != nil {
					for _, ref := range *refs {
						if ex, ok := ref.(*ssa.Extract); ok {
							if bv, known := sum.bools[dk][ex.Index]; known {
								id := k.num.id(ex)
								ns.bt, ns.bf = ns.bt.without(id), ns.bf.without(id)
								if bv {
									ns.bt = ns.bt.with(id)
								} else {
									ns.bf = ns.bf.with(id)
								}
							}
						}
					}
				}
				outs = append(outs, ns)
			}
			if len(outs) == 0 {
				// callee never returns normally with a nil-able error: path ends in error
				return s, true, nil
			}
			return outs[0], true, outs[1:]
		}
	}
	return s, true, nil
}

func (k *r6client) Branch(s r6state, cond ssa.Value, outcome bool) (r6state, bool) {
	for {
		u, ok := cond.(*ssa.UnOp)
		if !ok || u.Op != token.NOT {
			break
		}
		cond, outcome = u.X, !outcome
	}
	id := k.num.id(cond)
	if s.bt.has(id) && !outcome || s.bf.has(id) && outcome {
		return s, false
	}
	if x, trueMeansNil, ok := nilTest(cond); ok && isErrorType(x.Type()) {
		isNil := outcome == trueMeansNil
		if isNil && s.nonnil.has(k.num.id(x)) {
			return s, false
		}
		if !isNil {
			s.nonnil = s.nonnil.with(k.num.id(x))
		}
	}
	if b, isB := cond.Type().Underlying().(*types.Basic); isB && b.Kind() == types.Bool {
		if outcome {
			s.bt = s.bt.with(id)
		} else {
			s.bf = s.bf.with(id)
		}
	}
	return s, true
}

func (k *r6client) Return(s r6state, ret *ssa.Return) {
	ei := errResultIndex(k.fn.Signature)
	if ei >= 0 {
		rv := ret.Results[ei]
		if definitelyNonNilError(rv) || s.nonnil.has(k.num.id(rv)) {
			return // error path: the caller stops
		}
	}
	if s.top {
		k.out.top = true
		return
	}
	bools := map[int]bool{}
	var bk []string
	res := k.fn.Signature.Results()
	for i := 0; i < res.Len(); i++ {
		if b, ok := res.At(i).Type().Underlying().(*types.Basic); !ok || b.Kind() != types.Bool {
			continue
		}
		v := ret.Results[i]
		if cv, ok := constBool(v); ok {
			bools[i] = cv
		} else if s.bt.has(k.num.id(v)) {
			bools[i] = true
		} else if s.bf.has(k.num.id(v)) {
			bools[i] = false
		} else {
			continue
		}
		bk = append(bk, fmt.Sprintf("%d=%v", i, bools[i]))
	}
	key := deltaKey(s.d) + "#" + strings.Join(bk, ",")
	k.out.deltas[key] = s.d
	k.out.bools[key] = bools
}

func (c *r6ctx) summary(f *ssa.Function) *r6sum {
	if s, ok := c.sums[f]; ok {
		return s
	}
	if c.busy[f] || f.Blocks == nil {
		return nil
	}
	c.busy[f] = true
	defer delete(c.busy, f)
	k := &r6client{c: c, fn: f, num: newNumbering(), out: &r6sum{deltas: map[string]map[string]int{}, bools: map[string]map[int]bool{}}}
	_, capped := WalkPaths[r6state](k, f.Blocks[0], 0, r6state{}, 200000, nil)
	if capped {
		k.out.top = true
	}
	c.sums[f] = k.out
	return k.out
}

// discoverCounters finds the nesting counters of a receiver type.
func discoverCounters(p *core.Prog, named *types.Named) map[string]bool {
	out := map[string]bool{}
	st, ok := named.Underlying().(*types.Struct)
	if !ok {
		return out
	}
	for i := 0; i < st.NumFields(); i++ {
		f := st.Field(i)
		ft := f.Type()
		if n := namedOf(ft); n != nil {
			ms := types.NewMethodSet(types.NewPointer(n))
			hasPush, hasPop := false, false
			for j := 0; j < ms.Len(); j++ {
				switch methodName(ms.At(j).Obj()) {
				case "push":
					hasPush = true
				case "pop":
					hasPop = true
				}
			}
			if hasPush && hasPop {
				out[f.Name()] = true
			}
		}
		if b, ok := ft.Underlying().(*types.Basic); ok && b.Kind() == types.Int && strings.Contains(strings.ToLower(f.Name()), "depth") {
			out[f.Name()] = true
		}
	}
	return out
}

// encoderSpec: one consumer type checked by R6.
type encoderSpec struct {
	pkg, typ string
	// which events open / close a level on the counters of this type
	opens, closes []string
}

var r6encoders = []encoderSpec{
	{"json", "Visitor", []string{"OnArrayStart", "OnObjectStart"}, []string{"OnArrayFinished", "OnObjectFinished"}},
	{"cborl", "Visitor", []string{"OnArrayStart", "OnObjectStart"}, []string{"OnArrayFinished", "OnObjectFinished"}},
	{"ubjson", "Visitor", []string{"OnArrayStart", "OnObjectStart"}, []string{"OnArrayFinished", "OnObjectFinished"}},
	// ExpectObjVisitor strips exactly one object level: only object events count
	{"visitors", "ExpectObjVisitor", []string{"OnObjectStart"}, []string{"OnObjectFinished"}},
}

// R6 runs DELTA for the given packages (empty: all).
func R6(pkgs ...string) func(p *core.Prog) *core.Result {
	want := map[string]bool{}
	for _, k := range pkgs {
		want[k] = true
	}
	return func(p *core.Prog) *core.Result {
		r := core.NewResult("R6", "every event method of an encoder (and of ExpectObjVisitor) moves every nesting counter of the instance by exactly its Visitor-contract delta (+1 start, -1 finish, 0 everything else, including all extended events) on every path that can return a nil error; count/terminator conditions are complementary; ExpectObjVisitor forwards nothing before its inside-object check")
		methods := 0
		for _, es := range r6encoders {
			if len(want) > 0 && !want[es.pkg] {
				continue
			}
			sp := p.SPkgs[es.pkg]
			if sp == nil || sp.Type(es.typ) == nil {
				r.Undecided("", es.pkg+"."+es.typ, "type not found")
				continue
			}
			named := sp.Type(es.typ).Type().(*types.Named)
			ctx := &r6ctx{p: p, recv: named, counters: discoverCounters(p, named), sums: map[*ssa.Function]*r6sum{}, busy: map[*ssa.Function]bool{}}
			if len(ctx.counters) == 0 {
				r.Undecided("", es.pkg+"."+es.typ+"|counters", "no nesting counter (stack with push/pop, or depth int) found on "+es.typ)
				continue
			}
			var cn []string
			for f := range ctx.counters {
				cn = append(cn, f)
			}
			sort.Strings(cn)
			ms := p.SSA.MethodSets.MethodSet(types.NewPointer(named))
			for i := 0; i < ms.Len(); i++ {
				fo, ok := ms.At(i).Obj().(*types.Func)
				if !ok || !strings.HasPrefix(fo.Name(), "On") || !fo.Exported() {
					continue
				}
				f := p.SSA.FuncValue(fo)
				if f == nil || f.Blocks == nil || namedOf(f.Signature.Recv().Type()) != named {
					continue
				}
				methods++
				want := 0
				for _, n := range es.opens {
					if n == fo.Name() {
						want = 1
					}
				}
				for _, n := range es.closes {
					if n == fo.Name() {
						want = -1
					}
				}
				sum := ctx.summary(f)
				fkey := core.FuncKey(f)
				pos := p.Pos(f.Pos())
				if sum == nil || sum.top {
					r.Fail(".DELTA", fkey+"|unbounded", pos, fmt.Sprintf("%s: the effect on the nesting counters (%s) is not a fixed delta (a loop or reset changes them)", fkey, strings.Join(cn, ",")), "")
					continue
				}
				bad := ""
				for _, dk := range sortedKeys(sum.deltas) {
					d := sum.deltas[dk]
					for _, c := range cn {
						if d[c] != want {
							bad = fmt.Sprintf("counter %q moves by %+d on some success path, the Visitor contract requires %+d", c, d[c], want)
						}
					}
				}
				if len(sum.deltas) == 0 {
					// no success path at all: nothing to check (e.g. unsupported event returns error)
					r.Ok(".DELTA", pos, fkey+": no success path")
					continue
				}
				if bad != "" {
					r.Fail(".DELTA", fkey, pos, fkey+": "+bad+" (a stale or missing level swallows or duplicates a later closing marker)", "")
				} else {
					r.Ok(".DELTA", pos, fmt.Sprintf("%s: delta %+d on %s on every success path", fkey, want, strings.Join(cn, ",")))
				}
			}
			if es.typ == "ExpectObjVisitor" {
				checkGuard(p, r, named)
				// REARM: the adapter is re-armed for the next value with SetActive; a value can be abandoned half way
				// (its folder failed), so re-arming resets every nesting counter the events move
				if sa := p.LookupFunc(es.pkg, "(*"+es.typ+").SetActive"); sa == nil {
					r.Undecided(".REARM", es.pkg+"."+es.typ+".SetActive", "re-arm method not found")
				} else {
					for _, c := range cn {
						reset := false
						for _, b := range sa.Blocks {
							for _, in := range b.Instrs {
								if st, ok := in.(*ssa.Store); ok && fieldOfReceiver(sa, st.Addr) == c {
									if _, isC := st.Val.(*ssa.Const); isC {
										reset = true
									}
								}
							}
						}
						if reset {
							r.Ok(".REARM", p.Pos(sa.Pos()), core.FuncKey(sa)+" resets "+c)
						} else {
							r.Fail(".REARM", core.FuncKey(sa)+"|"+c, p.Pos(sa.Pos()), core.FuncKey(sa)+" re-arms the adapter without resetting "+c+": after a value that failed half way the counter is stale, and the next inlined value's events are checked against the wrong depth", "")
						}
					}
				}
			} else {
				lenTerminator(p, r, es, named)
			}
		}
		minMethods := 30
		if len(want) == 1 && want["visitors"] {
			minMethods = 20
		}
		r.Floor("event_methods", methods, minMethods)
		return r
	}
}

// checkGuard: every event of ExpectObjVisitor other than the object
// start/finish pair calls check() before it forwards anything to the wrapped
// visitor.
func checkGuard(p *core.Prog, r *core.Result, named *types.Named) {
	ms := p.SSA.MethodSets.MethodSet(types.NewPointer(named))
	n := 0
	for i := 0; i < ms.Len(); i++ {
		fo, ok := ms.At(i).Obj().(*types.Func)
		if !ok || !strings.HasPrefix(fo.Name(), "On") || fo.Name() == "OnObjectStart" || fo.Name() == "OnObjectFinished" {
			continue
		}
		f := p.SSA.FuncValue(fo)
		if f == nil || f.Blocks == nil {
			continue
		}
		n++
		// dominance: the block of every invoke on the wrapped visitor is dominated by a block containing a call to check whose error was tested
		var checkBlocks []*ssa.BasicBlock
		for _, b := range f.Blocks {
			for _, in := range b.Instrs {
				if c, ok := in.(*ssa.Call); ok {
					if sc := c.Common().StaticCallee(); sc != nil && core.FuncName(sc) == "check" {
						checkBlocks = append(checkBlocks, b)
					}
				}
			}
		}
		ok2 := true
		for _, b := range f.Blocks {
			for _, in := range b.Instrs {
				c, ok := in.(*ssa.Call)
				if !ok || !c.Common().IsInvoke() {
					continue
				}
				dominated := false
				for _, cb := range checkBlocks {
					if cb != b && cb.Dominates(b) {
						dominated = true
					}
				}
				if !dominated {
					ok2 = false
				}
			}
		}
		fkey := core.FuncKey(f)
		if ok2 {
			r.Ok(".CHECK-GUARD", p.Pos(f.Pos()), fkey+": forwards only behind check()")
		} else {
			r.Fail(".CHECK-GUARD", fkey, p.Pos(f.Pos()), fkey+" forwards an event to the wrapped visitor without first passing check(): a value outside the expected object reaches the consumer without a key", "")
		}
	}
	r.Floor("expectobj_guarded_methods", n, 20)
}

// threshold normalises `v OP c` (true-set) to (lowerHalf bool, k): the true
// set is {v <= k} when lowerHalf, else {v >= k}.
func threshold(op token.Token, c int64, valueOnLeft bool) (lower bool, k int64, ok bool) {
	if !valueOnLeft {
		switch op {
		case token.LSS:
			op = token.GTR
		case token.LEQ:
			op = token.GEQ
		case token.GTR:
			op = token.LSS
		case token.GEQ:
			op = token.LEQ
		}
	}
	switch op {
	case token.LSS:
		return true, c - 1, true
	case token.LEQ:
		return true, c, true
	case token.GTR:
		return false, c + 1, true
	case token.GEQ:
		return false, c, true
	}
	return false, 0, false
}

// lenTerminator checks that "a count/definite header is written" at start and
// "a terminator is written" at finish are exact complements over the pushed
// value.
func lenTerminator(p *core.Prog, r *core.Result, es encoderSpec, named *types.Named) {
	if es.pkg == "json" {
		return // json has no length-dependent terminators
	}
	// finish side: If on the result of pop() in On*Finished
	type pred struct {
		lower bool
		k     int64
		pos   string
	}
	var term []pred
	var closeRoots, openRoots []*ssa.Function
	for _, n := range es.closes {
		if f := methodOf(p, types.NewPointer(named), p.Pkgs[es.pkg].Types, n); f != nil {
			closeRoots = append(closeRoots, f)
		}
	}
	for _, n := range es.opens {
		if f := methodOf(p, types.NewPointer(named), p.Pkgs[es.pkg].Types, n); f != nil {
			openRoots = append(openRoots, f)
		}
	}
	for _, f := range sameRecvReach(closeRoots, named, 3) {
		for _, b := range f.Blocks {
			iff, ok := b.Instrs[len(b.Instrs)-1].(*ssa.If)
			if !ok {
				continue
			}
			bo, ok := iff.Cond.(*ssa.BinOp)
			if !ok {
				continue
			}
			for _, side := range []bool{true, false} {
				v, cst := bo.X, bo.Y
				if !side {
					v, cst = bo.Y, bo.X
				}
				call, ok := v.(*ssa.Call)
				if !ok || call.Common().StaticCallee() == nil || core.FuncName(call.Common().StaticCallee()) != "pop" {
					continue
				}
				cv, ok := cst.(*ssa.Const)
				if !ok || cv.Value == nil || cv.Value.Kind() != constant.Int {
					continue
				}
				c, _ := constant.Int64Val(cv.Value)
				lower, k, ok := threshold(bo.Op, c, side)
				if !ok {
					continue
				}
				// which successor writes? the one containing a call
				trueWrites := blockHasCall(b.Succs[0])
				if !trueWrites {
					lower, k = !lower, complementK(lower, k)
				}
				term = append(term, pred{lower, k, p.Pos(iff.Cond.Pos())})
			}
		}
	}
	// start side: in the function that pushes, the If on the pushed value
	var cnt []pred
	// the count condition lives on the way from the start event to the function that records the announced length
	// (push), or one call below it - not in the integer encoders further down
	reachAll := sameRecvReach(openRoots, named, 3)
	pushes := func(f *ssa.Function) bool {
		for _, b := range f.Blocks {
			for _, in := range b.Instrs {
				if c, ok := in.(*ssa.Call); ok {
					if sc := c.Common().StaticCallee(); sc != nil && core.FuncName(sc) == "push" && len(c.Common().Args) > 0 && fieldOfReceiver(f, c.Common().Args[0]) != "" {
						return true
					}
				}
			}
		}
		return false
	}
	onChain := map[*ssa.Function]bool{}
	for changed := true; changed; {
		changed = false
		for _, f := range reachAll {
			if onChain[f] {
				continue
			}
			hit := pushes(f)
			for _, g := range sameRecvReach([]*ssa.Function{f}, named, 1) {
				if g != f && onChain[g] {
					hit = true
				}
			}
			if hit {
				onChain[f] = true
				changed = true
			}
		}
	}
	var startCands []*ssa.Function
	seenCand := map[*ssa.Function]bool{}
	for _, f := range reachAll {
		if !onChain[f] {
			continue
		}
		for _, g := range sameRecvReach([]*ssa.Function{f}, named, 1) {
			if !seenCand[g] {
				seenCand[g] = true
				startCands = append(startCands, g)
			}
		}
	}
	sort.Slice(startCands, func(i, j int) bool { return startCands[i].Pos() < startCands[j].Pos() })
	for _, f := range startCands {
		for _, b := range f.Blocks {
			iff, ok := b.Instrs[len(b.Instrs)-1].(*ssa.If)
			if !ok {
				continue
			}
			bo, ok := iff.Cond.(*ssa.BinOp)
			if !ok {
				continue
			}
			for _, side := range []bool{true, false} {
				v, cst := bo.X, bo.Y
				if !side {
					v, cst = bo.Y, bo.X
				}
				prm, ok := v.(*ssa.Parameter)
				if !ok {
					continue
				}
				if bt, ok := prm.Type().Underlying().(*types.Basic); !ok || bt.Kind() != types.Int {
					continue
				}
				cv, ok := cst.(*ssa.Const)
				if !ok || cv.Value == nil || cv.Value.Kind() != constant.Int {
					continue
				}
				c, _ := constant.Int64Val(cv.Value)
				lower, k, ok := threshold(bo.Op, c, side)
				if !ok {
					continue
				}
				// the "count" branch is the one that passes the parameter on
				trueUses := blockUsesValue(b.Succs[0], prm)
				falseUses := blockUsesValue(b.Succs[1], prm)
				if trueUses == falseUses {
					continue
				}
				if !trueUses {
					lower, k = !lower, complementK(lower, k)
				}
				cnt = append(cnt, pred{lower, k, p.Pos(iff.Cond.Pos())})
			}
		}
	}
	key := es.pkg + "." + es.typ
	if len(term) == 0 || len(cnt) == 0 {
		r.Undecided(".LEN-TERMINATOR", key, fmt.Sprintf("could not locate the count (%d) / terminator (%d) conditions of %s", len(cnt), len(term), key))
		return
	}
	for _, t := range term {
		for _, c := range cnt {
			// complement: count = {v >= k}, term = {v <= k-1}
			if c.lower != t.lower && ((!c.lower && t.lower && t.k == c.k-1) || (c.lower && !t.lower && t.k == c.k+1)) {
				r.Ok(".LEN-TERMINATOR", t.pos, fmt.Sprintf("%s: terminator condition at %s is the exact complement of the count condition at %s", key, t.pos, c.pos))
			} else {
				r.Fail(".LEN-TERMINATOR", key+"|"+t.pos[:strings.Index(t.pos, ":")], t.pos, fmt.Sprintf("%s: the condition under which a finish event writes a terminator (%s) is not the complement of the condition under which the start event writes a count (%s): for some announced length neither or both are written", key, predString(t.lower, t.k), predString(c.lower, c.k)), "")
			}
		}
	}
}

// sameRecvReach: the roots and the methods of the same receiver type they reach through static calls (bounded depth),
// in a deterministic order.
func sameRecvReach(roots []*ssa.Function, named *types.Named, depth int) []*ssa.Function {
	seen := map[*ssa.Function]bool{}
	var out []*ssa.Function
	var visit func(f *ssa.Function, d int)
	visit = func(f *ssa.Function, d int) {
		if seen[f] || f.Blocks == nil {
			return
		}
		seen[f] = true
		out = append(out, f)
		if d == 0 {
			return
		}
		for _, b := range f.Blocks {
			for _, in := range b.Instrs {
				if c, ok := in.(ssa.CallInstruction); ok {
					if sc := c.Common().StaticCallee(); sc != nil && sc.Signature.Recv() != nil && namedOf(sc.Signature.Recv().Type()) == named {
						visit(sc, d-1)
					}
				}
			}
		}
	}
	for _, r := range roots {
		visit(r, depth)
	}
	sort.Slice(out, func(i, j int) bool { return out[i].Pos() < out[j].Pos() })
	return out
}

func predString(lower bool, k int64) string {
	if lower {
		return fmt.Sprintf("v <= %d", k)
	}
	return fmt.Sprintf("v >= %d", k)
}

func complementK(lower bool, k int64) int64 {
	if lower {
		return k + 1 // complement of v<=k is v>=k+1
	}
	return k - 1
}

func blockHasCall(b *ssa.BasicBlock) bool {
	for _, in := range b.Instrs {
		if _, ok := in.(*ssa.Call); ok {
			return true
		}
	}
	return false
}

func blockUsesValue(b *ssa.BasicBlock, v ssa.Value) bool {
	if len(b.Preds) == 1 {
		// the whole region dominated by this successor
		for _, d := range b.Dominees() {
			if blockUsesValue(d, v) {
				return true
			}
		}
	}
	for _, in := range b.Instrs {
		if c, ok := in.(*ssa.Call); ok {
			for _, a := range c.Common().Args {
				for _, o := range origins(a) {
					if o == v {
						return true
					}
				}
				if cv, ok := a.(*ssa.Convert); ok && cv.X == v {
					return true
				}
			}
		}
	}
	return false
}

package rules

import (
	"fmt"
	"go/constant"
	"go/token"
	"go/types"
	"sort"
	"strings"

	"golang.org/x/tools/go/ssa"

	"sfcheck/internal/core"
)

// ---------------------------------------------------------------------
// The step family of a parser: methods of *Parser reachable from feedUntil
// through static calls that take the input chunk and hand back the rest.
// ---------------------------------------------------------------------

type stepFn struct {
	fn      *ssa.Function
	chunk   *ssa.Parameter // the []byte input chunk
	restIdx int            // result index carrying the remaining input
	errIdx  int            // -1 if none
}

type parserFamily struct {
	pkg       string
	recvNamed *types.Named
	feedUntil *ssa.Function
	steps     map[*ssa.Function]*stepFn
	collect   *ssa.Function
	mustState map[*ssa.Function]bool
}

// frozen: result index of the remaining input where it is not the first
// []byte result (confirmed by reading; a signature change makes the anchor
// fail loudly because the result at that index stops being []byte).
var restIndexTable = map[string]int{
	"json.(*Parser).doString":                   3, // (ref, allocated, done, rest, err)
	"ubjson.(*Parser).stepObjectCountedContent": 1, // (end, rest, err)
}

// helpers that are not steps: they transform a complete token.
var notStep = map[string]bool{
	"json.(*Parser).unquote": true,
}

func isByteSlice(t types.Type) bool {
	s, ok := t.Underlying().(*types.Slice)
	if !ok {
		return false
	}
	b, ok := s.Elem().Underlying().(*types.Basic)
	return ok && b.Kind() == types.Uint8
}

func buildFamily(p *core.Prog, pkg string) (*parserFamily, error) {
	fu := p.LookupFunc(pkg, "(*Parser).feedUntil")
	if fu == nil {
		return nil, fmt.Errorf("%s.(*Parser).feedUntil not found", pkg)
	}
	fam := &parserFamily{pkg: pkg, feedUntil: fu, steps: map[*ssa.Function]*stepFn{}, mustState: map[*ssa.Function]bool{}}
	fam.recvNamed = namedOf(fu.Signature.Recv().Type())
	fam.collect = p.LookupFunc(pkg, "(*Parser).collect")
	seen := map[*ssa.Function]bool{}
	var ambiguous []*ssa.Function
	var visit func(f *ssa.Function)
	visit = func(f *ssa.Function) {
		if seen[f] || f.Blocks == nil || !p.InModule(f) {
			return
		}
		seen[f] = true
		for _, b := range f.Blocks {
			for _, in := range b.Instrs {
				if c, ok := in.(ssa.CallInstruction); ok {
					if sc := c.Common().StaticCallee(); sc != nil && core.FuncPkg(sc) == core.FuncPkg(fu) {
						visit(sc)
					}
				}
			}
		}
		if f == fu || f == fam.collect || notStep[core.FuncKey(f)] {
			return
		}
		if f.Signature.Recv() == nil || namedOf(f.Signature.Recv().Type()) != fam.recvNamed {
			return
		}
		var chunk *ssa.Parameter
		for _, prm := range f.Params[1:] {
			if isByteSlice(prm.Type()) {
				chunk = prm
				break
			}
		}
		if chunk == nil {
			return
		}
		res := f.Signature.Results()
		ri := -1
		if idx, ok := restIndexTable[core.FuncKey(f)]; ok {
			if idx < res.Len() && isByteSlice(res.At(idx).Type()) {
				ri = idx
			}
		}
		if ri < 0 {
			for i := 0; i < res.Len(); i++ {
				if isByteSlice(res.At(i).Type()) {
					ri = i
					break
				}
			}
		}
		if ri < 0 {
			return
		}
		nSlices := 0
		for i := 0; i < res.Len(); i++ {
			if isByteSlice(res.At(i).Type()) {
				nSlices++
			}
		}
		if idx, inTable := restIndexTable[core.FuncKey(f)]; nSlices > 1 && !(inTable && idx == ri) {
			ambiguous = append(ambiguous, f)
		}
		fam.steps[f] = &stepFn{fn: f, chunk: chunk, restIdx: ri, errIdx: errResultIndex(f.Signature)}
	}
	visit(fu)
	// a step with several []byte results that the table does not know (its signature changed): the remaining input
	// is the result its callers hand on as their own remaining input
	for _, f := range ambiguous {
		votes := map[int]int{}
		for g, sg := range fam.steps {
			if g == f {
				continue
			}
			amb := false
			for _, a := range ambiguous {
				if a == g {
					amb = true
				}
			}
			if amb {
				continue
			}
			for _, b := range g.Blocks {
				ret, ok := b.Instrs[len(b.Instrs)-1].(*ssa.Return)
				if !ok || sg.restIdx >= len(ret.Results) {
					continue
				}
				for _, o := range origins(ret.Results[sg.restIdx]) {
					if ex, ok := o.(*ssa.Extract); ok {
						if c, ok := ex.Tuple.(*ssa.Call); ok && c.Common().StaticCallee() == f {
							votes[ex.Index]++
						}
					}
				}
			}
		}
		if len(votes) == 1 {
			for idx := range votes {
				fam.steps[f].restIdx = idx
			}
		}
	}
	fam.computeMustState(p)
	return fam, nil
}

// receiverRooted: the address is derived from the function's receiver.
func receiverRooted(f *ssa.Function, addr ssa.Value) bool {
	if f.Signature.Recv() == nil || len(f.Params) == 0 {
		return false
	}
	for _, o := range origins(addr) {
		if o == ssa.Value(f.Params[0]) {
			return true
		}
	}
	return false
}

// ---- MUST-STATE summaries: every path of the function stores to
// receiver-rooted memory (directly or through a must-state callee). ----

type msState struct{ done bool }
type msClient struct {
	fam *parserFamily
	fn  *ssa.Function
	all bool
}

func (k *msClient) Key(s msState) string                                  { return fmt.Sprint(s.done) }
func (k *msClient) Phis(s msState, _ *ssa.BasicBlock, _ int) msState      { return s }
func (k *msClient) Branch(s msState, _ ssa.Value, _ bool) (msState, bool) { return s, true }
func (k *msClient) Return(s msState, _ *ssa.Return) {
	if !s.done {
		k.all = false
	}
}
func (k *msClient) Instr(s msState, in ssa.Instruction) (msState, bool, []msState) {
	if k.fam.isStateEffect(k.fn, in) {
		s.done = true
	}
	return s, true, nil
}

// isStateEffect: a store to receiver-rooted memory, or a call of a must-state
// method on a receiver-rooted object.
func (fam *parserFamily) isStateEffect(f *ssa.Function, in ssa.Instruction) bool {
	switch x := in.(type) {
	case *ssa.Store:
		return receiverRooted(f, x.Addr)
	case *ssa.Call:
		sc := x.Common().StaticCallee()
		if sc == nil || !fam.mustState[sc] || len(x.Common().Args) == 0 {
			return false
		}
		return receiverRooted(f, x.Common().Args[0])
	}
	return false
}

func (fam *parserFamily) computeMustState(p *core.Prog) {
	var cands []*ssa.Function
	for _, f := range p.ModFuncs() {
		if core.FuncPkg(f) == core.FuncPkg(fam.feedUntil) && f.Signature.Recv() != nil {
			if _, isPtr := f.Signature.Recv().Type().(*types.Pointer); isPtr {
				cands = append(cands, f)
			}
		}
	}
	for changed := true; changed; {
		changed = false
		for _, f := range cands {
			if fam.mustState[f] {
				continue
			}
			k := &msClient{fam: fam, fn: f, all: true}
			_, capped := WalkPaths[msState](k, f.Blocks[0], 0, msState{}, 50000, nil)
			if !capped && k.all {
				fam.mustState[f] = true
				changed = true
			}
		}
	}
}

// ---------------------------------------------------------------------
// R2 PROGRESS client
// ---------------------------------------------------------------------

type chunkClass uint8

const (
	ccNone  chunkClass = iota
	ccSame             // the chunk itself, nothing consumed
	ccWS               // whitespace-trimmed chunk (>= 0 bytes consumed)
	ccUnk              // re-sliced by a non-constant amount
	ccCons             // at least one byte consumed
	ccDeleg            // rest handed back by another step function
	ccCRest            // rest handed back by collect
)

type r2state struct {
	cls     map[int]chunkClass // lineage (copy on write)
	eff     bool               // a definite state effect happened
	empty   valueSet           // slices known to have length 0
	nonnil  valueSet           // errors known non-nil
	nilv    valueSet           // errors known nil
	nnmem   stringSet          // memory keys known to hold a non-nil error
	bt, bf  valueSet
	fallout bool // path left a switch over a parser-state enum through its default / fall-out edge
	since   int  // stores and calls since that edge (capped)
	dead    bool
	disp    int64 // 1 + the state constant this path was dispatched on (0: unknown)
}

func (s r2state) class(id int) chunkClass { return s.cls[id] }
func (s r2state) withClass(id int, c chunkClass) r2state {
	if s.cls[id] == c {
		return s
	}
	n := make(map[int]chunkClass, len(s.cls)+1)
	for k, v := range s.cls {
		n[k] = v
	}
	if c == ccNone {
		delete(n, id)
	} else {
		n[id] = c
	}
	s.cls = n
	return s
}

type r2client struct {
	p       *core.Prog
	fam     *parserFamily
	sf      *stepFn
	fn      *ssa.Function
	num     *valueNumbering
	header  *ssa.BasicBlock // dispatcher mode: loop header
	bphi    *ssa.Phi
	bad     map[string]string
	skipped int
	trail   []int
	// summarise mode
	summarise bool
	outcomes  map[string]outcome
	ctx       *r2ctx
}

// outcome is one abstract way a helper can return.
type outcome struct {
	bools map[int]bool // result index -> known boolean value
	err   int8         // 0 unknown, 1 non-nil, 2 nil
	eff   bool
	rest  chunkClass // class of the rest result relative to the chunk argument (ccNone: no chunk)
}

func (o outcome) key() string {
	var ks []string
	for i, v := range o.bools {
		ks = append(ks, fmt.Sprintf("%d=%v", i, v))
	}
	sort.Strings(ks)
	return fmt.Sprintf("%s|%d|%v|%d", strings.Join(ks, ","), o.err, o.eff, o.rest)
}

// r2ctx caches helper summaries for one parser family.
type r2ctx struct {
	p        *core.Prog
	fam      *parserFamily
	sums     map[*ssa.Function][]outcome
	busy     map[*ssa.Function]bool
	nonnilFn map[*ssa.Function]int8 // 1: every return yields a definitely non-nil error
}

// frozen: step-shaped helpers that complete their step in the caller (they
// hand back a completion flag the caller acts upon); they are summarised into
// their callers instead of being judged on their own.
var summarisedSteps = map[string]string{
	"ubjson.(*Parser).stepObjectCountedContent": "returns end=true without progress for an empty counted object; stepObjectCount/stepObjectTyped pop the state on that flag",
}

func (c *r2ctx) alwaysNonNilErr(f *ssa.Function) bool {
	if v, ok := c.nonnilFn[f]; ok {
		return v == 1
	}
	c.nonnilFn[f] = 0
	ei := errResultIndex(f.Signature)
	if f.Blocks == nil || ei < 0 {
		return false
	}
	for _, b := range f.Blocks {
		for _, in := range b.Instrs {
			if ret, ok := in.(*ssa.Return); ok {
				v := ret.Results[ei]
				if definitelyNonNilError(v) {
					continue
				}
				if call, ok := v.(*ssa.Call); ok {
					if sc := call.Common().StaticCallee(); sc != nil && sc != f && c.alwaysNonNilErr(sc) {
						continue
					}
				}
				return false
			}
		}
	}
	c.nonnilFn[f] = 1
	return true
}

// summary returns the outcomes of a helper, or nil if it has none.
func (c *r2ctx) summary(f *ssa.Function) []outcome {
	if s, ok := c.sums[f]; ok {
		return s
	}
	if c.busy[f] || f.Blocks == nil || core.FuncPkg(f) != core.FuncPkg(c.fam.feedUntil) {
		return nil
	}
	_, isStep := c.fam.steps[f]
	if isStep {
		if _, ok := summarisedSteps[core.FuncKey(f)]; !ok {
			return nil
		}
	}
	res := f.Signature.Results()
	interesting := false
	for i := 0; i < res.Len(); i++ {
		if b, ok := res.At(i).Type().Underlying().(*types.Basic); ok && b.Kind() == types.Bool {
			interesting = true
		}
		if isErrorType(res.At(i).Type()) {
			interesting = true
		}
	}
	if !interesting {
		return nil
	}
	c.busy[f] = true
	defer delete(c.busy, f)
	k := &r2client{p: c.p, fam: c.fam, fn: f, num: newNumbering(), summarise: true, outcomes: map[string]outcome{}, ctx: c}
	init := r2state{cls: map[int]chunkClass{}}
	if sf, ok := c.fam.steps[f]; ok {
		k.sf = sf
		init.cls[k.num.id(sf.chunk)] = ccSame
	}
	init = k.seedParams(init)
	_, capped := WalkPaths[r2state](k, f.Blocks[0], 0, init, 100000, nil)
	if capped || len(k.outcomes) == 0 || len(k.outcomes) > 12 {
		c.sums[f] = nil
		return nil
	}
	var out []outcome
	for _, kk := range sortedKeys(k.outcomes) {
		out = append(out, k.outcomes[kk])
	}
	c.sums[f] = out
	return out
}

// seedParams: an error parameter is non-nil when every static caller passes a
// definitely non-nil error (json.stepKind's err argument).
func (k *r2client) seedParams(s r2state) r2state {
	for i, prm := range k.fn.Params {
		if !isErrorType(prm.Type()) {
			continue
		}
		callers, all := 0, true
		for _, g := range k.p.ModFuncs() {
			for _, b := range g.Blocks {
				for _, in := range b.Instrs {
					c, ok := in.(ssa.CallInstruction)
					if !ok || c.Common().StaticCallee() != k.fn {
						continue
					}
					callers++
					args := c.Common().Args
					if i >= len(args) || !definitelyNonNilError(args[i]) {
						all = false
					}
				}
			}
		}
		if callers > 0 && all && !addressTaken(k.p, k.fn) {
			s.nonnil = s.nonnil.with(k.num.id(prm))
		}
	}
	return s
}

// addressTaken: the function is used as a value somewhere (dynamic callers possible).
func addressTaken(p *core.Prog, f *ssa.Function) bool {
	for _, g := range p.ModFuncs() {
		for _, b := range g.Blocks {
			for _, in := range b.Instrs {
				for _, op := range in.Operands(nil) {
					if *op == ssa.Value(f) {
						if c, ok := in.(ssa.CallInstruction); ok && c.Common().Value == ssa.Value(f) {
							continue
						}
						return true
					}
				}
			}
		}
	}
	return false
}

func (k *r2client) Key(s r2state) string {
	ids := make([]int, 0, len(s.cls))
	for id := range s.cls {
		ids = append(ids, id)
	}
	sort.Ints(ids)
	var sb strings.Builder
	for _, id := range ids {
		fmt.Fprintf(&sb, "%d:%d,", id, s.cls[id])
	}
	return fmt.Sprintf("%s|%v|%s|%s|%s|%s|%s|%s|%v|%d|%v|%d", sb.String(), s.eff, s.empty.key(), s.nonnil.key(), s.nilv.key(), s.nnmem.key(), s.bt.key(), s.bf.key(), s.fallout, s.since, s.dead, s.disp)
}

func (k *r2client) Phis(s r2state, blk *ssa.BasicBlock, pred int) r2state {
	if k.header != nil && blk == k.header && pred >= 0 {
		// dispatcher: one loop iteration ends here
		if k.bphi != nil && pred < len(k.bphi.Edges) {
			k.judge(s, k.bphi.Edges[pred], nil, "loop iteration")
		}
		s.dead = true
		return s
	}
	type upd struct {
		id            int
		cls           chunkClass
		empty, nonnil bool
		isnil         bool
		bt, bf        bool
	}
	var ups []upd
	for _, in := range blk.Instrs {
		phi, ok := in.(*ssa.Phi)
		if !ok {
			break
		}
		if pred < 0 || pred >= len(phi.Edges) {
			continue
		}
		e := phi.Edges[pred]
		eid := k.num.id(e)
		u := upd{id: k.num.id(phi), cls: s.class(eid), empty: s.empty.has(eid), nonnil: s.nonnil.has(eid) || k.defNonNil(e), isnil: s.nilv.has(eid) || (isNilConst(e) && isErrorType(phi.Type()))}
		if isNilConst(e) && isByteSlice(phi.Type()) {
			u.cls = ccCons // nil rest: everything was consumed / parked
		}
		if cv, ok := constBool(e); ok {
			u.bt, u.bf = cv, !cv
		} else {
			u.bt, u.bf = s.bt.has(eid), s.bf.has(eid)
		}
		ups = append(ups, u)
	}
	setIf := func(vs valueSet, id int, on bool) valueSet {
		if on {
			return vs.with(id)
		}
		return vs.without(id)
	}
	for _, u := range ups {
		s = s.withClass(u.id, u.cls)
		s.empty = setIf(s.empty, u.id, u.empty)
		s.nonnil = setIf(s.nonnil, u.id, u.nonnil)
		s.nilv = setIf(s.nilv, u.id, u.isnil)
		s.bt = setIf(s.bt, u.id, u.bt)
		s.bf = setIf(s.bf, u.id, u.bf)
	}
	return s
}

func constIntVal(v ssa.Value) (int64, bool) {
	c, ok := v.(*ssa.Const)
	if !ok || c.Value == nil || c.Value.Kind() != constant.Int {
		return 0, false
	}
	x, exact := constant.Int64Val(c.Value)
	return x, exact
}

func (k *r2client) Instr(s r2state, in ssa.Instruction) (r2state, bool, []r2state) {
	if s.dead {
		return s, false, nil
	}
	bump := func() {
		if s.fallout && s.since < 2 {
			s.since++
		}
	}
	switch x := in.(type) {
	case *ssa.Slice:
		if c := s.class(k.num.id(x.X)); c != ccNone {
			nc := c
			if x.Low != nil {
				if lo, ok := constIntVal(x.Low); ok {
					if lo >= 1 {
						nc = ccCons
					}
				} else if c == ccSame || c == ccWS {
					nc = ccUnk
				}
			}
			s = s.withClass(k.num.id(x), nc)
		}
	case *ssa.Store:
		bump()
		if receiverRooted(k.fn, x.Addr) {
			s.eff = true
		}
		if key := addrKey(x.Addr); key != "" {
			if s.nonnil.has(k.num.id(x.Val)) || k.defNonNil(x.Val) {
				s.nnmem = s.nnmem.with(key)
			} else {
				s.nnmem = s.nnmem.without(key)
			}
		}
	case *ssa.UnOp:
		if x.Op == token.MUL {
			if key := addrKey(x.X); key != "" && s.nnmem.has(key) {
				s.nonnil = s.nonnil.with(k.num.id(x))
			} else {
				s.nonnil = s.nonnil.without(k.num.id(x))
			}
		}
	case *ssa.Call:
		bump()
		cc := x.Common()
		sc := cc.StaticCallee()
		if sc != nil && k.ctx != nil {
			if outs := k.ctx.summary(sc); outs != nil {
				return k.applySummary(s, x, sc, outs)
			}
		}
		if k.fam.isStateEffect(k.fn, x) {
			s.eff = true
		}
		if sc != nil && k.ctx != nil && errResultIndex(sc.Signature) >= 0 && sc.Signature.Results().Len() == 1 && k.ctx.alwaysNonNilErr(sc) {
			s.nonnil = s.nonnil.with(k.num.id(x))
		}
		if sc != nil && core.FuncName(sc) == "trimLeft" && len(cc.Args) == 1 {
			switch s.class(k.num.id(cc.Args[0])) {
			case ccSame, ccWS:
				s = s.withClass(k.num.id(x), ccWS)
			case ccNone:
			default:
				s = s.withClass(k.num.id(x), s.class(k.num.id(cc.Args[0])))
			}
		}
	case *ssa.Extract:
		if call, ok := x.Tuple.(*ssa.Call); ok {
			sc := call.Common().StaticCallee()
			if sc != nil {
				if sf, ok := k.fam.steps[sc]; ok && sf.restIdx == x.Index {
					s = s.withClass(k.num.id(x), ccDeleg)
				} else if sc == k.fam.collect && x.Index == 0 {
					s = s.withClass(k.num.id(x), ccCRest)
				}
			}
		}
	}
	// single-result step call (e.g. cborl stepLen returns only the rest)
	if call, ok := in.(*ssa.Call); ok {
		if sc := call.Common().StaticCallee(); sc != nil {
			if sf, ok := k.fam.steps[sc]; ok && sc.Signature.Results().Len() == 1 && sf.restIdx == 0 {
				s = s.withClass(k.num.id(call), ccDeleg)
			}
		}
	}
	return s, true, nil
}

// enumTag: the value has a named integer type declared in the parser's own
// package (json.state, ubjson.stateType, ubjson.stateStep): a parser-state
// enum, as opposed to a raw byte taken from the input.
// fieldPath: for a load of recv.a.b.c, the field index path "a.b.c" (receiver name independent).
func fieldPath(v ssa.Value) string {
	ld, ok := v.(*ssa.UnOp)
	if !ok || ld.Op != token.MUL {
		return ""
	}
	k := addrKey(ld.X)
	if !strings.HasPrefix(k, "P:") {
		return ""
	}
	i := strings.Index(k, ".")
	if i < 0 {
		return ""
	}
	return k[i+1:]
}

// reentryTagPath: the field path of the state value tested by the dispatcher's
// empty-chunk re-entry condition ((x & M) == V), "" if there is none.
func reentryTagPath(f *ssa.Function) string {
	if f == nil {
		return ""
	}
	for _, b := range f.Blocks {
		for _, in := range b.Instrs {
			bo, ok := in.(*ssa.BinOp)
			if !ok || bo.Op != token.EQL {
				continue
			}
			and, ok := bo.X.(*ssa.BinOp)
			if !ok || and.Op != token.AND {
				continue
			}
			if _, ok := constIntVal(and.Y); !ok {
				continue
			}
			if _, ok := constIntVal(bo.Y); !ok {
				continue
			}
			return fieldPath(and.X)
		}
	}
	return ""
}

func (k *r2client) enumTag(v ssa.Value) bool {
	n, ok := v.Type().(*types.Named)
	if !ok || n.Obj().Pkg() == nil || n.Obj().Pkg() != core.FuncPkg(k.fn) {
		return false
	}
	b, ok := n.Underlying().(*types.Basic)
	return ok && b.Info()&types.IsInteger != 0
}

func (k *r2client) Branch(s r2state, cond ssa.Value, outcome bool) (r2state, bool) {
	for {
		u, ok := cond.(*ssa.UnOp)
		if !ok || u.Op != token.NOT {
			break
		}
		cond, outcome = u.X, !outcome
	}
	id := k.num.id(cond)
	if s.bt.has(id) && !outcome || s.bf.has(id) && outcome {
		return s, false
	}
	if cv, ok := constBool(cond); ok && cv != outcome {
		return s, false
	}
	if x, trueMeansNil, ok := nilTest(cond); ok {
		isNil := outcome == trueMeansNil
		if isNil && (s.nonnil.has(k.num.id(x)) || k.defNonNil(x)) {
			return s, false
		}
		if !isNil && s.nilv.has(k.num.id(x)) {
			return s, false
		}
		if !isNil && isErrorType(x.Type()) {
			s.nonnil = s.nonnil.with(k.num.id(x))
			if ld, ok := x.(*ssa.UnOp); ok && ld.Op == token.MUL {
				if key := addrKey(ld.X); key != "" {
					s.nnmem = s.nnmem.with(key)
				}
			}
		}
		if isNil && isErrorType(x.Type()) {
			s.nilv = s.nilv.with(k.num.id(x))
		}
	}
	if bo, ok := cond.(*ssa.BinOp); ok {
		// len(v) == 0 / len(v) > 0 / len(v) != 0
		for _, pr := range [][2]ssa.Value{{bo.X, bo.Y}, {bo.Y, bo.X}} {
			call, ok := pr[0].(*ssa.Call)
			if !ok {
				continue
			}
			bi, ok := call.Common().Value.(*ssa.Builtin)
			if !ok || bi.Name() != "len" || !isIntConst(pr[1], 0) {
				continue
			}
			arg := k.num.id(call.Common().Args[0])
			lenIsX := pr[0] == bo.X
			var emptyOnTrue, known bool
			switch bo.Op {
			case token.EQL:
				emptyOnTrue, known = true, true
			case token.NEQ:
				emptyOnTrue, known = false, true
			case token.GTR: // len > 0  | 0 > len (never)
				if lenIsX {
					emptyOnTrue, known = false, true
				}
			case token.LEQ: // len <= 0
				if lenIsX {
					emptyOnTrue, known = true, true
				}
			case token.LSS: // 0 < len
				if !lenIsX {
					emptyOnTrue, known = false, true
				}
			case token.GEQ: // 0 >= len
				if !lenIsX {
					emptyOnTrue, known = true, true
				}
			}
			if known {
				isEmpty := outcome == emptyOnTrue
				if isEmpty {
					s.empty = s.empty.with(arg)
				} else if s.empty.has(arg) {
					return s, false
				}
			}
		}
		// dispatched on a state constant
		if bo.Op == token.EQL && outcome && k.sf != nil && k.fam != nil {
			if c, ok := constIntVal(bo.Y); ok && reentryTagPath(k.fam.feedUntil) != "" && fieldPath(bo.X) == reentryTagPath(k.fam.feedUntil) {
				s.disp = c + 1
			}
		}
		// fall-out of a switch over a parser-state enum
		if bo.Op == token.EQL && !outcome && k.enumTag(bo.X) {
			if _, isC := bo.Y.(*ssa.Const); isC {
				// is the false successor another comparison of the same tag?
				blk := cond.(*ssa.BinOp).Block()
				if len(blk.Succs) == 2 {
					nxt := blk.Succs[1]
					chain := false
					if len(nxt.Instrs) >= 2 {
						if nb, ok := nxt.Instrs[0].(*ssa.BinOp); ok && nb.Op == token.EQL && nb.X == bo.X {
							if _, ok := nxt.Instrs[len(nxt.Instrs)-1].(*ssa.If); ok && len(nxt.Instrs) == 2 {
								chain = true
							}
						}
					}
					if !chain {
						s.fallout = true
						s.since = 0
					}
				}
			}
		}
	}
	if b, isB := cond.Type().Underlying().(*types.Basic); isB && b.Kind() == types.Bool {
		if outcome {
			s.bt = s.bt.with(id)
		} else {
			s.bf = s.bf.with(id)
		}
	}
	return s, true
}

func (k *r2client) judge(s r2state, rest ssa.Value, errv ssa.Value, where string) {
	if errv != nil && (k.defNonNil(errv) || s.nonnil.has(k.num.id(errv))) {
		return
	}
	if s.eff {
		return
	}
	if isNilConst(rest) {
		return
	}
	rid := k.num.id(rest)
	switch s.class(rid) {
	case ccCons, ccDeleg, ccCRest:
		return
	}
	if s.empty.has(rid) {
		// handing back an empty chunk ends the dispatcher loop - unless the
		// dispatcher goes on with an empty chunk in this very state
		m, v, re := int64(0), int64(0), false
		if k.sf != nil && k.fam != nil && k.fam.feedUntil != nil {
			m, v, re = reentryMask(k.fam.feedUntil)
		}
		if !re || s.disp == 0 || (s.disp-1)&m != v {
			return
		}
		if k.bad == nil {
			k.bad = map[string]string{}
		}
		k.bad[where] = fmt.Sprintf("[%s] a path dispatched on state %#x reaches %s with an empty chunk, no parser state changed and no error; the dispatcher goes on with an empty chunk while state&%#x == %#x, so it re-enters with identical state and input (deterministic infinite loop at a chunk boundary)", describeTrail(k.fn, k.trail), s.disp-1, where, m, v)
		return
	}
	if s.fallout && s.since == 0 {
		k.skipped++
		return
	}
	if k.bad == nil {
		k.bad = map[string]string{}
	}
	k.bad[where] = "[" + describeTrail(k.fn, k.trail) + "] a path reaches " + where + " with the input chunk unconsumed, no parser state changed and no error: the dispatcher re-enters with identical state and input (deterministic infinite loop)"
}

func (k *r2client) defNonNil(v ssa.Value) bool {
	if definitelyNonNilError(v) {
		return true
	}
	if call, ok := v.(*ssa.Call); ok && k.ctx != nil {
		if sc := call.Common().StaticCallee(); sc != nil && sc.Signature.Results().Len() == 1 && k.ctx.alwaysNonNilErr(sc) {
			return true
		}
	}
	return false
}

// applySummary forks the state over the outcomes of a summarised helper.
func (k *r2client) applySummary(s r2state, call *ssa.Call, sc *ssa.Function, outs []outcome) (r2state, bool, []r2state) {
	var states []r2state
	ei := errResultIndex(sc.Signature)
	nres := sc.Signature.Results().Len()
	var chunkArgClass chunkClass
	if sf, ok := k.fam.steps[sc]; ok {
		for i, prm := range sc.Params {
			if prm == sf.chunk && i < len(call.Common().Args) {
				chunkArgClass = s.class(k.num.id(call.Common().Args[i]))
			}
		}
	}
	for _, o := range outs {
		ns := s
		if o.eff {
			ns.eff = true
		}
		setRes := func(idx int, v ssa.Value) {
			id := k.num.id(v)
			if bv, ok := o.bools[idx]; ok {
				ns.bt, ns.bf = ns.bt.without(id), ns.bf.without(id)
				if bv {
					ns.bt = ns.bt.with(id)
				} else {
					ns.bf = ns.bf.with(id)
				}
			}
			if idx == ei {
				ns.nonnil, ns.nilv = ns.nonnil.without(id), ns.nilv.without(id)
				if o.err == 1 {
					ns.nonnil = ns.nonnil.with(id)
				} else if o.err == 2 {
					ns.nilv = ns.nilv.with(id)
				}
			}
			if sf, ok := k.fam.steps[sc]; ok && sf.restIdx == idx {
				c := o.rest
				if c == ccSame || c == ccWS {
					c = chunkArgClass
				}
				ns = ns.withClass(id, c)
			}
		}
		if nres == 1 {
			setRes(0, call)
		} else if refs := call.Referrers(); refs != nil {
			for _, r := range *refs {
				if ex, ok := r.(*ssa.Extract); ok {
					setRes(ex.Index, ex)
				}
			}
		}
		states = append(states, ns)
	}
	return states[0], true, states[1:]
}

func (k *r2client) recordOutcome(s r2state, ret *ssa.Return) {
	o := outcome{bools: map[int]bool{}, eff: s.eff}
	res := k.fn.Signature.Results()
	for i := 0; i < res.Len(); i++ {
		v := ret.Results[i]
		id := k.num.id(v)
		if b, ok := res.At(i).Type().Underlying().(*types.Basic); ok && b.Kind() == types.Bool {
			if cv, ok := constBool(v); ok {
				o.bools[i] = cv
			} else if s.bt.has(id) {
				o.bools[i] = true
			} else if s.bf.has(id) {
				o.bools[i] = false
			}
		}
		if isErrorType(res.At(i).Type()) && i == errResultIndex(k.fn.Signature) {
			switch {
			case k.defNonNil(v) || s.nonnil.has(id):
				o.err = 1
			case isNilConst(v) || s.nilv.has(id):
				o.err = 2
			}
		}
		if k.sf != nil && i == k.sf.restIdx {
			switch {
			case isNilConst(v):
				o.rest = ccCons
			case s.empty.has(id) && (s.class(id) == ccSame || s.class(id) == ccWS):
				o.rest = ccCons // an empty chunk handed back: nothing left to consume
			default:
				o.rest = s.class(id)
				if o.rest == ccNone {
					o.rest = ccUnk
				}
			}
		}
	}
	k.outcomes[o.key()] = o
}

func (k *r2client) Return(s r2state, ret *ssa.Return) {
	if k.summarise {
		if !s.dead {
			k.recordOutcome(s, ret)
		}
		return
	}
	if s.dead || k.header != nil {
		return // dispatcher mode judges loop iterations, not returns
	}
	var errv ssa.Value
	if k.sf.errIdx >= 0 {
		errv = ret.Results[k.sf.errIdx]
	}
	// ordinal of this return among the function's returns
	ord := 0
	var rets []*ssa.Return
	for _, b := range k.fn.Blocks {
		for _, in := range b.Instrs {
			if r, ok := in.(*ssa.Return); ok {
				rets = append(rets, r)
			}
		}
	}
	sort.Slice(rets, func(i, j int) bool { return instrPos(rets[i]) < instrPos(rets[j]) })
	for i, r := range rets {
		if r == ret {
			ord = i + 1
		}
	}
	k.judge(s, ret.Results[k.sf.restIdx], errv, fmt.Sprintf("return#%d (%s)", ord, k.p.Pos(token.Pos(instrPos(ret)))))
}

// R2 runs PROGRESS for the given parser packages.
func R2(pkgs ...string) func(p *core.Prog) *core.Result {
	return func(p *core.Prog) *core.Result {
		r := core.NewResult("R2", "no step function of the "+strings.Join(pkgs, "/")+" parser state machines (and no iteration of an inline dispatcher loop) can finish without consuming input, changing parser state, or returning an error (no stutter path, hence no deterministic hang)")
		total := 0
		for _, pk := range pkgs {
			fam, err := buildFamily(p, pk)
			if err != nil {
				r.Undecided("", pk, err.Error())
				continue
			}
			var fns []*ssa.Function
			for f := range fam.steps {
				fns = append(fns, f)
			}
			sort.Slice(fns, func(i, j int) bool { return fns[i].Pos() < fns[j].Pos() })
			ctx := &r2ctx{p: p, fam: fam, sums: map[*ssa.Function][]outcome{}, busy: map[*ssa.Function]bool{}, nonnilFn: map[*ssa.Function]int8{}}
			r.Stats["steps_"+pk] = len(fns)
			r.Stats["must_state_methods_"+pk] = len(fam.mustState)
			total += len(fns)
			for _, f := range fns {
				sf := fam.steps[f]
				if why, ok := summarisedSteps[core.FuncKey(f)]; ok {
					if ctx.summary(f) == nil {
						r.Undecided(".STUTTER", core.FuncKey(f), "helper "+core.FuncKey(f)+" could not be summarised")
					} else {
						r.Ok(".STUTTER", p.Pos(f.Pos()), core.FuncKey(f)+": summarised into its callers ("+why+")")
					}
					continue
				}
				k := &r2client{p: p, fam: fam, sf: sf, fn: f, num: newNumbering(), ctx: ctx}
				init := r2state{cls: map[int]chunkClass{k.num.id(sf.chunk): ccSame}}
				init = k.seedParams(init)
				n, capped := WalkPaths[r2state](k, f.Blocks[0], 0, init, 300000, func(t []int) { k.trail = t })
				r.Stats["abstract_states"] += n
				r.Stats["enum_fallout_paths_skipped"] += k.skipped
				fkey := core.FuncKey(f)
				if capped {
					r.Undecided(".STUTTER", fkey, "state cap hit in "+fkey)
					continue
				}
				if len(k.bad) == 0 {
					r.Ok(".STUTTER", p.Pos(f.Pos()), fkey+": every path consumes, changes state, delegates or fails")
					continue
				}
				for _, where := range sortedKeys(k.bad) {
					ord := where[:strings.Index(where, " ")]
					r.Fail(".STUTTER", fkey+"|"+ord, p.Pos(f.Pos()), fkey+": "+k.bad[where], "")
				}
			}
			// inline dispatcher loop (json.feedUntil has inline arms; the
			// others call execStep, which is a step function)
			fu := fam.feedUntil
			hdr, bphi := loopHeaderWithChunkPhi(fu)
			if hdr != nil {
				total++
				k := &r2client{p: p, fam: fam, fn: fu, num: newNumbering(), header: hdr, bphi: bphi, ctx: ctx}
				init := r2state{cls: map[int]chunkClass{k.num.id(bphi): ccSame}}
				// start at the header itself (phis already "assigned")
				_, capped := WalkPaths[r2state](k, hdr, firstNonPhi(hdr), init, 300000, nil)
				fkey := core.FuncKey(fu)
				if capped {
					r.Undecided(".STUTTER", fkey, "state cap hit in "+fkey)
				} else if len(k.bad) == 0 {
					r.Ok(".STUTTER", p.Pos(fu.Pos()), fkey+": every iteration of the dispatcher loop makes progress")
				} else {
					for _, where := range sortedKeys(k.bad) {
						r.Fail(".STUTTER", fkey+"|loop", p.Pos(fu.Pos()), fkey+": "+k.bad[where], "")
					}
				}
			}
		}
		r.Floor("step_functions", total, 14*len(pkgs))
		return r
	}
}

func firstNonPhi(b *ssa.BasicBlock) int {
	for i, in := range b.Instrs {
		if _, ok := in.(*ssa.Phi); !ok {
			return i
		}
	}
	return len(b.Instrs)
}

// loopHeaderWithChunkPhi finds a loop header block that carries a []byte phi
// fed by the function's chunk parameter.
func loopHeaderWithChunkPhi(f *ssa.Function) (*ssa.BasicBlock, *ssa.Phi) {
	var chunk *ssa.Parameter
	for _, prm := range f.Params {
		if isByteSlice(prm.Type()) {
			chunk = prm
		}
	}
	if chunk == nil {
		return nil, nil
	}
	for _, b := range f.Blocks {
		for _, in := range b.Instrs {
			phi, ok := in.(*ssa.Phi)
			if !ok {
				break
			}
			if !isByteSlice(phi.Type()) {
				continue
			}
			for _, e := range phi.Edges {
				if e == ssa.Value(chunk) {
					return b, phi
				}
			}
		}
	}
	return nil, nil
}

package rules

import (
	"fmt"
	"go/token"
	"go/types"
	"sort"
	"strings"

	"golang.org/x/tools/go/ssa"

	"sfcheck/internal/core"
)

// R10 EVENT-GRAMMAR: every library producer function (adapters for extended
// events, the fold side of gotype) emits, on every path that can return a nil
// error, a word of the Visitor grammar for its effect type:
//
//   V  exactly one value          P  exactly one key/value pair
//   P* any number of pairs        P? at most one pair
//   V* any number of values       K  exactly one key
//   CP pairs, exactly one per entry of the collection argument (counted P*)
//
// Visitor events are terminals; calls through fold function values are
// non-terminals whose effect type follows from where the value comes from
// (frozen getter table below - the part a reviewer has to read).
// LEN-EXACT: a start event that announces a length other than -1 announces
// len(x) / x.Len() and its elements are produced by one loop over that x with
// exactly one element per iteration (or by a CP non-terminal applied to x).
// TYPE-ANNOUNCE: in the adapters, slice/map element type, announced BaseType
// and element event agree.

type etype string

const (
	etV  etype = "V"
	etP  etype = "P"
	etPS etype = "P*"
	etPQ etype = "P?"
	etVS etype = "V*"
	etK  etype = "K"
	etCP etype = "CP"
)

// declared effect type of functions / closures (default for fold-shaped
// functions: V).
var r10Declared = map[string]etype{
	"gotype.makeFieldsFold$1":             etPS,
	"gotype.makeFieldFold$1":              etP,
	"gotype.makeFieldInlineFold$1":        etPS,
	"gotype.makeNonEmptyFieldFold$1":      etPQ,
	"gotype.makeMapKeysFold$1":            etCP,
	"gotype.embeddObjReFold$1":            etPS,
	"structform.(extStrVisitor).OnKeyRef": etK,
	"gotype.makePointerFold$1":            "=elemVisitor", // same type as its captured folder
	"gotype.makeInlinePointerFold$1":      "=elemVisitor",
}

// instantiations of the polymorphic pointer wrappers (checked below against
// the actual call sites: GETTER-INSTANCE).
var r10Instances = map[string][]etype{
	"gotype.makePointerFold$1":       {etV},
	"gotype.makeInlinePointerFold$1": {etPS},
}

// result effect type of functions that hand out fold function values.
var r10Getter = map[string]etype{
	"gotype.getReflectFold":                 etV,
	"gotype.(*typeFoldRegistry).find":       etV,
	"gotype.getReflectFoldPrimitive":        etV,
	"gotype.getReflectFoldPrimitiveKind":    etV,
	"gotype.getFoldGoTypes":                 etV,
	"gotype.getFoldConvert":                 etV,
	"gotype.getFoldPointer":                 etV,
	"gotype.getReflectFoldMap":              etV,
	"gotype.getReflectFoldSlice":            etV,
	"gotype.getReflectFoldElem":             etV,
	"gotype.makeStructFold":                 etV,
	"gotype.liftFold":                       etV,
	"gotype.liftUserPtrFn":                  etV,
	"gotype.liftUserValueFn":                etV,
	"gotype.makeUserFoldFn":                 etV, // wraps a user function: one value by contract
	"gotype.makeInlinePointerFold":          "=arg1",
	"gotype.(*typeFoldRegistry).findInline": etPS,
	"gotype.fieldFoldGenInline":             etPS,
	"gotype.getReflectFoldMapKeys":          etCP,
	"gotype.getMapInlineByPrimitiveElem":    etCP,
	"gotype.makeMapKeysFold":                etCP,
	"gotype.getReflectFoldInlineInterface":  etPS,
	"gotype.embeddObjReFold":                etPS,
	"gotype.buildFieldFold":                 etPS, // P, P? or P*: a field-level folder
	"gotype.buildFieldFoldInline":           etPS,
	"gotype.makeFieldFold":                  etP,
	"gotype.makeNonEmptyFieldFold":          etPQ,
	"gotype.makeFieldInlineFold":            etPS,
	"gotype.makeFieldsFold":                 etPS,
	"gotype.makePointerFold":                "=arg1",
	"gotype.getReflectFoldStruct":           "?inline", // V or P* depending on the constant bool argument
}

// required effect type of func-valued parameters
var r10Param = map[string]etype{
	"gotype.(*typeFoldRegistry).set|2":       etV,
	"gotype.(*typeFoldRegistry).setInline|2": etPS,
	"gotype.makeFieldFold|2":                 etV,
	"gotype.makeNonEmptyFieldFold|3":         etV,
	"gotype.makeFieldInlineFold|1":           etPS,
	"gotype.makeMapKeysFold|0":               etV,
	"gotype.embeddObjReFold|1":               etV,
	"gotype.makeStructFold|0":                etPS, // slice of field-level folders
	"gotype.makeFieldsFold|0":                etPS,
	"gotype.liftFold|1":                      etV,
	"gotype.liftUserPtrFn|0":                 etV,
	"gotype.liftUserValueFn|0":               etV,
}

func subEff(a, b etype) bool { // a usable where b is expected
	if a == b {
		return true
	}
	switch b {
	case etPS:
		return a == etP || a == etPQ || a == etCP
	case etPQ:
		return a == etP
	}
	return false
}

type r10env struct {
	litMemo   map[*ssa.Function]etype
	inferBusy map[*ssa.Function]bool
	p         *core.Prog
	memo      map[ssa.Value]etype
	busy      map[ssa.Value]bool
}

func (e *r10env) declared(f *ssa.Function) etype {
	if t, ok := r10Declared[core.FuncKey(f)]; ok {
		return t
	}
	if strings.HasPrefix(core.FuncKey(f), "gotype.foldMapInline") {
		return etCP // generated inline map folders: one pair per entry, no object events
	}
	return etV
}

// typeOf infers the effect type of a fold function value.
func (e *r10env) typeOf(v ssa.Value) (etype, bool) {
	if t, ok := e.memo[v]; ok {
		return t, t != ""
	}
	if e.busy[v] {
		return "", false
	}
	e.busy[v] = true
	defer delete(e.busy, v)
	t, ok := e.typeOf1(v)
	if ok {
		e.memo[v] = t
	}
	return t, ok
}

func (e *r10env) typeOf1(v ssa.Value) (etype, bool) {
	switch x := v.(type) {
	case *ssa.Function:
		t := e.declared(x)
		if strings.HasPrefix(string(t), "=") {
			return "", false
		}
		return t, true
	case *ssa.MakeClosure:
		fn := x.Fn.(*ssa.Function)
		t := e.declared(fn)
		if strings.HasPrefix(string(t), "=") {
			name := strings.TrimPrefix(string(t), "=")
			for i, fv := range fn.FreeVars {
				if fv.Name() == name {
					return e.typeOf(x.Bindings[i])
				}
			}
			return "", false
		}
		return t, true
	case *ssa.ChangeType:
		return e.typeOf(x.X)
	case *ssa.Phi:
		var t etype
		for _, ed := range x.Edges {
			if isNilConst(ed) {
				continue
			}
			te, ok := e.typeOf(ed)
			if !ok {
				return "", false
			}
			if t == "" {
				t = te
			} else if t != te {
				if subEff(te, t) {
				} else if subEff(t, te) {
					t = te
				} else {
					return "", false
				}
			}
		}
		return t, t != ""
	case *ssa.Extract:
		if c, ok := x.Tuple.(*ssa.Call); ok {
			return e.callResult(c)
		}
		if _, ok := x.Tuple.(*ssa.Next); ok {
			// ranging over a map of user-registered folders: V by contract
			return etV, true
		}
	case *ssa.Call:
		return e.callResult(x)
	case *ssa.Parameter:
		f := x.Parent()
		if t, ok := r10Param[fmt.Sprintf("%s|%d", core.FuncKey(f), paramIndex(f, x))]; ok {
			return t, true
		}
		if strings.HasSuffix(core.FuncKey(f), "PointerFold") {
			return "", false
		}
	case *ssa.FreeVar:
		fn := x.Parent()
		idx := -1
		for i, fv := range fn.FreeVars {
			if fv == x {
				idx = i
			}
		}
		var t etype
		found := false
		merge := func(tb etype) bool {
			if found && tb != t {
				return false
			}
			t, found = tb, true
			return true
		}
		// assignments through the captured variable inside the closure itself
		if refs := x.Referrers(); refs != nil {
			for _, r := range *refs {
				if st, ok := r.(*ssa.Store); ok && st.Addr == ssa.Value(x) && !isNilConst(st.Val) {
					tb, ok := e.typeOf(st.Val)
					if !ok || !merge(tb) {
						return "", false
					}
				}
			}
		}
		for _, g := range e.p.ModFuncs() {
			for _, b := range g.Blocks {
				for _, in := range b.Instrs {
					mc, ok := in.(*ssa.MakeClosure)
					if !ok || mc.Fn != ssa.Value(fn) {
						continue
					}
					bind := mc.Bindings[idx]
					if a, ok := bind.(*ssa.Alloc); ok && len(storedInto(a)) == 0 {
						continue // declared in the parent, assigned only inside the closure
					}
					tb, ok := e.typeOf(bind)
					if !ok || !merge(tb) {
						return "", false
					}
				}
			}
		}
		return t, found
	case *ssa.UnOp:
		if x.Op == token.MUL {
			// element of a []reFoldFn (range over fields) or a captured variable
			if ia, ok := x.X.(*ssa.IndexAddr); ok {
				return e.typeOf(ia.X)
			}
			// load of an alloc'ed local: values stored into it
			if a, ok := x.X.(*ssa.Alloc); ok {
				var t etype
				for _, sv := range storedInto(a) {
					if isNilConst(sv) {
						continue
					}
					ts, ok := e.typeOf(sv)
					if !ok {
						return "", false
					}
					if t != "" && t != ts {
						return "", false
					}
					t = ts
				}
				return t, t != ""
			}
			if fv, ok := x.X.(*ssa.FreeVar); ok {
				return e.typeOf(fv)
			}
		}
	case *ssa.Lookup:
		// C.userReg[t]: user registered folders are V by contract
		return etV, true
	case *ssa.Alloc:
		var t etype
		for _, sv := range storedInto(x) {
			if isNilConst(sv) {
				continue
			}
			ts, ok := e.typeOf(sv)
			if !ok {
				return "", false
			}
			if t != "" && t != ts {
				if subEff(ts, t) {
					continue
				} else if subEff(t, ts) {
					t = ts
					continue
				}
				return "", false
			}
			t = ts
		}
		return t, t != ""
	}
	return "", false
}

func (e *r10env) callResult(c *ssa.Call) (etype, bool) {
	sc := c.Common().StaticCallee()
	if sc == nil {
		return "", false
	}
	t, ok := r10Getter[core.FuncKey(sc)]
	if !ok {
		// a helper that is not in the table (extracted from a getter, say): its result has the effect type
		// of what it returns, if all its returns agree
		return e.inferGetter(sc)
	}
	switch t {
	case "=arg1":
		return e.typeOf(c.Common().Args[1])
	case "?inline":
		if cv, ok := constBool(c.Common().Args[2]); ok {
			if cv {
				return etPS, true
			}
			return etV, true
		}
		return "", false
	}
	return t, true
}

// inferGetter: the common effect type of the fold function values a module
// function returns as its first result (nil results ignored).
func (e *r10env) inferGetter(f *ssa.Function) (etype, bool) {
	if f.Blocks == nil || !e.p.InModule(f) || f.Signature.Results().Len() == 0 || !isFuncOrPtrToFunc(f.Signature.Results().At(0).Type()) {
		return "", false
	}
	if e.inferBusy == nil {
		e.inferBusy = map[*ssa.Function]bool{}
	}
	if e.inferBusy[f] {
		return "", false
	}
	e.inferBusy[f] = true
	defer delete(e.inferBusy, f)
	var common etype
	for _, b := range f.Blocks {
		for _, in := range b.Instrs {
			ret, ok := in.(*ssa.Return)
			if !ok {
				continue
			}
			rv := ret.Results[0]
			if isNilConst(rv) {
				continue
			}
			t, ok := e.typeOf(rv)
			if !ok {
				return "", false
			}
			if common == "" {
				common = t
			} else if common != t {
				return "", false
			}
		}
	}
	return common, common != ""
}

// isCallbackSig: func(...) error that is not a folder.
func isCallbackSig(t types.Type) bool {
	sig, ok := t.Underlying().(*types.Signature)
	return ok && sig.Results().Len() == 1 && errResultIndex(sig) == 0 && !isFoldShaped(sig)
}

// callbackType: the effect type of the function literals every caller passes
// for a callback parameter; the literal's own body is run through the grammar.
func (e *r10env) callbackType(prm *ssa.Parameter) (etype, string) {
	f := prm.Parent()
	idx := paramIndex(f, prm)
	var common etype
	sites := 0
	for _, g := range e.p.ModFuncs() {
		for _, b := range g.Blocks {
			for _, in := range b.Instrs {
				c, ok := in.(ssa.CallInstruction)
				if !ok || c.Common().StaticCallee() != f || idx >= len(c.Common().Args) {
					continue
				}
				sites++
				var lit *ssa.Function
				switch a := c.Common().Args[idx].(type) {
				case *ssa.MakeClosure:
					lit, _ = a.Fn.(*ssa.Function)
				case *ssa.Function:
					lit = a
				}
				if lit == nil || lit.Blocks == nil {
					return "", "which " + core.FuncKey(g) + " does not pass as a function literal"
				}
				t, ok := e.literalEffect(lit)
				if !ok {
					return "", "and the literal passed by " + core.FuncKey(g) + " does not emit a word of the grammar for any effect type"
				}
				if common != "" && common != t {
					return "", fmt.Sprintf("for which callers pass literals of different effect types (%s, %s)", common, t)
				}
				common = t
			}
		}
	}
	if sites == 0 {
		return "", "which no caller in the module supplies"
	}
	return common, ""
}

func (e *r10env) literalEffect(lit *ssa.Function) (etype, bool) {
	if e.litMemo == nil {
		e.litMemo = map[*ssa.Function]etype{}
	}
	if t, ok := e.litMemo[lit]; ok {
		return t, t != ""
	}
	e.litMemo[lit] = ""
	for _, cand := range []etype{etV, etP, etK, etPQ, etPS} {
		k := &r10client{e: e, p: e.p, fn: lit, num: newNumbering(), counted: map[ssa.Instruction]*countedFrame{}, lenBad: map[ssa.Instruction]string{}, lenOK: map[ssa.Instruction]bool{}}
		_, capped := WalkPaths[r10state](k, lit.Blocks[0], 0, r10state{stack: string(initialFrame(cand))}, 100000, nil)
		if !capped && len(k.bad) == 0 && len(k.lenBad) == 0 {
			e.litMemo[lit] = cand
			return cand, true
		}
	}
	return "", false
}

// ---- automaton ----

type r10state struct {
	stack  string // frames, innermost last: one byte per frame
	cnt    int    // elements produced at the innermost counted frame since the loop header
	inLoop bool
	nonnil valueSet
	bt, bf valueSet
	dead   bool
}

// pseudo frames (first byte): v V1, d DONE, p P-key, q P-val, s PS-key, t PS-val, u PQ-key, w VS, k K-key
// real frames: A array, O object expecting key, o object expecting value; upper-case+'#' variants are not used, counted frames are tracked separately.

func consumeValue(top byte) (byte, bool) {
	switch top {
	case 'v':
		return 'd', true
	case 'q':
		return 'd', true
	case 't':
		return 's', true
	case 'w':
		return 'w', true
	case 'A':
		return 'A', true
	case 'o':
		return 'O', true
	}
	return 0, false
}

func consumeKey(top byte) (byte, bool) {
	switch top {
	case 'p':
		return 'q', true
	case 's':
		return 't', true
	case 'u':
		return 'q', true
	case 'O':
		return 'o', true
	case 'k':
		return 'd', true
	}
	return 0, false
}

func consumePairs(top byte, t etype) (byte, bool) {
	switch t {
	case etP:
		switch top {
		case 'p', 'u':
			return 'd', true
		case 's':
			return 's', true
		case 'O':
			return 'O', true
		}
	case etPS, etPQ, etCP:
		switch top {
		case 's':
			return 's', true
		case 'O':
			return 'O', true
		case 'u':
			if t == etPQ {
				return 'd', true
			}
		}
	}
	return 0, false
}

func initialFrame(t etype) byte {
	switch t {
	case etV:
		return 'v'
	case etP:
		return 'p'
	case etPS, etCP:
		return 's'
	case etPQ:
		return 'u'
	case etVS:
		return 'w'
	case etK:
		return 'k'
	}
	return 'v'
}

func accepting(stack string) bool {
	if len(stack) != 1 {
		return false
	}
	switch stack[0] {
	case 'd', 's', 'u', 'w':
		return true
	}
	return false
}

type countedFrame struct {
	depth  int       // stack depth of the counted frame
	root   ssa.Value // the collection whose length was announced
	lenVal ssa.Value
	lenArg ssa.Value // the length argument as written
	start  ssa.Instruction
	pairNT []*ssa.Call // P* non-terminals that produced the members
	// the announced length is an int parameter of the function (a helper that is told the count): the elements
	// must come from the canonical loop `for i := 0; i < n; i++`
	intParam *ssa.Parameter
}

type r10client struct {
	e       *r10env
	p       *core.Prog
	fn      *ssa.Function
	num     *valueNumbering
	bad     map[string]string
	counted map[ssa.Instruction]*countedFrame // start call -> frame info
	lenBad  map[ssa.Instruction]string
	// per counted start: did we see the elements produced inside a loop over root with exactly one per iteration
	lenOK map[ssa.Instruction]bool
}

func (k *r10client) Key(s r10state) string {
	return fmt.Sprintf("%s|%d|%v|%s|%s|%s|%v", s.stack, s.cnt, s.inLoop, s.nonnil.key(), s.bt.key(), s.bf.key(), s.dead)
}

func (k *r10client) fail(key, msg string) {
	if k.bad == nil {
		k.bad = map[string]string{}
	}
	if _, ok := k.bad[key]; !ok {
		k.bad[key] = msg
	}
}

func (k *r10client) Phis(s r10state, blk *ssa.BasicBlock, pred int) r10state {
	type upd struct {
		id             int
		nonnil, bt, bf bool
	}
	var ups []upd
	for _, in := range blk.Instrs {
		phi, ok := in.(*ssa.Phi)
		if !ok {
			break
		}
		if pred < 0 || pred >= len(phi.Edges) {
			continue
		}
		e := phi.Edges[pred]
		eid := k.num.id(e)
		u := upd{id: k.num.id(phi), nonnil: s.nonnil.has(eid) || definitelyNonNilError(e)}
		if cv, ok := constBool(e); ok {
			u.bt, u.bf = cv, !cv
		} else {
			u.bt, u.bf = s.bt.has(eid), s.bf.has(eid)
		}
		ups = append(ups, u)
	}
	for _, u := range ups {
		s.nonnil, s.bt, s.bf = s.nonnil.without(u.id), s.bt.without(u.id), s.bf.without(u.id)
		if u.nonnil {
			s.nonnil = s.nonnil.with(u.id)
		}
		if u.bt {
			s.bt = s.bt.with(u.id)
		}
		if u.bf {
			s.bf = s.bf.with(u.id)
		}
	}
	// loop bookkeeping for counted frames: crossing a loop header
	if pred >= 0 && len(blk.Preds) > 1 {
		isHeader := false
		for pi := range blk.Preds {
			if isBackEdge(blk, pi) {
				isHeader = true
			}
		}
		if isHeader {
			if isBackEdge(blk, pred) {
				if s.cnt != 1 && k.innermostCounted(s) != nil {
					cf := k.innermostCounted(s)
					k.lenBad[cf.start] = fmt.Sprintf("one loop iteration produces %d elements instead of exactly 1", s.cnt)
				}
			}
			if cf := k.innermostCounted(s); cf != nil && cf.intParam != nil && !isBackEdge(blk, pred) && !canonicalCountLoop(blk, cf.intParam) {
				k.lenBad[cf.start] = "the announced length is the parameter " + cf.intParam.Name() + " but the elements are not produced by the loop `for i := 0; i < " + cf.intParam.Name() + "; i++`"
			}
			s.cnt = 0
			s.inLoop = true
		}
	}
	return s
}

func isIntType(t types.Type) bool {
	b, ok := t.Underlying().(*types.Basic)
	return ok && b.Kind() == types.Int
}

// canonicalCountLoop: the loop header tests `i < n` for an induction variable
// that starts at 0 and is incremented by 1 on every back edge.
func canonicalCountLoop(hdr *ssa.BasicBlock, n *ssa.Parameter) bool {
	iff, ok := hdr.Instrs[len(hdr.Instrs)-1].(*ssa.If)
	if !ok {
		return false
	}
	bo, ok := iff.Cond.(*ssa.BinOp)
	if !ok || bo.Op != token.LSS || bo.Y != ssa.Value(n) {
		return false
	}
	phi, ok := bo.X.(*ssa.Phi)
	if !ok || phi.Block() != hdr {
		return false
	}
	for pi, e := range phi.Edges {
		if isBackEdge(hdr, pi) {
			inc, ok := e.(*ssa.BinOp)
			if !ok || inc.Op != token.ADD || inc.X != ssa.Value(phi) || !isIntConst(inc.Y, 1) {
				return false
			}
		} else if !isIntConst(e, 0) {
			return false
		}
	}
	// the body is the true edge
	return true
}

func (k *r10client) innermostCounted(s r10state) *countedFrame {
	var best *countedFrame
	for _, cf := range k.counted {
		if cf.depth == len(s.stack) && (best == nil) {
			best = cf
		}
	}
	return best
}

func eventKind(name string) string {
	switch name {
	case "OnArrayStart":
		return "AS"
	case "OnArrayFinished":
		return "AF"
	case "OnObjectStart":
		return "OS"
	case "OnObjectFinished":
		return "OF"
	case "OnKey", "OnKeyRef":
		return "K"
	}
	if strings.HasPrefix(name, "On") {
		return "V" // scalars and complete extended values
	}
	return ""
}

func (k *r10client) element(s r10state, in ssa.Instruction) r10state {
	if cf := k.innermostCounted(s); cf != nil {
		s.cnt++
		if !s.inLoop {
			k.lenBad[cf.start] = "an element is produced outside a loop over the collection whose length was announced"
		}
	}
	return s
}

func (k *r10client) Instr(s r10state, in ssa.Instruction) (r10state, bool, []r10state) {
	if s.dead {
		return s, false, nil
	}
	call, ok := in.(*ssa.Call)
	if !ok {
		if d, ok := in.(*ssa.Defer); ok && d.Common().IsInvoke() && eventKind(d.Common().Method.Name()) != "" {
			k.fail("defer", "a visitor event is deferred: it runs even on error paths and its error is lost")
		}
		return s, true, nil
	}
	cc := call.Common()
	pos := k.p.Pos(call.Pos())
	top := s.stack[len(s.stack)-1]
	setTop := func(b byte) { s.stack = s.stack[:len(s.stack)-1] + string(b) }
	// terminals
	if cc.IsInvoke() && cc.Method.Pkg() != nil && cc.Method.Pkg().Path() == core.ModPath {
		kind := eventKind(cc.Method.Name())
		switch kind {
		case "V":
			nt, ok := consumeValue(top)
			if !ok {
				k.fail("V@"+pos, fmt.Sprintf("emits value event %s at %s where the stream grammar expects %s", cc.Method.Name(), pos, expectText(top)))
				s.dead = true
				return s, false, nil
			}
			setTop(nt)
			s = k.element(s, in)
		case "K":
			nt, ok := consumeKey(top)
			if !ok {
				k.fail("K@"+pos, fmt.Sprintf("emits a key at %s where the stream grammar expects %s", pos, expectText(top)))
				s.dead = true
				return s, false, nil
			}
			setTop(nt)
		case "AS", "OS":
			if _, ok := consumeValue(top); !ok {
				k.fail("S@"+pos, fmt.Sprintf("opens a container at %s where the stream grammar expects %s", pos, expectText(top)))
				s.dead = true
				return s, false, nil
			}
			s = k.element(s, in)
			f := byte('A')
			if kind == "OS" {
				f = 'O'
			}
			s.stack += string(f)
			// counted?
			if len(cc.Args) >= 1 {
				la := cc.Args[0]
				if c, ok := constIntVal(la); !(ok && c == -1) {
					root, lv := lenRoot(la)
					if _, exists := k.counted[in]; !exists {
						k.counted[in] = &countedFrame{depth: len(s.stack), root: root, lenVal: lv, lenArg: la, start: in}
					}
					if prm, isPrm := la.(*ssa.Parameter); root == nil && isPrm && isIntType(prm.Type()) {
						k.counted[in].intParam = prm
					} else if root == nil {
						if _, isC := la.(*ssa.Const); !isC {
							k.lenBad[in] = "the announced length is not len(x) / x.Len() of a collection nor -1"
						} else if c, _ := constIntVal(la); c != 0 {
							k.lenBad[in] = "the announced length is a constant other than -1"
						}
					}
					s.cnt = 0
					s.inLoop = false
				}
			}
		case "AF", "OF":
			want := byte('A')
			if kind == "OF" {
				want = 'O'
			}
			if top != want || len(s.stack) < 2 {
				k.fail("F@"+pos, fmt.Sprintf("closes a container with %s at %s where the stream grammar expects %s", cc.Method.Name(), pos, expectText(top)))
				s.dead = true
				return s, false, nil
			}
			// counted frame closes: elements must have been produced in the loop only
			for st, cf := range k.counted {
				if cf.depth == len(s.stack) {
					if s.cnt != 0 && s.inLoop {
						// leaving the loop with a partial iteration is impossible on nil paths; cnt counts the last iteration before exit test
					}
					if _, bad := k.lenBad[st]; !bad {
						k.lenOK[st] = true
					}
				}
			}
			s.stack = s.stack[:len(s.stack)-1]
			outer := s.stack[len(s.stack)-1]
			nt, _ := consumeValue(outer)
			s.stack = s.stack[:len(s.stack)-1] + string(nt)
			s.cnt = 0
			s.inLoop = false
		}
		return s, true, nil
	}
	// Folder.Fold (user code) : V
	var nt etype
	isNT := false
	if cc.IsInvoke() && cc.Method.Name() == "Fold" {
		nt, isNT = etV, true
	} else if sc := cc.StaticCallee(); sc != nil {
		// static call of a fold-shaped module function
		if k.p.InModule(sc) && isProducerFunc(k.p, sc) {
			t := k.e.declared(sc)
			if !strings.HasPrefix(string(t), "=") {
				nt, isNT = t, true
			}
		}
	} else if prm, isPrm := cc.Value.(*ssa.Parameter); isPrm && isCallbackSig(prm.Type()) {
		// a callback the function was handed (the element producer of a shared loop helper): its effect type is what
		// every caller passes
		t, why := k.e.callbackType(prm)
		if why != "" {
			k.fail("CB@"+pos, fmt.Sprintf("calls the callback parameter %s at %s, %s", prm.Name(), pos, why))
			s.dead = true
			return s, false, nil
		}
		nt, isNT = t, true
	} else if _, isB := cc.Value.(*ssa.Builtin); !isB {
		sig, ok := cc.Value.Type().Underlying().(*types.Signature)
		if ok && errResultIndex(sig) >= 0 && sig.Params().Len() >= 1 && isFoldShaped(sig) {
			t, ok := k.e.typeOf(cc.Value)
			if !ok {
				k.fail("NT@"+pos, fmt.Sprintf("calls a fold function value at %s whose effect type cannot be inferred from where it comes from (not covered by the getter table)", pos))
				s.dead = true
				return s, false, nil
			}
			nt, isNT = t, true
		}
	}
	if !isNT {
		return s, true, nil
	}
	// a folder run against a different context (embeddObjReFold runs the object folder against a private
	// context whose visitor is an ExpectObjVisitor): its events do not go to this stream directly; what
	// arrives here is the enclosing function's declared effect (ExpectObjVisitor strips one object level: R6).
	if len(cc.Args) > 0 && len(k.fn.Params) > 0 && !cc.IsInvoke() {
		own := false
		for _, o := range origins(cc.Args[0]) {
			if o == ssa.Value(k.fn.Params[0]) {
				own = true
			}
		}
		if !own && namedOf(cc.Args[0].Type()) != nil && core.TypeName(namedOf(cc.Args[0].Type())) == "foldContext" {
			nt = k.e.declared(k.fn)
		}
	}
	switch nt {
	case etV:
		n2, ok := consumeValue(top)
		if !ok {
			k.fail("NTV@"+pos, fmt.Sprintf("folds a complete value at %s where the stream grammar expects %s", pos, expectText(top)))
			s.dead = true
			return s, false, nil
		}
		setTop(n2)
		s = k.element(s, in)
	case etK:
		n2, ok := consumeKey(top)
		if !ok {
			k.fail("NTK@"+pos, "emits a key where none is expected at "+pos)
			s.dead = true
			return s, false, nil
		}
		setTop(n2)
	default:
		n2, ok := consumePairs(top, nt)
		if !ok {
			k.fail("NTP@"+pos, fmt.Sprintf("emits %s (key/value pairs) at %s where the stream grammar expects %s", nt, pos, expectText(top)))
			s.dead = true
			return s, false, nil
		}
		setTop(n2)
		if cf := k.innermostCounted(s); cf != nil {
			// pairs inside a counted object: only a counted folder over the same collection is exact
			okCnt := false
			if nt == etCP && len(cc.Args) >= 2 && sameCollection(cc.Args[len(cc.Args)-1], cf.root) {
				okCnt = true
			}
			if nt == etP {
				s = k.element(s, in)
				okCnt = true
			}
			if !okCnt {
				cf.pairNT = append(cf.pairNT, call)
			}
			if !okCnt && k.lenBad[cf.start] == "" {
				k.lenBad[cf.start] = fmt.Sprintf("the members are produced by a %s folder at %s, which emits a number of pairs that is not tied to the announced length", nt, pos)
			}
		}
	}
	return s, true, nil
}

func sameCollection(a, b ssa.Value) bool {
	if a == nil || b == nil {
		return false
	}
	if a == b {
		return true
	}
	for _, oa := range origins(a) {
		for _, ob := range origins(b) {
			if oa == ob {
				return true
			}
		}
	}
	return false
}

// lenRoot: v is len(x) or (reflect.Value).Len(x) (possibly via a phi-free copy).
func lenRoot(v ssa.Value) (root ssa.Value, lenVal ssa.Value) {
	c, ok := v.(*ssa.Call)
	if !ok {
		return nil, nil
	}
	if b, ok := c.Common().Value.(*ssa.Builtin); ok && b.Name() == "len" {
		return c.Common().Args[0], c
	}
	if sc := c.Common().StaticCallee(); sc != nil && funcPkgPath(sc) == "reflect" && core.FuncName(sc) == "Len" {
		return c.Common().Args[0], c
	}
	return nil, nil
}

func expectText(top byte) string {
	switch top {
	case 'v', 'q', 't', 'o':
		return "a value"
	case 'd':
		return "nothing more (the function's effect is complete)"
	case 'p', 'k':
		return "a key"
	case 's', 'u', 'O':
		return "a key or the end"
	case 'w', 'A':
		return "a value or the end of the array"
	}
	return "?"
}

func isFoldShaped(sig *types.Signature) bool {
	if sig.Params().Len() < 1 || sig.Results().Len() != 1 {
		return false
	}
	p0 := sig.Params().At(0).Type()
	if n := namedOf(p0); n != nil && core.TypeName(n) == "foldContext" {
		return true
	}
	// userFoldFn(unsafe.Pointer, ExtVisitor)
	if sig.Params().Len() == 2 {
		if n := namedOf(sig.Params().At(1).Type()); n != nil && strings.HasSuffix(core.TypeName(n), "Visitor") {
			return true
		}
	}
	return false
}

// isProducerFunc: a function whose body (transitively, one level) emits
// visitor events and is shaped like a folder or adapter method.
func isProducerFunc(p *core.Prog, f *ssa.Function) bool {
	if f.Blocks == nil {
		return false
	}
	pk := core.FuncPkg(f)
	if pk == nil {
		return false
	}
	switch pk.Name() {
	case "structform":
		if f.Signature.Recv() == nil {
			return false
		}
		n := namedOf(f.Signature.Recv().Type())
		return n != nil && strings.HasPrefix(core.TypeName(n), "ext")
	case "gotype":
		return isFoldShaped(f.Signature) && errResultIndex(f.Signature) >= 0
	}
	return false
}

func (k *r10client) Branch(s r10state, cond ssa.Value, outcome bool) (r10state, bool) {
	for {
		u, ok := cond.(*ssa.UnOp)
		if !ok || u.Op != token.NOT {
			break
		}
		cond, outcome = u.X, !outcome
	}
	id := k.num.id(cond)
	if s.bt.has(id) && !outcome || s.bf.has(id) && outcome {
		return s, false
	}
	if x, trueMeansNil, ok := nilTest(cond); ok && isErrorType(x.Type()) {
		isNil := outcome == trueMeansNil
		if isNil && s.nonnil.has(k.num.id(x)) {
			return s, false
		}
		if !isNil {
			s.nonnil = s.nonnil.with(k.num.id(x))
		}
	}
	if b, isB := cond.Type().Underlying().(*types.Basic); isB && b.Kind() == types.Bool {
		if outcome {
			s.bt = s.bt.with(id)
		} else {
			s.bf = s.bf.with(id)
		}
	}
	return s, true
}

func (k *r10client) Return(s r10state, ret *ssa.Return) {
	if s.dead {
		return
	}
	ei := errResultIndex(k.fn.Signature)
	if ei >= 0 {
		rv := ret.Results[ei]
		if definitelyNonNilError(rv) || s.nonnil.has(k.num.id(rv)) {
			return
		}
	}
	if !accepting(s.stack) {
		pos := k.p.Pos(token.Pos(instrPos(ret)))
		k.fail("END@"+s.stack, fmt.Sprintf("can return without error at %s while the stream it emitted is incomplete: %s is still expected%s", pos, expectText(s.stack[len(s.stack)-1]), openText(s.stack)))
	}
}

func openText(stack string) string {
	if len(stack) > 1 {
		return fmt.Sprintf(" (%d container(s) left open)", len(stack)-1)
	}
	return ""
}

// ---- TYPE-ANNOUNCE ----

var kindToBase = map[types.BasicKind][2]string{
	types.Bool:    {"BoolType", "OnBool"},
	types.String:  {"StringType", "OnString"},
	types.Int:     {"IntType", "OnInt"},
	types.Int8:    {"Int8Type", "OnInt8"},
	types.Int16:   {"Int16Type", "OnInt16"},
	types.Int32:   {"Int32Type", "OnInt32"},
	types.Int64:   {"Int64Type", "OnInt64"},
	types.Uint:    {"UintType", "OnUint"},
	types.Uint8:   {"Uint8Type", "OnUint8"},
	types.Uint16:  {"Uint16Type", "OnUint16"},
	types.Uint32:  {"Uint32Type", "OnUint32"},
	types.Uint64:  {"Uint64Type", "OnUint64"},
	types.Float32: {"Float32Type", "OnFloat32"},
	types.Float64: {"Float64Type", "OnFloat64"},
}

func typeAnnounce(p *core.Prog, r *core.Result, f *ssa.Function) {
	if len(f.Params) != 2 {
		return
	}
	var elem types.Type
	switch t := f.Params[1].Type().Underlying().(type) {
	case *types.Slice:
		elem = t.Elem()
	case *types.Map:
		elem = t.Elem()
	default:
		return
	}
	eb, ok := elem.Underlying().(*types.Basic)
	if !ok {
		return
	}
	want, ok := kindToBase[eb.Kind()]
	if !ok {
		return
	}
	if core.FuncName(f) == "OnBytes" {
		want = [2]string{"ByteType", "OnByte"}
	}
	root := p.SPkgs["structform"]
	fkey := core.FuncKey(f)
	var announced, elemEvent string
	constName := func(v ssa.Value) string {
		cst, ok := v.(*ssa.Const)
		if !ok || cst.Value == nil {
			return ""
		}
		for name, m := range root.Members {
			if nc, ok := m.(*ssa.NamedConst); ok && strings.HasSuffix(name, "Type") && nc.Value.Value.ExactString() == cst.Value.ExactString() && types.Identical(nc.Type(), cst.Type()) {
				return name
			}
		}
		return ""
	}
	var scan func(g *ssa.Function, bind map[*ssa.Parameter]ssa.Value, depth int)
	scan = func(g *ssa.Function, bind map[*ssa.Parameter]ssa.Value, depth int) {
		for _, b := range g.Blocks {
			for _, in := range b.Instrs {
				c, ok := in.(*ssa.Call)
				if !ok {
					continue
				}
				if c.Common().IsInvoke() {
					switch n := c.Common().Method.Name(); {
					case n == "OnArrayStart" || n == "OnObjectStart":
						a := c.Common().Args[1]
						if prm, ok := a.(*ssa.Parameter); ok && bind[prm] != nil {
							a = bind[prm]
						}
						if name := constName(a); name != "" {
							announced = name
						}
					case eventKind(n) == "V":
						elemEvent = n
					}
					continue
				}
				// the expansion may be delegated to a shared helper of the adapter that is told the element type and
				// how to emit one element (a function literal)
				sc := c.Common().StaticCallee()
				if sc == nil || depth >= 1 || sc.Blocks == nil || sc == g || !isProducerFunc(p, sc) {
					continue
				}
				nb := map[*ssa.Parameter]ssa.Value{}
				for i, a := range c.Common().Args {
					if i >= len(sc.Params) {
						break
					}
					nb[sc.Params[i]] = a
					if mc, ok := a.(*ssa.MakeClosure); ok {
						if lit, ok := mc.Fn.(*ssa.Function); ok && lit.Blocks != nil {
							scan(lit, nil, depth+1)
						}
					}
				}
				scan(sc, nb, depth+1)
			}
		}
	}
	scan(f, nil, 0)
	pos := p.Pos(f.Pos())
	if announced == want[0] && elemEvent == want[1] {
		r.Ok(".TYPE-ANNOUNCE", pos, fmt.Sprintf("%s: []%s announced as %s, elements emitted with %s", fkey, eb.Name(), announced, elemEvent))
	} else {
		r.Fail(".TYPE-ANNOUNCE", fkey, pos, fmt.Sprintf("%s expands a container of %s but announces %s and emits elements with %s (expected %s / %s): consumers that trust the announced element type build the wrong Go type or truncate values", fkey, eb.Name(), announced, elemEvent, want[0], want[1]), "")
	}
}

// R10 runs the rule.
func R10(p *core.Prog) *core.Result {
	r := core.NewResult("R10", "every library producer function (extended-event adapters, the fold side of gotype) emits a word of the Visitor grammar for its effect type on every nil-error path; announced lengths are exact or -1; adapters announce the element type they emit")
	env := &r10env{p: p, memo: map[ssa.Value]etype{}, busy: map[ssa.Value]bool{}}
	checked := 0
	var funcs []*ssa.Function
	for _, f := range p.ModFuncs() {
		if !isProducerFunc(p, f) {
			continue
		}
		// must emit something: contains a visitor invoke or a fold-shaped dynamic call
		emits := false
		for _, b := range f.Blocks {
			for _, in := range b.Instrs {
				c, ok := in.(*ssa.Call)
				if !ok {
					continue
				}
				cc := c.Common()
				if cc.IsInvoke() && cc.Method.Pkg() != nil && cc.Method.Pkg().Path() == core.ModPath && eventKind(cc.Method.Name()) != "" {
					emits = true
				}
				if cc.IsInvoke() && cc.Method.Name() == "Fold" {
					emits = true
				}
				if sc := cc.StaticCallee(); sc == nil && !cc.IsInvoke() {
					if sig, ok := cc.Value.Type().Underlying().(*types.Signature); ok && isFoldShaped(sig) {
						emits = true
					}
				} else if sc != nil && p.InModule(sc) && isProducerFunc(p, sc) {
					emits = true
				}
			}
		}
		if emits {
			funcs = append(funcs, f)
		}
	}
	for _, f := range funcs {
		fkey := core.FuncKey(f)
		decl := env.declared(f)
		if strings.HasPrefix(string(decl), "=") {
			// polymorphic: check under every type it is instantiated with (V and P*)
			inst := []etype{etV, etPS}
			if ts, ok := r10Instances[fkey]; ok {
				inst = ts
			}
			for _, t := range inst {
				checked++
				runR10(p, r, env, f, t, fkey+"<"+string(t)+">")
			}
			continue
		}
		checked++
		runR10(p, r, env, f, decl, fkey)
		if core.FuncPkg(f).Name() == "structform" && (strings.HasSuffix(core.FuncName(f), "Array") || strings.HasSuffix(core.FuncName(f), "Object") || core.FuncName(f) == "OnBytes") {
			typeAnnounce(p, r, f)
		}
	}
	// combinator arguments
	for _, g := range p.ModFuncs() {
		if core.FuncPkg(g) == nil || core.FuncPkg(g).Name() != "gotype" {
			continue
		}
		for _, b := range g.Blocks {
			for _, in := range b.Instrs {
				c, ok := in.(*ssa.Call)
				if !ok {
					continue
				}
				sc := c.Common().StaticCallee()
				if sc == nil {
					continue
				}
				for ai, a := range c.Common().Args {
					want, ok := r10Param[fmt.Sprintf("%s|%d", core.FuncKey(sc), ai)]
					if !ok {
						continue
					}
					if !isFuncOrPtrToFunc(a.Type()) {
						continue // []reFoldFn of field folders (or a struct holding it): elements come from buildFieldFold (checked by its getter type)
					}
					pos := p.Pos(c.Pos())
					key := fmt.Sprintf("%s|%s|arg%d", core.FuncKey(g), core.FuncKey(sc), ai)
					got, ok := env.typeOf(a)
					if !ok {
						r.Fail(".GETTER", key, pos, fmt.Sprintf("%s passes a folder to %s whose effect type cannot be inferred (expected %s)", core.FuncKey(g), core.FuncKey(sc), want), "")
						continue
					}
					if subEff(got, want) {
						r.Ok(".GETTER", pos, fmt.Sprintf("%s: %s receives a %s folder (expects %s)", core.FuncKey(g), core.FuncKey(sc), got, want))
					} else {
						r.Fail(".GETTER", key, pos, fmt.Sprintf("%s passes a %s folder to %s, which expects a %s folder: a folder that opens and closes its own object is used where bare key/value pairs are expected (or vice versa), producing a key-less nested object or pairs outside an object", core.FuncKey(g), got, core.FuncKey(sc), want), "")
					}
				}
			}
		}
	}
	for _, g := range p.ModFuncs() {
		for _, b := range g.Blocks {
			for _, in := range b.Instrs {
				c, ok := in.(*ssa.Call)
				if !ok {
					continue
				}
				sc := c.Common().StaticCallee()
				if sc == nil {
					continue
				}
				allowed, ok := r10Instances[core.FuncKey(sc)+"$1"]
				if !ok || len(c.Common().Args) < 2 {
					continue
				}
				pos := p.Pos(c.Pos())
				key := fmt.Sprintf("%s|%s|instance", core.FuncKey(g), core.FuncKey(sc))
				got, ok := env.typeOf(c.Common().Args[1])
				okInst := false
				for _, t := range allowed {
					if ok && subEff(got, t) {
						okInst = true
					}
				}
				if okInst {
					r.Ok(".GETTER", pos, fmt.Sprintf("%s: %s wraps a %s folder", core.FuncKey(g), core.FuncKey(sc), got))
				} else {
					r.Fail(".GETTER", key, pos, fmt.Sprintf("%s wraps a %s folder with %s, which is only correct for %v folders (a nil pointer is reported as a null VALUE by makePointerFold and as NO members by makeInlinePointerFold)", core.FuncKey(g), got, core.FuncKey(sc), allowed), "")
				}
			}
		}
	}
	r.Floor("producer_functions", checked, 90)
	return r
}

func runR10(p *core.Prog, r *core.Result, env *r10env, f *ssa.Function, decl etype, fkey string) {
	k := &r10client{e: env, p: p, fn: f, num: newNumbering(), counted: map[ssa.Instruction]*countedFrame{}, lenBad: map[ssa.Instruction]string{}, lenOK: map[ssa.Instruction]bool{}}
	if strings.Contains(fkey, "<") {
		// polymorphic instantiation: the captured folder has the instantiation type
		env.memo = map[ssa.Value]etype{}
		for _, fv := range f.FreeVars {
			if isFuncOrPtrToFunc(fv.Type()) {
				env.memo[fv] = decl
			}
		}
	}
	init := r10state{stack: string(initialFrame(decl))}
	_, capped := WalkPaths[r10state](k, f.Blocks[0], 0, init, 300000, nil)
	if strings.Contains(fkey, "<") {
		env.memo = map[ssa.Value]etype{}
	}
	pos := p.Pos(f.Pos())
	if capped {
		r.Undecided(".GRAMMAR", fkey, "state cap hit in "+fkey)
		return
	}
	if len(k.bad) == 0 {
		r.Ok(".GRAMMAR", pos, fmt.Sprintf("%s : %s - every nil-error path emits a word of the grammar", fkey, decl))
	} else {
		keys := sortedKeys(k.bad)
		r.Fail(".GRAMMAR", fkey, pos, fmt.Sprintf("%s (effect type %s) %s", fkey, decl, k.bad[keys[0]]), strings.Join(keys, "; "))
	}
	var starts []ssa.Instruction
	for st := range k.counted {
		starts = append(starts, st)
	}
	sort.Slice(starts, func(i, j int) bool { return instrPos(starts[i]) < instrPos(starts[j]) })
	for i, st := range starts {
		spos := p.Pos(token.Pos(instrPos(st)))
		if _, bad := k.lenBad[st]; bad {
			if why := guardedCount(p, env, f, k.counted[st]); why == "" {
				delete(k.lenBad, st)
				r.Ok(".LEN-EXACT", spos, fkey+": announces a captured count that is len(fields) only under the 'exact' flag, which is true only if every field folder reports exactly one member (premises a-e checked)")
				continue
			} else if why != "n/a" {
				k.lenBad[st] += "; the guarded-count argument does not hold either: " + why
			}
		}
		if why, bad := k.lenBad[st]; bad {
			r.Fail(".LEN-EXACT", fmt.Sprintf("%s|start#%d", fkey, i+1), spos, fmt.Sprintf("%s announces a container length at %s but %s: length-prefixed encodings (CBOR, UBJSON) are corrupted when the count is not exact", fkey, spos, why), "")
		} else {
			r.Ok(".LEN-EXACT", spos, fkey+": announced length is len(x) and exactly one element per entry of x follows")
		}
	}
}

func isFuncOrPtrToFunc(t types.Type) bool {
	if _, ok := t.Underlying().(*types.Signature); ok {
		return true
	}
	if pt, ok := t.Underlying().(*types.Pointer); ok {
		_, ok := pt.Elem().Underlying().(*types.Signature)
		return ok
	}
	return false
}

package rules

import (
	"fmt"
	"go/token"
	"go/types"

	"golang.org/x/tools/go/ssa"

	"sfcheck/internal/core"
)

// R20 OMIT-FIRST: a field tagged omit ("-" or the omit option) is never
// reported, whatever else its tag says. In every function that reads a
// field's tag options (parseTags), nothing is built for the field - no call
// of another gotype function, no registration in a map - before the omit
// option has been tested and found false on that path. The fold side and the
// unfold side are both held to it, so they cannot disagree.

type ofState struct{ after, omitFalse bool }
type ofClient struct {
	p     *core.Prog
	fn    *ssa.Function
	tags  *ssa.Function
	bad   string
	tests int
}

func (k *ofClient) Key(s ofState) string { return fmt.Sprintf("%v%v", s.after, s.omitFalse) }
func (k *ofClient) Phis(s ofState, blk *ssa.BasicBlock, pred int) ofState {
	if isBackEdge(blk, pred) {
		return ofState{}
	}
	return s
}
func (k *ofClient) Return(ofState, *ssa.Return) {}
func (k *ofClient) Instr(s ofState, in ssa.Instruction) (ofState, bool, []ofState) {
	switch x := in.(type) {
	case *ssa.Call:
		sc := x.Common().StaticCallee()
		if sc == k.tags {
			return ofState{after: true}, true, nil
		}
		if s.after && !s.omitFalse && sc != nil && core.FuncPkg(sc) == core.FuncPkg(k.fn) {
			k.bad = "calls " + core.FuncKey(sc) + " at " + k.p.Pos(x.Pos())
		}
	case *ssa.MapUpdate:
		if s.after && !s.omitFalse {
			k.bad = "registers the field at " + k.p.Pos(x.Pos())
		}
	}
	return s, true, nil
}
func (k *ofClient) Branch(s ofState, cond ssa.Value, outcome bool) (ofState, bool) {
	isOmit := false
	switch f := cond.(type) {
	case *ssa.Field:
		if st, ok := f.X.Type().Underlying().(*types.Struct); ok && st.Field(f.Field).Name() == "omit" {
			isOmit = true
		}
	case *ssa.UnOp:
		if fa, ok := f.X.(*ssa.FieldAddr); ok && f.Op == token.MUL {
			if st, ok := fa.X.Type().Underlying().(*types.Pointer).Elem().Underlying().(*types.Struct); ok && st.Field(fa.Field).Name() == "omit" {
				isOmit = true
			}
		}
	}
	if isOmit {
		k.tests++
		if !outcome {
			s.omitFalse = true
		}
	}
	return s, true
}

func omitFirst(p *core.Prog, r *core.Result) {
	tags := p.LookupFunc("gotype", "parseTags")
	if tags == nil {
		r.Undecided(".OMIT-FIRST", "gotype.parseTags", "tag parser not found")
		return
	}
	n := 0
	for _, f := range p.ModFuncs() {
		pk := core.FuncPkg(f)
		if pk == nil || pk.Name() != "gotype" || f == tags {
			continue
		}
		calls := false
		for _, b := range f.Blocks {
			for _, in := range b.Instrs {
				if c, ok := in.(*ssa.Call); ok && c.Common().StaticCallee() == tags {
					calls = true
				}
			}
		}
		if !calls {
			continue
		}
		n++
		k := &ofClient{p: p, fn: f, tags: tags}
		_, capped := WalkPaths[ofState](k, f.Blocks[0], 0, ofState{}, 200000, nil)
		fkey := core.FuncKey(f)
		switch {
		case capped:
			r.Undecided(".OMIT-FIRST", fkey, "state cap hit")
		case k.bad != "":
			r.Fail(".OMIT-FIRST", fkey+"|omit", p.Pos(f.Pos()), fkey+" reads a field's tag options and "+k.bad+" on a path on which the omit option has not been tested: a field tagged omit together with another option (inline, a name) is reported after all", "")
		case k.tests == 0:
			r.Fail(".OMIT-FIRST", fkey+"|notest", p.Pos(f.Pos()), fkey+" reads a field's tag options but never tests the omit option", "")
		default:
			r.Ok(".OMIT-FIRST", p.Pos(f.Pos()), fkey+": nothing is built for a field before its omit option was found false")
		}
	}
	r.Floor("tag_option_readers", n, 2)
}

package rules

import (
	"fmt"
	"go/token"
	"go/types"

	"golang.org/x/tools/go/ssa"

	"sfcheck/internal/core"
)

// R20 OMIT-FIRST: a field tagged omit ("-" or the omit option) is never
// reported, whatever else its tag says. In every function that reads a
// field's tag options (parseTags), nothing is built for the field - no call
// of another gotype function, no registration in a map - before the omit
// option has been tested and found false on that path. The fold side and the
// unfold side are both held to it, so they cannot disagree.

type ofState struct{ after, omitFalse bool }
type ofClient struct {
	p     *core.Prog
	fn    *ssa.Function
	tags  *ssa.Function
	bad   string
	tests int
}

func (k *ofClient) Key(s ofState) string { return fmt.Sprintf("%v%v", s.after, s.omitFalse) }
func (k *ofClient) Phis(s ofState, blk *ssa.BasicBlock, pred int) ofState {
	if isBackEdge(blk, pred) {
		return ofState{}
	}
	return s
}
func (k *ofClient) Return(ofState, *ssa.Return) {}
func (k *ofClient) Instr(s ofState, in ssa.Instruction) (ofState, bool, []ofState) {
	switch x := in.(type) {
	case *ssa.Call:
		sc := x.Common().StaticCallee()
		if sc == k.tags {
			return ofState{after: true}, true, nil
		}
		if s.after && !s.omitFalse && sc != nil && core.FuncPkg(sc) == core.FuncPkg(k.fn) {
			k.bad = "calls " + core.FuncKey(sc) + " at " + k.p.Pos(x.Pos())
		}
	case *ssa.MapUpdate:
		if s.after && !s.omitFalse {
			k.bad = "registers the field at " + k.p.Pos(x.Pos())
		}
	}
	return s, true, nil
}
func (k *ofClient) Branch(s ofState, cond ssa.Value, outcome bool) (ofState, bool) {
	isOmit := false
	switch f := cond.(type) {
	case *ssa.Field:
		if st, ok := f.X.Type().Underlying().(*types.Struct); ok && core.FieldName(st, f.Field) == "omit" {
			isOmit = true
		}
	case *ssa.UnOp:
		if fa, ok := f.X.(*ssa.FieldAddr); ok && f.Op == token.MUL {
			if st, ok := fa.X.Type().Underlying().(*types.Pointer).Elem().Underlying().(*types.Struct); ok && core.FieldName(st, fa.Field) == "omit" {
				isOmit = true
			}
		}
	}
	if isOmit {
		k.tests++
		if !outcome {
			s.omitFalse = true
		}
	}
	return s, true
}

func omitFirst(p *core.Prog, r *core.Result) {
	tags := p.LookupFunc("gotype", "parseTags")
	if tags == nil {
		r.Undecided(".OMIT-FIRST", "gotype.parseTags", "tag parser not found")
		return
	}
	n := 0
	for _, f := range p.ModFuncs() {
		pk := core.FuncPkg(f)
		if pk == nil || pk.Name() != "gotype" || f == tags {
			continue
		}
		calls := false
		for _, b := range f.Blocks {
			for _, in := range b.Instrs {
				if c, ok := in.(*ssa.Call); ok && c.Common().StaticCallee() == tags {
					calls = true
				}
			}
		}
		if !calls {
			continue
		}
		n++
		k := &ofClient{p: p, fn: f, tags: tags}
		_, capped := WalkPaths[ofState](k, f.Blocks[0], 0, ofState{}, 200000, nil)
		fkey := core.FuncKey(f)
		switch {
		case capped:
			r.Undecided(".OMIT-FIRST", fkey, "state cap hit")
		case k.bad != "":
			r.Fail(".OMIT-FIRST", fkey+"|omit", p.Pos(f.Pos()), fkey+" reads a field's tag options and "+k.bad+" on a path on which the omit option has not been tested: a field tagged omit together with another option (inline, a name) is reported after all", "")
		case k.tests == 0:
			r.Fail(".OMIT-FIRST", fkey+"|notest", p.Pos(f.Pos()), fkey+" reads a field's tag options but never tests the omit option", "")
		default:
			r.Ok(".OMIT-FIRST", p.Pos(f.Pos()), fkey+": nothing is built for a field before its omit option was found false")
		}
	}
	r.Floor("tag_option_readers", n, 2)
}

// R20 RESOLVER-IDENTITY: the omitempty resolvers (closures of type
// func(reflect.Value) (reflect.Value, bool) built in makeResolveNonEmptyValue
// / makeResolvePointers) decide whether a field is empty and hand back the
// value to fold. The field's folder has been compiled for the field's type
// (pointers stripped), so what a resolver hands back is its argument or a
// dereference of it - never something it took the address of or allocated.

func resolverResult(f *ssa.Function, memo map[*ssa.Function]string, depth int) string {
	if v, ok := memo[f]; ok {
		return v
	}
	memo[f] = ""
	if depth > 4 || f.Blocks == nil || len(f.Params) == 0 {
		return ""
	}
	var bad string
	var derive func(v ssa.Value, d int) string
	derive = func(v ssa.Value, d int) string {
		if d > 8 {
			return ""
		}
		switch x := v.(type) {
		case *ssa.Parameter, *ssa.FreeVar, *ssa.Const:
			return ""
		case *ssa.Phi:
			for _, e := range x.Edges {
				if w := derive(e, d+1); w != "" {
					return w
				}
			}
		case *ssa.Extract:
			return derive(x.Tuple, d+1)
		case *ssa.UnOp:
			return derive(x.X, d+1)
		case *ssa.Call:
			sc := x.Common().StaticCallee()
			if sc != nil && funcPkgPath(sc) == "reflect" {
				switch core.FuncName(sc) {
				case "Addr":
					return "takes the address of its argument (reflect.Value.Addr)"
				case "New":
					return "allocates a new value (reflect.New)"
				case "Elem", "Field", "Index":
					return derive(x.Common().Args[0], d+1)
				}
				return ""
			}
			// another resolver: its result as a function of its argument
			var callee *ssa.Function
			if sc != nil {
				callee = sc
			} else if mc, ok := x.Common().Value.(*ssa.MakeClosure); ok {
				callee, _ = mc.Fn.(*ssa.Function)
			} else {
				for _, o := range origins(x.Common().Value) {
					if mc, ok := o.(*ssa.MakeClosure); ok {
						callee, _ = mc.Fn.(*ssa.Function)
					}
				}
			}
			if callee != nil && callee != f {
				if w := resolverResult(callee, memo, depth+1); w != "" {
					return w
				}
			}
			for _, a := range x.Common().Args {
				if w := derive(a, d+1); w != "" {
					return w
				}
			}
		}
		return ""
	}
	for _, b := range f.Blocks {
		for _, in := range b.Instrs {
			if ret, ok := in.(*ssa.Return); ok && len(ret.Results) >= 1 {
				if w := derive(ret.Results[0], 0); w != "" {
					bad = w
				}
			}
		}
	}
	memo[f] = bad
	return bad
}

func resolverIdentity(p *core.Prog, r *core.Result) {
	n := 0
	memo := map[*ssa.Function]string{}
	for _, root := range []string{"makeResolveNonEmptyValue", "makeResolvePointers"} {
		rf := p.LookupFunc("gotype", root)
		if rf == nil {
			r.Undecided(".RESOLVER-IDENTITY", "gotype."+root, "resolver builder not found")
			continue
		}
		// the resolvers: closures of the builder, and package-level functions it refers to as values
		cands := append([]*ssa.Function{}, rf.AnonFuncs...)
		seenC := map[*ssa.Function]bool{}
		for _, b := range rf.Blocks {
			for _, in := range b.Instrs {
				for _, op := range in.Operands(nil) {
					if fn, ok := (*op).(*ssa.Function); ok && fn.Parent() == nil && core.FuncPkg(fn) == core.FuncPkg(rf) {
						if c, isCall := in.(ssa.CallInstruction); isCall && c.Common().Value == *op {
							continue
						}
						if !seenC[fn] {
							seenC[fn] = true
							cands = append(cands, fn)
						}
					}
				}
			}
		}
		for _, c := range cands {
			sig := c.Signature
			if sig.Params().Len() != 1 || sig.Results().Len() != 2 || sig.Params().At(0).Type().String() != "reflect.Value" || sig.Results().At(0).Type().String() != "reflect.Value" {
				continue
			}
			n++
			key := core.FuncKey(c)
			if w := resolverResult(c, memo, 0); w != "" {
				r.Fail(".RESOLVER-IDENTITY", key+"|result", p.Pos(c.Pos()), key+" hands back a value for which it "+w+": the field's folder was compiled for the field's own type and receives a pointer instead (reflect panics, e.g. 'Field on ptr Value', as soon as the field is not empty)", "")
			} else {
				r.Ok(".RESOLVER-IDENTITY", p.Pos(c.Pos()), key+": hands back its argument or a dereference of it")
			}
		}
	}
	r.Floor("omitempty_resolvers", n, 4)
}

// R20 NIL-FOLDER: a Folder implementation reached through a pointer may have
// a value receiver; calling it through a nil pointer dereferences nil. Every
// call of Folder.Fold on a value that came out of an interface{} or a
// reflect.Value is behind a nil-pointer test (reflect.Value.IsNil) in the
// same function.
func nilFolder(p *core.Prog, r *core.Result) {
	n := 0
	for _, f := range p.ModFuncs() {
		pk := core.FuncPkg(f)
		if pk == nil || pk.Name() != "gotype" {
			continue
		}
		for _, b := range f.Blocks {
			for _, in := range b.Instrs {
				c, ok := in.(*ssa.Call)
				if !ok || !c.Common().IsInvoke() || c.Common().Method.Name() != "Fold" || c.Common().Method.Pkg() == nil || c.Common().Method.Pkg().Path() != core.ModPath+"/gotype" {
					continue
				}
				// the receiver comes from a type assertion (dynamic value), not from a typed parameter
				fromAssert := false
				switch x := c.Common().Value.(type) {
				case *ssa.TypeAssert:
					fromAssert = true
				case *ssa.Extract:
					_, fromAssert = x.Tuple.(*ssa.TypeAssert)
				}
				if !fromAssert {
					continue
				}
				n++
				guarded := false
				for _, b2 := range f.Blocks {
					for _, i2 := range b2.Instrs {
						c2, ok := i2.(*ssa.Call)
						if !ok {
							continue
						}
						sc := c2.Common().StaticCallee()
						if sc == nil || core.FuncName(sc) != "IsNil" || funcPkgPath(sc) != "reflect" {
							continue
						}
						// the nil outcome must not reach the call
						if refs := c2.Referrers(); refs != nil {
							for _, rf := range *refs {
								if ifi, ok := rf.(*ssa.If); ok {
									nilSucc := ifi.Block().Succs[0]
									if !blockReaches(nilSucc, b) && nilSucc != b {
										guarded = true
									}
								}
								if phi, ok := rf.(*ssa.Phi); ok {
									// short-circuit (Kind()==Ptr && IsNil()): follow the phi to its If
									if prefs := phi.Referrers(); prefs != nil {
										for _, pr := range *prefs {
											if ifi, ok := pr.(*ssa.If); ok {
												nilSucc := ifi.Block().Succs[0]
												if !blockReaches(nilSucc, b) && nilSucc != b {
													guarded = true
												}
											}
										}
									}
								}
							}
						}
					}
				}
				pos := p.Pos(c.Pos())
				fkey := core.FuncKey(f)
				if guarded {
					r.Ok(".NIL-FOLDER", pos, fkey+": Folder.Fold on a dynamic value is behind a nil-pointer test")
				} else {
					r.Fail(".NIL-FOLDER", fkey+"|Fold", pos, fkey+" calls Folder.Fold on a value taken out of an interface{} / reflect.Value without a nil-pointer test: for a nil *T whose T implements Fold with a value receiver the call dereferences nil (runtime panic) instead of reporting null", "")
				}
			}
		}
	}
	r.Floor("dynamic_folder_calls", n, 2)
}

func blockReaches(from, to *ssa.BasicBlock) bool {
	seen := map[*ssa.BasicBlock]bool{}
	work := []*ssa.BasicBlock{from}
	for len(work) > 0 {
		x := work[len(work)-1]
		work = work[:len(work)-1]
		if seen[x] {
			continue
		}
		seen[x] = true
		if x == to {
			return true
		}
		work = append(work, x.Succs...)
	}
	return false
}

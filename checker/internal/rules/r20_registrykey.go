package rules

import (
	"fmt"
	"sort"
	"strings"

	"golang.org/x/tools/go/ssa"

	"sfcheck/internal/core"
)

// R20 KEY-DETERMINES. The compiled folders/unfolders are cached in registries
// keyed by type. What is stored under a key must be determined by that key,
// otherwise the first user of the key decides what every later user gets
// (output that depends on the history of the iterator). One structural
// necessary condition is decided here: when the key is a loop-carried value
// (the element type reached by stripping pointers in a loop), the stored
// value must not depend on ANOTHER value carried by the same loop (the number
// of pointers stripped): the key at the loop's exit does not determine it.

func backwardSlice(v ssa.Value) map[ssa.Value]bool {
	seen := map[ssa.Value]bool{}
	var ops []*ssa.Value
	var walk func(v ssa.Value)
	walk = func(v ssa.Value) {
		if v == nil || seen[v] {
			return
		}
		seen[v] = true
		switch x := v.(type) {
		case *ssa.Parameter, *ssa.Const, *ssa.Global, *ssa.FreeVar, *ssa.Function, *ssa.Builtin:
			return
		case *ssa.Alloc:
			// what was stored into the cell
			if refs := x.Referrers(); refs != nil {
				for _, rf := range *refs {
					if st, ok := rf.(*ssa.Store); ok && st.Addr == ssa.Value(x) {
						walk(st.Val)
					}
				}
			}
			return
		}
		if in, ok := v.(ssa.Instruction); ok {
			ops = in.Operands(nil)
			for _, o := range ops {
				if o != nil && *o != nil {
					walk(*o)
				}
			}
		}
	}
	walk(v)
	return seen
}

func loopHeaderPhis(slice map[ssa.Value]bool) map[*ssa.BasicBlock][]*ssa.Phi {
	out := map[*ssa.BasicBlock][]*ssa.Phi{}
	for v := range slice {
		phi, ok := v.(*ssa.Phi)
		if !ok {
			continue
		}
		blk := phi.Block()
		hdr := false
		for pi := range blk.Preds {
			if isBackEdge(blk, pi) {
				hdr = true
			}
		}
		if hdr {
			out[blk] = append(out[blk], phi)
		}
	}
	return out
}

func registryKeyDetermines(p *core.Prog, r *core.Result) {
	n := 0
	for _, f := range p.ModFuncs() {
		pk := core.FuncPkg(f)
		if pk == nil || pk.Name() != "gotype" {
			continue
		}
		ord := 0
		for _, b := range f.Blocks {
			for _, in := range b.Instrs {
				c, ok := in.(*ssa.Call)
				if !ok {
					continue
				}
				sc := c.Common().StaticCallee()
				if sc == nil || sc.Signature.Recv() == nil || len(c.Common().Args) != 3 {
					continue
				}
				rn := namedOf(sc.Signature.Recv().Type())
				if rn == nil || !strings.HasSuffix(core.TypeName(rn), "Registry") || !strings.HasPrefix(core.FuncName(sc), "set") {
					continue
				}
				n++
				ord++
				key, val := c.Common().Args[1], c.Common().Args[2]
				ks, vs := backwardSlice(key), backwardSlice(val)
				kh, vh := loopHeaderPhis(ks), loopHeaderPhis(vs)
				var extra []string
				for blk, kphis := range kh {
					if len(kphis) == 0 {
						continue
					}
					for _, vp := range vh[blk] {
						if !ks[vp] {
							name := vp.Comment
							if name == "" {
								name = vp.Name()
							}
							extra = append(extra, name)
						}
					}
				}
				// the same through a helper with several results (`n, base := baseType(t)`): the key is one result
				// of a call and the value depends on another result of the same call; judged on the helper's returns
				for v := range vs {
					ev, ok := v.(*ssa.Extract)
					if !ok || ks[ev] {
						continue
					}
					for kv := range ks {
						ek, ok := kv.(*ssa.Extract)
						if !ok || ek.Tuple != ev.Tuple || ek.Index == ev.Index {
							continue
						}
						call, ok := ek.Tuple.(*ssa.Call)
						if !ok || call.Common().StaticCallee() == nil || call.Common().StaticCallee().Blocks == nil {
							continue
						}
						callee := call.Common().StaticCallee()
						for _, cb := range callee.Blocks {
							ret, ok := cb.Instrs[len(cb.Instrs)-1].(*ssa.Return)
							if !ok || len(ret.Results) <= ek.Index || len(ret.Results) <= ev.Index {
								continue
							}
							rks, rvs := backwardSlice(ret.Results[ek.Index]), backwardSlice(ret.Results[ev.Index])
							rkh, rvh := loopHeaderPhis(rks), loopHeaderPhis(rvs)
							for blk, kphis := range rkh {
								if len(kphis) == 0 {
									continue
								}
								for _, vp := range rvh[blk] {
									if !rks[vp] {
										extra = append(extra, fmt.Sprintf("result #%d of %s", ev.Index, core.FuncName(callee)))
									}
								}
							}
						}
					}
				}
				sort.Strings(extra)
				extra = uniqStrings(extra)
				fkey := core.FuncKey(f)
				pos := p.Pos(c.Pos())
				if len(extra) == 0 {
					r.Ok(".KEY-DETERMINES", pos, fmt.Sprintf("%s: what %s stores is not built from a loop-carried value the key leaves undetermined", fkey, core.FuncName(sc)))
				} else {
					r.Fail(".KEY-DETERMINES", fmt.Sprintf("%s|%s#%d", fkey, core.FuncName(sc), ord), pos, fmt.Sprintf("%s registers under a key that is itself carried by a loop (the type reached by stripping pointers) a value built from another value carried by the same loop (%s): the key at the loop's exit does not determine it, so the entry made for the first field is reused for a field of a different pointer depth - what an iterator emits (or whether it panics) depends on the types it has seen before", fkey, strings.Join(extra, ", ")), "")
				}
			}
		}
	}
	r.Floor("registry_setter_sites", n, 5)
}

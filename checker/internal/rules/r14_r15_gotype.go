package rules

import (
	"fmt"
	"go/ast"
	"go/token"
	"go/types"
	"reflect"
	"sort"
	"strings"

	"golang.org/x/tools/go/ssa"

	"sfcheck/internal/core"
)

// ---------------------------------------------------------------------
// R14a MAP-KEY: every switch arm that selects a folder / unfolder for a
// reflect.Map type establishes Key().Kind() == reflect.String first (in the
// arm itself or in the function it delegates to).
// ---------------------------------------------------------------------

// containsKeyKindCheck: n contains `<base>.Key().Kind() ==/!= reflect.String`
// where base is one of the given identifiers' objects (nil: any base).
func containsKeyKindCheck(info *types.Info, n ast.Node, bases map[types.Object]bool) bool {
	found := false
	ast.Inspect(n, func(x ast.Node) bool {
		be, ok := x.(*ast.BinaryExpr)
		if !ok || (be.Op != token.EQL && be.Op != token.NEQ) {
			return true
		}
		isKeyKind := func(e ast.Expr) bool {
			c1, ok := e.(*ast.CallExpr)
			if !ok {
				return false
			}
			s1, ok := c1.Fun.(*ast.SelectorExpr)
			if !ok || s1.Sel.Name != "Kind" {
				return false
			}
			c2, ok := s1.X.(*ast.CallExpr)
			if !ok {
				return false
			}
			s2, ok := c2.Fun.(*ast.SelectorExpr)
			if !ok || s2.Sel.Name != "Key" {
				return false
			}
			if bases == nil {
				return true
			}
			id, ok := s2.X.(*ast.Ident)
			return ok && bases[info.Uses[id]]
		}
		isString := func(e ast.Expr) bool {
			tv, ok := info.Types[e]
			if !ok || tv.Value == nil {
				return false
			}
			return tv.Value.ExactString() == "24" && strings.HasSuffix(tv.Type.String(), "reflect.Kind")
		}
		if isKeyKind(be.X) && isString(be.Y) || isKeyKind(be.Y) && isString(be.X) {
			found = true
		}
		return true
	})
	return found
}

// paramObjs returns the parameter objects of a function declaration.
func paramObjs(info *types.Info, fd *ast.FuncDecl) map[types.Object]bool {
	out := map[types.Object]bool{}
	if fd.Type.Params == nil {
		return out
	}
	for _, f := range fd.Type.Params.List {
		for _, n := range f.Names {
			out[info.Defs[n]] = true
		}
	}
	return out
}

// callsCheckingWith: n contains a call of a function in `checks` that passes
// one of the identifiers in bases as an argument.
func callsCheckingWith(info *types.Info, n ast.Node, checks map[types.Object]bool, bases map[types.Object]bool) bool {
	found := false
	ast.Inspect(n, func(x ast.Node) bool {
		ce, ok := x.(*ast.CallExpr)
		if !ok {
			return true
		}
		var id *ast.Ident
		switch f := ce.Fun.(type) {
		case *ast.Ident:
			id = f
		case *ast.SelectorExpr:
			id = f.Sel
		}
		if id == nil || !checks[info.Uses[id]] {
			return true
		}
		for _, a := range ce.Args {
			if ai, ok := a.(*ast.Ident); ok && bases[info.Uses[ai]] {
				found = true
			}
		}
		return true
	})
	return found
}

func isSelectorResult(t types.Type) bool {
	n := namedOf(t)
	if n == nil || n.Obj().Pkg() == nil || !strings.HasSuffix(n.Obj().Pkg().Path(), "/gotype") {
		return false
	}
	switch core.TypeName(n) {
	case "reFoldFn", "foldFn", "reflUnfolder", "ptrUnfolder", "unfolder":
		return true
	}
	return false
}

func R14(p *core.Prog) *core.Result {
	r := core.NewResult("R14", "type-directed construction refuses what it cannot handle: (a) every arm selecting a map folder/unfolder checks for string keys; (b) the map unfolders allocate a nil target map before storing into it; (c) the type compilers mark a type as in progress before descending into its components")
	gp := p.Pkgs["gotype"]
	if gp == nil {
		r.Undecided("", "gotype", "package not loaded")
		return r
	}
	info := gp.TypesInfo

	// functions that check the key kind of one of their own parameters,
	// directly or by handing that parameter to a function that does
	checks := map[types.Object]bool{}
	decls := map[types.Object]*ast.FuncDecl{}
	for _, file := range gp.Syntax {
		for _, d := range file.Decls {
			fd, ok := d.(*ast.FuncDecl)
			if !ok || fd.Body == nil {
				continue
			}
			obj := info.Defs[fd.Name]
			decls[obj] = fd
			if containsKeyKindCheck(info, fd.Body, paramObjs(info, fd)) {
				checks[obj] = true
			}
		}
	}
	for changed := true; changed; {
		changed = false
		for obj, fd := range decls {
			if !checks[obj] && callsCheckingWith(info, fd.Body, checks, paramObjs(info, fd)) {
				checks[obj] = true
				changed = true
			}
		}
	}
	arms := 0
	for _, file := range gp.Syntax {
		for _, d := range file.Decls {
			fd, ok := d.(*ast.FuncDecl)
			if !ok || fd.Body == nil {
				continue
			}
			obj, _ := info.Defs[fd.Name].(*types.Func)
			if obj == nil {
				continue
			}
			sig := obj.Type().(*types.Signature)
			sel := false
			for i := 0; i < sig.Results().Len(); i++ {
				if isSelectorResult(sig.Results().At(i).Type()) {
					sel = true
				}
			}
			if !sel {
				continue
			}
			ast.Inspect(fd.Body, func(x ast.Node) bool {
				sw, ok := x.(*ast.SwitchStmt)
				if !ok || sw.Tag == nil {
					return true
				}
				// tag is <x>.Kind()
				ce, ok := sw.Tag.(*ast.CallExpr)
				if !ok {
					return true
				}
				se, ok := ce.Fun.(*ast.SelectorExpr)
				if !ok || se.Sel.Name != "Kind" {
					return true
				}
				for _, st := range sw.Body.List {
					cc := st.(*ast.CaseClause)
					isMap := false
					for _, e := range cc.List {
						if tv, ok := info.Types[e]; ok && tv.Value != nil && tv.Value.ExactString() == "21" && strings.HasSuffix(tv.Type.String(), "reflect.Kind") {
							isMap = true
						}
					}
					if !isMap || len(cc.List) != 1 {
						continue
					}
					// does the arm itself produce a folder/unfolder?
					selects := false
					for _, s := range cc.Body {
						ast.Inspect(s, func(y ast.Node) bool {
							switch z := y.(type) {
							case *ast.ReturnStmt:
								for i, e := range z.Results {
									if tv, ok := info.Types[e]; ok && !tv.IsNil() && i < sig.Results().Len() && isSelectorResult(sig.Results().At(i).Type()) {
										selects = true
									}
								}
							case *ast.AssignStmt:
								for _, e := range z.Lhs {
									if tv, ok := info.Types[e]; ok && isSelectorResult(tv.Type) {
										selects = true
									}
									if id, ok := e.(*ast.Ident); ok {
										if o := info.ObjectOf(id); o != nil && isSelectorResult(o.Type()) {
											selects = true
										}
									}
								}
							}
							return true
						})
					}
					if !selects {
						continue
					}
					arms++
					fname := gp.Types.Name() + "." + fd.Name.Name
					pos := p.Pos(cc.Pos())
					okArm := false
					bases := map[types.Object]bool{}
					if id, ok := se.X.(*ast.Ident); ok {
						bases[info.Uses[id]] = true
					}
					for _, s := range cc.Body {
						if containsKeyKindCheck(info, s, bases) || callsCheckingWith(info, s, checks, bases) {
							okArm = true
						}
					}
					if okArm {
						r.Ok(".MAP-KEY", pos, fname+": the reflect.Map arm checks for string keys (directly or in the function it delegates to)")
					} else {
						r.Fail(".MAP-KEY", fname+"|case reflect.Map", pos, fname+": the reflect.Map arm selects a folder/unfolder without checking Key().Kind() == reflect.String; a map with non-string keys is reinterpreted as map[string]T through unsafe", "")
					}
				}
				return true
			})
		}
	}
	r.Floor("map_selector_arms", arms, 4)

	// (b) NIL-MAP
	// generated/typed map unfolders: every MapUpdate through a pointer target is preceded by a nil test that allocates
	sp := p.SPkgs["gotype"]
	puts := 0
	for _, f := range p.ModFuncs() {
		if core.FuncPkg(f) != gp.Types || f.Signature.Recv() == nil {
			continue
		}
		rn := namedOf(f.Signature.Recv().Type())
		if rn == nil || !strings.HasPrefix(core.TypeName(rn), "unfolderMap") {
			continue
		}
		for _, b := range f.Blocks {
			for _, in := range b.Instrs {
				mu, ok := in.(*ssa.MapUpdate)
				if !ok {
					continue
				}
				ld, ok := mu.Map.(*ssa.UnOp)
				if !ok || ld.Op != token.MUL {
					continue
				}
				puts++
				// a store of a MakeMap to the same pointer in a block that dominates (or is a predecessor diamond of) this block
				okPut := false
				for _, b2 := range f.Blocks {
					for _, in2 := range b2.Instrs {
						st, ok := in2.(*ssa.Store)
						if !ok || st.Addr != ld.X {
							continue
						}
						if _, isMk := st.Val.(*ssa.MakeMap); !isMk {
							continue
						}
						// the store block must be guarded by a nil test of *ptr and rejoin before the update
						if len(b2.Preds) == 1 {
							if iff, ok := b2.Preds[0].Instrs[len(b2.Preds[0].Instrs)-1].(*ssa.If); ok {
								if x, trueMeansNil, ok := nilTest(iff.Cond); ok && trueMeansNil == (b2.Preds[0].Succs[0] == b2) {
									if l2, ok := x.(*ssa.UnOp); ok && l2.X == ld.X && b2.Preds[0].Dominates(b) {
										okPut = true
									}
								}
							}
						}
					}
				}
				fkey := core.FuncKey(f)
				if okPut {
					r.Ok(".NIL-MAP", p.Pos(mu.Pos()), fkey+": stores into the target map behind `if *to == nil { *to = make }`")
				} else {
					r.Fail(".NIL-MAP", fkey, p.Pos(mu.Pos()), fkey+" stores into the target map without first allocating it when it is nil: unfolding valid input into a nil map panics (assignment to entry in nil map)", "")
				}
			}
		}
	}
	r.Floor("typed_map_put_sites", puts, 15)
	// reflective map unfolder: the family that calls SetMapIndex must contain a guarded MakeMap
	var setIdx, mkMap []string
	for _, f := range p.ModFuncs() {
		if core.FuncPkg(f) != gp.Types || f.Signature.Recv() == nil {
			continue
		}
		rn := namedOf(f.Signature.Recv().Type())
		if rn == nil || !strings.HasPrefix(core.TypeName(rn), "unfolderReflMap") {
			continue
		}
		for _, b := range f.Blocks {
			for _, in := range b.Instrs {
				c, ok := in.(*ssa.Call)
				if !ok {
					continue
				}
				sc := c.Common().StaticCallee()
				if sc == nil || funcPkgPath(sc) != "reflect" {
					continue
				}
				switch core.FuncName(sc) {
				case "SetMapIndex":
					setIdx = append(setIdx, core.FuncKey(f))
				case "MakeMap", "MakeMapWithSize":
					// guarded by IsNil() true edge
					guarded := false
					for d := b; d != nil; d = d.Idom() {
						id := d.Idom()
						if id == nil {
							break
						}
						// the first test that controls the allocation must be the IsNil test itself: under
						// `IsNil() && <something else>` a nil map survives whenever the other condition is false
						if iff, ok := id.Instrs[len(id.Instrs)-1].(*ssa.If); ok && (id.Succs[0] == d || id.Succs[1] == d) {
							if cc, ok := iff.Cond.(*ssa.Call); ok && id.Succs[0] == d {
								if s2 := cc.Common().StaticCallee(); s2 != nil && core.FuncName(s2) == "IsNil" {
									guarded = true
								}
							}
							break
						}
					}
					if guarded {
						mkMap = append(mkMap, core.FuncKey(f))
					}
				}
			}
		}
	}
	sort.Strings(setIdx)
	if len(setIdx) == 0 {
		r.Undecided(".NIL-MAP", "reflect|SetMapIndex", "no reflect SetMapIndex site found in the unfolderReflMap* family")
	} else if len(mkMap) == 0 {
		r.Fail(".NIL-MAP", "gotype.unfolderReflMap*", "-", "the reflective map unfolder stores with SetMapIndex ("+strings.Join(uniqStrings(setIdx), ", ")+") but no method of the unfolderReflMap* family allocates a nil target map (IsNil-guarded reflect.MakeMap): unfolding valid input into a nil map[string]S panics", "")
	} else {
		r.Ok(".NIL-MAP", "-", "reflective map unfolder: nil target is allocated in "+strings.Join(uniqStrings(mkMap), ", "))
	}
	_ = sp

	// (b2) MAP-KEY-CONVERT: reflect.Value.SetMapIndex panics unless the key value is assignable to the map's key
	// type. The unfolder only has a plain string; for map types with a named string key type
	// (map[Label]T) the key must be converted to m.Type().Key() first.
	{
		n := 0
		for _, f := range p.ModFuncs() {
			pk := core.FuncPkg(f)
			if pk == nil || pk.Name() != "gotype" {
				continue
			}
			for _, b := range f.Blocks {
				for _, in := range b.Instrs {
					c, ok := in.(*ssa.Call)
					if !ok {
						continue
					}
					sc := c.Common().StaticCallee()
					if sc == nil || core.FuncName(sc) != "SetMapIndex" || funcPkgPath(sc) != "reflect" || len(c.Common().Args) < 2 {
						continue
					}
					n++
					conv := keyHasMapKeyType(p, c.Common().Args[1])
					pos := p.Pos(c.Pos())
					if conv {
						r.Ok(".MAP-KEY-CONVERT", pos, core.FuncKey(f)+": the key is converted to the map's key type before SetMapIndex")
					} else {
						r.Fail(".MAP-KEY-CONVERT", core.FuncKey(f)+"|SetMapIndex", pos, core.FuncKey(f)+" calls SetMapIndex with a key value that was not converted to the map's key type: for a target like map[Label]T (type Label string) reflect panics ('value of type string is not assignable to type Label')", "")
					}
				}
			}
		}
		r.Floor("set_map_index_sites", n, 2)
	}

	// (b3) USER-KEY: the table of user unfolders is keyed by the type of the pointer the unfolder is handed (*T). It
	// is never filled under a type AND its element type with the same unfolder, and it is looked up with
	// reflect.PtrTo(<element type>) (or with the pointer type a compiler entry was given), never with an element
	// type itself: for []*T / map[string]*T the element type *T would hit the entry meant for targets of type T and
	// the user function would be handed the address of the pointer slot as a *T.
	{
		n := 0
		for _, f := range p.ModFuncs() {
			pk := core.FuncPkg(f)
			if pk == nil || pk.Name() != "gotype" || f.Blocks == nil {
				continue
			}
			var ups []*ssa.MapUpdate
			for _, b := range f.Blocks {
				for _, in := range b.Instrs {
					switch x := in.(type) {
					case *ssa.MapUpdate:
						if mt, ok := x.Map.Type().Underlying().(*types.Map); ok {
							if nt := namedOf(mt.Elem()); nt != nil && core.TypeName(nt) == "reflUnfolder" {
								ups = append(ups, x)
							}
						}
					case *ssa.Call:
						sc := x.Common().StaticCallee()
						if sc == nil || core.FuncName(sc) != "lookupReflUser" || len(x.Common().Args) < 2 {
							continue
						}
						n++
						arg := x.Common().Args[1]
						okArg := false
						if _, isPrm := arg.(*ssa.Parameter); isPrm {
							okArg = true
						}
						if ac, ok := arg.(*ssa.Call); ok {
							if as := ac.Common().StaticCallee(); as != nil && funcPkgPath(as) == "reflect" && (as.Name() == "PtrTo" || as.Name() == "PointerTo") {
								okArg = true
							}
						}
						pos := p.Pos(x.Pos())
						if okArg {
							r.Ok(".USER-KEY", pos, core.FuncKey(f)+": the user-unfolder table is looked up with a pointer-to-target type")
						} else {
							r.Fail(".USER-KEY", core.FuncKey(f)+"|lookup", pos, core.FuncKey(f)+" looks the user-unfolder table up with an element type itself at "+pos+" (not reflect.PtrTo of it): for []*T or map[string]*T the element type *T finds the unfolder registered for targets of type T, which is then handed the address of the pointer slot as if it were a *T and writes a whole T over the slot and its neighbours", "")
						}
					}
				}
			}
			for _, a := range ups {
				for _, b := range ups {
					if a == b || a.Value != b.Value || a.Map != b.Map {
						continue
					}
					if kc, ok := b.Key.(*ssa.Call); ok && kc.Common().IsInvoke() && kc.Common().Method.Name() == "Elem" && kc.Common().Value == a.Key {
						r.Fail(".USER-KEY", core.FuncKey(f)+"|dual-key", p.Pos(b.Pos()), core.FuncKey(f)+" registers the same unfolder under a type and under its element type: a lookup cannot tell whether it found the unfolder for X or the one for *X", "")
					}
				}
			}
		}
		r.Floor("user_unfolder_lookups", n, 3)
	}

	// (c) RECURSION-GUARD
	for _, root := range []string{"getReflectFold", "lookupReflUnfolder"} {
		rf := p.LookupFunc("gotype", root)
		if rf == nil {
			r.Undecided(".RECURSION-GUARD", root, "type compiler entry "+root+" not found")
			continue
		}
		scc := sccOf(p, rf)
		if len(scc) < 2 {
			r.Ok(".RECURSION-GUARD", p.Pos(rf.Pos()), root+": not recursive")
			continue
		}
		// guard functions: an in-progress test-and-set (lookup in a set -> error if present; insert) dominates
		// every call the function makes into the cycle
		guards := map[*ssa.Function]bool{}
		for f := range scc {
			if guardsDescent(f, scc) {
				guards[f] = true
			}
		}
		// the cycle graph without the guard functions must be acyclic
		cyclic := ""
		color := map[*ssa.Function]int{}
		var visit func(f *ssa.Function, trail []string) bool
		visit = func(f *ssa.Function, trail []string) bool {
			color[f] = 1
			for _, g := range sccSucc(f, rf) {
				if !scc[g] || guards[g] {
					continue
				}
				if color[g] == 1 {
					cyclic = strings.Join(append(trail, core.FuncName(f), core.FuncName(g)), " -> ")
					return true
				}
				if color[g] == 0 && visit(g, append(trail, core.FuncName(f))) {
					return true
				}
			}
			color[f] = 2
			return false
		}
		var fs []*ssa.Function
		for f := range scc {
			fs = append(fs, f)
		}
		sort.Slice(fs, func(i, j int) bool { return fs[i].Pos() < fs[j].Pos() })
		for _, f := range fs {
			if !guards[f] && color[f] == 0 && visit(f, nil) {
				break
			}
		}
		var names, gnames []string
		for f := range scc {
			names = append(names, core.FuncName(f))
			if guards[f] {
				gnames = append(gnames, core.FuncName(f))
			}
		}
		sort.Strings(names)
		sort.Strings(gnames)
		if cyclic == "" {
			r.Ok(".RECURSION-GUARD", p.Pos(rf.Pos()), fmt.Sprintf("%s: every cycle of the type compiler (%d functions) passes through an in-progress test-and-set (%s)", root, len(names), strings.Join(gnames, ",")))
		} else {
			r.Fail(".RECURSION-GUARD", "gotype."+root, p.Pos(rf.Pos()), fmt.Sprintf("the type compiler cycle through %s (%d functions: %s) has a cycle that never tests whether the type is already being compiled (%s; guarded functions: %s): a self-referential type (type N struct{ Next *N }) recurses until the stack overflows", root, len(names), strings.Join(names, ","), cyclic, strings.Join(gnames, ",")), "")
		}
	}
	return r
}

// testAndSetAt: the instruction in f after which the type is recorded as in
// progress, nil if f has no in-progress test-and-set. Two shapes: inline
// (m[k] tested -> return error; m[k] = true) or a call of a helper of that
// shape whose error result makes f return.
func testAndSetAt(f *ssa.Function, depth int) ssa.Instruction {
	// inline shape
	for _, b := range f.Blocks {
		for _, in := range b.Instrs {
			mu, ok := in.(*ssa.MapUpdate)
			if !ok {
				continue
			}
			if cv, ok := constBool(mu.Value); !ok || !cv {
				continue
			}
			// a lookup in the same map that leads to an error return
			for _, b2 := range f.Blocks {
				for _, in2 := range b2.Instrs {
					lk, ok := in2.(*ssa.Lookup)
					if !ok || addrKey(lk.X) == "" || addrKey(lk.X) != addrKey(mu.Map) {
						continue
					}
					if refs := lk.Referrers(); refs != nil {
						for _, rf := range *refs {
							ifi, ok := rf.(*ssa.If)
							if !ok {
								continue
							}
							tb := ifi.Block().Succs[0]
							if ret, ok := tb.Instrs[len(tb.Instrs)-1].(*ssa.Return); ok {
								if ei := errResultIndex(f.Signature); ei >= 0 && definitelyNonNilError(ret.Results[ei]) {
									return mu
								}
							}
						}
					}
				}
			}
		}
	}
	if depth > 0 {
		return nil
	}
	// helper shape
	for _, b := range f.Blocks {
		for _, in := range b.Instrs {
			c, ok := in.(*ssa.Call)
			if !ok {
				continue
			}
			h := c.Common().StaticCallee()
			if h == nil || h.Blocks == nil || h.Signature.Results().Len() != 1 || !isErrorType(h.Signature.Results().At(0).Type()) {
				continue
			}
			if testAndSetAt(h, depth+1) == nil {
				continue
			}
			// the helper's error makes f return
			if refs := c.Referrers(); refs != nil {
				for _, rf := range *refs {
					bo, ok := rf.(*ssa.BinOp)
					if !ok || bo.Op != token.NEQ {
						continue
					}
					if brefs := bo.Referrers(); brefs != nil {
						for _, br := range *brefs {
							if ifi, ok := br.(*ssa.If); ok {
								tb := ifi.Block().Succs[0]
								if _, ok := tb.Instrs[len(tb.Instrs)-1].(*ssa.Return); ok {
									return c
								}
							}
						}
					}
				}
			}
		}
	}
	return nil
}

// guardsDescent: f has an in-progress test-and-set that comes before every
// call f makes into the cycle.
func guardsDescent(f *ssa.Function, scc map[*ssa.Function]bool) bool {
	ts := testAndSetAt(f, 0)
	if ts == nil {
		return false
	}
	for _, b := range f.Blocks {
		for _, in := range b.Instrs {
			c, ok := in.(ssa.CallInstruction)
			if !ok {
				continue
			}
			sc := c.Common().StaticCallee()
			if sc == nil || !scc[sc] {
				continue
			}
			if !(ts.Block() == b && instrBefore(b, ts, in)) && !(ts.Block() != b && ts.Block().Dominates(b)) {
				return false
			}
		}
	}
	return true
}

// byValueStructDescent: the call sits behind a test that the type it descends
// into has Kind()==reflect.Struct. A struct type cannot contain itself by
// value (the compiler rejects it), so a descent that only follows by-value
// struct fields is finite.
func byValueStructDescent(in ssa.Instruction) bool {
	blk := in.Block()
	for _, b := range in.Parent().Blocks {
		ifi, ok := b.Instrs[len(b.Instrs)-1].(*ssa.If)
		if !ok {
			continue
		}
		bo, ok := ifi.Cond.(*ssa.BinOp)
		if !ok || (bo.Op != token.NEQ && bo.Op != token.EQL) {
			continue
		}
		call, ok := bo.X.(*ssa.Call)
		if !ok || !call.Common().IsInvoke() || call.Common().Method.Name() != "Kind" {
			continue
		}
		if c, ok := constIntVal(bo.Y); !ok || c != int64(reflect.Struct) {
			continue
		}
		// the tested type is the declared type of a struct field itself (reflect.StructField.Type, no pointer
		// stripped), and that same type is what the call descends into
		tk := structFieldTypeKey(call.Common().Value)
		if tk == "" {
			continue
		}
		same := false
		if ci, ok := in.(ssa.CallInstruction); ok {
			for _, a := range ci.Common().Args {
				if structFieldTypeKey(a) == tk {
					same = true
				}
			}
		}
		if !same {
			continue
		}
		structSucc := b.Succs[0]
		if bo.Op == token.NEQ {
			structSucc = b.Succs[1]
		}
		if len(structSucc.Preds) == 1 && (structSucc == blk || structSucc.Dominates(blk)) {
			return true
		}
	}
	return false
}

// structFieldTypeKey: v is a load of the Type field of a reflect.StructField; returns a key of the field's address.
func structFieldTypeKey(v ssa.Value) string {
	ld, ok := v.(*ssa.UnOp)
	if !ok || ld.Op != token.MUL {
		return ""
	}
	fa, ok := ld.X.(*ssa.FieldAddr)
	if !ok {
		return ""
	}
	n := namedOf(fa.X.Type())
	if n == nil || n.Obj().Pkg() == nil || n.Obj().Pkg().Path() != "reflect" || core.TypeName(n) != "StructField" {
		return ""
	}
	st := n.Underlying().(*types.Struct)
	if core.FieldName(st, fa.Field) != "Type" {
		return ""
	}
	return addrKey(fa)
}

func sccSucc(f *ssa.Function, root *ssa.Function) []*ssa.Function {
	var out []*ssa.Function
	for _, b := range f.Blocks {
		for _, in := range b.Instrs {
			if c, ok := in.(ssa.CallInstruction); ok {
				if sc := c.Common().StaticCallee(); sc != nil && core.FuncPkg(sc) == core.FuncPkg(root) && sc.Blocks != nil {
					if byValueStructDescent(in) {
						continue
					}
					out = append(out, sc)
				}
			}
			if mc, ok := in.(*ssa.MakeClosure); ok {
				out = append(out, mc.Fn.(*ssa.Function))
			}
		}
	}
	return out
}

func instrBefore(b *ssa.BasicBlock, a, c ssa.Instruction) bool {
	for _, in := range b.Instrs {
		if in == a {
			return true
		}
		if in == c {
			return false
		}
	}
	return false
}

// sccOf: the functions of f's package that are on a static-call cycle with f.
func sccOf(p *core.Prog, root *ssa.Function) map[*ssa.Function]bool {
	succ := func(f *ssa.Function) []*ssa.Function {
		var out []*ssa.Function
		for _, b := range f.Blocks {
			for _, in := range b.Instrs {
				if c, ok := in.(ssa.CallInstruction); ok {
					if sc := c.Common().StaticCallee(); sc != nil && core.FuncPkg(sc) == core.FuncPkg(root) && sc.Blocks != nil {
						out = append(out, sc)
					}
				}
				// closures created here run later but belong to the same compiler
				if mc, ok := in.(*ssa.MakeClosure); ok {
					out = append(out, mc.Fn.(*ssa.Function))
				}
			}
		}
		return out
	}
	reach := func(from *ssa.Function) map[*ssa.Function]bool {
		seen := map[*ssa.Function]bool{}
		var visit func(f *ssa.Function)
		visit = func(f *ssa.Function) {
			for _, s := range succ(f) {
				if !seen[s] {
					seen[s] = true
					visit(s)
				}
			}
		}
		visit(from)
		return seen
	}
	fwd := reach(root)
	out := map[*ssa.Function]bool{}
	for f := range fwd {
		if reach(f)[root] {
			out[f] = true
		}
	}
	if fwd[root] {
		out[root] = true
	}
	return out
}

// ---------------------------------------------------------------------
// R15 RESET-COMPLETE
// ---------------------------------------------------------------------

func R15(p *core.Prog) *core.Result {
	r := core.NewResult("R15", "Reset re-initialises everything: the nil-target branch of Unfolder.SetTarget re-initialises every stack and scratch buffer the unfold context owns on every path; json.(*Parser).Parse resets the state stack, the literal buffer and the current state before feeding")
	gp := p.Pkgs["gotype"]
	st := p.LookupFunc("gotype", "(*Unfolder).SetTarget")
	reset := p.LookupFunc("gotype", "(*Unfolder).Reset")
	if gp == nil || st == nil || reset == nil {
		r.Undecided("", "gotype.SetTarget", "Unfolder.SetTarget / Reset not found")
		return r
	}
	// Reset must call SetTarget(nil)
	callsST := false
	for _, b := range reset.Blocks {
		for _, in := range b.Instrs {
			if c, ok := in.(*ssa.Call); ok && c.Common().StaticCallee() == st {
				for _, a := range c.Common().Args[1:] {
					if isNilConst(a) {
						callsST = true
					}
				}
			}
		}
	}
	resetOwn := func() bool {
		ctxT := typeObj(p, "gotype", "unfoldCtx")
		if ctxT == nil {
			return false
		}
		own := ownedStackFields(p, gp.Types, ctxT)
		got := mustInitFields(p, reset, own, 0)
		for f := range own {
			if !got.has(f) {
				return false
			}
		}
		return len(own) > 0
	}
	if callsST {
		r.Ok(".RESET", p.Pos(reset.Pos()), "Reset calls SetTarget(nil)")
	} else if resetOwn() {
		r.Ok(".RESET", p.Pos(reset.Pos()), "Reset re-initialises every owned stack itself (through the helper SetTarget(nil) uses)")
	} else {
		r.Fail(".RESET", "gotype.(*Unfolder).Reset", p.Pos(reset.Pos()), "Unfolder.Reset no longer calls SetTarget(nil)", "")
	}
	// owned stacks: fields of unfoldCtx whose type has an init method and (push+pop, or reset)
	ctxT := typeObj(p, "gotype", "unfoldCtx")
	if ctxT == nil {
		r.Undecided("", "gotype.unfoldCtx", "type unfoldCtx not found")
		return r
	}
	owned := ownedStackFields(p, gp.Types, ctxT)
	r.Floor("owned_stack_fields", len(owned), 7)
	// path walk of SetTarget: on the `to == nil` branch collect init/reset calls per field until return
	k := &r15client{p: p, fn: st, num: newNumbering(), owned: owned, missing: map[string]bool{}}
	_, capped := WalkPaths[r15state](k, st.Blocks[0], 0, r15state{}, 200000, nil)
	if capped {
		r.Undecided(".REINIT", "gotype.SetTarget", "state cap hit")
	}
	if !k.sawNilReturn {
		r.Fail(".REINIT", "gotype.(*Unfolder).SetTarget|nil-branch", p.Pos(st.Pos()), "SetTarget has no path for a nil target that returns after re-initialising the context", "")
	}
	for _, f := range sortedKeys(owned) {
		if k.missing[f] {
			r.Fail(".REINIT", "gotype.(*Unfolder).SetTarget|"+f, p.Pos(st.Pos()), "SetTarget(nil) (Reset) has a path that returns without re-initialising unfoldCtx."+f+": after a document was abandoned the next one starts on a dirty stack", "")
		} else {
			r.Ok(".REINIT", p.Pos(st.Pos()), "SetTarget(nil) re-initialises unfoldCtx."+f+" on every path")
		}
	}
	tokenInit(p, r)
	// json.(*Parser).Parse resets states, literalBuffer, currentState before feed
	jp := p.LookupFunc("json", "(*Parser).Parse")
	if jp == nil {
		r.Undecided(".PARSER-RESET", "json.Parse", "json.(*Parser).Parse not found")
		return r
	}
	need := map[string]bool{"states": false, "literalBuffer": false, "currentState": false}
	feedSeen := false
	for _, b := range jp.Blocks {
		if b != jp.Blocks[0] {
			continue // the resets are straight-line code in the entry block today; a reset moved behind a branch is not "on every path"
		}
		for _, in := range b.Instrs {
			if c, ok := in.(*ssa.Call); ok {
				sc := c.Common().StaticCallee()
				if sc != nil && core.FuncName(sc) == "feed" {
					feedSeen = true
				}
				// the resets may have moved into a helper of the parser: what its entry block stores counts
				if sc != nil && !feedSeen && sc.Blocks != nil && sc.Signature.Recv() != nil && len(c.Common().Args) > 0 && c.Common().Args[0] == ssa.Value(jp.Params[0]) && core.FuncName(sc) != "feed" {
					for _, hin := range sc.Blocks[0].Instrs {
						if hs, ok := hin.(*ssa.Store); ok {
							if fld := fieldOfReceiver(sc, hs.Addr); fld != "" {
								if _, ok := need[fld]; ok {
									need[fld] = true
								}
							}
						}
					}
				}
			}
			if s, ok := in.(*ssa.Store); ok && !feedSeen {
				if fld := fieldOfReceiver(jp, s.Addr); fld != "" {
					if _, ok := need[fld]; ok {
						need[fld] = true
					}
				}
			}
		}
	}
	for _, f := range sortedKeys(need) {
		if need[f] {
			r.Ok(".PARSER-RESET", p.Pos(jp.Pos()), "json.(*Parser).Parse resets "+f+" before feeding")
		} else {
			r.Fail(".PARSER-RESET", "json.(*Parser).Parse|"+f, p.Pos(jp.Pos()), "json.(*Parser).Parse no longer resets "+f+" before feeding: a reused parser starts the next document with leftovers of the previous one", "")
		}
	}
	return r
}

type r15state struct {
	nilBranch bool
	done      stringSet
}
type r15client struct {
	p            *core.Prog
	fn           *ssa.Function
	num          *valueNumbering
	owned        map[string]bool
	missing      map[string]bool
	sawNilReturn bool
	helper     bool
	depth      int
	helperSeen bool
	helperAll  stringSet
}

func (k *r15client) Key(s r15state) string                              { return fmt.Sprintf("%v|%s", s.nilBranch, s.done.key()) }
func (k *r15client) Phis(s r15state, _ *ssa.BasicBlock, _ int) r15state { return s }
// mustInitFields: the owned fields a helper method re-initialises on every path to a return (followed two levels).
func mustInitFields(p *core.Prog, f *ssa.Function, owned map[string]bool, depth int) stringSet {
	if f == nil || f.Blocks == nil || depth > 2 {
		return stringSet{}
	}
	k := &r15client{p: p, fn: f, num: newNumbering(), owned: owned, missing: map[string]bool{}, helper: true, depth: depth}
	if _, capped := WalkPaths[r15state](k, f.Blocks[0], 0, r15state{}, 100000, nil); capped || !k.helperSeen {
		return stringSet{}
	}
	return k.helperAll
}

func (k *r15client) Instr(s r15state, in ssa.Instruction) (r15state, bool, []r15state) {
	if c, ok := in.(*ssa.Call); ok {
		// a helper method of the same receiver that does (part of) the re-initialisation
		if sc := c.Common().StaticCallee(); sc != nil && sc.Signature.Recv() != nil && len(c.Common().Args) > 0 && len(k.fn.Params) > 0 &&
			c.Common().Args[0] == ssa.Value(k.fn.Params[0]) && sc != k.fn && k.p.InModule(sc) {
			for _, f := range mustInitFields(k.p, sc, k.owned, k.depth+1).ks {
				s.done = s.done.with(f)
			}
		}
		if sc := c.Common().StaticCallee(); sc != nil && (core.FuncName(sc) == "init" || core.FuncName(sc) == "reset") && len(c.Common().Args) > 0 {
			// receiver is &u.unfoldCtx.F or &ctx.F
			if fa, ok := c.Common().Args[0].(*ssa.FieldAddr); ok {
				stt := fa.X.Type().Underlying().(*types.Pointer).Elem().Underlying().(*types.Struct)
				s.done = s.done.with(core.FieldName(stt, fa.Field))
			}
		}
	}
	return s, true, nil
}
func (k *r15client) Branch(s r15state, cond ssa.Value, outcome bool) (r15state, bool) {
	if x, trueMeansNil, ok := nilTest(cond); ok {
		if prm, ok := x.(*ssa.Parameter); ok && len(k.fn.Params) > 1 && prm == k.fn.Params[1] {
			if outcome == trueMeansNil {
				s.nilBranch = true
			} else if s.nilBranch {
				return s, false
			}
		}
	}
	return s, true
}
func (k *r15client) Return(s r15state, ret *ssa.Return) {
	if k.helper {
		if !k.helperSeen {
			k.helperSeen, k.helperAll = true, s.done
		} else {
			var both stringSet
			for _, f := range k.helperAll.ks {
				if s.done.has(f) {
					both = both.with(f)
				}
			}
			k.helperAll = both
		}
		return
	}
	if !s.nilBranch {
		return
	}
	k.sawNilReturn = true
	for f := range k.owned {
		if !s.done.has(f) {
			k.missing[f] = true
		}
	}
}


// keyHasMapKeyType: the value is X.Convert(T.Key()), or the result of a helper
// that is handed T.Key() and returns, on every path, either a value converted
// to that type or reflect.ValueOf(x) behind the test that the type IS the
// static type of x (keyType == tString with tString = reflect.TypeOf("")).
func keyHasMapKeyType(p *core.Prog, v ssa.Value) bool {
	isKeyInvoke := func(a ssa.Value) bool {
		tc, ok := a.(*ssa.Call)
		return ok && tc.Common().IsInvoke() && tc.Common().Method.Name() == "Key"
	}
	isReflect := func(c *ssa.Call, name string) bool {
		sc := c.Common().StaticCallee()
		return sc != nil && sc.Name() == name && funcPkgPath(sc) == "reflect"
	}
	kc, ok := v.(*ssa.Call)
	if !ok {
		return false
	}
	if isReflect(kc, "Convert") {
		return len(kc.Common().Args) == 2 && isKeyInvoke(kc.Common().Args[1])
	}
	h := kc.Common().StaticCallee()
	if h == nil || h.Blocks == nil || !p.InModule(h) {
		return false
	}
	var tp *ssa.Parameter
	for i, a := range kc.Common().Args {
		if isKeyInvoke(a) && i < len(h.Params) {
			tp = h.Params[i]
		}
	}
	if tp == nil {
		return false
	}
	// static type of what a global of type reflect.Type was initialised with: G = reflect.TypeOf(<x>)
	globalTypeOf := func(g *ssa.Global) types.Type {
		init := g.Pkg.Func("init")
		if init == nil {
			return nil
		}
		for _, b := range init.Blocks {
			for _, in := range b.Instrs {
				st, ok := in.(*ssa.Store)
				if !ok || st.Addr != ssa.Value(g) {
					continue
				}
				c, ok := st.Val.(*ssa.Call)
				if !ok || !isReflect(c, "TypeOf") || len(c.Common().Args) != 1 {
					return nil
				}
				if mi, ok := c.Common().Args[0].(*ssa.MakeInterface); ok {
					return mi.X.Type()
				}
				return nil
			}
		}
		return nil
	}
	for _, b := range h.Blocks {
		ret, ok := b.Instrs[len(b.Instrs)-1].(*ssa.Return)
		if !ok {
			continue
		}
		if len(ret.Results) != 1 {
			return false
		}
		rc, ok := ret.Results[0].(*ssa.Call)
		if !ok {
			return false
		}
		if isReflect(rc, "Convert") && len(rc.Common().Args) == 2 && rc.Common().Args[1] == ssa.Value(tp) {
			continue
		}
		if !isReflect(rc, "ValueOf") || len(rc.Common().Args) != 1 {
			return false
		}
		mi, ok := rc.Common().Args[0].(*ssa.MakeInterface)
		if !ok {
			return false
		}
		// the return is reached only through the true edge of tp == G with G = reflect.TypeOf(<same static type>)
		guarded := false
		for d := b; d != nil && d.Idom() != nil; d = d.Idom() {
			id := d.Idom()
			iff, ok := id.Instrs[len(id.Instrs)-1].(*ssa.If)
			if !ok || id.Succs[0] != d || len(d.Preds) != 1 {
				continue
			}
			bo, ok := iff.Cond.(*ssa.BinOp)
			if !ok || bo.Op != token.EQL {
				continue
			}
			for _, pr := range [][2]ssa.Value{{bo.X, bo.Y}, {bo.Y, bo.X}} {
				if pr[0] != ssa.Value(tp) {
					continue
				}
				if ld, ok := pr[1].(*ssa.UnOp); ok && ld.Op == token.MUL {
					if g, ok := ld.X.(*ssa.Global); ok {
						if t := globalTypeOf(g); t != nil && types.Identical(t, mi.X.Type()) {
							guarded = true
						}
					}
				}
			}
		}
		if !guarded {
			return false
		}
	}
	return true
}

// ownedStackFields: fields of unfoldCtx whose type has an init method and (push+pop, or reset).
func ownedStackFields(p *core.Prog, gpT *types.Package, ctxT types.Object) map[string]bool {
	stc := ctxT.Type().Underlying().(*types.Struct)
	owned := map[string]bool{}
	for i := 0; i < stc.NumFields(); i++ {
		f := stc.Field(i)
		n := namedOf(f.Type())
		if n == nil || n.Obj().Pkg() != gpT {
			continue
		}
		if _, isPtr := f.Type().(*types.Pointer); isPtr {
			continue
		}
		ms := types.NewMethodSet(types.NewPointer(n))
		has := map[string]bool{}
		for j := 0; j < ms.Len(); j++ {
			has[methodName(ms.At(j).Obj())] = true
		}
		if has["init"] && (has["push"] && has["pop"] || has["reset"]) {
			owned[f.Name()] = true
		}
	}
	return owned
}

package rules

import (
	"fmt"
	"go/token"
	"go/types"
	"sort"
	"strings"

	"golang.org/x/tools/go/ssa"

	"sfcheck/internal/core"
)

// R18 CACHE.
//
// (a) NIL-RETURN (contradiction rule): a gotype function that can return a
//     nil pointer / func / map / interface without a non-nil error must have
//     that result tested before it is dereferenced or called at every call
//     site (symbolList.pop on an empty list: EnableKeyCache(0)).
// (b) INTERN-CONSISTENT: at every update of symbolCache.m the key and the
//     `value` field of the stored symbol are the same value and symbol.value
//     has no other store, so get(in) returns a string equal to string(in)
//     whatever the history of hits, misses and evictions.
// (c) the string that is interned is a copy (R16a, run under C20 as well).

// mayReturnNil: result idx of f may be the nil constant on a path whose error
// result (if any) is not definitely non-nil.
func mayReturnNil(f *ssa.Function, idx int) bool {
	ei := errResultIndex(f.Signature)
	for _, b := range f.Blocks {
		for _, in := range b.Instrs {
			ret, ok := in.(*ssa.Return)
			if !ok {
				continue
			}
			if ei >= 0 && ei != idx && (definitelyNonNilError(ret.Results[ei]) || knownNonNilAt(ret.Results[ei], b)) {
				continue
			}
			var chk func(v ssa.Value, depth int) bool
			chk = func(v ssa.Value, depth int) bool {
				if isNilConst(v) {
					return true
				}
				if phi, ok := v.(*ssa.Phi); ok && depth < 4 {
					for _, e := range phi.Edges {
						if chk(e, depth+1) {
							return true
						}
					}
				}
				// a map lookup yields the zero value for a missing key
				if lk, ok := v.(*ssa.Lookup); ok && !lk.CommaOk {
					if _, isMap := lk.X.Type().Underlying().(*types.Map); isMap {
						return true
					}
				}
				return false
			}
			if chk(ret.Results[idx], 0) {
				return true
			}
		}
	}
	return false
}

func isNilable(t types.Type) bool {
	switch t.Underlying().(type) {
	case *types.Pointer, *types.Signature, *types.Map, *types.Interface:
		return !isErrorType(t)
	}
	return false
}

type r18state struct {
	checked bool
	vals    valueSet // values equal to the call result
	dead    bool
}
type r18client struct {
	p   *core.Prog
	num *valueNumbering
	bad string
	unexamined bool
}

func (k *r18client) Key(s r18state) string { return fmt.Sprintf("%v|%s", s.checked, s.vals.key()) }
func (k *r18client) Phis(s r18state, blk *ssa.BasicBlock, pred int) r18state {
	for _, in := range blk.Instrs {
		phi, ok := in.(*ssa.Phi)
		if !ok {
			break
		}
		if pred >= 0 && pred < len(phi.Edges) && s.vals.has(k.num.id(phi.Edges[pred])) {
			// the result merges with other values: stop tracking precisely
			k.unexamined = true
		}
	}
	return s
}
func (k *r18client) Instr(s r18state, in ssa.Instruction) (r18state, bool, []r18state) {
	if s.checked {
		return s, false, nil
	}
	deref := func(v ssa.Value) bool { return s.vals.has(k.num.id(v)) }
	pos := k.p.Pos(token.Pos(instrPos(in)))
	switch x := in.(type) {
	case *ssa.FieldAddr:
		if deref(x.X) {
			k.bad = "is dereferenced (field access) at " + pos + " without a nil test"
		}
	case *ssa.UnOp:
		if x.Op == token.MUL && deref(x.X) {
			k.bad = "is dereferenced at " + pos + " without a nil test"
		}
	case *ssa.MapUpdate:
		if deref(x.Map) {
			k.bad = "is assigned into (nil map) at " + pos + " without a nil test"
		}
	case *ssa.ChangeType:
		if deref(x.X) {
			s.vals = s.vals.with(k.num.id(x))
		}
	case ssa.CallInstruction:
		cc := x.Common()
		if deref(cc.Value) {
			k.bad = "is called at " + pos + " without a nil test"
		}
		for _, a := range cc.Args {
			if deref(a) {
				// handed on: a callee with a pointer receiver may dereference it
				if sc := cc.StaticCallee(); sc != nil && sc.Signature.Recv() != nil && len(cc.Args) > 0 && cc.Args[0] == a {
					k.bad = "is used as method receiver of " + core.FuncName(sc) + " at " + pos + " without a nil test"
				} else {
					k.unexamined = true
				}
			}
		}
	case *ssa.Store:
		if deref(x.Val) {
			k.unexamined = true
		}
	}
	if k.bad != "" {
		return s, false, nil
	}
	return s, true, nil
}
func (k *r18client) Branch(s r18state, cond ssa.Value, outcome bool) (r18state, bool) {
	if x, trueMeansNil, ok := nilTest(cond); ok && s.vals.has(k.num.id(x)) {
		if outcome == trueMeansNil {
			// nil branch: dereferences here are definite bugs; keep walking
			return s, true
		}
		s.checked = true
	}
	return s, true
}
func (k *r18client) Return(s r18state, ret *ssa.Return) {
	for _, r := range ret.Results {
		if s.vals.has(k.num.id(r)) {
			k.unexamined = true
		}
	}
}

func R18(p *core.Prog) *core.Result {
	r := core.NewResult("R18", "the key cache hands out what was looked up and never dereferences 'nothing evicted': nil-able results in gotype are tested before use at every call site; the interned string and its map key are the same value and symbol.value is written exactly once")
	gp := p.Pkgs["gotype"]
	if gp == nil {
		r.Undecided("", "gotype", "package not loaded")
		return r
	}
	// (a)
	var nilFns []*ssa.Function
	nilIdx := map[*ssa.Function][]int{}
	for _, f := range p.ModFuncs() {
		if core.FuncPkg(f) != gp.Types || f.Parent() != nil {
			continue
		}
		res := f.Signature.Results()
		for i := 0; i < res.Len(); i++ {
			if isNilable(res.At(i).Type()) && mayReturnNil(f, i) {
				nilIdx[f] = append(nilIdx[f], i)
			}
		}
		if len(nilIdx[f]) > 0 {
			nilFns = append(nilFns, f)
		}
	}
	r.Stats["nilable_result_functions"] = len(nilFns)
	sites, unexamined := 0, 0
	for _, g := range p.ModFuncs() {
		if core.FuncPkg(g) != gp.Types {
			continue
		}
		for _, b := range g.Blocks {
			for bi, in := range b.Instrs {
				call, ok := in.(*ssa.Call)
				if !ok {
					continue
				}
				sc := call.Common().StaticCallee()
				if sc == nil || len(nilIdx[sc]) == 0 {
					continue
				}
				for _, idx := range nilIdx[sc] {
					var rv ssa.Value
					if sc.Signature.Results().Len() == 1 {
						rv = call
					} else if refs := call.Referrers(); refs != nil {
						for _, rf := range *refs {
							if ex, ok := rf.(*ssa.Extract); ok && ex.Index == idx {
								rv = ex
							}
						}
					}
					if rv == nil {
						continue
					}
					sites++
					k := &r18client{p: p, num: newNumbering()}
					init := r18state{vals: valueSet{}.with(k.num.id(rv))}
					_, capped := WalkPaths[r18state](k, b, bi+1, init, 100000, nil)
					gkey := core.FuncKey(g)
					pos := p.Pos(call.Pos())
					key := fmt.Sprintf("%s|%s#%d", gkey, core.FuncKey(sc), siteOrdinal(call))
					switch {
					case capped:
						r.Undecided(".NIL-RETURN", key, "state cap hit")
					case k.bad != "":
						r.Fail(".NIL-RETURN", key, pos, fmt.Sprintf("%s: the result of %s can be nil (it has a path returning nil without an error) and %s", gkey, core.FuncKey(sc), k.bad), "")
					case k.unexamined:
						unexamined++
						r.Stats["nil_result_sites_handed_on_unexamined"] = unexamined
					default:
						r.Ok(".NIL-RETURN", pos, gkey+": nil-able result of "+core.FuncKey(sc)+" is tested before use")
					}
				}
			}
		}
	}
	r.Floor("nil_result_call_sites", sites, 10)

	// (b)
	symT := typeObj(p, "gotype", "symbol")
	cacheT := typeObj(p, "gotype", "symbolCache")
	if symT == nil || cacheT == nil {
		r.Undecided(".INTERN-CONSISTENT", "gotype.symbol", "types symbol / symbolCache not found")
		return r
	}
	valueStores := 0
	updates := 0
	var notes []string
	for _, f := range p.ModFuncs() {
		if core.FuncPkg(f) != gp.Types {
			continue
		}
		for _, b := range f.Blocks {
			for _, in := range b.Instrs {
				switch x := in.(type) {
				case *ssa.Store:
					// a whole-node store through an existing *symbol overwrites value as well
					if pt, ok := x.Addr.Type().Underlying().(*types.Pointer); ok {
						if wn, ok := pt.Elem().(*types.Named); ok && wn.Obj() == symT {
							if _, isAlloc := x.Addr.(*ssa.Alloc); !isAlloc {
								r.Fail(".INTERN-CONSISTENT", core.FuncKey(f)+"|symbol-store", p.Pos(x.Pos()), core.FuncKey(f)+" overwrites a whole cache node (symbol.value included) that may still be referenced: the map entry keyed by the old string can no longer be found through the node (eviction deletes the wrong key), or hands out a different string", "")
							}
							continue
						}
					}
					fa, ok := x.Addr.(*ssa.FieldAddr)
					if !ok {
						continue
					}
					n := namedOf(fa.X.Type())
					if n == nil || (n.Obj() != symT && core.TypeName(n) != "symbolList") {
						continue
					}
					st := n.Underlying().(*types.Struct)
					if core.FieldName(st, fa.Field) != "value" {
						continue
					}
					valueStores++
					// must initialise a fresh allocation
					if _, isAlloc := fa.X.(*ssa.Alloc); !isAlloc {
						r.Fail(".INTERN-CONSISTENT", core.FuncKey(f)+"|symbol.value-store", p.Pos(x.Pos()), core.FuncKey(f)+" overwrites symbol.value of an existing cache node: a map entry keyed by the old string now hands out a different string", "")
					} else {
						notes = append(notes, core.FuncKey(f))
					}
				case *ssa.MapUpdate:
					mt, ok := x.Map.Type().Underlying().(*types.Map)
					if !ok {
						continue
					}
					if en := namedOf(mt.Elem()); en == nil || en.Obj() != symT {
						continue
					}
					updates++
					// value is an Alloc of symbol whose .value store has Val == key
					okU := false
					if a, ok := x.Value.(*ssa.Alloc); ok {
						for _, sv := range storesToField(a, "value") {
							if sv == x.Key {
								okU = true
							}
						}
					}
					if okU {
						r.Ok(".INTERN-CONSISTENT", p.Pos(x.Pos()), core.FuncKey(f)+": map key and interned symbol.value are the same value")
					} else {
						r.Fail(".INTERN-CONSISTENT", core.FuncKey(f)+"|map-update", p.Pos(x.Pos()), core.FuncKey(f)+" inserts a cache entry whose key is not the very string stored in the symbol: a later hit hands out a string different from the one looked up", "")
					}
				}
			}
		}
	}
	if updates == 0 || valueStores == 0 {
		r.Undecided(".INTERN-CONSISTENT", "gotype.symbolCache|anchors", fmt.Sprintf("expected at least one update of the symbol map and one symbol.value store (found %d / %d)", updates, valueStores))
	}
	// eviction deletes the evicted key
	add := p.LookupFunc("gotype", "(*symbolCache).add")
	if add == nil {
		r.Undecided(".EVICT", "gotype.symbolCache.add", "add not found")
	} else {
		hasPop, hasDelete := false, false
		for _, b := range add.Blocks {
			for _, in := range b.Instrs {
				if c, ok := in.(ssa.CallInstruction); ok {
					if sc := c.Common().StaticCallee(); sc != nil && core.FuncName(sc) == "pop" {
						hasPop = true
					}
					if bi, ok := c.Common().Value.(*ssa.Builtin); ok && bi.Name() == "delete" {
						hasDelete = true
					}
				}
			}
		}
		if hasPop && !hasDelete {
			r.Fail(".EVICT", "gotype.(*symbolCache).add|delete", p.Pos(add.Pos()), "symbolCache.add evicts a node from the recency list without deleting its key from the map: the stale entry is found again later", "")
		} else {
			r.Ok(".EVICT", p.Pos(add.Pos()), "symbolCache.add deletes the evicted key")
		}
	}
	sort.Strings(notes)
	_ = strings.Join
	listSentinel(p, r)
	internResult(p, r)
	return r
}

// storesToField: values stored into field `name` of a struct allocation.
func storesToField(a *ssa.Alloc, name string) []ssa.Value {
	var out []ssa.Value
	if refs := a.Referrers(); refs != nil {
		for _, r := range *refs {
			fa, ok := r.(*ssa.FieldAddr)
			if !ok {
				continue
			}
			st := fa.X.Type().Underlying().(*types.Pointer).Elem().Underlying().(*types.Struct)
			if core.FieldName(st, fa.Field) != name {
				continue
			}
			if rs := fa.Referrers(); rs != nil {
				for _, r2 := range *rs {
					if s, ok := r2.(*ssa.Store); ok && s.Addr == ssa.Value(fa) {
						out = append(out, s.Val)
					}
				}
			}
		}
	}
	return out
}

func init() {
	register(&PropSpec{
		ID:    "C20",
		Level: "other",
		Decided: "(a) 'nothing evicted' is never dereferenced: every call site of a gotype function that can return nil without an error tests the result before using it (capacity 0 / empty list); (b) what is handed out equals what was looked up for every history: key and symbol.value are the same value at every insertion, symbol.value is never overwritten, eviction deletes the evicted key; (c) cached keys are copies, never views of the producer's bytes (R16 view rule and by-reference rule). A whole-node store through an existing *symbol counts as overwriting symbol.value.",
		NotDecided: "LRU order and that the cache never exceeds its capacity (these affect memory, not results); equality of whole unfolding results with and without cache beyond key identity.",
		Assumptions: []string{"Go map lookup with a zero-copy string view compares by content"},
		TrustedBase: baseTrusted,
		Rules:       []RuleRun{{"R18", R18}, {"R16", R16}},
		LevelText:   "Structural necessary conditions for 'the cache never changes results' decided on all paths of symbols.go and its callers. No test enables the key cache at all; correctness is a property of access histories against a capacity parameter, and the rules hold for every history because they are invariants of every insertion / eviction site.",
		Technique:   "nil-result contradiction rule (path-sensitive use-before-test at call sites), single-assignment / same-value invariant of the intern table on SSA, alias-flow rule for interned keys; whole-node store detection for the intern table",
		DesignRef:   "DESIGN.md section 2 R18, R16; section 3 C20",
	})
}

// knownNonNilAt: blk is dominated by the non-nil outcome of a nil test of v.
func knownNonNilAt(v ssa.Value, blk *ssa.BasicBlock) bool {
	for d := blk; d != nil; d = d.Idom() {
		id := d.Idom()
		if id == nil {
			break
		}
		iff, ok := id.Instrs[len(id.Instrs)-1].(*ssa.If)
		if !ok {
			continue
		}
		x, trueMeansNil, ok := nilTest(iff.Cond)
		if !ok || x != v {
			continue
		}
		nonNilEdge := 0
		if trueMeansNil {
			nonNilEdge = 1
		}
		if id.Succs[nonNilEdge] == d && len(d.Preds) == 1 {
			return true
		}
	}
	return false
}

// ---- LIST-SENTINEL / INTERN-RESULT ----

// listSentinel: the recency list is circular with a sentinel that links to
// itself when empty. Every function that overwrites a whole symbolList value
// re-links its prev and next in the same function.
func listSentinel(p *core.Prog, r *core.Result) {
	n := 0
	for _, f := range p.ModFuncs() {
		pk := core.FuncPkg(f)
		if pk == nil || pk.Name() != "gotype" {
			continue
		}
		for _, b := range f.Blocks {
			for _, in := range b.Instrs {
				st, ok := in.(*ssa.Store)
				if !ok {
					continue
				}
				pt, ok := st.Addr.Type().Underlying().(*types.Pointer)
				if !ok {
					continue
				}
				nt, ok := pt.Elem().(*types.Named)
				if !ok {
					continue
				}
				if core.TypeName(nt) != "symbolList" {
					// a whole value that holds the list by value (the cache itself) is overwritten: unless it is the zero
					// value (cache disabled, the list is never touched) the list inside is a fresh, unlinked one
					holds := false
					if stt, isS := nt.Underlying().(*types.Struct); isS {
						for i := 0; i < stt.NumFields(); i++ {
							if fn, isN := stt.Field(i).Type().(*types.Named); isN && core.TypeName(fn) == "symbolList" {
								holds = true
							}
						}
					}
					if _, isZero := st.Val.(*ssa.Const); !holds || isZero {
						continue
					}
				}
				n++
				linked := map[string]bool{}
				base := addrKey(st.Addr)
				for _, b2 := range f.Blocks {
					for _, i2 := range b2.Instrs {
						s2, ok := i2.(*ssa.Store)
						if !ok {
							continue
						}
						fa, ok := s2.Addr.(*ssa.FieldAddr)
						// the sentinel is the list value itself or a node held by value inside it
						if !ok || addrKey(fa.X) == "" || (addrKey(fa.X) != base && !strings.HasPrefix(addrKey(fa.X), base+".")) {
							continue
						}
						fs := fa.X.Type().Underlying().(*types.Pointer).Elem().Underlying().(*types.Struct)
						if reaches(st, s2) {
							linked[core.FieldName(fs, fa.Field)] = true
						}
					}
				}
				fkey := core.FuncKey(f)
				if linked["prev"] && linked["next"] {
					r.Ok(".LIST-SENTINEL", p.Pos(st.Pos()), fkey+": the list sentinel is re-linked after the list value is overwritten")
				} else {
					r.Fail(".LIST-SENTINEL", fkey+"|sentinel", p.Pos(st.Pos()), fkey+" overwrites the recency list with a fresh value and does not link the sentinel's prev/next to itself: the next append dereferences nil", "")
				}
			}
		}
	}
	r.Floor("symbol_list_resets", n, 1)
}

// internResult: what symbolCache.get hands out is the key it was asked for:
// on every path its result is a conversion of the parameter, the value of the
// symbol that was found, or the result of a callee for which the same holds -
// never a constant and never a named result that was not assigned.
type irState struct{ assigned valueSet }
type irClient struct {
	p    *core.Prog
	fn   *ssa.Function
	num  *valueNumbering
	bad  string
	memo map[*ssa.Function]string
}

func (k *irClient) Key(s irState) string                              { return s.assigned.key() }
func (k *irClient) Phis(s irState, _ *ssa.BasicBlock, _ int) irState { return s }
func (k *irClient) Branch(s irState, _ ssa.Value, _ bool) (irState, bool) {
	return s, true
}
func (k *irClient) Instr(s irState, in ssa.Instruction) (irState, bool, []irState) {
	if st, ok := in.(*ssa.Store); ok {
		if a, ok := st.Addr.(*ssa.Alloc); ok {
			if w := k.okValue(st.Val, 0); w == "" {
				s.assigned = s.assigned.with(k.num.id(a))
			} else {
				s.assigned = s.assigned.without(k.num.id(a))
			}
		}
	}
	return s, true, nil
}
func (k *irClient) okValue(v ssa.Value, depth int) string {
	if depth > 6 {
		return "is derived too indirectly to follow"
	}
	switch x := v.(type) {
	case *ssa.Parameter:
		return ""
	case *ssa.Const:
		return "is the constant " + x.Value.String()
	case *ssa.Convert:
		return k.okValue(x.X, depth+1)
	case *ssa.ChangeType:
		return k.okValue(x.X, depth+1)
	case *ssa.Phi:
		for _, e := range x.Edges {
			if w := k.okValue(e, depth+1); w != "" {
				return w
			}
		}
		return ""
	case *ssa.UnOp:
		if fa, ok := x.X.(*ssa.FieldAddr); ok {
			if nt := namedOf(fa.X.Type()); nt != nil && core.TypeName(nt) == "symbol" {
				return "" // sym.value
			}
		}
		return "is loaded from memory that is not a symbol's value"
	case *ssa.Call:
		sc := x.Common().StaticCallee()
		if sc == nil {
			return "comes from a dynamic call"
		}
		if core.FuncName(sc) == "bytes2Str" || core.FuncName(sc) == "Bytes2Str" {
			return k.okValue(x.Common().Args[0], depth+1)
		}
		if core.FuncPkg(sc) == core.FuncPkg(k.fn) && sc.Signature.Results().Len() == 1 {
			if w := internResultOf(k.p, sc, k.memo); w != "" {
				return "is the result of " + core.FuncKey(sc) + ", which " + w
			}
			return ""
		}
		return "comes from " + core.FuncKey(sc)
	}
	return fmt.Sprintf("is a %T", v)
}
func (k *irClient) Return(s irState, ret *ssa.Return) {
	if len(ret.Results) == 0 {
		return
	}
	rv := ret.Results[0]
	if ld, ok := rv.(*ssa.UnOp); ok {
		if a, ok := ld.X.(*ssa.Alloc); ok {
			if !s.assigned.has(k.num.id(a)) {
				k.bad = "returns a named result that was not assigned the key on the path to " + k.p.Pos(token.Pos(instrPos(ret)))
			}
			return
		}
	}
	if w := k.okValue(rv, 0); w != "" {
		k.bad = "returns at " + k.p.Pos(token.Pos(instrPos(ret))) + " a value that " + w
	}
}

func internResultOf(p *core.Prog, f *ssa.Function, memo map[*ssa.Function]string) string {
	if v, ok := memo[f]; ok {
		return v
	}
	memo[f] = ""
	if f.Blocks == nil {
		return ""
	}
	k := &irClient{p: p, fn: f, num: newNumbering(), memo: memo}
	WalkPaths[irState](k, f.Blocks[0], 0, irState{}, 100000, nil)
	memo[f] = k.bad
	return k.bad
}

func internResult(p *core.Prog, r *core.Result) {
	get := p.LookupFunc("gotype", "(*symbolCache).get")
	if get == nil {
		r.Undecided(".INTERN-RESULT", "gotype.(*symbolCache).get", "key cache lookup not found")
		return
	}
	if w := internResultOf(p, get, map[*ssa.Function]string{}); w != "" {
		r.Fail(".INTERN-RESULT", "gotype.(*symbolCache).get|result", p.Pos(get.Pos()), "symbolCache.get "+w+": the unfolder stores the element under a key other than the one in the stream", "")
	} else {
		r.Ok(".INTERN-RESULT", p.Pos(get.Pos()), "symbolCache.get returns a copy of its argument or the value of the symbol found, on every path")
	}
}

package rules

import (
	"fmt"
	"go/token"
	"go/types"
	"sort"
	"strings"

	"golang.org/x/tools/go/ssa"

	"sfcheck/internal/core"
)

// R23 GOTYPE-IDIOMS: structural invariants of the unfold side of gotype.
//
// (a) CAP-DATA: the capacity of a slice is an allocation artefact, never data:
//     a value obtained from cap()/reflect.Value.Cap() is only compared or used
//     to size an allocation; it never becomes a length of the target (SetLen,
//     a slice bound, a stored value).
// (b) SHARED-UNFOLDER: unfolder objects are built once per type, cached in the
//     registry (or are package singletons) and shared by every unfold of that
//     type - across documents and, through the shared registry of user
//     unfolders, across goroutines. A method that runs at event time (it takes
//     the *unfoldCtx) therefore never writes into its own receiver; all
//     per-document state lives in the context's stacks.
// (c) COMPLETION-AGREE: for one unfolder state, "a value was completed here"
//     has one meaning. The primitive value events that can succeed agree with
//     each other on the effect on every stack of the context, and with
//     OnChildArrayDone / OnChildObjectDone (the same notification for a
//     container value) on the unfolder stack; OnKey agrees with OnKeyRef.

var r23Primitives = []string{"OnNil", "OnBool", "OnString", "OnStringRef", "OnInt8", "OnInt16", "OnInt32", "OnInt64", "OnInt", "OnByte", "OnUint8", "OnUint16", "OnUint32", "OnUint64", "OnUint", "OnFloat32", "OnFloat64"}

func R23(p *core.Prog) *core.Result {
	r := core.NewResult("R23", "gotype unfold idioms: capacity is never data; cached/shared unfolder objects are not written at event time; value-completion notifications of one unfolder state agree on their stack effect")
	sp := p.SPkgs["gotype"]
	if sp == nil {
		r.Undecided("", "gotype", "package not loaded")
		return r
	}
	capData(p, r)
	nilWrites(p, r)
	ctxNamed := p.Type("gotype", "unfoldCtx")
	if ctxNamed == nil {
		r.Undecided("", "gotype.unfoldCtx", "type not found")
		return r
	}
	sharedUnfolder(p, r, ctxNamed)
	completionAgree(p, r, sp, ctxNamed)
	return r
}

// ---- (a) ----
func capData(p *core.Prog, r *core.Result) {
	n := 0
	for _, f := range p.ModFuncs() {
		pk := core.FuncPkg(f)
		if pk == nil || pk.Name() != "gotype" {
			continue
		}
		for _, b := range f.Blocks {
			for _, in := range b.Instrs {
				c, ok := in.(*ssa.Call)
				if !ok {
					continue
				}
				isCap := false
				if bi, ok := c.Common().Value.(*ssa.Builtin); ok && bi.Name() == "cap" {
					isCap = true
				}
				if sc := c.Common().StaticCallee(); sc != nil && core.FuncName(sc) == "Cap" && sc.Pkg != nil && sc.Pkg.Pkg.Path() == "reflect" {
					isCap = true
				}
				if !isCap {
					continue
				}
				n++
				bad := ""
				seen := map[ssa.Value]bool{}
				var flow func(v ssa.Value)
				flow = func(v ssa.Value) {
					if seen[v] || bad != "" {
						return
					}
					seen[v] = true
					refs := v.Referrers()
					if refs == nil {
						return
					}
					for _, rf := range *refs {
						switch x := rf.(type) {
						case *ssa.DebugRef:
						case *ssa.BinOp:
							switch x.Op {
							case token.EQL, token.NEQ, token.LSS, token.LEQ, token.GTR, token.GEQ:
								// compared: fine
							default:
								flow(x)
							}
						case *ssa.Convert:
							flow(x)
						case *ssa.ChangeType:
							flow(x)
						case *ssa.Phi:
							flow(x)
						case *ssa.MakeSlice:
							// sizes an allocation
						case *ssa.Call:
							if sc := x.Common().StaticCallee(); sc != nil && sc.Pkg != nil && sc.Pkg.Pkg.Path() == "reflect" && (core.FuncName(sc) == "MakeSlice" || core.FuncName(sc) == "Grow" || core.FuncName(sc) == "MakeMapWithSize") {
								continue
							}
							name := "a call"
							if sc := x.Common().StaticCallee(); sc != nil {
								name = core.FuncKey(sc)
							}
							bad = "is passed to " + name + " at " + p.Pos(x.Pos())
						case *ssa.Slice:
							bad = "becomes a slice bound at " + p.Pos(x.Pos())
						default:
							bad = fmt.Sprintf("is used by %T at %s", rf, p.Pos(token.Pos(instrPos(rf))))
						}
					}
				}
				flow(c)
				pos := p.Pos(c.Pos())
				if bad == "" {
					r.Ok(".CAP-DATA", pos, core.FuncKey(f)+": capacity is only compared or sizes an allocation")
				} else {
					r.Fail(".CAP-DATA", core.FuncKey(f)+"|cap", pos, core.FuncKey(f)+": a capacity "+bad+": the spare capacity of the target (stale or zero elements) becomes part of the unfolded value", "")
				}
			}
		}
	}
	r.Floor("capacity_reads_gotype", n, 2)
}

// ---- (b) ----

// ctxParam returns the *unfoldCtx parameter of f (not the receiver), or nil.
func ctxParam(f *ssa.Function, ctxNamed *types.Named) *ssa.Parameter {
	for i, prm := range f.Params {
		if i == 0 && f.Signature.Recv() != nil {
			continue
		}
		if pt, ok := prm.Type().(*types.Pointer); ok && namedOf(pt.Elem()) == ctxNamed {
			return prm
		}
	}
	return nil
}

// rootedAt: addr is an address inside the object v points to, or inside an
// object reachable from it through pointer fields.
func rootedAt(addr ssa.Value, root ssa.Value) bool {
	seen := map[ssa.Value]bool{}
	var walk func(v ssa.Value) bool
	walk = func(v ssa.Value) bool {
		if v == nil || seen[v] {
			return false
		}
		seen[v] = true
		if v == root {
			return true
		}
		switch x := v.(type) {
		case *ssa.FieldAddr:
			return walk(x.X)
		case *ssa.IndexAddr:
			return walk(x.X)
		case *ssa.UnOp:
			if x.Op == token.MUL {
				return walk(x.X)
			}
		case *ssa.Slice:
			return walk(x.X)
		case *ssa.Phi:
			for _, e := range x.Edges {
				if walk(e) {
					return true
				}
			}
		}
		return false
	}
	return walk(addr)
}

func sharedUnfolder(p *core.Prog, r *core.Result, ctxNamed *types.Named) {
	n := 0
	for _, f := range p.ModFuncs() {
		pk := core.FuncPkg(f)
		if pk == nil || pk.Name() != "gotype" || f.Signature.Recv() == nil || len(f.Params) == 0 {
			continue
		}
		recvPtr, ok := f.Params[0].Type().(*types.Pointer)
		if !ok {
			continue
		}
		rn := namedOf(recvPtr.Elem())
		if rn == nil || rn == ctxNamed {
			continue
		}
		if _, isStruct := rn.Underlying().(*types.Struct); !isStruct {
			continue
		}
		if ctxParam(f, ctxNamed) == nil {
			continue
		}
		// embedding wrappers of the context (Unfolder embeds unfoldCtx) are not unfolder objects
		if st := rn.Underlying().(*types.Struct); st.NumFields() > 0 && st.Field(0).Embedded() && namedOf(st.Field(0).Type()) == ctxNamed {
			continue
		}
		n++
		recv := ssa.Value(f.Params[0])
		bad := ""
		for _, b := range f.Blocks {
			for _, in := range b.Instrs {
				switch x := in.(type) {
				case *ssa.Store:
					if x.Addr != recv && rootedAt(x.Addr, recv) {
						bad = "stores into its receiver at " + p.Pos(x.Pos())
					}
				case *ssa.MapUpdate:
					if rootedAt(x.Map, recv) {
						bad = "updates a map of its receiver at " + p.Pos(x.Pos())
					}
				}
			}
		}
		fkey := core.FuncKey(f)
		if bad == "" {
			r.Ok(".SHARED-UNFOLDER", p.Pos(f.Pos()), fkey+": event-time method leaves its (cached, shared) receiver untouched")
		} else {
			r.Fail(".SHARED-UNFOLDER", fkey+"|recv-write", p.Pos(f.Pos()), fkey+" "+bad+": unfolder objects are cached per type and shared by all unfolds of that type (other documents, other goroutines); per-document state belongs on the context's stacks", "")
		}
	}
	r.Floor("event_time_unfolder_methods", n, 300)
}

// ---- (c) ----

type cdState struct {
	d      map[string]int
	top    bool
	nonnil valueSet
}

func (s cdState) add(f string, d int) cdState {
	n := make(map[string]int, len(s.d)+1)
	for k, v := range s.d {
		n[k] = v
	}
	n[f] += d
	if n[f] > 4 || n[f] < -4 {
		s.top = true
	}
	if n[f] == 0 {
		delete(n, f)
	}
	s.d = n
	return s
}

type cdCtx struct {
	p        *core.Prog
	ctxNamed *types.Named
	sums     map[*ssa.Function]map[string]map[string]int // nil entry: unknown
	busy     map[*ssa.Function]bool
}

type cdClient struct {
	c   *cdCtx
	fn  *ssa.Function
	ctx ssa.Value
	num *valueNumbering
	out map[string]map[string]int
	top bool
}

func (k *cdClient) Key(s cdState) string {
	return fmt.Sprintf("%s|%v|%s", deltaKey(s.d), s.top, s.nonnil.key())
}
func (k *cdClient) Phis(s cdState, blk *ssa.BasicBlock, pred int) cdState {
	type upd struct {
		id     int
		nonnil bool
	}
	var ups []upd
	for _, in := range blk.Instrs {
		phi, ok := in.(*ssa.Phi)
		if !ok {
			break
		}
		if pred < 0 || pred >= len(phi.Edges) {
			continue
		}
		e := phi.Edges[pred]
		ups = append(ups, upd{k.num.id(phi), s.nonnil.has(k.num.id(e)) || definitelyNonNilError(e)})
	}
	for _, u := range ups {
		s.nonnil = s.nonnil.without(u.id)
		if u.nonnil {
			s.nonnil = s.nonnil.with(u.id)
		}
	}
	return s
}

// ctxField: addr is &ctx.F... for the context of this function; returns F.
func (k *cdClient) ctxField(addr ssa.Value) string {
	for {
		switch x := addr.(type) {
		case *ssa.FieldAddr:
			if x.X == k.ctx {
				st := x.X.Type().Underlying().(*types.Pointer).Elem().Underlying().(*types.Struct)
				return core.FieldName(st, x.Field)
			}
			addr = x.X
		default:
			return ""
		}
	}
}

func (k *cdClient) Instr(s cdState, in ssa.Instruction) (cdState, bool, []cdState) {
	c, ok := in.(*ssa.Call)
	if !ok {
		return s, true, nil
	}
	cc := c.Common()
	if cc.IsInvoke() {
		// dynamic dispatch: symbolic effect, if the context is handed over
		for _, a := range cc.Args {
			if a == k.ctx {
				return s.add("invoke:"+cc.Method.Name(), 1), true, nil
			}
		}
		return s, true, nil
	}
	sc := cc.StaticCallee()
	if sc == nil {
		for _, a := range cc.Args {
			if a == k.ctx {
				s.top = true
			}
		}
		return s, true, nil
	}
	if (core.FuncName(sc) == "push" || core.FuncName(sc) == "pop") && sc.Signature.Recv() != nil && len(cc.Args) > 0 {
		if f := k.ctxField(cc.Args[0]); f != "" {
			d := 1
			if core.FuncName(sc) == "pop" {
				d = -1
			}
			return s.add(f, d), true, nil
		}
	}
	// a callee that receives the context
	passes := false
	for _, a := range cc.Args {
		if a == k.ctx {
			passes = true
		}
	}
	if !passes {
		return s, true, nil
	}
	sum := k.c.summary(sc)
	if sum == nil {
		s.top = true
		return s, true, nil
	}
	var outs []cdState
	for _, dk := range sortedKeys(sum) {
		ns := s
		for f, d := range sum[dk] {
			ns = ns.add(f, d)
		}
		outs = append(outs, ns)
	}
	if len(outs) == 0 {
		return s, false, nil // callee only fails
	}
	return outs[0], true, outs[1:]
}

func (k *cdClient) Branch(s cdState, cond ssa.Value, outcome bool) (cdState, bool) {
	if x, trueMeansNil, ok := nilTest(cond); ok && isErrorType(x.Type()) {
		isNil := outcome == trueMeansNil
		if isNil && s.nonnil.has(k.num.id(x)) {
			return s, false
		}
		if !isNil {
			s.nonnil = s.nonnil.with(k.num.id(x))
		}
	}
	return s, true
}

func (k *cdClient) Return(s cdState, ret *ssa.Return) {
	if ei := errResultIndex(k.fn.Signature); ei >= 0 {
		rv := ret.Results[ei]
		if definitelyNonNilError(rv) || s.nonnil.has(k.num.id(rv)) {
			return
		}
		// a direct return of a callee that only fails
		if call, ok := rv.(*ssa.Call); ok {
			if sc := call.Common().StaticCallee(); sc != nil && alwaysErrors(sc, map[*ssa.Function]bool{}) {
				return
			}
		}
	}
	if s.top {
		k.top = true
		return
	}
	k.out[deltaKey(s.d)] = s.d
}

// alwaysErrors: every return of f yields a definitely non-nil error.
func alwaysErrors(f *ssa.Function, busy map[*ssa.Function]bool) bool {
	ei := errResultIndex(f.Signature)
	if ei < 0 || f.Blocks == nil || busy[f] {
		return false
	}
	busy[f] = true
	defer delete(busy, f)
	for _, b := range f.Blocks {
		for _, in := range b.Instrs {
			ret, ok := in.(*ssa.Return)
			if !ok {
				continue
			}
			v := ret.Results[ei]
			if definitelyNonNilError(v) {
				continue
			}
			if call, ok := v.(*ssa.Call); ok {
				if sc := call.Common().StaticCallee(); sc != nil && alwaysErrors(sc, busy) {
					continue
				}
			}
			if ex, ok := v.(*ssa.Extract); ok {
				if call, ok := ex.Tuple.(*ssa.Call); ok {
					if sc := call.Common().StaticCallee(); sc != nil && alwaysErrors(sc, busy) {
						continue
					}
				}
			}
			return false
		}
	}
	return true
}

// summary: success-path delta vectors of f on the stacks of the context it receives.
func (c *cdCtx) summary(f *ssa.Function) map[string]map[string]int {
	if s, ok := c.sums[f]; ok {
		return s
	}
	if c.busy[f] || f.Blocks == nil {
		return nil
	}
	var ctx ssa.Value
	if f.Signature.Recv() != nil && len(f.Params) > 0 {
		if pt, ok := f.Params[0].Type().(*types.Pointer); ok && namedOf(pt.Elem()) == c.ctxNamed {
			ctx = f.Params[0]
		}
	}
	if ctx == nil {
		if prm := ctxParam(f, c.ctxNamed); prm != nil {
			ctx = prm
		}
	}
	if ctx == nil {
		return nil
	}
	c.busy[f] = true
	defer delete(c.busy, f)
	k := &cdClient{c: c, fn: f, ctx: ctx, num: newNumbering(), out: map[string]map[string]int{}}
	_, capped := WalkPaths[cdState](k, f.Blocks[0], 0, cdState{}, 100000, nil)
	if capped || k.top {
		c.sums[f] = nil
		return nil
	}
	c.sums[f] = k.out
	return k.out
}

// normDeleg drops the pair "initState + the same primitive event re-delivered
// to the freshly pushed child state": a delegating state (pointer, interface,
// map element) handles a primitive by installing the child state and handing
// it the event; the child pops what its initState pushed (checked for the
// child's own type), so the pair is net zero.
func normDeleg(m map[string]map[string]int) map[string]map[string]int {
	out := map[string]map[string]int{}
	for _, v := range m {
		d := map[string]int{}
		for k, x := range v {
			d[k] = x
		}
		if d["invoke:initState"] == 1 {
			for _, ev := range append([]string{"<same event>"}, r23Primitives...) {
				if d["invoke:"+ev] == 1 {
					delete(d, "invoke:"+ev)
					delete(d, "invoke:initState")
					break
				}
			}
		}
		out[deltaKey(d)] = d
	}
	return out
}

func vecString(m map[string]map[string]int) string {
	m = normDeleg(m)
	var ks []string
	for k := range m {
		if k == "" {
			k = "0"
		}
		ks = append(ks, "{"+k+"}")
	}
	sort.Strings(ks)
	return strings.Join(ks, " or ")
}

// restrict keeps only the named stack in every vector.
func restrict(m map[string]map[string]int, field string) map[string]map[string]int {
	out := map[string]map[string]int{}
	for _, v := range m {
		d := map[string]int{}
		if x, ok := v[field]; ok {
			d[field] = x
		}
		out[deltaKey(d)] = d
	}
	return out
}

func completionAgree(p *core.Prog, r *core.Result, sp *ssa.Package, ctxNamed *types.Named) {
	c := &cdCtx{p: p, ctxNamed: ctxNamed, sums: map[*ssa.Function]map[string]map[string]int{}, busy: map[*ssa.Function]bool{}}
	ifaceNamed := p.Type("gotype", "unfolder")
	if ifaceNamed == nil {
		r.Undecided(".COMPLETION-AGREE", "gotype.unfolder", "interface not found")
		return
	}
	iface, _ := ifaceNamed.Underlying().(*types.Interface)
	if iface == nil {
		r.Undecided(".COMPLETION-AGREE", "gotype.unfolder", "not an interface")
		return
	}
	var names []string
	for n, m := range sp.Members {
		if t, ok := m.(*ssa.Type); ok {
			if _, isStruct := t.Type().Underlying().(*types.Struct); isStruct && types.Implements(types.NewPointer(t.Type()), iface) {
				names = append(names, n)
			}
		}
	}
	sort.Strings(names)
	types_, checked := 0, 0
	for _, tn := range names {
		T := sp.Type(tn).Type()
		mset := p.SSA.MethodSets.MethodSet(types.NewPointer(T))
		get := func(name string) (*ssa.Function, map[string]map[string]int, bool) {
			sel := mset.Lookup(sp.Pkg, name)
			if sel == nil {
				return nil, nil, false
			}
			f := p.SSA.MethodValue(sel)
			if f == nil {
				return nil, nil, false
			}
			// promoted methods: analyse the declared method they wrap
			for f.Synthetic != "" && len(f.Blocks) == 1 {
				var inner *ssa.Function
				for _, in := range f.Blocks[0].Instrs {
					if call, ok := in.(*ssa.Call); ok {
						inner = call.Common().StaticCallee()
					}
				}
				if inner == nil || inner == f {
					break
				}
				f = inner
			}
			sum := c.summary(f)
			if sum == nil {
				return f, nil, false
			}
			// forwarding the very same event to another consumer is the same act for every event
			ren := map[string]map[string]int{}
			for _, v := range sum {
				d := map[string]int{}
				for k, x := range v {
					if k == "invoke:"+name {
						k = "invoke:<same event>"
					}
					d[k] = x
				}
				ren[deltaKey(d)] = d
			}
			return f, ren, true
		}
		types_++
		// primitives
		var ref map[string]map[string]int
		refName := ""
		agree := true
		undec := ""
		for _, ev := range r23Primitives {
			f, sum, ok := get(ev)
			if f == nil {
				continue
			}
			if !ok {
				undec = ev
				continue
			}
			if len(sum) == 0 {
				continue // only fails in this state
			}
			if ref == nil {
				ref, refName = sum, ev
				continue
			}
			if vecString(sum) != vecString(ref) {
				agree = false
				r.Fail(".COMPLETION-AGREE", fmt.Sprintf("gotype.%s|%s~%s", tn, ev, refName), p.Pos(f.Pos()), fmt.Sprintf("gotype.(*%s): %s moves the context stacks by %s but %s by %s: the primitive value events of one unfolder state disagree on what completing a value does to the stacks (an entry leaks or an extra entry is dropped for one of them)", tn, ev, vecString(sum), refName, vecString(ref)), "")
			}
		}
		if undec != "" {
			r.Undecided(".COMPLETION-AGREE", "gotype."+tn+"|"+undec, "stack effect of "+tn+"."+undec+" is not a bounded delta")
		}
		// child-done notifications
		for _, ev := range []string{"OnChildArrayDone", "OnChildObjectDone"} {
			f, sum, ok := get(ev)
			if f == nil || ref == nil {
				continue
			}
			if !ok {
				r.Undecided(".COMPLETION-AGREE", "gotype."+tn+"|"+ev, "stack effect of "+tn+"."+ev+" is not a bounded delta")
				continue
			}
			if len(sum) == 0 {
				continue
			}
			a, b := restrict(sum, "unfolder"), restrict(ref, "unfolder")
			if vecString(a) != vecString(b) {
				agree = false
				r.Fail(".COMPLETION-AGREE", fmt.Sprintf("gotype.%s|%s~%s", tn, ev, refName), p.Pos(f.Pos()), fmt.Sprintf("gotype.(*%s): %s moves the unfolder stack by %s but a completed primitive value (%s) by %s: a completed container value and a completed primitive value must leave this state the same way", tn, ev, vecString(a), refName, vecString(b)), "")
			}
		}
		// keys
		fk, sk, okk := get("OnKey")
		fr, srr, okr := get("OnKeyRef")
		if fk != nil && fr != nil && okk && okr && len(sk) > 0 && len(srr) > 0 {
			if vecString(sk) != vecString(srr) {
				agree = false
				r.Fail(".COMPLETION-AGREE", fmt.Sprintf("gotype.%s|OnKey~OnKeyRef", tn), p.Pos(fr.Pos()), fmt.Sprintf("gotype.(*%s): OnKey moves the context stacks by %s but OnKeyRef by %s", tn, vecString(sk), vecString(srr)), "")
			}
		}
		if agree && ref != nil {
			checked++
			r.Ok(".COMPLETION-AGREE", p.Pos(sp.Type(tn).Pos()), fmt.Sprintf("gotype.%s: value-completion events agree (%s)", tn, vecString(ref)))
		}
	}
	// COMPLETION-PROPAGATES: some states complete their own value when they are told that their child is
	// done (a pointer to a container, a skipped value): they pop themselves inside OnChild*Done. Their own
	// parent then has a completed value as well and must be told - the driver has to repeat the notification
	// while the unfolder stack keeps shrinking, i.e. the notification sits in a loop.
	{
		var selfCompleting []string
		for _, tn := range names {
			T := sp.Type(tn).Type()
			mset := p.SSA.MethodSets.MethodSet(types.NewPointer(T))
			for _, ev := range []string{"OnChildArrayDone", "OnChildObjectDone"} {
				sel := mset.Lookup(sp.Pkg, ev)
				if sel == nil {
					continue
				}
				f := p.SSA.MethodValue(sel)
				for f != nil && f.Synthetic != "" && len(f.Blocks) == 1 {
					var inner *ssa.Function
					for _, in := range f.Blocks[0].Instrs {
						if call, ok := in.(*ssa.Call); ok {
							inner = call.Common().StaticCallee()
						}
					}
					if inner == nil || inner == f {
						break
					}
					f = inner
				}
				if f == nil {
					continue
				}
				for _, v := range c.summary(f) {
					if v["unfolder"] < 0 {
						selfCompleting = append(selfCompleting, tn+"."+ev)
					}
				}
			}
		}
		sort.Strings(selfCompleting)
		r.Stats["self_completing_child_done_handlers"] = len(selfCompleting)
		for _, pr := range [][2]string{{"OnObjectFinished", "OnChildObjectDone"}, {"OnArrayFinished", "OnChildArrayDone"}} {
			drv := p.LookupFunc("gotype", "(*unfoldCtx)."+pr[0])
			if drv == nil {
				r.Undecided(".COMPLETION-PROPAGATES", "gotype.(*unfoldCtx)."+pr[0], "driver method not found")
				continue
			}
			// the notification may sit in the driver or in a method of the driver it delegates to
			inCycle := func(b *ssa.BasicBlock) bool {
				seen := map[*ssa.BasicBlock]bool{}
				work := append([]*ssa.BasicBlock{}, b.Succs...)
				for len(work) > 0 {
					x := work[len(work)-1]
					work = work[:len(work)-1]
					if seen[x] {
						continue
					}
					seen[x] = true
					if x == b {
						return true
					}
					work = append(work, x.Succs...)
				}
				return false
			}
			var search func(f *ssa.Function, depth int) (bool, bool)
			search = func(f *ssa.Function, depth int) (found, inLoop bool) {
				for _, b := range f.Blocks {
					for _, in := range b.Instrs {
						call, ok := in.(*ssa.Call)
						if !ok {
							continue
						}
						if call.Common().IsInvoke() {
							if call.Common().Method.Name() == pr[1] {
								found = true
								if inCycle(b) {
									inLoop = true
								}
							}
							continue
						}
						sc := call.Common().StaticCallee()
						if sc == nil || depth >= 2 || sc == f || sc.Blocks == nil || sc.Signature.Recv() == nil || f.Signature.Recv() == nil || len(call.Common().Args) == 0 || call.Common().Args[0] != ssa.Value(f.Params[0]) {
							continue
						}
						if namedOf(sc.Signature.Recv().Type()) != namedOf(f.Signature.Recv().Type()) {
							continue
						}
						if fnd, lp := search(sc, depth+1); fnd {
							found = true
							if lp || inCycle(b) {
								inLoop = true
							}
						}
					}
				}
				return
			}
			found, inLoop := search(drv, 0)
			key := core.FuncKey(drv)
			switch {
			case !found:
				r.Undecided(".COMPLETION-PROPAGATES", key, "the driver does not notify the enclosing state at all")
			case len(selfCompleting) == 0 || inLoop:
				r.Ok(".COMPLETION-PROPAGATES", p.Pos(drv.Pos()), fmt.Sprintf("%s repeats %s while the unfolder stack keeps shrinking (%d handlers complete their own state in that notification)", key, pr[1], len(selfCompleting)))
			default:
				ex := selfCompleting[0]
				r.Fail(".COMPLETION-PROPAGATES", key+"|once", p.Pos(drv.Pos()), fmt.Sprintf("%s notifies the enclosing state exactly once, but %d child-done handlers (e.g. %s) complete and remove their own state in that notification: the state enclosing THEM is never told that its value is complete (a **T target stays nil, map[string]*T fails with 'expected object value', stack entries leak)", key, len(selfCompleting), ex), "")
			}
		}
	}

	// UNKNOWN-LEN-CLAMP: all slice start handlers treat an unknown (negative) announced length as 0, so that a
	// target that already holds elements is emptied before the stream's elements are stored (17 siblings: the
	// 16 generated ones and the reflective one). The length that truncates the target is the clamped value
	// (a phi of the parameter and 0), never the raw parameter behind some other guard.
	{
		cnt := 0
		for _, f := range p.ModFuncs() {
			pk := core.FuncPkg(f)
			if pk == nil || pk.Name() != "gotype" || core.FuncName(f) != "OnArrayStart" || len(f.Params) < 3 {
				continue
			}
			var lprm *ssa.Parameter
			for _, prm := range f.Params[1:] {
				if bt, ok := prm.Type().(*types.Basic); ok && bt.Kind() == types.Int {
					lprm = prm
				}
			}
			if lprm == nil {
				continue
			}
			var trunc []ssa.Value
			for _, b := range f.Blocks {
				for _, in := range b.Instrs {
					switch x := in.(type) {
					case *ssa.Slice:
						if x.High != nil {
							trunc = append(trunc, x.High)
						}
					case *ssa.Call:
						if sc := x.Common().StaticCallee(); sc != nil && core.FuncName(sc) == "SetLen" && funcPkgPath(sc) == "reflect" && len(x.Common().Args) == 2 {
							trunc = append(trunc, x.Common().Args[1])
						}
					}
				}
			}
			if len(trunc) == 0 {
				continue
			}
			cnt++
			bad := false
			for _, v := range trunc {
				if v == ssa.Value(lprm) {
					bad = true
				}
			}
			fkey := core.FuncKey(f)
			if bad {
				r.Fail(".UNKNOWN-LEN-CLAMP", fkey+"|len", p.Pos(f.Pos()), fkey+" truncates the target with the raw announced length instead of the length clamped to 0 for 'unknown' (-1), unlike its sibling slice unfolders: for a producer that does not know the length (the JSON parser) elements the target already held survive behind the stream's elements", "")
			} else {
				r.Ok(".UNKNOWN-LEN-CLAMP", p.Pos(f.Pos()), fkey+": truncates the target with the clamped length")
			}
		}
		r.Floor("slice_start_handlers", cnt, 15)
	}

	// INIT-BALANCE: an event that removes every unfolder frame its state's
	// initialiser pushed completes the value; it must then also remove
	// everything else the initialiser pushed (pointer, value, index, ...).
	inits := 0
	for _, f := range p.ModFuncs() {
		pk := core.FuncPkg(f)
		if pk == nil || pk.Name() != "gotype" || f.Signature.Recv() == nil || strings.HasPrefix(core.FuncName(f), "On") || ctxParam(f, ctxNamed) == nil {
			continue
		}
		var top types.Type
		lastPos := token.NoPos
		ctx := ssa.Value(ctxParam(f, ctxNamed))
		for _, b := range f.Blocks {
			for _, in := range b.Instrs {
				call, ok := in.(*ssa.Call)
				if !ok {
					continue
				}
				sc := call.Common().StaticCallee()
				if sc == nil || core.FuncName(sc) != "push" || len(call.Common().Args) < 2 {
					continue
				}
				fa, ok := call.Common().Args[0].(*ssa.FieldAddr)
				if !ok || fa.X != ctx || core.FieldName(fa.X.Type().Underlying().(*types.Pointer).Elem().Underlying().(*types.Struct), fa.Field) != "unfolder" {
					continue
				}
				var ct types.Type
				switch a := call.Common().Args[1].(type) {
				case *ssa.MakeInterface:
					ct = a.X.Type()
				case *ssa.ChangeInterface:
					ct = nil
				}
				if call.Pos() > lastPos {
					lastPos, top = call.Pos(), ct
				}
			}
		}
		if lastPos == token.NoPos || top == nil {
			continue
		}
		tp, ok := top.(*types.Pointer)
		if !ok || namedOf(tp.Elem()) == nil {
			continue
		}
		initSum := c.summary(f)
		if initSum == nil || len(initSum) != 1 {
			continue
		}
		var vi map[string]int
		for _, v := range initSum {
			vi = v
		}
		hasInvoke := false
		for k := range vi {
			if strings.HasPrefix(k, "invoke:") {
				hasInvoke = true
			}
		}
		if hasInvoke || vi["unfolder"] <= 0 {
			continue
		}
		inits++
		mset := p.SSA.MethodSets.MethodSet(tp)
		bad := ""
		for _, ev := range append(append([]string{}, r23Primitives...), "OnArrayFinished", "OnObjectFinished") {
			sel := mset.Lookup(sp.Pkg, ev)
			if sel == nil {
				continue
			}
			mf := p.SSA.MethodValue(sel)
			for mf != nil && mf.Synthetic != "" && len(mf.Blocks) == 1 {
				var inner *ssa.Function
				for _, in := range mf.Blocks[0].Instrs {
					if call, ok := in.(*ssa.Call); ok {
						inner = call.Common().StaticCallee()
					}
				}
				if inner == nil || inner == mf {
					break
				}
				mf = inner
			}
			if mf == nil {
				continue
			}
			sum := c.summary(mf)
			for _, v := range sum {
				if v["unfolder"] < -vi["unfolder"] {
					inv := false
					for k := range v {
						if strings.HasPrefix(k, "invoke:") {
							inv = true
						}
					}
					if !inv {
						bad = fmt.Sprintf("%s pushes {%s}; %s.%s moves the unfolder stack by %d on some path, more frames than the initialiser pushed: it removes states that belong to an enclosing value, which then never sees the rest of its own events", core.FuncKey(f), deltaKey(vi), core.TypeName(namedOf(tp.Elem())), ev, v["unfolder"])
					}
					continue
				}
				if v["unfolder"] != -vi["unfolder"] {
					continue
				}
				inv := false
				for k := range v {
					if strings.HasPrefix(k, "invoke:") {
						inv = true
					}
				}
				if inv {
					continue
				}
				res := map[string]int{}
				for k, x := range vi {
					res[k] += x
				}
				for k, x := range v {
					res[k] += x
				}
				for k, x := range res {
					if x == 0 {
						delete(res, k)
					}
				}
				if len(res) != 0 {
					bad = fmt.Sprintf("%s pushes {%s}; %s.%s removes all of its unfolder frames (completing the value) but moves the stacks by {%s}: {%s} is left behind", core.FuncKey(f), deltaKey(vi), core.TypeName(namedOf(tp.Elem())), ev, deltaKey(v), deltaKey(res))
				}
			}
		}
		if bad == "" {
			r.Ok(".INIT-BALANCE", p.Pos(f.Pos()), core.FuncKey(f)+": every event that completes the pushed state pops everything the initialiser pushed")
		} else {
			r.Fail(".INIT-BALANCE", core.FuncKey(f)+"|balance", p.Pos(f.Pos()), bad, "")
		}
	}
	r.Floor("state_initialisers", inits, 20)
	r.Stats["unfolder_state_types"] = types_
	r.Floor("unfolder_states_with_value_events", checked, 40)
}


// nilWrites (NIL-WRITES): a reflective unfolder state (one whose value events
// work on the target through package reflect) that accepts null writes the
// target - the zero value, an entry - with a reflect setter, itself or through
// a method of the same type. A null that only pops the state leaves whatever
// the target held before: a non-nil pointer from the previous document, say.
func nilWrites(p *core.Prog, r *core.Result) {
	sp := p.SPkgs["gotype"]
	isSetter := func(sc *ssa.Function) bool {
		return sc != nil && funcPkgPath(sc) == "reflect" && (strings.HasPrefix(sc.Name(), "Set") || sc.Name() == "Append")
	}
	var usesReflectD func(f *ssa.Function, depth int) bool
	usesReflectD = func(f *ssa.Function, depth int) bool {
		if f == nil || f.Blocks == nil || depth > 2 {
			return false
		}
		for _, b := range f.Blocks {
			for _, in := range b.Instrs {
				if c, ok := in.(ssa.CallInstruction); ok {
					sc := c.Common().StaticCallee()
					if sc != nil && funcPkgPath(sc) == "reflect" {
						return true
					}
					if sc != nil && sc.Signature.Recv() != nil && f.Signature.Recv() != nil && namedOf(sc.Signature.Recv().Type()) == namedOf(f.Signature.Recv().Type()) && usesReflectD(sc, depth+1) {
						return true
					}
				}
			}
		}
		return false
	}
	usesReflect := func(f *ssa.Function) bool { return usesReflectD(f, 0) }
	var writes func(f *ssa.Function, depth int) bool
	writes = func(f *ssa.Function, depth int) bool {
		if f == nil || f.Blocks == nil || depth > 2 {
			return false
		}
		for _, b := range f.Blocks {
			for _, in := range b.Instrs {
				c, ok := in.(ssa.CallInstruction)
				if !ok {
					continue
				}
				sc := c.Common().StaticCallee()
				if isSetter(sc) {
					return true
				}
				if sc != nil && sc.Signature.Recv() != nil && f.Signature.Recv() != nil && namedOf(sc.Signature.Recv().Type()) == namedOf(f.Signature.Recv().Type()) && writes(sc, depth+1) {
					return true
				}
			}
		}
		return false
	}
	n := 0
	var names []string
	for name, m := range sp.Members {
		if _, ok := m.(*ssa.Type); ok {
			names = append(names, name)
		}
	}
	sort.Strings(names)
	for _, tn := range names {
		T := sp.Type(tn).Type()
		mset := p.SSA.MethodSets.MethodSet(types.NewPointer(T))
		sel := mset.Lookup(sp.Pkg, "OnNil")
		if sel == nil {
			continue
		}
		onNil := p.SSA.MethodValue(sel)
		if onNil == nil || onNil.Blocks == nil || onNil.Synthetic != "" || namedOf(onNil.Signature.Recv().Type()) == nil || namedOf(onNil.Signature.Recv().Type()).Obj().Name() != tn {
			continue
		}
		// a reflective state: OnNil itself or its scalar siblings call into reflect
		reflective := usesReflect(onNil)
		for _, ev := range []string{"OnBool", "OnInt", "OnString"} {
			if s2 := mset.Lookup(sp.Pkg, ev); s2 != nil {
				if f2 := p.SSA.MethodValue(s2); f2 != nil && f2.Blocks != nil && f2.Synthetic == "" && usesReflect(f2) {
					reflective = true
				}
			}
		}
		if !reflective || alwaysErrors(onNil, map[*ssa.Function]bool{}) {
			continue
		}
		// a state that hands the null on (to the user's state, to a child) is not the one that writes
		delegates := false
		for _, b := range onNil.Blocks {
			for _, in := range b.Instrs {
				if c, ok := in.(ssa.CallInstruction); ok {
					if c.Common().IsInvoke() && c.Common().Method.Name() == "OnNil" {
						delegates = true
					}
					if sc := c.Common().StaticCallee(); sc != nil && sc.Name() == "OnNil" && sc != onNil {
						delegates = true
					}
				}
			}
		}
		if delegates {
			continue
		}
		n++
		fkey := core.FuncKey(onNil)
		if writes(onNil, 0) {
			r.Ok(".NIL-WRITES", p.Pos(onNil.Pos()), fkey+": null is written to the target through a reflect setter")
		} else {
			r.Fail(".NIL-WRITES", fkey, p.Pos(onNil.Pos()), fkey+" accepts null without writing the target (no reflect setter is reached): the target keeps what it held before - a non-nil pointer filled by the previous document stays, although the stream says null", "")
		}
	}
	r.Floor("reflective_null_handlers", n, 2)
}

package rules

import (
	"fmt"
	"go/token"
	"go/types"

	"golang.org/x/tools/go/ssa"

	"sfcheck/internal/core"
)

// guardedCount discharges a LEN-EXACT obligation of this shape:
//
//	func parent(fields []F, exact bool) F {
//		members := makeFieldsFold(fields)      // (b) one call per entry of fields
//		count := -1
//		if exact { count = len(fields) }       // (a) len(fields) only under the flag
//		return func(...) { OnObjectStart(count); members(...); OnObjectFinished() }
//	}
//
// when (c) every caller passes (fields, exact) as results #0/#1 of one call of
// a collector G, (d) G returns exact=false whenever it appended a folder whose
// builder did not say "exactly one member", and (e) the builder H says so
// only together with a folder of effect type P. Returns "" if all premises
// hold, "n/a" if the start event does not have this shape, else the premise
// that fails.
func guardedCount(p *core.Prog, env *r10env, closure *ssa.Function, cf *countedFrame) string {
	if cf == nil || cf.lenArg == nil || closure.Parent() == nil {
		return "n/a"
	}
	parent := closure.Parent()
	// the length argument is a captured variable (by reference: a load of a free variable)
	var fv *ssa.FreeVar
	switch x := cf.lenArg.(type) {
	case *ssa.FreeVar:
		fv = x
	case *ssa.UnOp:
		if x.Op == token.MUL {
			fv, _ = x.X.(*ssa.FreeVar)
		}
	}
	if fv == nil {
		return "n/a"
	}
	binding := func(v *ssa.FreeVar) ssa.Value {
		idx := -1
		for i, f := range closure.FreeVars {
			if f == v {
				idx = i
			}
		}
		if idx < 0 {
			return nil
		}
		for _, b := range parent.Blocks {
			for _, in := range b.Instrs {
				if mc, ok := in.(*ssa.MakeClosure); ok && mc.Fn == ssa.Value(closure) && idx < len(mc.Bindings) {
					return mc.Bindings[idx]
				}
			}
		}
		return nil
	}
	cnt, _ := binding(fv).(*ssa.Alloc)
	if cnt == nil {
		return "n/a"
	}
	// (a) stores into the count: -1, and len(S) under `if F`, with S and F parameters of the parent or fields of
	// one struct parameter
	type comp struct {
		root ssa.Value
		path string
	}
	var sliceC, flagC *comp
	refs := cnt.Referrers()
	if refs == nil {
		return "n/a"
	}
	for _, rf := range *refs {
		st, ok := rf.(*ssa.Store)
		if !ok || st.Addr != ssa.Value(cnt) {
			continue
		}
		if c, ok := constIntVal(st.Val); ok {
			if c != -1 {
				return fmt.Sprintf("(a) the captured count is set to the constant %d", c)
			}
			continue
		}
		root, _ := lenRoot(st.Val)
		var sc *comp
		if root != nil {
			if rt, pth, ok := resolveRoot(root, 0); ok {
				if _, isPrm := rt.(*ssa.Parameter); isPrm {
					sc = &comp{rt, pth}
				}
			}
		}
		if sc == nil {
			return "(a) the captured count is set to something other than -1 or len(<slice parameter>)"
		}
		sliceC = sc
		// dominated by the true edge of If(<bool parameter or bool field of a parameter>)
		guarded := false
		for _, b := range parent.Blocks {
			ifi, ok := b.Instrs[len(b.Instrs)-1].(*ssa.If)
			if !ok {
				continue
			}
			rt, pth, ok := resolveRoot(ifi.Cond, 0)
			if !ok {
				continue
			}
			if _, isPrm := rt.(*ssa.Parameter); !isPrm {
				continue
			}
			if b.Succs[0].Dominates(st.Block()) && len(b.Succs[0].Preds) == 1 {
				guarded, flagC = true, &comp{rt, pth}
			}
		}
		if !guarded {
			return "(a) the length of the folder slice is stored into the captured count without the guard of a bool parameter"
		}
	}
	if sliceC == nil || flagC == nil {
		return "n/a"
	}
	// (b) the members are produced by one P* non-terminal: a closure made by F(slice) that calls each entry once
	if len(cf.pairNT) != 1 {
		return fmt.Sprintf("(b) the members are produced by %d pair folders, expected exactly one over the counted slice", len(cf.pairNT))
	}
	var mfv *ssa.FreeVar
	switch x := cf.pairNT[0].Common().Value.(type) {
	case *ssa.FreeVar:
		mfv = x
	case *ssa.UnOp:
		mfv, _ = x.X.(*ssa.FreeVar)
	}
	if mfv == nil {
		return "(b) the member folder is not a captured variable"
	}
	mb := binding(mfv)
	if a, ok := mb.(*ssa.Alloc); ok {
		vals := storedInto(a)
		if len(vals) != 1 {
			return "(b) the captured member folder is assigned more than once"
		}
		mb = vals[0]
	}
	mcall, _ := mb.(*ssa.Call)
	if mcall == nil || mcall.Common().StaticCallee() == nil || len(mcall.Common().Args) != 1 {
		return "(b) the member folder is not built by a call F(<the counted slice>)"
	}
	if rt, pth, ok := resolveRoot(mcall.Common().Args[0], 0); !ok || rt != sliceC.root || pth != sliceC.path {
		return "(b) the member folder is not built by a call F(<the counted slice>) over the slice whose length is announced"
	}
	builder := mcall.Common().StaticCallee()
	if why := callsEachEntryOnce(builder); why != "" {
		return "(b) " + core.FuncKey(builder) + ": " + why
	}
	// (c) callers pass the slice and the flag as components of the result of one collector call
	var collector *ssa.Function
	collSlice, collFlag := "", ""
	callers := 0
	argComp := func(args []ssa.Value, c *comp) (ssa.Value, string, bool) {
		for i, prm := range parent.Params {
			if ssa.Value(prm) != c.root || i >= len(args) {
				continue
			}
			rt, pth, ok := resolveRoot(args[i], 0)
			if !ok {
				return nil, "", false
			}
			if c.path != "" {
				pth += "." + c.path
			}
			return rt, pth, true
		}
		return nil, "", false
	}
	for _, g := range p.ModFuncs() {
		for _, b := range g.Blocks {
			for _, in := range b.Instrs {
				c, ok := in.(*ssa.Call)
				if !ok || c.Common().StaticCallee() != parent {
					continue
				}
				callers++
				args := c.Common().Args
				r0, p0, ok0 := argComp(args, sliceC)
				r1, p1, ok1 := argComp(args, flagC)
				if !ok0 || !ok1 || r0 != r1 || p0 == p1 {
					return "(c) " + core.FuncKey(g) + " does not pass the slice and the flag as results of one call"
				}
				cc, _ := r0.(*ssa.Call)
				if cc == nil || cc.Common().StaticCallee() == nil {
					return "(c) the collector is not a static call"
				}
				if collector != nil && (collector != cc.Common().StaticCallee() || collSlice != p0 || collFlag != p1) {
					return "(c) different collectors feed " + core.FuncKey(parent)
				}
				collector, collSlice, collFlag = cc.Common().StaticCallee(), p0, p1
			}
		}
	}
	if callers == 0 || collector == nil {
		return "(c) no caller of " + core.FuncKey(parent) + " found"
	}
	// (d) the collector's flag discipline
	builderH, hFolder, hFlag, why := collectorDiscipline(p, collector, collFlag)
	if why != "" {
		return "(d) " + core.FuncKey(collector) + ": " + why
	}
	// (e) the field builder says "exactly one" only together with a P folder
	n := 0
	for _, b := range builderH.Blocks {
		for _, in := range b.Instrs {
			ret, ok := in.(*ssa.Return)
			if !ok {
				continue
			}
			fl, zero, ok := returnComponent(ret, hFlag)
			if !ok {
				return fmt.Sprintf("(e) %s: the 'exactly one member' flag returned at %s cannot be followed", core.FuncKey(builderH), p.Pos(token.Pos(instrPos(ret))))
			}
			if zero {
				continue
			}
			if cv, ok := constBool(fl); ok && !cv {
				continue
			}
			n++
			fv, fzero, ok := returnComponent(ret, hFolder)
			var t etype
			if ok && !fzero {
				t, ok = env.typeOf(fv)
			}
			if !ok || fzero || t != etP {
				return fmt.Sprintf("(e) %s returns 'exactly one member' at %s together with a folder of effect type %q (must be P)", core.FuncKey(builderH), p.Pos(token.Pos(instrPos(ret))), t)
			}
		}
	}
	if n == 0 {
		return "(e) " + core.FuncKey(builderH) + " never returns 'exactly one member'"
	}
	return ""
}

// callsEachEntryOnce: f returns a closure that ranges over f's slice
// parameter and calls each entry exactly once per iteration, nothing else.
func callsEachEntryOnce(f *ssa.Function) string {
	if len(f.AnonFuncs) != 1 || len(f.Params) != 1 {
		return "not a one-closure builder over one slice"
	}
	c := f.AnonFuncs[0]
	calls := 0
	for _, b := range c.Blocks {
		for _, in := range b.Instrs {
			call, ok := in.(*ssa.Call)
			if !ok {
				continue
			}
			if _, isB := call.Common().Value.(*ssa.Builtin); isB {
				continue
			}
			ld, ok := call.Common().Value.(*ssa.UnOp)
			if !ok {
				return "calls something other than an entry of the slice"
			}
			ia, ok := ld.X.(*ssa.IndexAddr)
			if !ok {
				return "calls something other than an entry of the slice"
			}
			// the indexed slice is the captured parameter
			okSlice := false
			for _, o := range origins(ia.X) {
				if fv, ok := o.(*ssa.FreeVar); ok {
					_ = fv
					okSlice = true
				}
			}
			if !okSlice {
				return "indexes something other than the captured slice"
			}
			// inside a loop
			inLoop := false
			for pi := range b.Preds {
				_ = pi
			}
			seen := map[*ssa.BasicBlock]bool{}
			work := append([]*ssa.BasicBlock{}, b.Succs...)
			for len(work) > 0 {
				x := work[len(work)-1]
				work = work[:len(work)-1]
				if seen[x] {
					continue
				}
				seen[x] = true
				if x == b {
					inLoop = true
				}
				work = append(work, x.Succs...)
			}
			if !inLoop {
				return "calls an entry outside the loop"
			}
			calls++
		}
	}
	if calls != 1 {
		return fmt.Sprintf("%d entry calls per iteration, expected 1", calls)
	}
	return ""
}

// collectorDiscipline: g appends result #0 of a builder call to the slice it
// returns and returns flag=false whenever an appended folder came with result
// #1 (exactly one member) not known to be true. Returns the builder.
type cdiState struct {
	one     int8 // 0 unknown, 1 true, 2 false (for the latest builder call)
	tainted bool
	kf      valueSet // values known to be false
}
type cdiClient struct {
	num     *valueNumbering
	builder *ssa.Function
	bad     string
	appends int
	p       *core.Prog
	// result components of the builder (folder, 'exactly one member' flag) and of the collector (its own flag)
	folderPath, flagPath, outFlag string
}

func (k *cdiClient) Key(s cdiState) string { return fmt.Sprintf("%d|%v|%s", s.one, s.tainted, s.kf.key()) }
func (k *cdiClient) Phis(s cdiState, blk *ssa.BasicBlock, pred int) cdiState {
	type upd struct {
		id int
		f  bool
	}
	var ups []upd
	for _, in := range blk.Instrs {
		phi, ok := in.(*ssa.Phi)
		if !ok {
			break
		}
		if pred < 0 || pred >= len(phi.Edges) {
			continue
		}
		e := phi.Edges[pred]
		f := s.kf.has(k.num.id(e))
		if cv, ok := constBool(e); ok && !cv {
			f = true
		}
		ups = append(ups, upd{k.num.id(phi), f})
	}
	for _, u := range ups {
		s.kf = s.kf.without(u.id)
		if u.f {
			s.kf = s.kf.with(u.id)
		}
	}
	return s
}
func (k *cdiClient) fromBuilder(v ssa.Value, path string) bool {
	ref, ok := resolveComp(v, 0)
	return ok && ref.path == path && ref.call.Common().StaticCallee() == k.builder
}
func (k *cdiClient) Instr(s cdiState, in ssa.Instruction) (cdiState, bool, []cdiState) {
	switch x := in.(type) {
	case *ssa.Call:
		if x.Common().StaticCallee() == k.builder {
			s.one = 0
		}
	case *ssa.Store:
		// the folder goes into the argument array of append
		if k.fromBuilder(x.Val, k.folderPath) {
			k.appends++
			if s.one != 1 {
				s.tainted = true
			}
		}
	}
	return s, true, nil
}
func (k *cdiClient) Branch(s cdiState, cond ssa.Value, outcome bool) (cdiState, bool) {
	for {
		u, ok := cond.(*ssa.UnOp)
		if !ok || u.Op != token.NOT {
			break
		}
		cond, outcome = u.X, !outcome
	}
	if k.fromBuilder(cond, k.flagPath) {
		if outcome {
			s.one = 1
		} else {
			s.one = 2
		}
	}
	return s, true
}
func (k *cdiClient) Return(s cdiState, ret *ssa.Return) {
	if !s.tainted {
		return
	}
	fl, zero, ok := returnComponent(ret, k.outFlag)
	if !ok {
		k.bad = "the flag returned at " + k.p.Pos(token.Pos(instrPos(ret))) + " cannot be followed"
		return
	}
	if zero {
		return
	}
	if cv, ok := constBool(fl); ok && !cv {
		return
	}
	if s.kf.has(k.num.id(fl)) {
		return
	}
	k.bad = "a path appends a folder that does not report exactly one member and still returns the flag as possibly true at " + k.p.Pos(token.Pos(instrPos(ret)))
}

func collectorDiscipline(p *core.Prog, g *ssa.Function, outFlag string) (*ssa.Function, string, string, string) {
	// the builder: a static callee one of whose result components is a folder that g stores (appends) and another a
	// bool that g branches on
	var builder *ssa.Function
	folderPath, flagPath := "", ""
	for _, b := range g.Blocks {
		for _, in := range b.Instrs {
			switch x := in.(type) {
			case *ssa.Store:
				if ref, ok := resolveComp(x.Val, 0); ok && ref.call.Common().StaticCallee() != nil && p.InModule(ref.call.Common().StaticCallee()) {
					if t := componentType(ref.call.Common().StaticCallee().Signature, ref.path); t != nil && isFuncOrPtrToFunc(t) {
						if _, toLocalStruct := x.Addr.(*ssa.Alloc); !toLocalStruct {
							builder, folderPath = ref.call.Common().StaticCallee(), ref.path
						}
					}
				}
			}
		}
	}
	if builder == nil {
		return nil, "", "", "no field builder whose folder is appended found"
	}
	for _, b := range g.Blocks {
		ifi, ok := b.Instrs[len(b.Instrs)-1].(*ssa.If)
		if !ok {
			continue
		}
		cond := ifi.Cond
		for {
			u, ok := cond.(*ssa.UnOp)
			if !ok || u.Op != token.NOT {
				break
			}
			cond = u.X
		}
		if ref, ok := resolveComp(cond, 0); ok && ref.call.Common().StaticCallee() == builder {
			if t := componentType(builder.Signature, ref.path); t != nil {
				if bt, ok := t.Underlying().(*types.Basic); ok && bt.Kind() == types.Bool {
					flagPath = ref.path
				}
			}
		}
	}
	if flagPath == "" {
		return nil, "", "", "no field builder with an 'exactly one member' result found"
	}
	k := &cdiClient{num: newNumbering(), builder: builder, p: p, folderPath: folderPath, flagPath: flagPath, outFlag: outFlag}
	_, capped := WalkPaths[cdiState](k, g.Blocks[0], 0, cdiState{}, 200000, nil)
	if capped {
		return nil, "", "", "state cap hit"
	}
	if k.appends == 0 {
		return nil, "", "", "the builder's folder is never appended"
	}
	return builder, folderPath, flagPath, k.bad
}

package rules

import (
	"fmt"
	"go/token"
	"go/types"

	"golang.org/x/tools/go/ssa"

	"sfcheck/internal/core"
)

// guardedCount discharges a LEN-EXACT obligation of this shape:
//
//	func parent(fields []F, exact bool) F {
//		members := makeFieldsFold(fields)      // (b) one call per entry of fields
//		count := -1
//		if exact { count = len(fields) }       // (a) len(fields) only under the flag
//		return func(...) { OnObjectStart(count); members(...); OnObjectFinished() }
//	}
//
// when (c) every caller passes (fields, exact) as results #0/#1 of one call of
// a collector G, (d) G returns exact=false whenever it appended a folder whose
// builder did not say "exactly one member", and (e) the builder H says so
// only together with a folder of effect type P. Returns "" if all premises
// hold, "n/a" if the start event does not have this shape, else the premise
// that fails.
func guardedCount(p *core.Prog, env *r10env, closure *ssa.Function, cf *countedFrame) string {
	if cf == nil || cf.lenArg == nil || closure.Parent() == nil {
		return "n/a"
	}
	parent := closure.Parent()
	// the length argument is a captured variable (by reference: a load of a free variable)
	var fv *ssa.FreeVar
	switch x := cf.lenArg.(type) {
	case *ssa.FreeVar:
		fv = x
	case *ssa.UnOp:
		if x.Op == token.MUL {
			fv, _ = x.X.(*ssa.FreeVar)
		}
	}
	if fv == nil {
		return "n/a"
	}
	binding := func(v *ssa.FreeVar) ssa.Value {
		idx := -1
		for i, f := range closure.FreeVars {
			if f == v {
				idx = i
			}
		}
		if idx < 0 {
			return nil
		}
		for _, b := range parent.Blocks {
			for _, in := range b.Instrs {
				if mc, ok := in.(*ssa.MakeClosure); ok && mc.Fn == ssa.Value(closure) && idx < len(mc.Bindings) {
					return mc.Bindings[idx]
				}
			}
		}
		return nil
	}
	cnt, _ := binding(fv).(*ssa.Alloc)
	if cnt == nil {
		return "n/a"
	}
	// (a) stores into the count: -1, and len(P) under `if flag`
	var slicePrm, flagPrm *ssa.Parameter
	refs := cnt.Referrers()
	if refs == nil {
		return "n/a"
	}
	for _, rf := range *refs {
		st, ok := rf.(*ssa.Store)
		if !ok || st.Addr != ssa.Value(cnt) {
			continue
		}
		if c, ok := constIntVal(st.Val); ok {
			if c != -1 {
				return fmt.Sprintf("(a) the captured count is set to the constant %d", c)
			}
			continue
		}
		root, _ := lenRoot(st.Val)
		prm, _ := root.(*ssa.Parameter)
		if prm == nil {
			return "(a) the captured count is set to something other than -1 or len(<slice parameter>)"
		}
		slicePrm = prm
		// dominated by the true edge of If(<bool parameter>)
		guarded := false
		for _, b := range parent.Blocks {
			ifi, ok := b.Instrs[len(b.Instrs)-1].(*ssa.If)
			if !ok {
				continue
			}
			fp, ok := ifi.Cond.(*ssa.Parameter)
			if !ok {
				continue
			}
			if b.Succs[0].Dominates(st.Block()) && len(b.Succs[0].Preds) == 1 {
				guarded, flagPrm = true, fp
			}
		}
		if !guarded {
			return "(a) len(" + prm.Name() + ") is stored into the captured count without the guard of a bool parameter"
		}
	}
	if slicePrm == nil || flagPrm == nil {
		return "n/a"
	}
	// (b) the members are produced by one P* non-terminal: a closure made by F(slicePrm) that calls each entry once
	if len(cf.pairNT) != 1 {
		return fmt.Sprintf("(b) the members are produced by %d pair folders, expected exactly one over the counted slice", len(cf.pairNT))
	}
	var mfv *ssa.FreeVar
	switch x := cf.pairNT[0].Common().Value.(type) {
	case *ssa.FreeVar:
		mfv = x
	case *ssa.UnOp:
		mfv, _ = x.X.(*ssa.FreeVar)
	}
	if mfv == nil {
		return "(b) the member folder is not a captured variable"
	}
	mb := binding(mfv)
	if a, ok := mb.(*ssa.Alloc); ok {
		vals := storedInto(a)
		if len(vals) != 1 {
			return "(b) the captured member folder is assigned more than once"
		}
		mb = vals[0]
	}
	mcall, _ := mb.(*ssa.Call)
	if mcall == nil || mcall.Common().StaticCallee() == nil || len(mcall.Common().Args) != 1 || mcall.Common().Args[0] != ssa.Value(slicePrm) {
		return "(b) the member folder is not built by a call F(" + slicePrm.Name() + ") over the counted slice"
	}
	builder := mcall.Common().StaticCallee()
	if why := callsEachEntryOnce(builder); why != "" {
		return "(b) " + core.FuncKey(builder) + ": " + why
	}
	// (c) callers pass results #0/#1 of one collector call
	var collector *ssa.Function
	callers := 0
	for _, g := range p.ModFuncs() {
		for _, b := range g.Blocks {
			for _, in := range b.Instrs {
				c, ok := in.(*ssa.Call)
				if !ok || c.Common().StaticCallee() != parent {
					continue
				}
				callers++
				args := c.Common().Args
				var si, fi int = -1, -1
				for i, prm := range parent.Params {
					if prm == slicePrm {
						si = i
					}
					if prm == flagPrm {
						fi = i
					}
				}
				e0, ok0 := args[si].(*ssa.Extract)
				e1, ok1 := args[fi].(*ssa.Extract)
				if !ok0 || !ok1 || e0.Tuple != e1.Tuple || e0.Index != 0 || e1.Index != 1 {
					return "(c) " + core.FuncKey(g) + " does not pass the slice and the flag as results #0/#1 of one call"
				}
				cc, _ := e0.Tuple.(*ssa.Call)
				if cc == nil || cc.Common().StaticCallee() == nil {
					return "(c) the collector is not a static call"
				}
				if collector != nil && collector != cc.Common().StaticCallee() {
					return "(c) different collectors feed " + core.FuncKey(parent)
				}
				collector = cc.Common().StaticCallee()
			}
		}
	}
	if callers == 0 || collector == nil {
		return "(c) no caller of " + core.FuncKey(parent) + " found"
	}
	// (d) the collector's flag discipline
	builderH, why := collectorDiscipline(p, collector)
	if why != "" {
		return "(d) " + core.FuncKey(collector) + ": " + why
	}
	// (e) the field builder says "exactly one" only together with a P folder
	n := 0
	for _, b := range builderH.Blocks {
		for _, in := range b.Instrs {
			ret, ok := in.(*ssa.Return)
			if !ok || len(ret.Results) < 2 {
				continue
			}
			if cv, ok := constBool(ret.Results[1]); ok && !cv {
				continue
			}
			n++
			t, ok := env.typeOf(ret.Results[0])
			if !ok || t != etP {
				return fmt.Sprintf("(e) %s returns 'exactly one member' at %s together with a folder of effect type %q (must be P)", core.FuncKey(builderH), p.Pos(token.Pos(instrPos(ret))), t)
			}
		}
	}
	if n == 0 {
		return "(e) " + core.FuncKey(builderH) + " never returns 'exactly one member'"
	}
	return ""
}

// callsEachEntryOnce: f returns a closure that ranges over f's slice
// parameter and calls each entry exactly once per iteration, nothing else.
func callsEachEntryOnce(f *ssa.Function) string {
	if len(f.AnonFuncs) != 1 || len(f.Params) != 1 {
		return "not a one-closure builder over one slice"
	}
	c := f.AnonFuncs[0]
	calls := 0
	for _, b := range c.Blocks {
		for _, in := range b.Instrs {
			call, ok := in.(*ssa.Call)
			if !ok {
				continue
			}
			if _, isB := call.Common().Value.(*ssa.Builtin); isB {
				continue
			}
			ld, ok := call.Common().Value.(*ssa.UnOp)
			if !ok {
				return "calls something other than an entry of the slice"
			}
			ia, ok := ld.X.(*ssa.IndexAddr)
			if !ok {
				return "calls something other than an entry of the slice"
			}
			// the indexed slice is the captured parameter
			okSlice := false
			for _, o := range origins(ia.X) {
				if fv, ok := o.(*ssa.FreeVar); ok {
					_ = fv
					okSlice = true
				}
			}
			if !okSlice {
				return "indexes something other than the captured slice"
			}
			// inside a loop
			inLoop := false
			for pi := range b.Preds {
				_ = pi
			}
			seen := map[*ssa.BasicBlock]bool{}
			work := append([]*ssa.BasicBlock{}, b.Succs...)
			for len(work) > 0 {
				x := work[len(work)-1]
				work = work[:len(work)-1]
				if seen[x] {
					continue
				}
				seen[x] = true
				if x == b {
					inLoop = true
				}
				work = append(work, x.Succs...)
			}
			if !inLoop {
				return "calls an entry outside the loop"
			}
			calls++
		}
	}
	if calls != 1 {
		return fmt.Sprintf("%d entry calls per iteration, expected 1", calls)
	}
	return ""
}

// collectorDiscipline: g appends result #0 of a builder call to the slice it
// returns and returns flag=false whenever an appended folder came with result
// #1 (exactly one member) not known to be true. Returns the builder.
type cdiState struct {
	one     int8 // 0 unknown, 1 true, 2 false (for the latest builder call)
	tainted bool
	kf      valueSet // values known to be false
}
type cdiClient struct {
	num     *valueNumbering
	builder *ssa.Function
	bad     string
	appends int
	p       *core.Prog
}

func (k *cdiClient) Key(s cdiState) string { return fmt.Sprintf("%d|%v|%s", s.one, s.tainted, s.kf.key()) }
func (k *cdiClient) Phis(s cdiState, blk *ssa.BasicBlock, pred int) cdiState {
	type upd struct {
		id int
		f  bool
	}
	var ups []upd
	for _, in := range blk.Instrs {
		phi, ok := in.(*ssa.Phi)
		if !ok {
			break
		}
		if pred < 0 || pred >= len(phi.Edges) {
			continue
		}
		e := phi.Edges[pred]
		f := s.kf.has(k.num.id(e))
		if cv, ok := constBool(e); ok && !cv {
			f = true
		}
		ups = append(ups, upd{k.num.id(phi), f})
	}
	for _, u := range ups {
		s.kf = s.kf.without(u.id)
		if u.f {
			s.kf = s.kf.with(u.id)
		}
	}
	return s
}
func (k *cdiClient) fromBuilder(v ssa.Value, idx int) bool {
	ex, ok := v.(*ssa.Extract)
	if !ok || ex.Index != idx {
		return false
	}
	c, ok := ex.Tuple.(*ssa.Call)
	return ok && c.Common().StaticCallee() == k.builder
}
func (k *cdiClient) Instr(s cdiState, in ssa.Instruction) (cdiState, bool, []cdiState) {
	switch x := in.(type) {
	case *ssa.Call:
		if x.Common().StaticCallee() == k.builder {
			s.one = 0
		}
	case *ssa.Store:
		// the folder goes into the argument array of append
		if k.fromBuilder(x.Val, 0) {
			k.appends++
			if s.one != 1 {
				s.tainted = true
			}
		}
	}
	return s, true, nil
}
func (k *cdiClient) Branch(s cdiState, cond ssa.Value, outcome bool) (cdiState, bool) {
	for {
		u, ok := cond.(*ssa.UnOp)
		if !ok || u.Op != token.NOT {
			break
		}
		cond, outcome = u.X, !outcome
	}
	if k.fromBuilder(cond, 1) {
		if outcome {
			s.one = 1
		} else {
			s.one = 2
		}
	}
	return s, true
}
func (k *cdiClient) Return(s cdiState, ret *ssa.Return) {
	if len(ret.Results) < 2 || !s.tainted {
		return
	}
	fl := ret.Results[1]
	if cv, ok := constBool(fl); ok && !cv {
		return
	}
	if s.kf.has(k.num.id(fl)) {
		return
	}
	k.bad = "a path appends a folder that does not report exactly one member and still returns the flag as possibly true at " + k.p.Pos(token.Pos(instrPos(ret)))
}

func collectorDiscipline(p *core.Prog, g *ssa.Function) (*ssa.Function, string) {
	// the builder: a static callee with (F, bool, error) results whose #0 is stored (appended)
	var builder *ssa.Function
	for _, b := range g.Blocks {
		for _, in := range b.Instrs {
			c, ok := in.(*ssa.Call)
			if !ok || c.Common().StaticCallee() == nil {
				continue
			}
			res := c.Common().StaticCallee().Signature.Results()
			if res.Len() == 3 {
				if bt, ok := res.At(1).Type().Underlying().(*types.Basic); ok && bt.Kind() == types.Bool {
					builder = c.Common().StaticCallee()
				}
			}
		}
	}
	if builder == nil {
		return nil, "no field builder with an 'exactly one member' result found"
	}
	k := &cdiClient{num: newNumbering(), builder: builder, p: p}
	_, capped := WalkPaths[cdiState](k, g.Blocks[0], 0, cdiState{}, 200000, nil)
	if capped {
		return nil, "state cap hit"
	}
	if k.appends == 0 {
		return nil, "the builder's folder is never appended"
	}
	return builder, k.bad
}

package rules

import (
	"fmt"
	"go/constant"
	"go/token"
	"go/types"
	"sort"
	"strings"

	"golang.org/x/tools/go/ssa"

	"sfcheck/internal/core"
)

// R8 EOF-FINALIZE.
//
// (a) every one-shot entry point (Parse, ParseString, ParseReader; package
//     functions and *Parser methods) passes through the parser's end-of-input
//     check on every path that may return a nil error;
// (b) in (*Decoder).Next every path that returns io.EOF, or the reader's
//     error without having established that it is not io.EOF, passes through
//     the end-of-input check;
// (c) DATA-BEFORE-ERR: the reader's error is returned only on paths that
//     established n == 0;
// (d) READ-NONEMPTY: the slice handed to Read is not a field the path has
//     just established to be empty;
// (e) ADVANCE: after feedUntil returned n, the decoder's window field is
//     re-sliced by n before Next returns without error or feeds again.

type r8state struct {
	passed    bool      // finalize (or a finalizing callee) was called
	nonnil    valueSet  // values known non-nil
	nnmem     stringSet // memory keys known to hold non-nil
	rdErr     valueSet  // values equal to the reader's error
	notEOF    valueSet  // values known != io.EOF
	nZero     valueSet  // ints known == 0 (read counts)
	emptyMem  stringSet // slice fields known to have len 0
	pending   int       // value id+1 of the consumed count that still has to be applied (0: none)
	bt, bf    valueSet
	inspected bool // finalize mode: a branch on the length of the open-state stack was taken
}

type r8client struct {
	p        *core.Prog
	fn       *ssa.Function
	num      *valueNumbering
	finalize *ssa.Function
	fin      map[*ssa.Function]bool // functions that guarantee finalisation on nil return
	isNext   bool
	isFin    bool        // walking finalize itself
	readN    map[int]int // read-error value id -> read-count value id
	bad      map[string]string
	// helpers of Next (methods of the decoder it calls on itself): the slice fields known empty at every call
	family      map[*ssa.Function]bool
	helperEmpty map[*ssa.Function]*stringSet
}

func (k *r8client) Key(s r8state) string {
	return fmt.Sprintf("%v|%v|%s|%s|%s|%s|%s|%s|%d|%s|%s", s.inspected, s.passed, s.nonnil.key(), s.nnmem.key(), s.rdErr.key(), s.notEOF.key(), s.nZero.key(), s.emptyMem.key(), s.pending, s.bt.key(), s.bf.key())
}

func (k *r8client) Phis(s r8state, blk *ssa.BasicBlock, pred int) r8state {
	type upd struct {
		id                             int
		nonnil, rd, notEOF, nz, bt, bf bool
	}
	var ups []upd
	for _, in := range blk.Instrs {
		phi, ok := in.(*ssa.Phi)
		if !ok {
			break
		}
		if pred < 0 || pred >= len(phi.Edges) {
			continue
		}
		e := phi.Edges[pred]
		eid := k.num.id(e)
		u := upd{id: k.num.id(phi), nonnil: s.nonnil.has(eid) || definitelyNonNilError(e), rd: s.rdErr.has(eid), notEOF: s.notEOF.has(eid), nz: s.nZero.has(eid) || isIntConst(e, 0)}
		if cv, ok := constBool(e); ok {
			u.bt, u.bf = cv, !cv
		} else {
			u.bt, u.bf = s.bt.has(eid), s.bf.has(eid)
		}
		ups = append(ups, u)
	}
	setIf := func(vs valueSet, id int, on bool) valueSet {
		if on {
			return vs.with(id)
		}
		return vs.without(id)
	}
	for _, u := range ups {
		s.nonnil = setIf(s.nonnil, u.id, u.nonnil)
		s.rdErr = setIf(s.rdErr, u.id, u.rd)
		s.notEOF = setIf(s.notEOF, u.id, u.notEOF)
		s.nZero = setIf(s.nZero, u.id, u.nz)
		s.bt = setIf(s.bt, u.id, u.bt)
		s.bf = setIf(s.bf, u.id, u.bf)
	}
	return s
}

func isIntConst(v ssa.Value, n int64) bool {
	c, ok := v.(*ssa.Const)
	if !ok || c.Value == nil || c.Value.Kind() != constant.Int {
		return false
	}
	x, exact := constant.Int64Val(c.Value)
	return exact && x == n
}

func isLoadOfGlobal(v ssa.Value, pkg, name string) bool {
	u, ok := v.(*ssa.UnOp)
	if !ok || u.Op != token.MUL {
		return false
	}
	g, ok := u.X.(*ssa.Global)
	return ok && g.Pkg != nil && g.Pkg.Pkg.Path() == pkg && g.Name() == name
}

func (k *r8client) fail(sub, key, msg string) {
	if k.bad == nil {
		k.bad = map[string]string{}
	}
	k.bad[sub+"|"+key] = msg
}

func (k *r8client) Instr(s r8state, in ssa.Instruction) (r8state, bool, []r8state) {
	switch x := in.(type) {
	case *ssa.Store:
		if key := addrKey(x.Addr); key != "" {
			if s.nonnil.has(k.num.id(x.Val)) || definitelyNonNilError(x.Val) {
				s.nnmem = s.nnmem.with(key)
			} else {
				s.nnmem = s.nnmem.without(key)
			}
			s.emptyMem = s.emptyMem.without(key)
			// (e) window advance: field = (load field)[n:]
			if s.pending != 0 {
				if sl, ok := x.Val.(*ssa.Slice); ok && sl.Low != nil && k.num.id(sl.Low) == s.pending-1 {
					if ld, ok := sl.X.(*ssa.UnOp); ok && ld.Op == token.MUL && addrKey(ld.X) == key {
						s.pending = 0
					}
				}
			}
		}
	case *ssa.UnOp:
		if x.Op == token.MUL {
			if key := addrKey(x.X); key != "" && s.nnmem.has(key) {
				s.nonnil = s.nonnil.with(k.num.id(x))
			} else {
				s.nonnil = s.nonnil.without(k.num.id(x))
			}
		}
	case *ssa.Call:
		c := x.Common()
		if sc := c.StaticCallee(); sc != nil {
			if sc == k.finalize || k.fin[sc] {
				s.passed = true
			}
			if k.isNext && k.family[sc] && len(c.Args) > 0 && len(k.fn.Params) > 0 && c.Args[0] == ssa.Value(k.fn.Params[0]) {
				// what the caller established about the decoder's fields holds on entry to the helper
				from, to := "P:"+k.fn.Params[0].Name(), "P:"+sc.Params[0].Name()
				var tr stringSet
				for _, key := range s.emptyMem.list() {
					if strings.HasPrefix(key, from+".") {
						tr = tr.with(to + key[len(from):])
					}
				}
				if prev, seen := k.helperEmpty[sc]; seen {
					var both stringSet
					for _, key := range tr.list() {
						if prev.has(key) {
							both = both.with(key)
						}
					}
					tr = both
				}
				k.helperEmpty[sc] = &tr
				// the helper may refill any field
				s.emptyMem = stringSet{}
			}
			if k.isNext && core.FuncName(sc) == "feedUntil" {
				if s.pending != 0 {
					k.fail(".ADVANCE", "refeed", "feeds the parser again before the window was advanced by the previously consumed count")
				}
				for _, r := range *x.Referrers() {
					if ex, ok := r.(*ssa.Extract); ok && ex.Index == 0 {
						s.pending = k.num.id(ex) + 1
					}
				}
			}
		}
		if c.IsInvoke() && c.Method.Name() == "Read" && c.Method.Pkg() != nil && c.Method.Pkg().Path() == "io" {
			// (d)
			if len(c.Args) == 1 {
				if ld, ok := c.Args[0].(*ssa.UnOp); ok && ld.Op == token.MUL {
					if key := addrKey(ld.X); key != "" && s.emptyMem.has(key) {
						k.fail(".READ-NONEMPTY", "read", "hands the reader a slice the path has just established to be empty (len == 0): a zero-length read makes no progress, forever")
					}
				}
			}
			var nID, eID = -1, -1
			for _, r := range *x.Referrers() {
				if ex, ok := r.(*ssa.Extract); ok {
					if ex.Index == 0 {
						nID = k.num.id(ex)
					} else {
						eID = k.num.id(ex)
					}
				}
			}
			if eID >= 0 {
				s.rdErr = s.rdErr.with(eID)
				s.notEOF = s.notEOF.without(eID)
				s.nonnil = s.nonnil.without(eID)
				if k.readN == nil {
					k.readN = map[int]int{}
				}
				k.readN[eID] = nID
			}
			if nID >= 0 {
				s.nZero = s.nZero.without(nID)
			}
		}
	}
	return s, true, nil
}

func (k *r8client) Branch(s r8state, cond ssa.Value, outcome bool) (r8state, bool) {
	for {
		u, ok := cond.(*ssa.UnOp)
		if !ok || u.Op != token.NOT {
			break
		}
		cond, outcome = u.X, !outcome
	}
	id := k.num.id(cond)
	if s.bt.has(id) && !outcome || s.bf.has(id) && outcome {
		return s, false
	}
	if k.isFin && condInspectsStateStack(cond) {
		s.inspected = true
	}
	if x, trueMeansNil, ok := nilTest(cond); ok {
		isNil := outcome == trueMeansNil
		if isNil && s.nonnil.has(k.num.id(x)) {
			return s, false
		}
		if !isNil {
			s.nonnil = s.nonnil.with(k.num.id(x))
			if ld, ok := x.(*ssa.UnOp); ok && ld.Op == token.MUL {
				if key := addrKey(ld.X); key != "" {
					s.nnmem = s.nnmem.with(key)
				}
			}
		}
	}
	if bo, ok := cond.(*ssa.BinOp); ok && (bo.Op == token.EQL || bo.Op == token.NEQ) {
		eq := (bo.Op == token.EQL) == outcome
		// err == io.EOF
		for _, pr := range [][2]ssa.Value{{bo.X, bo.Y}, {bo.Y, bo.X}} {
			if isLoadOfGlobal(pr[1], "io", "EOF") && !eq {
				s.notEOF = s.notEOF.with(k.num.id(pr[0]))
			}
			// n == 0
			if isIntConst(pr[1], 0) {
				if eq {
					s.nZero = s.nZero.with(k.num.id(pr[0]))
					// len(field) == 0
					if call, ok := pr[0].(*ssa.Call); ok {
						if bi, ok := call.Common().Value.(*ssa.Builtin); ok && bi.Name() == "len" {
							if ld, ok := call.Common().Args[0].(*ssa.UnOp); ok && ld.Op == token.MUL {
								if key := addrKey(ld.X); key != "" {
									s.emptyMem = s.emptyMem.with(key)
								}
							}
						}
					}
				} else if s.nZero.has(k.num.id(pr[0])) {
					return s, false
				}
			}
		}
	}
	if b, isB := cond.Type().Underlying().(*types.Basic); isB && b.Kind() == types.Bool {
		if outcome {
			s.bt = s.bt.with(id)
		} else {
			s.bf = s.bf.with(id)
		}
	}
	return s, true
}

func (k *r8client) Return(s r8state, ret *ssa.Return) {
	ei := errResultIndex(k.fn.Signature)
	if ei < 0 {
		return
	}
	rv := ret.Results[ei]
	rid := k.num.id(rv)
	pos := k.p.Pos(token.Pos(instrPos(ret)))
	if k.isFin {
		if s.inspected || s.nonnil.has(rid) || definitelyNonNilError(rv) {
			return
		}
		k.fail(".FINALIZER-COMPLETE", "nil-return", "can return success at "+pos+" on a path that never tested the open-state stack: input that ends inside a container is accepted")
		return
	}
	if !k.isNext {
		// (a)
		if s.passed || s.nonnil.has(rid) || definitelyNonNilError(rv) {
			return
		}
		k.fail(".ONE-SHOT", "nil-return", "can return success at "+pos+" without passing through the parser's end-of-input check: a truncated document is accepted")
		return
	}
	// Next
	isEOF := isLoadOfGlobal(rv, "io", "EOF")
	isRd := s.rdErr.has(rid)
	if isEOF || (isRd && !s.notEOF.has(rid)) {
		if !s.passed {
			what := "io.EOF"
			if isRd {
				what = "the reader's error (possibly io.EOF)"
			}
			k.fail(".NEXT-FINALIZE", "eof", "returns "+what+" at "+pos+" without the end-of-input check: a stream that ends inside a value is reported as a clean end")
		}
	}
	if isRd {
		n, ok := k.readN[rid]
		if !ok || n < 0 || !s.nZero.has(n) {
			k.fail(".DATA-BEFORE-ERR", "read-err", "returns the reader's error at "+pos+" on a path that has not established n == 0: data delivered together with the error is dropped")
		}
	}
	if s.pending != 0 && !s.nonnil.has(rid) && !definitelyNonNilError(rv) && !isEOF {
		k.fail(".ADVANCE", "return", "returns at "+pos+" without advancing the window by the count the parser consumed")
	}
}

// R8 runs the rule for one codec package.
func R8(pkgs ...string) func(p *core.Prog) *core.Result {
	return func(p *core.Prog) *core.Result {
		r := core.NewResult("R8", "one-shot entry points and pull decoders of "+strings.Join(pkgs, ",")+" reach the end-of-input check before reporting success / end of stream; reader data is processed before the reader's error; no zero-length read; the decoder window advances by what was consumed")
		entries := 0
		for _, pk := range pkgs {
			sp := p.SPkgs[pk]
			if sp == nil {
				r.Undecided("", pk, "package not loaded")
				continue
			}
			fin := p.LookupFunc(pk, "(*Parser).finalize")
			var oneShot []*ssa.Function
			for _, n := range []string{"Parse", "ParseString", "ParseReader"} {
				if f := p.LookupFunc(pk, n); f != nil {
					oneShot = append(oneShot, f)
				}
				if f := p.LookupFunc(pk, "(*Parser)."+n); f != nil {
					oneShot = append(oneShot, f)
				}
			}
			next := p.LookupFunc(pk, "(*Decoder).Next")
			if len(oneShot) < 4 || next == nil {
				r.Undecided("", pk+"|entries", fmt.Sprintf("package %s: expected at least 4 one-shot entry points and (*Decoder).Next, found %d / %v", pk, len(oneShot), next != nil))
				continue
			}
			if fin == nil {
				for _, f := range append(oneShot, next) {
					entries++
					r.Fail(".NO-FINALIZER", core.FuncKey(f), p.Pos(f.Pos()), fmt.Sprintf("package %s has no end-of-input check ((*Parser).finalize): %s cannot tell a truncated document from a complete one", pk, core.FuncKey(f)), "")
				}
				continue
			}
			// the check must be able to fail
			canFail := false
			for _, b := range fin.Blocks {
				for _, in := range b.Instrs {
					if ret, ok := in.(*ssa.Return); ok && len(ret.Results) == 1 && definitelyNonNilError(ret.Results[0]) {
						canFail = true
					}
				}
			}
			if !canFail {
				r.Fail(".FINALIZER-VACUOUS", pk+".finalize", p.Pos(fin.Pos()), pk+".(*Parser).finalize never returns an error value: it does not check anything", "")
			} else {
				r.Ok(".FINALIZER", p.Pos(fin.Pos()), pk+".(*Parser).finalize can return an 'incomplete' error")
			}
			// (f) every success return of the check itself depends on the open-state stack
			{
				k := &r8client{p: p, fn: fin, num: newNumbering(), isFin: true}
				_, capped := WalkPaths[r8state](k, fin.Blocks[0], 0, r8state{}, 200000, nil)
				if capped {
					r.Undecided(".FINALIZER-COMPLETE", core.FuncKey(fin), "state cap hit")
				} else if len(k.bad) == 0 {
					r.Ok(".FINALIZER-COMPLETE", p.Pos(fin.Pos()), core.FuncKey(fin)+": every success return is behind a test of the open-state stack")
				} else {
					for kk, msg := range k.bad {
						r.Fail(kk[:strings.Index(kk, "|")], core.FuncKey(fin)+kk[strings.Index(kk, "|"):], p.Pos(fin.Pos()), core.FuncKey(fin)+" "+msg, "")
					}
				}
			}
			// (g) the check pops an open state only after having matched its kind explicitly
			{
				k := &finPopClient{p: p, fn: fin}
				WalkPaths[finPopState](k, fin.Blocks[0], 0, finPopState{}, 200000, nil)
				if k.bad == "" {
					r.Ok(".FINALIZER-POPS", p.Pos(fin.Pos()), core.FuncKey(fin)+": an open state is popped at end of input only in an explicit arm for a state that may legitimately be open")
				} else {
					r.Fail(".FINALIZER-POPS", core.FuncKey(fin)+"|pop", p.Pos(fin.Pos()), core.FuncKey(fin)+" "+k.bad, "")
				}
			}
			// (a) fixpoint over the one-shot functions
			finSet := map[*ssa.Function]bool{}
			verdict := map[*ssa.Function]map[string]string{}
			for iter := 0; iter < 5; iter++ {
				changed := false
				for _, f := range oneShot {
					k := &r8client{p: p, fn: f, num: newNumbering(), finalize: fin, fin: finSet}
					_, capped := WalkPaths[r8state](k, f.Blocks[0], 0, r8state{}, 200000, nil)
					if capped {
						k.fail(".ONE-SHOT", "cap", "state cap hit")
					}
					verdict[f] = k.bad
					if len(k.bad) == 0 && !finSet[f] {
						finSet[f] = true
						changed = true
					}
				}
				if !changed {
					break
				}
			}
			for _, f := range oneShot {
				entries++
				if len(verdict[f]) == 0 {
					r.Ok(".ONE-SHOT", p.Pos(f.Pos()), core.FuncKey(f)+": every success return passes through the end-of-input check")
					continue
				}
				for kk, msg := range verdict[f] {
					r.Fail(kk[:strings.Index(kk, "|")], core.FuncKey(f)+kk[strings.Index(kk, "|"):], p.Pos(f.Pos()), core.FuncKey(f)+" "+msg, "")
				}
			}
			// (b)-(e): Next and the methods of the decoder it calls on itself (a refill helper, say)
			entries++
			family := map[*ssa.Function]bool{}
			var famList []*ssa.Function
			var grow func(f *ssa.Function, depth int)
			grow = func(f *ssa.Function, depth int) {
				for _, b := range f.Blocks {
					for _, in := range b.Instrs {
						c, ok := in.(*ssa.Call)
						if !ok {
							continue
						}
						sc := c.Common().StaticCallee()
						if sc == nil || sc == next || family[sc] || sc.Blocks == nil || sc.Signature.Recv() == nil || next.Signature.Recv() == nil {
							continue
						}
						if namedOf(sc.Signature.Recv().Type()) != namedOf(next.Signature.Recv().Type()) || len(c.Common().Args) == 0 || c.Common().Args[0] != ssa.Value(f.Params[0]) {
							continue
						}
						family[sc] = true
						famList = append(famList, sc)
						if depth < 2 {
							grow(sc, depth+1)
						}
					}
				}
			}
			grow(next, 0)
			k := &r8client{p: p, fn: next, num: newNumbering(), finalize: fin, fin: finSet, isNext: true, family: family, helperEmpty: map[*ssa.Function]*stringSet{}}
			_, capped := WalkPaths[r8state](k, next.Blocks[0], 0, r8state{}, 400000, nil)
			if capped {
				r.Undecided(".NEXT", core.FuncKey(next), "state cap hit")
			}
			for _, h := range famList {
				init := r8state{}
				if e := k.helperEmpty[h]; e != nil {
					init.emptyMem = *e
				}
				hk := &r8client{p: p, fn: h, num: newNumbering(), finalize: fin, fin: finSet, isNext: true, family: family, helperEmpty: k.helperEmpty}
				_, capped := WalkPaths[r8state](hk, h.Blocks[0], 0, init, 400000, nil)
				if capped {
					r.Undecided(".NEXT", core.FuncKey(h), "state cap hit")
				}
				for kk, msg := range hk.bad {
					k.fail(kk[:strings.Index(kk, "|")], core.FuncName(h)+"|"+kk[strings.Index(kk, "|")+1:], "(in its helper "+core.FuncKey(h)+") "+msg)
				}
			}
			// Next (with its helpers) must actually contain a Read and a feedUntil call
			hasRead, hasFeed := false, false
			for _, g := range append([]*ssa.Function{next}, famList...) {
				for _, b := range g.Blocks {
					for _, in := range b.Instrs {
						if c, ok := in.(*ssa.Call); ok {
							if c.Common().IsInvoke() && c.Common().Method.Name() == "Read" {
								hasRead = true
							}
							if sc := c.Common().StaticCallee(); sc != nil && core.FuncName(sc) == "feedUntil" {
								hasFeed = true
							}
						}
					}
				}
			}
			if !hasRead || !hasFeed {
				r.Undecided(".NEXT", core.FuncKey(next)+"|shape", "Next no longer contains a direct io.Reader.Read and feedUntil call; rule anchors lost")
			}
			if len(k.bad) == 0 {
				for _, sub := range []string{".NEXT-FINALIZE", ".DATA-BEFORE-ERR", ".READ-NONEMPTY", ".ADVANCE"} {
					r.Ok(sub, p.Pos(next.Pos()), core.FuncKey(next)+": clause holds on every path")
				}
			} else {
				for kk, msg := range k.bad {
					r.Fail(kk[:strings.Index(kk, "|")], core.FuncKey(next)+kk[strings.Index(kk, "|"):], p.Pos(next.Pos()), core.FuncKey(next)+" "+msg, "")
				}
			}
		}
		r.Floor("entry_points", entries, 5*len(pkgs))
		doneMeansValue(p, r, pkgs)
		topLevelDone(p, r, pkgs)
		for _, pk := range pkgs {
			if pk == "ubjson" {
				finalizerSteps(p, r)
			}
		}
		return r
	}
}

func init() {
	register(&PropSpec{
		ID:          "C18",
		Level:       "other",
		Decided:     "for the three pull decoders: (b) every path of Next that returns io.EOF, or the reader's error without having excluded io.EOF, passes through the parser's end-of-input check (a stream ending inside a value cannot be reported as a clean end); (c) the reader's error is returned only after n == 0 was established (data delivered together with an error is processed first); (d) Read is never handed a slice the path has just found empty (no zero-length read loop); (e) the window is advanced by exactly the count feedUntil reported before Next returns or feeds again; (a) the shared finalisers exist, can fail, and are reached by every one-shot entry point. Because a reader may return any read sizes, the chunk-resumption rules are necessary conditions here too: an incomplete token leaves the machine where it was (R3), byte accounting of parked input is exact (R22), nothing irreversible precedes a possibly-incomplete collect, a suspension after a state change continues where the re-entry starts, window indices are translated consistently (R24).",
		NotDecided:  "that feedUntil stops after exactly one top-level value (the reported/len(states)==0 arithmetic), the events delivered per Next, whitespace handling between JSON documents, a trailing top-level number being delivered by the call that returns io.EOF. These are value/history-level.",
		Assumptions: []string{"the end-of-input check is the method (*Parser).finalize of each codec; io.Reader obeys its contract"},
		TrustedBase: baseTrusted,
		Rules:       []RuleRun{{"R8", R8("json", "cborl", "ubjson")}, {"R3", R3("json", "cborl", "ubjson")}, {"R22", R22("json", "cborl", "ubjson")}, {"R24", R24("parsers", "json", "cborl", "ubjson")}},
		LevelText:   "Structural necessary conditions decided on every SSA path of the three Next implementations and nine one-shot entry points (must-pass-through and guard-fact rules obtained by cross-checking the three siblings). Reader behaviour is a schedule space no fixture enumerates; the path rules cover every read size and every position of io.EOF at once.",
		Technique:   "must-pass-through and guard-fact path analysis on SSA (finalize before EOF, n==0 before reader error, no read into empty slice, window advance), sibling cross-check of the three decoders; the chunk-resumption rules (collect-guard, accounting, effect-before-collect, resume matching, index translation) as necessary conditions for arbitrary read sizes",
		DesignRef:   "DESIGN.md section 2 R8, section 3 C18",
	})
}

// condInspectsStateStack: the condition is a comparison involving
// len(<slice field reachable from the receiver whose element type is a
// parser state type>), e.g. len(p.states) > 0, len(p.state.stack) > 0.
func condInspectsStateStack(cond ssa.Value) bool {
	bo, ok := cond.(*ssa.BinOp)
	if !ok {
		return false
	}
	for _, v := range []ssa.Value{bo.X, bo.Y} {
		call, ok := v.(*ssa.Call)
		if !ok {
			continue
		}
		bi, ok := call.Common().Value.(*ssa.Builtin)
		if !ok || bi.Name() != "len" {
			continue
		}
		arg := call.Common().Args[0]
		sl, ok := arg.Type().Underlying().(*types.Slice)
		if !ok {
			continue
		}
		en := namedOf(sl.Elem())
		if en == nil || !strings.HasPrefix(strings.ToLower(core.TypeName(en)), "state") {
			continue
		}
		for _, o := range origins(arg) {
			if p, ok := o.(*ssa.Parameter); ok && p.Parent().Signature.Recv() != nil && p == p.Parent().Params[0] {
				return true
			}
		}
	}
	return false
}

// finPopClient: in finalize, a pop of the state stack must follow an explicit
// match of the open state's kind (a comparison of a parser-state enum value
// with a constant that came out true) in the same loop iteration.
type finPopState struct{ matched bool }
type finPopClient struct {
	p   *core.Prog
	fn  *ssa.Function
	bad string
}

func (k *finPopClient) Key(s finPopState) string { return fmt.Sprint(s.matched) }
func (k *finPopClient) Phis(s finPopState, blk *ssa.BasicBlock, pred int) finPopState {
	for pi := range blk.Preds {
		if isBackEdge(blk, pi) {
			s.matched = false // a new iteration looks at a new open state
			break
		}
	}
	return s
}
func (k *finPopClient) Return(finPopState, *ssa.Return) {}
func (k *finPopClient) Instr(s finPopState, in ssa.Instruction) (finPopState, bool, []finPopState) {
	c, ok := in.(*ssa.Call)
	if !ok {
		return s, true, nil
	}
	sc := c.Common().StaticCallee()
	if sc == nil {
		return s, true, nil
	}
	if core.FuncName(sc) == "popState" || core.FuncName(sc) == "popLenState" || (core.FuncName(sc) == "pop" && sc.Signature.Recv() != nil && namedOf(sc.Signature.Recv().Type()) != nil && core.TypeName(namedOf(sc.Signature.Recv().Type())) == "stateStack") {
		if !s.matched {
			k.bad = "pops an open parser state at " + k.p.Pos(c.Pos()) + " without having matched its kind: any unfinished value or unterminated container that happens to be open at end of input is silently discarded and the truncated document accepted"
		}
	}
	return s, true, nil
}
func (k *finPopClient) Branch(s finPopState, cond ssa.Value, outcome bool) (finPopState, bool) {
	if bo, ok := cond.(*ssa.BinOp); ok && bo.Op == token.EQL && outcome {
		if n, ok := bo.X.Type().(*types.Named); ok && n.Obj().Pkg() == core.FuncPkg(k.fn) {
			if _, isC := bo.Y.(*ssa.Const); isC {
				s.matched = true
			}
		}
	}
	return s, true
}

// ---- DONE-MEANS-VALUE ----
//
// A step function's completion flag tells the dispatcher (and through it
// Decoder.Next) that one value has been delivered completely. On every path on
// which a step returns the flag as definitely true with a nil-able error, it
// has emitted at least one visitor event on that path. (A flag handed on from
// a callee is the callee's responsibility.) A step that says "done" for
// something that produced no event - whitespace, a no-op marker - makes Next
// succeed with an empty value.

type dmState struct {
	emitted bool
	bt, bf  valueSet
	nonnil  valueSet
}
type dmClient struct {
	p       *core.Prog
	fn      *ssa.Function
	doneIdx int
	num     *valueNumbering
	bad     string
}

func (k *dmClient) Key(s dmState) string {
	return fmt.Sprintf("%v|%s|%s|%s", s.emitted, s.bt.key(), s.bf.key(), s.nonnil.key())
}
func (k *dmClient) Phis(s dmState, blk *ssa.BasicBlock, pred int) dmState {
	type upd struct {
		id             int
		bt, bf, nonnil bool
	}
	var ups []upd
	for _, in := range blk.Instrs {
		phi, ok := in.(*ssa.Phi)
		if !ok {
			break
		}
		if pred < 0 || pred >= len(phi.Edges) {
			continue
		}
		e := phi.Edges[pred]
		eid := k.num.id(e)
		u := upd{id: k.num.id(phi), nonnil: s.nonnil.has(eid) || definitelyNonNilError(e)}
		if cv, ok := constBool(e); ok {
			u.bt, u.bf = cv, !cv
		} else {
			u.bt, u.bf = s.bt.has(eid), s.bf.has(eid)
		}
		ups = append(ups, u)
	}
	for _, u := range ups {
		s.bt, s.bf, s.nonnil = s.bt.without(u.id), s.bf.without(u.id), s.nonnil.without(u.id)
		if u.bt {
			s.bt = s.bt.with(u.id)
		}
		if u.bf {
			s.bf = s.bf.with(u.id)
		}
		if u.nonnil {
			s.nonnil = s.nonnil.with(u.id)
		}
	}
	return s
}
func (k *dmClient) Instr(s dmState, in ssa.Instruction) (dmState, bool, []dmState) {
	if c, ok := in.(*ssa.Call); ok {
		cc := c.Common()
		if cc.IsInvoke() && cc.Method.Pkg() != nil && cc.Method.Pkg().Path() == core.ModPath && strings.HasPrefix(cc.Method.Name(), "On") {
			s.emitted = true
		}
		// a module callee that itself emits (string/number reporters) counts as well
		if sc := cc.StaticCallee(); sc != nil && core.FuncPkg(sc) == core.FuncPkg(k.fn) && emitsEvent(sc, map[*ssa.Function]bool{}) {
			s.emitted = true
		}
	}
	return s, true, nil
}
func emitsEvent(f *ssa.Function, seen map[*ssa.Function]bool) bool {
	if seen[f] || f.Blocks == nil {
		return false
	}
	seen[f] = true
	for _, b := range f.Blocks {
		for _, in := range b.Instrs {
			c, ok := in.(*ssa.Call)
			if !ok {
				continue
			}
			cc := c.Common()
			if cc.IsInvoke() && cc.Method.Pkg() != nil && cc.Method.Pkg().Path() == core.ModPath && strings.HasPrefix(cc.Method.Name(), "On") {
				return true
			}
			if sc := cc.StaticCallee(); sc != nil && core.FuncPkg(sc) == core.FuncPkg(f) && emitsEvent(sc, seen) {
				return true
			}
		}
	}
	return false
}
func (k *dmClient) Branch(s dmState, cond ssa.Value, outcome bool) (dmState, bool) {
	for {
		u, ok := cond.(*ssa.UnOp)
		if !ok || u.Op != token.NOT {
			break
		}
		cond, outcome = u.X, !outcome
	}
	id := k.num.id(cond)
	if s.bt.has(id) && !outcome || s.bf.has(id) && outcome {
		return s, false
	}
	if x, trueMeansNil, ok := nilTest(cond); ok && isErrorType(x.Type()) {
		isNil := outcome == trueMeansNil
		if isNil && s.nonnil.has(k.num.id(x)) {
			return s, false
		}
		if !isNil {
			s.nonnil = s.nonnil.with(k.num.id(x))
		}
	}
	if b, isB := cond.Type().Underlying().(*types.Basic); isB && b.Kind() == types.Bool {
		if outcome {
			s.bt = s.bt.with(id)
		} else {
			s.bf = s.bf.with(id)
		}
	}
	return s, true
}
func (k *dmClient) Return(s dmState, ret *ssa.Return) {
	if ei := errResultIndex(k.fn.Signature); ei >= 0 {
		rv := ret.Results[ei]
		if definitelyNonNilError(rv) || s.nonnil.has(k.num.id(rv)) {
			return
		}
	}
	dv := ret.Results[k.doneIdx]
	isTrue := false
	if cv, ok := constBool(dv); ok {
		isTrue = cv
	} else if s.bt.has(k.num.id(dv)) {
		isTrue = true
	}
	if isTrue && !s.emitted {
		k.bad = "returns its completion flag as true at " + k.p.Pos(token.Pos(instrPos(ret))) + " on a path that emitted no visitor event"
	}
}

func doneMeansValue(p *core.Prog, r *core.Result, pkgs []string) {
	n := 0
	for _, pk := range pkgs {
		fam, err := buildFamily(p, pk)
		if err != nil {
			continue
		}
		var fns []*ssa.Function
		for f := range fam.steps {
			fns = append(fns, f)
		}
		sort.Slice(fns, func(i, j int) bool { return fns[i].Pos() < fns[j].Pos() })
		// only the steps whose flag reaches a dispatcher: called from feedUntil / execStep with the flag extracted
		dispatchers := map[*ssa.Function]bool{fam.feedUntil: true}
		if ex := p.LookupFunc(pk, "(*Parser).execStep"); ex != nil {
			dispatchers[ex] = true
		}
		flagUsed := map[*ssa.Function]bool{}
		for d := range dispatchers {
			for _, b := range d.Blocks {
				for _, in := range b.Instrs {
					c, ok := in.(*ssa.Call)
					if !ok || c.Common().StaticCallee() == nil {
						continue
					}
					if refs := c.Referrers(); refs != nil {
						for _, rf := range *refs {
							if ex, ok := rf.(*ssa.Extract); ok {
								if bt, ok := ex.Type().Underlying().(*types.Basic); ok && bt.Kind() == types.Bool {
									flagUsed[c.Common().StaticCallee()] = true
								}
							}
						}
					}
				}
			}
		}
		for _, f := range fns {
			if !flagUsed[f] {
				continue
			}
			// the completion flag: the only bool result
			doneIdx, bools := -1, 0
			res := f.Signature.Results()
			for i := 0; i < res.Len(); i++ {
				if b, ok := res.At(i).Type().Underlying().(*types.Basic); ok && b.Kind() == types.Bool {
					doneIdx = i
					bools++
				}
			}
			if bools != 1 || f == fam.feedUntil {
				continue
			}
			if _, isSummarised := summarisedSteps[core.FuncKey(f)]; isSummarised {
				continue // its flag means "end of the container reached", the caller emits
			}
			n++
			k := &dmClient{p: p, fn: f, doneIdx: doneIdx, num: newNumbering()}
			_, capped := WalkPaths[dmState](k, f.Blocks[0], 0, dmState{}, 300000, nil)
			fkey := core.FuncKey(f)
			switch {
			case capped:
				r.Undecided(".DONE-MEANS-VALUE", fkey, "state cap hit")
			case k.bad != "":
				r.Fail(".DONE-MEANS-VALUE", fkey+"|done", p.Pos(f.Pos()), fkey+" "+k.bad+": the dispatcher and Decoder.Next take this for a completely delivered value (Next succeeds with no events; a trailing such byte hides the clean end of the stream)", "")
			default:
				r.Ok(".DONE-MEANS-VALUE", p.Pos(f.Pos()), fkey+": reports completion only on paths that emitted an event (or hands on a callee's flag)")
			}
		}
	}
	r.Floor("steps_with_completion_flag", n, 6*len(pkgs))
}

// ---- TOP-LEVEL-DONE ----
//
// The arm of the dispatcher for the idle / top-level state calls the value
// step; its completion flag is what ends feedUntil after exactly one top-level
// value. The flag of that call must be used (extracted and referenced), not
// discarded - inside containers discarding it is right (the container goes
// on), at top level it makes Next run on into the following documents.

// frozen: the idle state each parser is initialised with (its finalize tests for it).
var idleStateConst = map[string]string{"json": "startState", "cborl": "stValue", "ubjson": "stNext"}

type tdState struct{ disp int64 }
type tdClient struct {
	fn    *ssa.Function
	idle  int64
	steps map[*ssa.Function]*stepFn
	calls int
	bad   string
	p     *core.Prog
}

func (k *tdClient) Key(s tdState) string                              { return fmt.Sprint(s.disp) }
func (k *tdClient) Phis(s tdState, _ *ssa.BasicBlock, _ int) tdState { return s }
func (k *tdClient) Return(tdState, *ssa.Return)                      {}
func (k *tdClient) Branch(s tdState, cond ssa.Value, outcome bool) (tdState, bool) {
	if bo, ok := cond.(*ssa.BinOp); ok && bo.Op == token.EQL && outcome {
		if _, isLoad := bo.X.(*ssa.UnOp); isLoad {
			if c, ok := constIntVal(bo.Y); ok {
				s.disp = c + 1
			}
		}
	}
	return s, true
}
func (k *tdClient) Instr(s tdState, in ssa.Instruction) (tdState, bool, []tdState) {
	c, ok := in.(*ssa.Call)
	if !ok || s.disp-1 != k.idle || s.disp == 0 {
		return s, true, nil
	}
	sc := c.Common().StaticCallee()
	if sc == nil || k.steps[sc] == nil {
		return s, true, nil
	}
	k.calls++
	used := false
	if refs := c.Referrers(); refs != nil {
		for _, rf := range *refs {
			if ex, ok := rf.(*ssa.Extract); ok {
				if bt, ok := ex.Type().Underlying().(*types.Basic); ok && bt.Kind() == types.Bool {
					if er := ex.Referrers(); er != nil {
						for _, u := range *er {
							if _, isDbg := u.(*ssa.DebugRef); !isDbg {
								used = true
							}
						}
					}
				}
			}
		}
	}
	if !used {
		k.bad = "calls " + core.FuncKey(sc) + " at " + k.p.Pos(c.Pos()) + " and discards its completion flag"
	}
	s.disp = 0
	return s, true, nil
}

func topLevelDone(p *core.Prog, r *core.Result, pkgs []string) {
	for _, pk := range pkgs {
		fam, err := buildFamily(p, pk)
		if err != nil {
			continue
		}
		_ = p.SPkgs[pk]
		nc := p.Const(pk, idleStateConst[pk])
		if nc == nil {
			r.Undecided(".TOP-LEVEL-DONE", pk+"."+idleStateConst[pk], "idle state constant not found")
			continue
		}
		idle, _ := constIntVal(nc.Value)
		d := fam.feedUntil
		if ex := p.LookupFunc(pk, "(*Parser).execStep"); ex != nil {
			d = ex
		}
		k := &tdClient{fn: d, idle: idle, steps: fam.steps, p: p}
		_, capped := WalkPaths[tdState](k, d.Blocks[0], 0, tdState{}, 200000, nil)
		key := core.FuncKey(d)
		switch {
		case capped:
			r.Undecided(".TOP-LEVEL-DONE", key, "state cap hit")
		case k.calls == 0:
			r.Undecided(".TOP-LEVEL-DONE", key+"|idle", "no step call found in the arm of the idle state "+idleStateConst[pk])
		case k.bad != "":
			r.Fail(".TOP-LEVEL-DONE", key+"|flag", p.Pos(d.Pos()), key+": the arm of the idle state "+idleStateConst[pk]+" "+k.bad+": a top-level value that completes inside the chunk is not reported, and Next delivers the following document(s) in the same call", "")
		default:
			r.Ok(".TOP-LEVEL-DONE", p.Pos(d.Pos()), key+": the arm of the idle state uses the completion flag of the value step")
		}
	}
}

// ---- FINALIZER-STEPS (ubjson) ----
//
// A container handler that, in some step of its own, emits an event before it
// reads any input (the header is complete and the container still has to be
// announced; the count is exhausted and the container has to be closed) can be
// left in exactly that step when the input ends: the dispatcher stops as soon
// as the chunk is empty. The end-of-input check has to know every such step -
// it compares the open state's step with that constant somewhere - or a
// complete document whose last bytes are such a header is rejected as
// truncated.

type fsState struct {
	step int64 // 1 + known step constant, 0 unknown
	read bool
}
type fsClient struct {
	chunk ssa.Value
	steps map[int64]bool
	fn    *ssa.Function
}

func (k *fsClient) Key(s fsState) string                              { return fmt.Sprintf("%d|%v", s.step, s.read) }
func (k *fsClient) Phis(s fsState, _ *ssa.BasicBlock, _ int) fsState { return s }
func (k *fsClient) Return(fsState, *ssa.Return)                      {}
func isStepValue(v ssa.Value) bool {
	n, ok := v.Type().(*types.Named)
	return ok && core.TypeName(n) == "stateStep"
}
func (k *fsClient) Branch(s fsState, cond ssa.Value, outcome bool) (fsState, bool) {
	if bo, ok := cond.(*ssa.BinOp); ok && (bo.Op == token.EQL || bo.Op == token.NEQ) && isStepValue(bo.X) {
		if c, ok := constIntVal(bo.Y); ok {
			if outcome == (bo.Op == token.EQL) {
				if s.step != 0 && s.step != c+1 {
					return s, false
				}
				s.step = c + 1
			} else if s.step == c+1 {
				return s, false
			}
		}
	}
	return s, true
}
func (k *fsClient) Instr(s fsState, in ssa.Instruction) (fsState, bool, []fsState) {
	if s.read {
		return s, false, nil
	}
	switch x := in.(type) {
	case *ssa.IndexAddr:
		if x.X == k.chunk {
			s.read = true
		}
	case *ssa.Slice:
		if x.X == k.chunk {
			s.read = true
		}
	case *ssa.Call:
		for _, a := range x.Common().Args {
			if a == k.chunk {
				s.read = true
			}
		}
		cc := x.Common()
		if !s.read && cc.IsInvoke() && cc.Method.Pkg() != nil && cc.Method.Pkg().Path() == core.ModPath && strings.HasPrefix(cc.Method.Name(), "On") {
			if s.step != 0 {
				k.steps[s.step-1] = true
			}
			return s, false, nil
		}
	}
	return s, true, nil
}

func finalizerSteps(p *core.Prog, r *core.Result) {
	fam, err := buildFamily(p, "ubjson")
	if err != nil {
		return
	}
	fin := p.LookupFunc("ubjson", "(*Parser).finalize")
	if fin == nil {
		return
	}
	// step constants the end-of-input check knows
	known := map[int64]bool{}
	seen := map[*ssa.Function]bool{}
	var visit func(f *ssa.Function)
	visit = func(f *ssa.Function) {
		if seen[f] || f.Blocks == nil || core.FuncPkg(f) != core.FuncPkg(fin) {
			return
		}
		seen[f] = true
		for _, b := range f.Blocks {
			for _, in := range b.Instrs {
				if bo, ok := in.(*ssa.BinOp); ok && (bo.Op == token.EQL || bo.Op == token.NEQ) && isStepValue(bo.X) {
					if c, ok := constIntVal(bo.Y); ok {
						known[c] = true
					}
				}
				if c, ok := in.(ssa.CallInstruction); ok {
					if sc := c.Common().StaticCallee(); sc != nil && !fam.steps[sc].isStep() {
						visit(sc)
					}
				}
			}
		}
	}
	visit(fin)
	stepName := map[int64]string{}
	for name, m := range p.SPkgs["ubjson"].Members {
		if nc, ok := m.(*ssa.NamedConst); ok {
			if n, ok := nc.Type().(*types.Named); ok && core.TypeName(n) == "stateStep" {
				if v, ok := constIntVal(nc.Value); ok {
					stepName[v] = name
				}
			}
		}
	}
	n := 0
	for _, hn := range []string{"stepArrayCount", "stepArrayTyped", "stepObjectCountedContent"} {
		h := p.LookupFunc("ubjson", "(*Parser)."+hn)
		if h == nil {
			r.Undecided(".FINALIZER-STEPS", "ubjson."+hn, "container handler not found")
			continue
		}
		sf := fam.steps[h]
		if sf == nil {
			continue
		}
		k := &fsClient{chunk: sf.chunk, steps: map[int64]bool{}, fn: h}
		WalkPaths[fsState](k, h.Blocks[0], 0, fsState{}, 200000, nil)
		var ss []int64
		for s := range k.steps {
			ss = append(ss, s)
		}
		sort.Slice(ss, func(i, j int) bool { return ss[i] < ss[j] })
		for _, s := range ss {
			n++
			name := stepName[s]
			if name == "" {
				name = fmt.Sprint(s)
			}
			if known[s] {
				r.Ok(".FINALIZER-STEPS", p.Pos(h.Pos()), fmt.Sprintf("ubjson %s emits an event without input in step %s, and the end-of-input check knows that step", hn, name))
			} else {
				r.Fail(".FINALIZER-STEPS", fmt.Sprintf("ubjson.%s|%s", hn, name), p.Pos(h.Pos()), fmt.Sprintf("ubjson %s emits an event before reading any input when the open container is in step %s, so the input can end with the machine in that step (the dispatcher stops on an empty chunk); the end-of-input check never compares the step with %s: a complete document that ends with such a header (an empty counted container) is rejected as truncated", hn, name, name), "")
			}
		}
	}
	r.Floor("zero_input_steps", n, 2)
}

func (sf *stepFn) isStep() bool { return sf != nil }

package rules

import (
	"fmt"
	"go/constant"
	"go/token"
	"go/types"
	"sort"
	"strings"

	"golang.org/x/tools/go/ssa"

	"sfcheck/internal/core"
)

// R19 JSON-TEXT.
//
// (a) ESCAPE-TABLE: the package initialiser that fills jsonEscapeSet and
//     htmlEscapeSet is a closed constant computation (constant loop bounds,
//     range over constant strings, stores of `true`); it is folded by a small
//     constant evaluator over its SSA form and must yield exactly
//     jsonEscapeSet = {0x00-0x1f, '"', '\\'}, htmlEscapeSet = that + {<,>,&}.
//     Any other instruction makes the clause undecided.
// (b) FLOAT-GUARD: the float formatter call is dominated by the false edges
//     of both IsInf and IsNaN.
// (c) FLOAT-FORMAT: shortest round-tripping format: precision -1, bit size 32
//     for float32 events and 64 for float64 events.
// (d) ELEM-SEPARATOR: every value event of the json encoder passes through
//     tryElemNext (keys: onFieldNext) before its first write on every path.

type rangeIter struct {
	s   string
	pos int
}

// foldEscapeInit evaluates the initialiser; returns the set of indices stored
// true per global array.
func foldEscapeInit(f *ssa.Function) (map[string]map[int64]bool, error) {
	out := map[string]map[int64]bool{}
	env := map[ssa.Value]interface{}{}
	val := func(v ssa.Value) (interface{}, error) {
		if c, ok := v.(*ssa.Const); ok {
			if c.Value == nil {
				return nil, fmt.Errorf("nil constant")
			}
			switch c.Value.Kind() {
			case constant.Int:
				x, _ := constant.Int64Val(c.Value)
				return x, nil
			case constant.Bool:
				return constant.BoolVal(c.Value), nil
			case constant.String:
				return constant.StringVal(c.Value), nil
			}
			return nil, fmt.Errorf("unsupported constant %s", c)
		}
		x, ok := env[v]
		if !ok {
			return nil, fmt.Errorf("value %s not computed", v.Name())
		}
		return x, nil
	}
	blk := f.Blocks[0]
	var prev *ssa.BasicBlock
	steps := 0
	for {
		// phis first (parallel)
		newv := map[ssa.Value]interface{}{}
		for _, in := range blk.Instrs {
			phi, ok := in.(*ssa.Phi)
			if !ok {
				break
			}
			pi := predIndex(blk, prev)
			if pi < 0 {
				return nil, fmt.Errorf("phi without predecessor")
			}
			x, err := val(phi.Edges[pi])
			if err != nil {
				return nil, err
			}
			newv[phi] = x
		}
		for k, v := range newv {
			env[k] = v
		}
		var next *ssa.BasicBlock
		for _, in := range blk.Instrs {
			steps++
			if steps > 200000 {
				return nil, fmt.Errorf("step limit")
			}
			switch x := in.(type) {
			case *ssa.Phi, *ssa.DebugRef:
			case *ssa.BinOp:
				a, err := val(x.X)
				if err != nil {
					return nil, err
				}
				b, err := val(x.Y)
				if err != nil {
					return nil, err
				}
				ai, ok1 := a.(int64)
				bi, ok2 := b.(int64)
				if !ok1 || !ok2 {
					return nil, fmt.Errorf("non-integer binop")
				}
				switch x.Op {
				case token.ADD:
					env[x] = ai + bi
				case token.SUB:
					env[x] = ai - bi
				case token.LSS:
					env[x] = ai < bi
				case token.LEQ:
					env[x] = ai <= bi
				case token.GTR:
					env[x] = ai > bi
				case token.GEQ:
					env[x] = ai >= bi
				case token.EQL:
					env[x] = ai == bi
				case token.NEQ:
					env[x] = ai != bi
				default:
					return nil, fmt.Errorf("unsupported operator %s", x.Op)
				}
			case *ssa.Convert:
				a, err := val(x.X)
				if err != nil {
					return nil, err
				}
				env[x] = a
			case *ssa.IndexAddr:
				g, ok := x.X.(*ssa.Global)
				if !ok {
					return nil, fmt.Errorf("index into non-global")
				}
				i, err := val(x.Index)
				if err != nil {
					return nil, err
				}
				env[x] = [2]interface{}{g.Name(), i}
			case *ssa.Store:
				a, err := val(x.Addr)
				if err != nil {
					return nil, err
				}
				pr, ok := a.([2]interface{})
				if !ok {
					return nil, fmt.Errorf("store to unknown address")
				}
				v, err := val(x.Val)
				if err != nil {
					return nil, err
				}
				bv, ok := v.(bool)
				if !ok {
					return nil, fmt.Errorf("store of non-bool")
				}
				name := pr[0].(string)
				if out[name] == nil {
					out[name] = map[int64]bool{}
				}
				out[name][pr[1].(int64)] = bv
			case *ssa.Range:
				sv, err := val(x.X)
				if err != nil {
					return nil, err
				}
				str, ok := sv.(string)
				if !ok {
					return nil, fmt.Errorf("range over non-constant string")
				}
				env[x] = &rangeIter{s: str}
			case *ssa.Next:
				it, ok := env[x.Iter].(*rangeIter)
				if !ok || !x.IsString {
					return nil, fmt.Errorf("unsupported iterator")
				}
				if it.pos >= len(it.s) {
					env[x] = [3]interface{}{false, int64(0), int64(0)}
				} else {
					rs := []rune(it.s[it.pos:])
					r := rs[0]
					k := it.pos
					it.pos += len(string(r))
					env[x] = [3]interface{}{true, int64(k), int64(r)}
				}
			case *ssa.Extract:
				t, ok := env[x.Tuple].([3]interface{})
				if !ok {
					return nil, fmt.Errorf("extract from unknown tuple")
				}
				env[x] = t[x.Index]
			case *ssa.If:
				c, err := val(x.Cond)
				if err != nil {
					return nil, err
				}
				cb, ok := c.(bool)
				if !ok {
					return nil, fmt.Errorf("non-bool condition")
				}
				if cb {
					next = blk.Succs[0]
				} else {
					next = blk.Succs[1]
				}
			case *ssa.Jump:
				next = blk.Succs[0]
			case *ssa.Return:
				return out, nil
			default:
				return nil, fmt.Errorf("instruction %T is outside the constant fragment", in)
			}
		}
		if next == nil {
			return nil, fmt.Errorf("fell off block")
		}
		prev, blk = blk, next
	}
}

func R19(p *core.Prog) *core.Result {
	r := core.NewResult("R19", "the JSON encoder's escape tables are exactly the required sets; non-finite floats never reach the formatter; float text is the shortest round-tripping form of the right width; every value is preceded by the element separator logic")
	sp := p.SPkgs["json"]
	if sp == nil {
		r.Undecided("", "json", "package not loaded")
		return r
	}
	// ---- (a) ----
	var inits []*ssa.Function
	for name, m := range sp.Members {
		if f, ok := m.(*ssa.Function); ok && strings.HasPrefix(name, "init#") {
			inits = append(inits, f)
		}
	}
	sort.Slice(inits, func(i, j int) bool { return inits[i].Name() < inits[j].Name() })
	tables := map[string]map[int64]bool{}
	okFold := true
	for _, f := range inits {
		t, err := foldEscapeInit(f)
		if err != nil {
			okFold = false
			r.Undecided(".ESCAPE-TABLE", "json."+core.FuncName(f), "json."+core.FuncName(f)+" is not a closed constant computation the evaluator understands: "+err.Error())
			continue
		}
		for k, v := range t {
			if tables[k] == nil {
				tables[k] = map[int64]bool{}
			}
			for i, b := range v {
				tables[k][i] = b
			}
		}
	}
	// the tables might also be written elsewhere at init time (composite literal): R17 shows nobody writes them after init
	if okFold {
		want := map[string]map[int64]bool{"jsonEscapeSet": {}, "htmlEscapeSet": {}}
		for i := int64(0); i < 32; i++ {
			want["jsonEscapeSet"][i] = true
			want["htmlEscapeSet"][i] = true
		}
		for _, c := range []int64{'"', '\\'} {
			want["jsonEscapeSet"][c] = true
			want["htmlEscapeSet"][c] = true
		}
		for _, c := range []int64{'<', '>', '&'} {
			want["htmlEscapeSet"][c] = true
		}
		for _, name := range []string{"jsonEscapeSet", "htmlEscapeSet"} {
			g := p.Global("json", name)
			if g == nil {
				r.Undecided(".ESCAPE-TABLE", "json."+name, "table "+name+" not found")
				continue
			}
			var diff []string
			for i := int64(0); i < 128; i++ {
				got := tables[name][i]
				if got != want[name][i] {
					if got {
						diff = append(diff, fmt.Sprintf("0x%02x escaped but should not be", i))
					} else {
						diff = append(diff, fmt.Sprintf("0x%02x not escaped", i))
					}
				}
			}
			for i := range tables[name] {
				if i < 0 || i >= 128 {
					diff = append(diff, fmt.Sprintf("index %d out of the table", i))
				}
			}
			if len(diff) == 0 {
				r.Ok(".ESCAPE-TABLE", p.Pos(g.Pos()), fmt.Sprintf("json.%s = required set (%d characters)", name, len(want[name])))
			} else {
				sort.Strings(diff)
				r.Fail(".ESCAPE-TABLE", "json."+name, p.Pos(g.Pos()), "json."+name+" is not the set the format requires: "+strings.Join(diff, ", ")+" (raw control characters / quotes / HTML-significant characters reach the output)", "")
			}
		}
	}

	// ---- (b), (c) ----
	fmtCalls := 0
	for _, f := range p.ModFuncs() {
		if core.FuncPkg(f) == nil || core.FuncPkg(f).Name() != "json" {
			continue
		}
		for _, b := range f.Blocks {
			for _, in := range b.Instrs {
				c, ok := in.(*ssa.Call)
				if !ok {
					continue
				}
				sc := c.Common().StaticCallee()
				if sc == nil || funcPkgPath(sc) != "strconv" || (core.FuncName(sc) != "AppendFloat" && core.FuncName(sc) != "FormatFloat") {
					continue
				}
				fmtCalls++
				fkey := core.FuncKey(f)
				pos := p.Pos(c.Pos())
				args := c.Common().Args
				off := 0
				if core.FuncName(sc) == "AppendFloat" {
					off = 1
				}
				fval, prec, bits := args[off], args[off+2], args[off+3]
				// (b) guard
				guards := map[string]bool{}
				for d := b; d != nil; d = d.Idom() {
					id := d.Idom()
					if id == nil {
						break
					}
					iff, ok := id.Instrs[len(id.Instrs)-1].(*ssa.If)
					if !ok {
						continue
					}
					gc, ok := iff.Cond.(*ssa.Call)
					if !ok {
						continue
					}
					gs := gc.Common().StaticCallee()
					if gs == nil || funcPkgPath(gs) != "math" || len(gc.Common().Args) == 0 || gc.Common().Args[0] != fval {
						continue
					}
					// false edge must lead here
					if id.Succs[1] == d || id.Succs[1].Dominates(d) && !id.Succs[0].Dominates(d) {
						guards[gs.Name()] = true
					}
				}
				if guards["IsInf"] && guards["IsNaN"] {
					r.Ok(".FLOAT-GUARD", pos, fkey+": formatter is behind the false edges of IsInf and IsNaN")
				} else {
					r.Fail(".FLOAT-GUARD", fkey+"|"+core.FuncName(sc), pos, fkey+": a float reaches strconv."+core.FuncName(sc)+" without having been tested with both math.IsInf and math.IsNaN: NaN / Inf are written as invalid JSON text", "")
				}
				// (c) precision
				if pv, ok := constIntVal(prec); ok && pv == -1 {
					r.Ok(".FLOAT-FORMAT", pos, fkey+": precision -1 (shortest representation that round-trips)")
				} else {
					r.Fail(".FLOAT-FORMAT", fkey+"|precision", pos, fkey+": strconv."+core.FuncName(sc)+" is not called with precision -1: the decimal text no longer round-trips to the same float", "")
				}
				// bit size: constant or parameter fed by callers
				checkBits := func(v ssa.Value, fv ssa.Value, where string, wpos string) {
					bv, ok := constIntVal(v)
					if !ok {
						r.Fail(".FLOAT-FORMAT", where+"|bits", wpos, where+": the bit size handed to the float formatter is not a constant", "")
						return
					}
					// the float operand: float64(x) of a float32 -> 32, a float64 -> 64
					want := int64(64)
					if cv, ok := fv.(*ssa.Convert); ok {
						if b, ok := cv.X.Type().Underlying().(*types.Basic); ok && b.Kind() == types.Float32 {
							want = 32
						}
					}
					if bv == want {
						r.Ok(".FLOAT-FORMAT", wpos, fmt.Sprintf("%s: bit size %d matches the event's float width", where, bv))
					} else {
						r.Fail(".FLOAT-FORMAT", where+"|bits", wpos, fmt.Sprintf("%s formats a float%d value with bit size %d: the text is not the shortest one that round-trips at the value's width", where, want, bv), "")
					}
				}
				if prm, ok := bits.(*ssa.Parameter); ok {
					pi, fi := paramIndex(f, prm), -1
					if fp, ok := fval.(*ssa.Parameter); ok {
						fi = paramIndex(f, fp)
					}
					callers := 0
					for _, g := range p.ModFuncs() {
						for _, b2 := range g.Blocks {
							for _, in2 := range b2.Instrs {
								c2, ok := in2.(*ssa.Call)
								if !ok || c2.Common().StaticCallee() != f {
									continue
								}
								callers++
								var fv ssa.Value
								if fi >= 0 {
									fv = c2.Common().Args[fi]
								}
								checkBits(c2.Common().Args[pi], fv, core.FuncKey(g), p.Pos(c2.Pos()))
							}
						}
					}
					if callers == 0 {
						r.Undecided(".FLOAT-FORMAT", fkey+"|callers", "no callers of "+fkey)
					}
				} else {
					checkBits(bits, fval, fkey, pos)
				}
			}
		}
	}
	r.Floor("float_format_calls", fmtCalls, 1)

	// ---- (d) ----
	vis := sp.Type("Visitor")
	if vis == nil {
		r.Undecided(".ELEM-SEPARATOR", "json.Visitor", "type not found")
		return r
	}
	named := vis.Type().(*types.Named)
	ctx := &sepCtx{p: p, recv: named, sums: map[*ssa.Function]int{}, busy: map[*ssa.Function]bool{}}
	ms := p.SSA.MethodSets.MethodSet(types.NewPointer(named))
	events := 0
	for i := 0; i < ms.Len(); i++ {
		fo, ok := ms.At(i).Obj().(*types.Func)
		if !ok || !fo.Exported() || !strings.HasPrefix(fo.Name(), "On") {
			continue
		}
		switch fo.Name() {
		case "OnObjectFinished", "OnArrayFinished":
			continue // closers write no separator
		}
		f := p.SSA.FuncValue(fo)
		if f == nil || f.Blocks == nil {
			continue
		}
		events++
		v := ctx.summary(f)
		fkey := core.FuncKey(f)
		if v == sepBad {
			r.Fail(".ELEM-SEPARATOR", fkey, p.Pos(f.Pos()), fkey+" has a path that writes output before the element-separator logic (tryElemNext / onFieldNext) ran: inside an array or object the ',' between two elements is missing on that path", "")
		} else {
			r.Ok(".ELEM-SEPARATOR", p.Pos(f.Pos()), fkey+": separator logic runs before the first write on every path")
		}
	}
	r.Floor("json_value_events", events, 20)
	return r
}

// separator summaries: what happens first on every path of a method
const (
	sepNone = iota // neither writes nor separates (on some path) - neutral
	sepGood        // every path that writes separates first
	sepBad         // some path writes before separating
)

type sepCtx struct {
	p    *core.Prog
	recv *types.Named
	sums map[*ssa.Function]int
	busy map[*ssa.Function]bool
}

type sepState struct{ separated bool }
type sepClient struct {
	c   *sepCtx
	fn  *ssa.Function
	bad bool
	// does every path separate? (for callers)
	allSeparate bool
	anyWrite    bool
}

func (k *sepClient) Key(s sepState) string                                   { return fmt.Sprint(s.separated) }
func (k *sepClient) Phis(s sepState, _ *ssa.BasicBlock, _ int) sepState      { return s }
func (k *sepClient) Branch(s sepState, _ ssa.Value, _ bool) (sepState, bool) { return s, true }
func (k *sepClient) Return(s sepState, _ *ssa.Return) {
	if !s.separated {
		k.allSeparate = false
	}
}
func (k *sepClient) Instr(s sepState, in ssa.Instruction) (sepState, bool, []sepState) {
	c, ok := in.(*ssa.Call)
	if !ok {
		return s, true, nil
	}
	cc := c.Common()
	if cc.IsInvoke() && cc.Method.Name() == "Write" {
		k.anyWrite = true
		if !s.separated {
			k.bad = true
		}
		return s, true, nil
	}
	sc := cc.StaticCallee()
	if sc == nil || !k.c.p.InModule(sc) {
		return s, true, nil
	}
	switch core.FuncName(sc) {
	case "tryElemNext", "onFieldNext":
		s.separated = true
		return s, true, nil
	}
	// other module callee: a writer helper or another event
	v, sepAll, writes := k.c.calleeInfo(sc)
	if v == sepBad && !s.separated {
		k.bad = true
	}
	if writes {
		k.anyWrite = true
	}
	if sepAll {
		s.separated = true
	}
	return s, true, nil
}

func (c *sepCtx) calleeInfo(f *ssa.Function) (verdict int, separatesOnAllPaths bool, writes bool) {
	if c.busy[f] || f.Blocks == nil {
		return sepNone, false, false
	}
	c.busy[f] = true
	defer delete(c.busy, f)
	k := &sepClient{c: c, fn: f, allSeparate: true}
	_, capped := WalkPaths[sepState](k, f.Blocks[0], 0, sepState{}, 100000, nil)
	if capped {
		return sepBad, false, true
	}
	if k.bad {
		return sepBad, k.allSeparate, true
	}
	if k.anyWrite {
		return sepGood, k.allSeparate, true
	}
	return sepNone, k.allSeparate, false
}

func (c *sepCtx) summary(f *ssa.Function) int {
	if v, ok := c.sums[f]; ok {
		return v
	}
	v, _, _ := c.calleeInfo(f)
	c.sums[f] = v
	return v
}

package rules

import (
	"go/token"
	"go/types"
	"strings"

	"golang.org/x/tools/go/callgraph"
	"golang.org/x/tools/go/ssa"

	"sfcheck/internal/core"
)

// isInitFunc reports whether f is a package initialiser (the synthetic init,
// a declared init#N) or a function literal nested in one.
func isInitFunc(f *ssa.Function) bool {
	for f.Parent() != nil {
		f = f.Parent()
	}
	n := core.FuncName(f)
	return n == "init" || strings.HasPrefix(n, "init#")
}

// origins traces a value back through address arithmetic, loads, slicing,
// conversions and phis to the values it is derived from (parameters, globals,
// allocations, call results, free variables, constants). It answers "what
// memory may this address / reference point into" intra-procedurally.
func origins(v ssa.Value) []ssa.Value {
	seen := map[ssa.Value]bool{}
	var out []ssa.Value
	var walk func(v ssa.Value)
	walk = func(v ssa.Value) {
		if v == nil || seen[v] {
			return
		}
		seen[v] = true
		switch x := v.(type) {
		case *ssa.FieldAddr:
			walk(x.X)
		case *ssa.IndexAddr:
			walk(x.X)
		case *ssa.Field:
			walk(x.X)
		case *ssa.Index:
			walk(x.X)
		case *ssa.Slice:
			walk(x.X)
		case *ssa.UnOp:
			if x.Op == token.MUL {
				walk(x.X)
				// a load from a local variable yields whatever was stored there
				for _, a := range localAllocsOf(x.X) {
					for _, sv := range storedInto(a) {
						walk(sv)
					}
				}
			} else {
				out = append(out, v)
			}
		case *ssa.ChangeType:
			walk(x.X)
		case *ssa.Convert:
			walk(x.X)
		case *ssa.ChangeInterface:
			walk(x.X)
		case *ssa.MakeInterface:
			walk(x.X)
		case *ssa.TypeAssert:
			walk(x.X)
		case *ssa.Extract:
			// result of a tuple: keep the extract itself as origin (call result)
			out = append(out, v)
		case *ssa.Phi:
			for _, e := range x.Edges {
				walk(e)
			}
		default:
			out = append(out, v)
		}
	}
	walk(v)
	return out
}

// localAllocsOf returns the local allocations an address expression is based
// on (through field/index address arithmetic only).
func localAllocsOf(addr ssa.Value) []*ssa.Alloc {
	var out []*ssa.Alloc
	seen := map[ssa.Value]bool{}
	var walk func(v ssa.Value)
	walk = func(v ssa.Value) {
		if seen[v] {
			return
		}
		seen[v] = true
		switch x := v.(type) {
		case *ssa.Alloc:
			out = append(out, x)
		case *ssa.FieldAddr:
			walk(x.X)
		case *ssa.IndexAddr:
			walk(x.X)
		case *ssa.Phi:
			for _, e := range x.Edges {
				walk(e)
			}
		}
	}
	walk(addr)
	return out
}

// storedInto returns every value stored into a local allocation or into an
// address derived from it by field/index arithmetic.
func storedInto(a *ssa.Alloc) []ssa.Value {
	var out []ssa.Value
	seen := map[ssa.Value]bool{}
	var walk func(v ssa.Value)
	walk = func(v ssa.Value) {
		if seen[v] {
			return
		}
		seen[v] = true
		refs := v.Referrers()
		if refs == nil {
			return
		}
		for _, r := range *refs {
			switch x := r.(type) {
			case *ssa.Store:
				if x.Addr == v {
					out = append(out, x.Val)
				}
			case *ssa.FieldAddr:
				walk(x)
			case *ssa.IndexAddr:
				walk(x)
			}
		}
	}
	walk(a)
	return out
}

// staticCallees returns the possible module callees of a call instruction:
// the static callee if there is one, else the call graph's out-edges.
func calleesOf(p *core.Prog, site ssa.CallInstruction) []*ssa.Function {
	if f := site.Common().StaticCallee(); f != nil {
		return []*ssa.Function{f}
	}
	cg := p.CallGraph()
	n := cg.Nodes[site.Parent()]
	if n == nil {
		return nil
	}
	var out []*ssa.Function
	for _, e := range n.Out {
		if e.Site == site && e.Callee != nil && e.Callee.Func != nil {
			out = append(out, e.Callee.Func)
		}
	}
	return out
}

var _ = callgraph.CalleesOf

// namedOf strips pointers and returns the named type, or nil.
func namedOf(t types.Type) *types.Named {
	for {
		switch x := t.(type) {
		case *types.Pointer:
			t = x.Elem()
			continue
		case *types.Named:
			return x
		case *types.Alias:
			t = types.Unalias(x)
			continue
		}
		return nil
	}
}

func isErrorType(t types.Type) bool {
	n, ok := t.(*types.Named)
	return ok && n.Obj().Pkg() == nil && core.TypeName(n) == "error"
}

// pkgPathOf returns the package path of the object a function value denotes.
func funcPkgPath(f *ssa.Function) string {
	if pk := core.FuncPkg(f); pk != nil {
		return pk.Path()
	}
	return ""
}

// instrPos finds a usable position for an instruction (falls back to the
// nearest preceding instruction with a position, then the function).
func instrPos(in ssa.Instruction) (pos int) {
	if in.Pos().IsValid() {
		return int(in.Pos())
	}
	b := in.Block()
	idx := -1
	for i, x := range b.Instrs {
		if x == in {
			idx = i
			break
		}
	}
	for i := idx - 1; i >= 0; i-- {
		if b.Instrs[i].Pos().IsValid() {
			return int(b.Instrs[i].Pos())
		}
	}
	return int(in.Parent().Pos())
}

// typeObj: the object of a named type of a library package, by the name the rules know it under (a renamed
// type is re-identified, core/anchors.go); nil interface if there is none.
func typeObj(p *core.Prog, pkg, name string) types.Object {
	if n := p.Type(pkg, name); n != nil {
		return n.Obj()
	}
	return nil
}

// methodName: the name the rules know a method under (renamed methods are re-identified, core/anchors.go).
var methodNameProg *core.Prog

func methodName(obj types.Object) string {
	if methodNameProg != nil {
		return methodNameProg.MethodName(obj)
	}
	return obj.Name()
}

// ---- role of a parameter, decided by what its callers pass (names are not evidence) ----

// callArgsOf: the values the module's static callers pass for parameter idx of f.
func callArgsOf(p *core.Prog, f *ssa.Function, idx int) []ssa.Value {
	var out []ssa.Value
	for _, g := range p.ModFuncs() {
		for _, b := range g.Blocks {
			for _, in := range b.Instrs {
				if c, ok := in.(ssa.CallInstruction); ok && c.Common().StaticCallee() == f && idx < len(c.Common().Args) {
					out = append(out, c.Common().Args[idx])
				}
			}
		}
	}
	return out
}

func paramRole(prm *ssa.Parameter, depth int, pred func(ssa.Value) bool) bool {
	return paramRoleSeen(prm, map[*ssa.Parameter]bool{}, pred)
}

func paramRoleSeen(prm *ssa.Parameter, seen map[*ssa.Parameter]bool, pred func(ssa.Value) bool) bool {
	p := methodNameProg
	if p == nil || prm.Parent() == nil || len(seen) > 12 {
		return false
	}
	if seen[prm] {
		return true // a cycle adds no new sources
	}
	seen[prm] = true
	args := callArgsOf(p, prm.Parent(), paramIndex(prm.Parent(), prm))
	if len(args) == 0 {
		return false
	}
	for _, a := range args {
		if pred(a) {
			continue
		}
		if ap, ok := a.(*ssa.Parameter); ok && paramRoleSeen(ap, seen, pred) {
			continue
		}
		return false
	}
	return true
}

// isMajorParam: a uint8 parameter that only ever receives a CBOR major type
// (a constant whose low five bits are zero).
func isMajorParam(prm *ssa.Parameter) bool {
	if b, ok := prm.Type().Underlying().(*types.Basic); !ok || b.Kind() != types.Uint8 {
		return false
	}
	return paramRole(prm, 0, func(a ssa.Value) bool { return majorLike(a, 0) })
}

// majorLike: a constant major type, the major bits of a head byte, or a result
// of a module function that only ever returns such values (a helper that maps
// a signed integer to (major, argument)).
func majorLike(a ssa.Value, depth int) bool {
	if depth > 3 {
		return false
	}
	if c, ok := constIntVal(a); ok {
		return c&31 == 0 && c >= 0 && c <= 0xe0
	}
	switch x := a.(type) {
	case *ssa.BinOp:
		if x.Op == token.AND {
			if c, ok := constIntVal(x.Y); ok && c == 0xe0 {
				return true
			}
		}
	case *ssa.Phi:
		for _, e := range x.Edges {
			if !majorLike(e, depth+1) {
				return false
			}
		}
		return len(x.Edges) > 0
	case *ssa.Extract:
		c, ok := x.Tuple.(*ssa.Call)
		if !ok {
			return false
		}
		sc := c.Common().StaticCallee()
		if sc == nil || sc.Blocks == nil {
			return false
		}
		n := 0
		for _, b := range sc.Blocks {
			ret, ok := b.Instrs[len(b.Instrs)-1].(*ssa.Return)
			if !ok {
				continue
			}
			if x.Index >= len(ret.Results) || !majorLike(ret.Results[x.Index], depth+1) {
				return false
			}
			n++
		}
		return n > 0
	}
	return false
}

// isMinorParam: a uint8 parameter that only ever receives the low five bits of
// a head byte (x & 31).
func isMinorParam(prm *ssa.Parameter) bool {
	if b, ok := prm.Type().Underlying().(*types.Basic); !ok || b.Kind() != types.Uint8 {
		return false
	}
	return paramRole(prm, 0, func(a ssa.Value) bool {
		for i := 0; i < 3; i++ {
			switch x := a.(type) {
			case *ssa.BinOp:
				if x.Op == token.AND {
					if c, ok := constIntVal(x.Y); ok && c == 31 {
						return true
					}
				}
				return false
			case *ssa.Convert:
				a = x.X
				continue
			case *ssa.UnOp:
				// a field that was filled from x & 31 (state.minor)
				if x.Op == token.MUL {
					if fa, ok := x.X.(*ssa.FieldAddr); ok {
						st := fa.X.Type().Underlying().(*types.Pointer).Elem().Underlying().(*types.Struct)
						return core.FieldName(st, fa.Field) == "minor"
					}
				}
				return false
			}
			return false
		}
		return false
	})
}

// isLiteralTableParam: a []byte parameter that only ever receives a
// package-level table (the expected spelling of a literal), never input.
func isLiteralTableParam(prm *ssa.Parameter) bool {
	return paramRole(prm, 0, func(a ssa.Value) bool {
		if cv, ok := a.(*ssa.Convert); ok {
			_, isC := cv.X.(*ssa.Const)
			return isC // []byte("literal")
		}
		ld, ok := a.(*ssa.UnOp)
		if !ok || ld.Op != token.MUL {
			return false
		}
		_, isG := ld.X.(*ssa.Global)
		return isG
	})
}

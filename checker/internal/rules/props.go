// Package rules holds the repository-specific rules (R1..R20 of DESIGN.md)
// and the mapping from properties to the rules that decide their clauses.
package rules

import (
	"sfcheck/internal/core"
)

// RuleRun is one rule invocation inside a property check.
type RuleRun struct {
	Name string
	Run  func(p *core.Prog) *core.Result
}

// PropSpec says how one property is decided.
type PropSpec struct {
	ID          string
	Level       string // "proof" | "other"
	Decided     string
	NotDecided  string
	Assumptions []string
	TrustedBase []string
	Rules       []RuleRun
	// manifest texts
	LevelText string // what assurance the check gives and why this level
	Technique string // the deciding method in a few words
	DesignRef string
}

// NotApplicable lists the properties that are not claimed, with the reason.
var NotApplicable = map[string]string{}

func (ps *PropSpec) RuleNames() []string {
	var out []string
	for _, r := range ps.Rules {
		out = append(out, r.Name)
	}
	return out
}

var baseTrusted = []string{
	"go/types and go/packages (type-checked program as the Go toolchain sees it, GOOS=linux, no build tags)",
	"golang.org/x/tools go/ssa v0.29.0 (SSA construction) and callgraph/vta seeded with cha",
	"the rule implementations under /verif/checker/internal/rules and their frozen anchor tables",
}

var registry []*PropSpec

func register(ps *PropSpec) { registry = append(registry, ps) }

// Properties returns all claimed properties in id order.
func Properties() []*PropSpec {
	return registry
}

// Property looks a property up by id.
func Property(id string) *PropSpec {
	for _, ps := range registry {
		if ps.ID == id {
			return ps
		}
	}
	return nil
}

// SetProg tells name helpers which program is being analysed (rename re-identification of methods).
func SetProg(p *core.Prog) { methodNameProg = p }

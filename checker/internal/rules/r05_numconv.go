package rules

import (
	"fmt"
	"go/token"
	"go/types"
	"math/big"
	"sort"
	"strings"

	"golang.org/x/tools/go/ssa"

	"sfcheck/internal/core"
)

// ---------------------------------------------------------------------
// interval walk client
// ---------------------------------------------------------------------

type r5client struct {
	env        *ienv
	fn         *ssa.Function
	observe    func(s istate, in ssa.Instruction)
	aliasDepth int
}

func (k *r5client) Key(s istate) string { return s.key() }

func (k *r5client) Phis(s istate, blk *ssa.BasicBlock, pred int) istate {
	type upd struct {
		id     int
		iv     ival
		has    bool
		full   ival
		isInt  bool
		bt, bf bool
		eq     ssa.Value
	}
	var ups []upd
	for _, in := range blk.Instrs {
		phi, ok := in.(*ssa.Phi)
		if !ok {
			break
		}
		if pred < 0 || pred >= len(phi.Edges) {
			continue
		}
		e := phi.Edges[pred]
		u := upd{id: k.env.num.id(phi)}
		if full, ok := typeRange(phi.Type(), k.env.sizes); ok {
			u.isInt, u.full = true, full
			if isBackEdge(blk, pred) {
				u.iv, u.has = full, true // widen at loop heads
			} else if iv, ok := k.env.get(s, e); ok {
				u.iv, u.has = iv, true
			}
		}
		if cv, ok := constBool(e); ok {
			u.bt, u.bf = cv, !cv
		} else {
			u.bt, u.bf = s.bt.has(k.env.num.id(e)), s.bf.has(k.env.num.id(e))
			if b, isB := phi.Type().Underlying().(*types.Basic); isB && b.Kind() == types.Bool {
				u.eq = e
			}
		}
		ups = append(ups, u)
	}
	for _, u := range ups {
		if u.isInt && u.has {
			s = s.set(u.id, u.iv, u.full)
		}
		if len(s.eq) > 0 || u.eq != nil {
			n := make(map[int]ssa.Value, len(s.eq)+1)
			for kk, vv := range s.eq {
				n[kk] = vv
			}
			delete(n, u.id)
			if u.eq != nil {
				n[u.id] = u.eq
			}
			s.eq = n
		}
		s.bt, s.bf = s.bt.without(u.id), s.bf.without(u.id)
		if u.bt {
			s.bt = s.bt.with(u.id)
		}
		if u.bf {
			s.bf = s.bf.with(u.id)
		}
	}
	return s
}

func (k *r5client) Instr(s istate, in ssa.Instruction) (istate, bool, []istate) {
	if k.observe != nil {
		k.observe(s, in)
	}
	switch x := in.(type) {
	case *ssa.Convert:
		if full, ok := typeRange(x.Type(), k.env.sizes); ok {
			if op, ok := k.env.get(s, x.X); ok {
				bits, signed, _ := intTypeInfo(x.Type(), k.env.sizes)
				w, _ := wrapInto(op, bits, signed)
				s = s.set(k.env.num.id(x), w, full)
			}
		}
	case *ssa.BinOp:
		if full, ok := typeRange(x.Type(), k.env.sizes); ok {
			if r, ok := k.env.evalBinOp(s, x); ok {
				s = s.set(k.env.num.id(x), r, full)
			}
		}
	case *ssa.UnOp:
		if x.Op == token.XOR || x.Op == token.SUB {
			if full, ok := typeRange(x.Type(), k.env.sizes); ok {
				if r, ok := k.env.evalUnOp(s, x); ok {
					s = s.set(k.env.num.id(x), r, full)
				}
			}
		}
	case *ssa.ChangeType:
		if full, ok := typeRange(x.Type(), k.env.sizes); ok {
			if op, ok := k.env.get(s, x.X); ok {
				s = s.set(k.env.num.id(x), op, full)
			}
		}
	}
	return s, true, nil
}

func (k *r5client) Branch(s istate, cond ssa.Value, outcome bool) (istate, bool) {
	for {
		u, ok := cond.(*ssa.UnOp)
		if !ok || u.Op != token.NOT {
			break
		}
		cond, outcome = u.X, !outcome
	}
	id := k.env.num.id(cond)
	if s.bt.has(id) && !outcome || s.bf.has(id) && outcome {
		return s, false
	}
	if cv, ok := constBool(cond); ok && cv != outcome {
		return s, false
	}
	if alias, ok := s.eq[id]; ok && alias != cond && k.aliasDepth < 8 {
		// loop-carried boolean phis can alias each other in a cycle: bounded
		k.aliasDepth++
		ns, feas := k.Branch(s, alias, outcome)
		k.aliasDepth--
		if !feas {
			return s, false
		}
		s = ns
	}
	// err == nil for the error of a validating helper: what the helper guarantees about its integer arguments
	// on its nil-returning paths holds for the arguments here (checkLen(L) == nil  =>  0 <= L <= maxLen)
	if x, trueMeansNil, ok := nilTest(cond); ok && isErrorType(x.Type()) && outcome == trueMeansNil {
		if call, ok := x.(*ssa.Call); ok {
			if sc := call.Common().StaticCallee(); sc != nil && sc.Blocks != nil && core.FuncPkg(sc) == core.FuncPkg(k.fn) {
				for idx, iv := range nilSummary(sc, k.env.sizes, 0) {
					if idx >= len(call.Common().Args) {
						continue
					}
					arg := call.Common().Args[idx]
					cur, ok := k.env.get(s, arg)
					full, okf := typeRange(arg.Type(), k.env.sizes)
					if !ok || !okf {
						continue
					}
					lo, hi := cur.lo, cur.hi
					if iv.lo.Cmp(lo) > 0 {
						lo = iv.lo
					}
					if iv.hi.Cmp(hi) < 0 {
						hi = iv.hi
					}
					if lo.Cmp(hi) > 0 {
						return s, false
					}
					if _, isC := arg.(*ssa.Const); !isC {
						s = s.set(k.env.num.id(arg), ival{lo, hi}, full)
						s = k.refineThroughConvert(s, arg, ival{lo, hi})
					}
				}
			}
		}
	}
	if bo, ok := cond.(*ssa.BinOp); ok {
		switch bo.Op {
		case token.LSS, token.LEQ, token.GTR, token.GEQ, token.EQL, token.NEQ:
			x, okx := k.env.get(s, bo.X)
			y, oky := k.env.get(s, bo.Y)
			if okx && oky {
				fx, _ := typeRange(bo.X.Type(), k.env.sizes)
				fy, _ := typeRange(bo.Y.Type(), k.env.sizes)
				nx, feas := refineCmp(x, bo.Op, y, outcome)
				if !feas {
					return s, false
				}
				ny, feas := refineCmp(y, flipCmp(bo.Op), x, outcome)
				if !feas {
					return s, false
				}
				if _, isC := bo.X.(*ssa.Const); !isC {
					s = s.set(k.env.num.id(bo.X), nx, fx)
					s = k.refineThroughConvert(s, bo.X, nx)
				}
				if _, isC := bo.Y.(*ssa.Const); !isC {
					s = s.set(k.env.num.id(bo.Y), ny, fy)
					s = k.refineThroughConvert(s, bo.Y, ny)
				}
			}
		}
	}
	if b, isB := cond.Type().Underlying().(*types.Basic); isB && b.Kind() == types.Bool {
		if outcome {
			s.bt = s.bt.with(id)
		} else {
			s.bf = s.bf.with(id)
		}
	}
	return s, true
}

// refineThroughConvert: a fact about T(x) where the conversion is widening
// (value preserving) is a fact about x.
func (k *r5client) refineThroughConvert(s istate, v ssa.Value, iv ival) istate {
	cv, ok := v.(*ssa.Convert)
	if !ok {
		return s
	}
	src, ok := typeRange(cv.X.Type(), k.env.sizes)
	if !ok {
		return s
	}
	dst, _ := typeRange(cv.Type(), k.env.sizes)
	if !src.within(dst) {
		return s
	}
	cur, _ := k.env.get(s, cv.X)
	lo, hi := cur.lo, cur.hi
	if iv.lo.Cmp(lo) > 0 {
		lo = iv.lo
	}
	if iv.hi.Cmp(hi) < 0 {
		hi = iv.hi
	}
	if lo.Cmp(hi) > 0 {
		return s
	}
	return s.set(k.env.num.id(cv.X), ival{lo, hi}, src)
}

func (k *r5client) Return(s istate, ret *ssa.Return) {
	if k.observe != nil {
		k.observe(s, ret)
	}
}

// ---------------------------------------------------------------------
// R5 NUMCONV
// ---------------------------------------------------------------------

type convObs struct {
	conv  *ssa.Convert
	union *ival
	multi bool // some path spans more than one wrap window of the target
}

func sizesFor(p *core.Prog) types.Sizes { return types.SizesFor("gc", p.Arch) }

// isBigEndianLoad: v is binary.BigEndian.UintN(x).
func isBigEndianLoad(v ssa.Value) bool {
	c, ok := v.(*ssa.Call)
	if !ok {
		return false
	}
	sc := c.Common().StaticCallee()
	return sc != nil && funcPkgPath(sc) == "encoding/binary" && strings.HasPrefix(core.FuncName(sc), "Uint")
}

// usedOnlyAsWireStore: every use of the conversion is an argument of
// binary.BigEndian.PutUintN, of a writeByte-like helper, or a store into a
// byte scratch buffer.
func usedOnlyAsWireStore(cv *ssa.Convert) bool {
	refs := cv.Referrers()
	if refs == nil || len(*refs) == 0 {
		return false
	}
	for _, r := range *refs {
		switch x := r.(type) {
		case *ssa.Call:
			sc := x.Common().StaticCallee()
			if sc == nil {
				return false
			}
			if funcPkgPath(sc) == "encoding/binary" && strings.HasPrefix(core.FuncName(sc), "PutUint") {
				continue
			}
			if core.FuncName(sc) == "writeByte" {
				continue
			}
			return false
		case *ssa.Store:
			if _, ok := x.Addr.(*ssa.IndexAddr); ok {
				continue
			}
			return false
		case *ssa.DebugRef:
		default:
			return false
		}
	}
	return true
}

// markerRange: the value range a UBJSON integer marker can carry.
func ubjsonMarkerRange(pkg *ssa.Package, name string) (ival, bool) {
	switch name {
	case "int8Marker":
		return rangeOf(8, true), true
	case "uint8Marker":
		return rangeOf(8, false), true
	case "int16Marker":
		return rangeOf(16, true), true
	case "int32Marker":
		return rangeOf(32, true), true
	case "int64Marker":
		return rangeOf(64, true), true
	}
	return ival{}, false
}

func constName(pkg *ssa.Package, v ssa.Value) string {
	c, ok := v.(*ssa.Const)
	if !ok || c.Value == nil {
		return ""
	}
	// find a named constant of the package with that value and type byte whose name ends in Marker
	for name, m := range pkg.Members {
		nc, ok := m.(*ssa.NamedConst)
		if !ok || !strings.HasSuffix(name, "Marker") {
			continue
		}
		if nc.Value.Value != nil && nc.Value.Value.ExactString() == c.Value.ExactString() {
			return name
		}
	}
	return ""
}

// R5 runs NUMCONV for the given codec packages.
func R5(pkgs ...string) func(p *core.Prog) *core.Result {
	return func(p *core.Prog) *core.Result {
		r := core.NewResult("R5", "no integer changes its value on the number paths of "+strings.Join(pkgs, ",")+": every non-constant integer conversion is an obligation, discharged when the operand's interval (type range refined by branch conditions on the path) lies inside the target range, or the conversion is one of the enumerated wire-format idioms; CBOR heads pack only arguments 0..23 inline; UBJSON marker tables respect the markers' value ranges")
		sizes := sizesFor(p)
		in := map[string]bool{}
		for _, k := range pkgs {
			in[k] = true
		}
		total := 0
		headORs := 0
		// field invariant: remaining-length entries (lengthStack.current) never exceed the largest value pushed
		lenHi := map[string]*big.Int{}
		type pushObs struct {
			lo      *big.Int
			fn, pos string
		}
		pushLo := map[string]pushObs{}
		lenLo := map[string]*big.Int{} // assumption: countdowns (current--, current -= consumed) never go below -1: each decrement is matched by an element / byte actually consumed
		for _, f := range p.ModFuncs() {
			pk := core.FuncPkg(f)
			if pk == nil || !in[pk.Name()] {
				continue
			}
			hasPush := false
			if core.FuncName(f) == "pushLen" || (f.Signature.Recv() != nil && namedOf(f.Signature.Recv().Type()) != nil && core.TypeName(namedOf(f.Signature.Recv().Type())) == "lengthStack") {
				continue // the wrapper / the stack itself: their callers are the push sites
			}
			for _, b := range f.Blocks {
				for _, ins := range b.Instrs {
					if c, ok := ins.(*ssa.Call); ok && isLengthPush(c) {
						hasPush = true
					}
				}
			}
			if !hasPush {
				continue
			}
			env := &ienv{num: newNumbering(), sizes: sizes}
			k := &r5client{env: env, fn: f}
			k.observe = func(s istate, ins ssa.Instruction) {
				c, ok := ins.(*ssa.Call)
				if !ok || !isLengthPush(c) {
					return
				}
				args := c.Common().Args
				iv, ok := env.get(s, args[len(args)-1])
				if !ok {
					return
				}
				if cur := lenHi[pk.Name()]; cur == nil || iv.hi.Cmp(cur) > 0 {
					lenHi[pk.Name()] = iv.hi
				}
				if cur := lenLo[pk.Name()]; cur == nil || iv.lo.Cmp(cur) < 0 {
					lenLo[pk.Name()] = iv.lo
				}
				if f.Signature.Recv() == nil || namedOf(f.Signature.Recv().Type()) == nil || namedOf(f.Signature.Recv().Type()).Obj().Name() != "Parser" {
					return // encoders keep the caller's announced length, where any negative value means "unknown"
				}
				site := p.Pos(c.Pos())
				if cur, ok := pushLo[site]; !ok || iv.lo.Cmp(cur.lo) < 0 {
					pushLo[site] = pushObs{iv.lo, core.FuncKey(f), site}
				}
			}
			WalkPaths[istate](k, f.Blocks[0], 0, istate{}, 400000, nil)
		}
		// LEN-PUSH: a remaining-length entry is a count (or the -1 that stands for "indefinite"), never anything below
		{
			var sites []string
			for s := range pushLo {
				sites = append(sites, s)
			}
			sort.Strings(sites)
			ord := map[string]int{}
			for _, s := range sites {
				o := pushLo[s]
				ord[o.fn]++
				total++
				if o.lo.Cmp(big.NewInt(-1)) >= 0 {
					r.Ok(".LEN-PUSH", o.pos, fmt.Sprintf("%s: pushed remaining length is at least %s on every path", o.fn, o.lo.String()))
				} else {
					r.Fail(".LEN-PUSH", fmt.Sprintf("%s|push#%d", o.fn, ord[o.fn]), o.pos, fmt.Sprintf("%s pushes a remaining length that can be as low as %s: a wire integer becomes a negative count (containers that never end, negative collect sizes)", o.fn, o.lo.String()), "")
				}
			}
		}
		for _, f := range p.ModFuncs() {
			pk := core.FuncPkg(f)
			if pk == nil || !in[pk.Name()] || isInitFunc(f) {
				continue
			}
			if strings.HasSuffix(p.Fset.Position(f.Pos()).Filename, "_string.go") {
				continue // stringer output
			}
			obs := map[*ssa.Convert]*convObs{}
			type orObs struct {
				in  *ssa.BinOp
				bad *ival
			}
			ors := map[*ssa.BinOp]*orObs{}
			wraps := map[*ssa.BinOp]bool{}
			shifts := map[*ssa.BinOp]*ival{}
			shiftBits := map[*ssa.BinOp]int{}
			env := &ienv{num: newNumbering(), sizes: sizes}
			if hi := lenHi[pk.Name()]; hi != nil && f.Signature.Recv() != nil && namedOf(f.Signature.Recv().Type()) != nil && namedOf(f.Signature.Recv().Type()).Obj().Name() != "lengthStack" {
				env.loadBound = func(ld *ssa.UnOp) (ival, bool) {
					fa, ok := ld.X.(*ssa.FieldAddr)
					if !ok {
						return ival{}, false
					}
					n := namedOf(fa.X.Type())
					if n == nil || core.TypeName(n) != "lengthStack" {
						return ival{}, false
					}
					st := n.Underlying().(*types.Struct)
					if core.FieldName(st, fa.Field) != "current" {
						return ival{}, false
					}
					lo := big.NewInt(-1)
					if l := lenLo[pk.Name()]; l != nil && l.Cmp(lo) < 0 {
						lo = l
					}
					return ival{lo, hi}, true
				}
			}
			k := &r5client{env: env, fn: f}
			k.observe = func(s istate, ins ssa.Instruction) {
				switch x := ins.(type) {
				case *ssa.Convert:
					if _, ok := typeRange(x.Type(), sizes); !ok {
						return
					}
					if _, ok := typeRange(x.X.Type(), sizes); !ok {
						return
					}
					if _, isC := x.X.(*ssa.Const); isC {
						return
					}
					op, _ := env.get(s, x.X)
					o := obs[x]
					if o == nil {
						o = &convObs{conv: x}
						obs[x] = o
					}
					if o.union == nil {
						c := op
						o.union = &c
					} else {
						h := hull(*o.union, op)
						o.union = &h
					}
					bits, signed, _ := intTypeInfo(x.Type(), sizes)
					if _, one := wrapInto(op, bits, signed); !one {
						o.multi = true
					}
				case *ssa.BinOp:
					// SHIFT-RANGE: a shift by a non-constant count must stay below the operand's width
					if x.Op == token.SHL || x.Op == token.SHR {
						if _, isC := x.Y.(*ssa.Const); !isC {
							if bits, _, ok := intTypeInfo(x.X.Type(), sizes); ok {
								if _, xc := x.X.(*ssa.Const); xc {
									// an untyped constant operand takes the width of the result
									if b2, _, ok2 := intTypeInfo(x.Type(), sizes); ok2 {
										bits = b2
									}
								}
								iv, _ := env.get(s, x.Y)
								if cur, seen := shifts[x]; !seen {
									c := iv
									shifts[x] = &c
								} else {
									h := hull(*cur, iv)
									shifts[x] = &h
								}
								shiftBits[x] = bits
							}
						}
					}
					// digit accumulation on the text->number path: an unsigned add/mul that can wrap needs a wrap check
					if pk.Name() == "json" && strings.HasPrefix(core.FuncName(f), "parse") && (x.Op == token.ADD || x.Op == token.MUL) {
						if bits, signed, ok := intTypeInfo(x.Type(), sizes); ok && !signed && bits == 64 && env.mayWrap(s, x) {
							wraps[x] = true
						}
					}
					// CBOR head: major | arg
					if pk.Name() != "cborl" || x.Op != token.OR {
						return
					}
					var other ssa.Value
					if prm, ok := x.X.(*ssa.Parameter); ok && isMajorParam(prm) {
						other = x.Y
					} else if prm, ok := x.Y.(*ssa.Parameter); ok && isMajorParam(prm) {
						other = x.X
					} else {
						return
					}
					o := ors[x]
					if o == nil {
						o = &orObs{in: x}
						ors[x] = o
					}
					if _, isC := other.(*ssa.Const); isC {
						return
					}
					iv, _ := env.get(s, other)
					if iv.lo.Sign() < 0 || iv.hi.Cmp(bi(23)) > 0 {
						c := iv
						o.bad = &c
					}
				}
			}
			type inlObs struct {
				in  ssa.Instruction
				bad *ival
			}
			inl := map[ssa.Instruction]*inlObs{}
			prevObserve := k.observe
			k.observe = func(s istate, ins ssa.Instruction) {
				prevObserve(s, ins)
				if pk.Name() != "cborl" {
					return
				}
				c, ok := ins.(*ssa.Call)
				if !ok {
					return
				}
				cc := c.Common()
				isSink := false
				if cc.IsInvoke() && cc.Method.Pkg() != nil && cc.Method.Pkg().Path() == core.ModPath && (isNumEvent(cc.Method.Name())) {
					isSink = true
				}
				if sc := cc.StaticCallee(); sc != nil && core.FuncName(sc) == "push" && sc.Signature.Recv() != nil && namedOf(sc.Signature.Recv().Type()) != nil && core.TypeName(namedOf(sc.Signature.Recv().Type())) == "lengthStack" {
					isSink = true
				}
				if !isSink || len(cc.Args) == 0 {
					return
				}
				arg := cc.Args[len(cc.Args)-1]
				src, complemented := inlineArgSource(arg)
				if src == nil {
					return
				}
				o := inl[ins]
				if o == nil {
					o = &inlObs{in: ins}
					inl[ins] = o
				}
				iv, _ := env.get(s, src)
				_ = complemented
				if iv.lo.Sign() < 0 || iv.hi.Cmp(bi(23)) > 0 {
					cp := iv
					o.bad = &cp
				}
			}
			// NEG-SIGN: the decoder of CBOR major type 1 (negative integers, -1-n) only ever reports negative numbers
			negHi := map[ssa.Instruction]*big.Int{}
			if pk.Name() == "cborl" && core.FuncName(f) == "stepNeg" {
				prev2 := k.observe
				k.observe = func(s istate, ins ssa.Instruction) {
					prev2(s, ins)
					c, ok := ins.(*ssa.Call)
					if !ok || !c.Common().IsInvoke() || !isNumEvent(c.Common().Method.Name()) || len(c.Common().Args) == 0 {
						return
					}
					iv, ok := env.get(s, c.Common().Args[len(c.Common().Args)-1])
					if !ok {
						return
					}
					if cur := negHi[ins]; cur == nil || iv.hi.Cmp(cur) > 0 {
						negHi[ins] = iv.hi
					}
				}
			}
			// MARKER-PAYLOAD (ubjson encoder): a payload byte written right behind an integer marker constant
			mpBad := map[ssa.Instruction]*ival{}
			var mpPairs map[ssa.Instruction]markerPair
			if pk.Name() == "ubjson" {
				mpPairs = markerPayloadPairs(f)
				if len(mpPairs) > 0 {
					prev3 := k.observe
					k.observe = func(s istate, ins ssa.Instruction) {
						prev3(s, ins)
						mp, ok := mpPairs[ins]
						if !ok {
							return
						}
						iv, ok := env.get(s, mp.operand)
						if !ok {
							return
						}
						if cur := mpBad[ins]; cur != nil {
							h := hull(*cur, iv)
							mpBad[ins] = &h
						} else {
							c := iv
							mpBad[ins] = &c
						}
					}
				}
			}
			_, capped := WalkPaths[istate](k, f.Blocks[0], 0, istate{}, 400000, nil)
			fkey := core.FuncKey(f)
			if pk.Name() == "cborl" && core.FuncName(f) == "stepNeg" {
				var il []ssa.Instruction
				for in := range negHi {
					il = append(il, in)
				}
				sort.Slice(il, func(i, j int) bool { return instrPos(il[i]) < instrPos(il[j]) })
				for i, in := range il {
					total++
					pos := p.Pos(token.Pos(instrPos(in)))
					if negHi[in].Sign() >= 0 {
						r.Fail(".NEG-SIGN", fmt.Sprintf("%s|event#%d", fkey, i+1), pos, fmt.Sprintf("%s reports an item of major type 1 (a negative integer -1-n) with a value that can be as high as %s: for some argument the sign is lost (complement taken at the argument's width before widening, or a missing -1-n)", fkey, negHi[in].String()), "")
					} else {
						r.Ok(".NEG-SIGN", pos, fmt.Sprintf("%s: reported value is at most %s on every path", fkey, negHi[in].String()))
					}
				}
				if len(il) < 4 {
					r.Undecided(".NEG-SIGN", fkey, "expected at least 4 number events in the decoder of major type 1")
				}
			}
			{
				var il []ssa.Instruction
				for in := range inl {
					il = append(il, in)
				}
				sort.Slice(il, func(i, j int) bool { return instrPos(il[i]) < instrPos(il[j]) })
				for i, in := range il {
					total++
					pos := p.Pos(token.Pos(instrPos(in)))
					if o := inl[in]; o.bad != nil {
						r.Fail(".CBOR-INLINE", fmt.Sprintf("%s|inline-arg#%d", fkey, i+1), pos, fmt.Sprintf("%s uses the additional-information bits of the initial byte as the value/length itself while they can be anywhere in %s; only 0..23 are inline arguments (24..27 mean 'argument follows', 31 'indefinite')", fkey, o.bad), "")
					} else {
						r.Ok(".CBOR-INLINE", pos, fkey+": additional-information bits used as inline argument only within 0..23")
					}
				}
			}
			if capped {
				r.Undecided(".CONV", fkey, "state cap hit in "+fkey)
				continue
			}
			{
				var il []ssa.Instruction
				for in := range mpPairs {
					il = append(il, in)
				}
				sort.Slice(il, func(i, j int) bool { return instrPos(il[i]) < instrPos(il[j]) })
				for i, in := range il {
					mp := mpPairs[in]
					rng, _ := ubjsonMarkerRange(f.Pkg, mp.marker)
					pos := p.Pos(token.Pos(instrPos(in)))
					total++
					r.Stats["ubjson_marker_payload_pairs"]++
					if iv := mpBad[in]; iv != nil && !iv.within(rng) {
						r.Fail(".MARKER-PAYLOAD", fmt.Sprintf("%s|%s#%d", fkey, mp.marker, i+1), pos, fmt.Sprintf("%s writes %s followed by a payload byte converted from a value that can be anywhere in %s, but that marker carries %s: a reader takes the byte for a different number (a length above 127 under the signed 8-bit marker is negative)", fkey, mp.marker, iv, rng), "")
					} else {
						r.Ok(".MARKER-PAYLOAD", pos, fmt.Sprintf("%s: the byte behind %s is converted from a value within the marker's range", fkey, mp.marker))
					}
				}
			}
			// judge conversions
			var convs []*ssa.Convert
			for c := range obs {
				convs = append(convs, c)
			}
			sort.Slice(convs, func(i, j int) bool { return instrPos(convs[i]) < instrPos(convs[j]) })
			ord := map[string]int{}
			for _, cv := range convs {
				o := obs[cv]
				total++
				dst, _ := typeRange(cv.Type(), sizes)
				sbits, ssigned, _ := intTypeInfo(cv.X.Type(), sizes)
				dbits, dsigned, _ := intTypeInfo(cv.Type(), sizes)
				desc := fmt.Sprintf("%s(%s)", types.TypeString(cv.Type(), nil), types.TypeString(cv.X.Type(), nil))
				ord[desc]++
				key := fmt.Sprintf("%s|%s#%d", fkey, desc, ord[desc])
				pos := p.Pos(token.Pos(instrPos(cv)))
				if o.union.within(dst) {
					r.Ok(".CONV", pos, fmt.Sprintf("%s: %s with operand in %s keeps the value", fkey, desc, o.union))
					continue
				}
				narrowing := dbits < sbits
				sameWidthSign := dbits >= sbits && dsigned != ssigned // value changes only for negative / too large operands
				// accepted idioms
				switch {
				case pk.Name() == "ubjson" && (isBigEndianLoad(cv.X) || isByteLoad(cv.X)) && sameWidthSign:
					r.Ok(".CONV", pos, fkey+": "+desc+" reinterprets big-endian two's-complement wire bytes (UBJSON integers are two's complement by specification)")
					continue
				case (pk.Name() == "ubjson" || pk.Name() == "cborl") && sameWidthSign && usedOnlyAsWireStore(cv) && pk.Name() == "ubjson":
					r.Ok(".CONV", pos, fkey+": "+desc+" hands a signed value to the big-endian writer as its two's-complement bit pattern (UBJSON wire format)")
					continue
				case sameWidthSign && !o.multi:
					// one wrap window: a uniform, invertible shift; followed through by the interval domain
					r.Ok(".CONV", pos, fmt.Sprintf("%s: %s with operand in %s lies in one wrap window (invertible reinterpretation, followed exactly)", fkey, desc, o.union))
					continue
				case pk.Name() == "ubjson" && core.FuncName(f) == "uint64" && narrowing || pk.Name() == "ubjson" && core.FuncName(f) == "uint64" && sameWidthSign:
					if why, ok := ubjsonUint64Premise(p, f); ok {
						r.Ok(".CONV", pos, fkey+": "+desc+" is selected by the marker argument; premise checked: "+why)
					} else {
						r.Fail(".CONV", key, pos, fkey+": "+desc+" is selected by the marker argument but the premise fails: "+why, "")
					}
					continue
				case sameWidthSign && !isDecodeOrLengthSink(p, cv):
					// same-width reinterpretation away from a decode/length sink: only the sites confirmed by reading are
					// accepted, each with a mechanically checked premise; anything new is judged like any other conversion
					if why, ok := acceptedReinterpretation(p, f, cv); ok {
						r.Stats["same_width_reinterpretations_accepted"]++
						r.Ok(".CONV", pos, fkey+": "+desc+" is an accepted sign reinterpretation: "+why)
						continue
					}
				}
				kind := "F1 narrowing"
				if sameWidthSign {
					kind = "F2 sign reinterpretation at a decode/length sink"
				}
				r.Fail(".CONV", key, pos, fmt.Sprintf("%s: %s: %s can be reached with the operand anywhere in %s, outside the target range %s: the number changes its value", fkey, kind, desc, o.union, dst), "")
			}
			// shift counts
			{
				var sl []*ssa.BinOp
				for b := range shifts {
					sl = append(sl, b)
				}
				sort.Slice(sl, func(i, j int) bool { return instrPos(sl[i]) < instrPos(sl[j]) })
				if len(sl) > 0 && f.Signature.Recv() == nil && f.Parent() == nil && !token.IsExported(f.Name()) && !referencedInModule(p, f) {
					// an unexported package-level function nothing refers to cannot run
					r.Stats["variable_shifts_in_unreferenced_functions"] += len(sl)
					sl = nil
				}
				for i, b := range sl {
					total++
					r.Stats["variable_shifts"]++
					pos := p.Pos(token.Pos(instrPos(b)))
					iv, bits := shifts[b], shiftBits[b]
					if iv.lo.Sign() >= 0 && iv.hi.Cmp(bi(int64(bits-1))) <= 0 {
						r.Ok(".SHIFT-RANGE", pos, fmt.Sprintf("%s: shift count in %s stays below the %d-bit width", fkey, iv, bits))
					} else {
						r.Fail(".SHIFT-RANGE", fmt.Sprintf("%s|shift#%d", fkey, i+1), pos, fmt.Sprintf("%s shifts a %d-bit value by a count that can be anywhere in %s: from %d on the result is 0 (or all sign bits) - a per-level flag kept in the bits of one word is lost beyond that depth, silently", fkey, bits, iv, bits), "")
					}
				}
			}
			// wrap checks
			{
				var wl []*ssa.BinOp
				for b := range wraps {
					wl = append(wl, b)
				}
				sort.Slice(wl, func(i, j int) bool { return instrPos(wl[i]) < instrPos(wl[j]) })
				for i, b := range wl {
					total++
					checked := false
					if refs := b.Referrers(); refs != nil {
						for _, rf := range *refs {
							if cmp, ok := rf.(*ssa.BinOp); ok {
								switch cmp.Op {
								case token.LSS, token.GTR, token.LEQ, token.GEQ:
									other := cmp.X
									if other == ssa.Value(b) {
										other = cmp.Y
									}
									if other == b.X || other == b.Y {
										checked = true
									}
								}
							}
						}
					}
					pos := p.Pos(token.Pos(instrPos(b)))
					if checked {
						r.Ok(".WRAP", pos, fkey+": an addition that can wrap around 2^64 is followed by the result < operand wrap test")
					} else {
						r.Fail(".WRAP", fmt.Sprintf("%s|wrap#%d", fkey, i+1), pos, fkey+": the digit accumulation at "+pos+" can exceed 2^64 and wrap around, and the result is never compared with its operand: a literal just above the 64-bit range is reported as a small number", "")
					}
				}
			}
			// CBOR heads
			var orl []*ssa.BinOp
			for b := range ors {
				orl = append(orl, b)
			}
			sort.Slice(orl, func(i, j int) bool { return instrPos(orl[i]) < instrPos(orl[j]) })
			for i, b := range orl {
				total++
				headORs++
				pos := p.Pos(token.Pos(instrPos(b)))
				if o := ors[b]; o.bad != nil {
					r.Fail(".CBOR-HEAD", fmt.Sprintf("%s|major-or#%d", fkey, i+1), pos, fmt.Sprintf("%s packs an argument in %s into the initial byte next to the major type; only 0..23 may be packed inline (24..31 are the length-follows / indefinite codes)", fkey, o.bad), "")
				} else {
					r.Ok(".CBOR-HEAD", pos, fkey+": inline argument of the initial byte is within 0..23 (or a length code constant)")
				}
			}
		}
		shiftRegisters(p, r, in)
		if in["ubjson"] {
			ubjsonMarkerTables(p, r)
			scanExit(p, r)
			charRange(p, r, sizes)
		}
		if in["json"] {
			numberKind(p, r)
		}
		if in["cborl"] && p.LookupFunc("cborl", "(*Parser).stepNeg") == nil {
			r.Undecided(".NEG-SIGN", "cborl.(*Parser).stepNeg", "decoder of major type 1 (stepNeg) not found")
		}
		r.Floor("conversions_and_heads", total, 15*len(pkgs))
		if in["cborl"] {
			cborWireConstants(p, r)
			// the initial bytes the CBOR encoder assembles (major | argument): if the role of the major parameter is no
			// longer recognised the head rule must not pass by finding nothing
			r.Floor("cbor_head_ors", headORs, 8)
		}
		return r
	}
}

func isByteLoad(v ssa.Value) bool {
	switch x := v.(type) {
	case *ssa.UnOp:
		if x.Op == token.MUL {
			_, ok := x.X.(*ssa.IndexAddr)
			return ok
		}
	case *ssa.Index:
		return true
	}
	return false
}

// isDecodeOrLengthSink: the conversion result flows (through phis/extracts
// /returns of small helpers) into a visitor number event of a parser, a
// length push, a slice bound or a collect count.
func isDecodeOrLengthSink(p *core.Prog, cv *ssa.Convert) bool {
	seen := map[ssa.Value]bool{}
	found := false
	var flow func(v ssa.Value, depth int)
	flow = func(v ssa.Value, depth int) {
		if seen[v] || found || depth > 6 {
			return
		}
		seen[v] = true
		refs := v.Referrers()
		if refs == nil {
			return
		}
		for _, ref := range *refs {
			switch x := ref.(type) {
			case *ssa.Phi:
				flow(x, depth+1)
			case *ssa.UnOp:
				if x.Op == token.SUB || x.Op == token.XOR {
					flow(x, depth+1)
				}
			case *ssa.Convert:
				flow(x, depth+1)
			case *ssa.Slice:
				if x.Low == v || x.High == v {
					found = true
				}
			case *ssa.Return:
				// helper result: look at the callers
				f := x.Parent()
				for i, rv := range x.Results {
					if rv != v {
						continue
					}
					for _, g := range p.ModFuncs() {
						for _, b := range g.Blocks {
							for _, in := range b.Instrs {
								c, ok := in.(*ssa.Call)
								if !ok || c.Common().StaticCallee() != f {
									continue
								}
								if f.Signature.Results().Len() == 1 {
									flow(c, depth+1)
								} else if rs := c.Referrers(); rs != nil {
									for _, r2 := range *rs {
										if ex, ok := r2.(*ssa.Extract); ok && ex.Index == i {
											flow(ex, depth+1)
										}
									}
								}
							}
						}
					}
				}
			case ssa.CallInstruction:
				cc := x.Common()
				if cc.IsInvoke() && cc.Method.Pkg() != nil && cc.Method.Pkg().Path() == core.ModPath && isNumEvent(cc.Method.Name()) {
					found = true
				}
				if cc.IsInvoke() && cc.Method.Pkg() != nil && cc.Method.Pkg().Path() == core.ModPath && (cc.Method.Name() == "OnArrayStart" || cc.Method.Name() == "OnObjectStart") {
					found = true
				}
				if sc := cc.StaticCallee(); sc != nil {
					switch core.FuncName(sc) {
					case "push", "pushLen", "collect":
						found = true
					}
				}
			}
		}
	}
	flow(cv, 0)
	return found
}

// ubjsonUint64Premise: (*Visitor).uint64(u, t, marker) narrows u according
// to the marker t. Sound iff every caller passes uintType(u) for the same u,
// or a marker that is the maxNumType fold over uintType of a collection that
// contains u; and uintType's thresholds fit the markers' ranges (checked in
// ubjsonMarkerTables).
func ubjsonUint64Premise(p *core.Prog, f *ssa.Function) (string, bool) {
	callers := 0
	for _, g := range p.ModFuncs() {
		for _, b := range g.Blocks {
			for _, in := range b.Instrs {
				c, ok := in.(*ssa.Call)
				if !ok || c.Common().StaticCallee() != f {
					continue
				}
				callers++
				args := c.Common().Args // recv, u, t, marker
				if len(args) < 3 {
					return "unexpected signature", false
				}
				u, t := args[1], args[2]
				if !markerDerivedFromUintType(t, u, 0) {
					return fmt.Sprintf("call in %s at %s passes a marker that is not uintType(u) of the same value nor a maxNumType fold over uintType", core.FuncKey(g), p.Pos(c.Pos())), false
				}
			}
		}
	}
	if callers == 0 {
		return "no callers", false
	}
	return fmt.Sprintf("all %d call sites pass uintType(u) of the same u or the maxNumType fold of uintType over the collection being written", callers), true
}

func stripWiden(v ssa.Value) ssa.Value {
	for {
		c, ok := v.(*ssa.Convert)
		if !ok {
			return v
		}
		v = c.X
	}
}

func markerDerivedFromUintType(t, u ssa.Value, depth int) bool {
	return markerDerived(t, map[ssa.Value]bool{})
}

func markerDerived(t ssa.Value, seen map[ssa.Value]bool) bool {
	if seen[t] {
		return true // loop-carried: judged by its other edges
	}
	seen[t] = true
	switch x := t.(type) {
	case *ssa.Call:
		sc := x.Common().StaticCallee()
		if sc == nil {
			return false
		}
		switch core.FuncName(sc) {
		case "uintType":
			return true
		case "maxNumType":
			return markerDerived(x.Common().Args[0], seen) && markerDerived(x.Common().Args[1], seen)
		}
	case *ssa.Phi:
		for _, e := range x.Edges {
			if !markerDerived(e, seen) {
				return false
			}
		}
		return true
	case *ssa.Const:
		// the fold's start value: the smallest marker
		return true
	}
	return false
}

// ubjsonMarkerTables: uintType's thresholds fit the range of the marker they
// select; maxNumType orders markers by increasing range.
func ubjsonMarkerTables(p *core.Prog, r *core.Result) {
	sp := p.SPkgs["ubjson"]
	ut := p.LookupFunc("ubjson", "uintType")
	mx := p.LookupFunc("ubjson", "maxNumType")
	if sp == nil || ut == nil {
		r.Undecided(".UBJSON-MARKERS", "ubjson.uintType", "uintType not found")
		return
	}
	// uintType: walk the comparison chain: `u <= C` true edge returns marker M
	rows := 0
	for _, b := range ut.Blocks {
		iff, ok := b.Instrs[len(b.Instrs)-1].(*ssa.If)
		if !ok {
			continue
		}
		bo, ok := iff.Cond.(*ssa.BinOp)
		if !ok {
			continue
		}
		c, okc := constIval(bo.Y)
		if !okc || (bo.Op != token.LEQ && bo.Op != token.LSS) {
			continue
		}
		bound := c.hi
		if bo.Op == token.LSS {
			bound = new(big.Int).Sub(bound, bigOne)
		}
		// marker returned on the true edge
		tb := b.Succs[0]
		ret, ok := tb.Instrs[len(tb.Instrs)-1].(*ssa.Return)
		if !ok {
			continue
		}
		name := constName(sp, ret.Results[0])
		rng, ok := ubjsonMarkerRange(sp, name)
		rows++
		pos := p.Pos(iff.Cond.Pos())
		if !ok {
			r.Fail(".UBJSON-MARKERS", "ubjson.uintType|"+name, pos, "ubjson.uintType returns "+name+", which is not an integer marker with a known range", "")
			continue
		}
		if bound.Cmp(rng.hi) <= 0 {
			r.Ok(".UBJSON-MARKERS", pos, fmt.Sprintf("uintType: values <= %s get %s (max %s)", bound, name, rng.hi))
		} else {
			r.Fail(".UBJSON-MARKERS", "ubjson.uintType|"+name, pos, fmt.Sprintf("ubjson.uintType selects %s for values up to %s, but that marker carries at most %s: larger values are truncated on the wire", name, bound, rng.hi), "")
		}
	}
	r.Floor("uintType_rows", rows, 5)
	if mx == nil {
		// no pairwise maximum of markers in this tree (the widest marker is chosen from the largest value instead)
		return
	}
	// maxNumType: arms in order must have non-increasing ranges, i.e. the
	// first arm that matches is the widest marker of the two
	var order []string
	for _, b := range mx.Blocks {
		if ret, ok := b.Instrs[len(b.Instrs)-1].(*ssa.Return); ok {
			_ = ret
		}
	}
	// use the syntax order of return statements
	var rets []*ssa.Return
	for _, b := range mx.Blocks {
		for _, in := range b.Instrs {
			if ret, ok := in.(*ssa.Return); ok {
				rets = append(rets, ret)
			}
		}
	}
	sort.Slice(rets, func(i, j int) bool { return instrPos(rets[i]) < instrPos(rets[j]) })
	for _, ret := range rets {
		order = append(order, constName(sp, ret.Results[0]))
	}
	rank := map[string]int{"int8Marker": 1, "uint8Marker": 2, "int16Marker": 3, "int32Marker": 4, "int64Marker": 5, "highPrecMarker": 6}
	okOrder := len(order) >= 6
	for i := 0; i+1 < len(order); i++ {
		if rank[order[i]] == 0 || rank[order[i]] <= rank[order[i+1]] {
			okOrder = false
		}
	}
	if okOrder {
		r.Ok(".UBJSON-MARKERS", p.Pos(mx.Pos()), "maxNumType tests markers from the widest to the narrowest: "+strings.Join(order, " > "))
	} else {
		r.Fail(".UBJSON-MARKERS", "ubjson.maxNumType|order", p.Pos(mx.Pos()), "ubjson.maxNumType does not test the markers from the widest to the narrowest ("+strings.Join(order, ", ")+"): for some pair it returns a marker too narrow for one of its arguments, so typed containers truncate elements", "")
	}
}

// inlineArgSource: the argument is (a conversion / complement of) the
// additional-information bits of a CBOR initial byte: a parameter named
// minor, or `x & minorMask` (31), or the initial byte itself compared as a
// whole (b[0] with major type 0).
func inlineArgSource(v ssa.Value) (ssa.Value, bool) {
	compl := false
	for i := 0; i < 6; i++ {
		switch x := v.(type) {
		case *ssa.Convert:
			v = x.X
			continue
		case *ssa.UnOp:
			if x.Op == token.XOR {
				compl = true
				v = x.X
				continue
			}
		case *ssa.BinOp:
			// -1 - int8(v)
			if x.Op == token.SUB {
				if _, isC := x.X.(*ssa.Const); isC {
					compl = true
					v = x.Y
					continue
				}
			}
			if x.Op == token.AND {
				if c, ok := constIntVal(x.Y); ok && c == 31 {
					return x, compl
				}
			}
		case *ssa.Parameter:
			if isMinorParam(x) {
				return x, compl
			}
		}
		break
	}
	return nil, false
}

// isLengthPush: a call of (*lengthStack).push or of a one-line wrapper pushLen.
func isLengthPush(c *ssa.Call) bool {
	sc := c.Common().StaticCallee()
	if sc == nil || len(c.Common().Args) < 2 {
		return false
	}
	if core.FuncName(sc) == "push" && sc.Signature.Recv() != nil {
		n := namedOf(sc.Signature.Recv().Type())
		return n != nil && core.TypeName(n) == "lengthStack"
	}
	return core.FuncName(sc) == "pushLen"
}

// acceptedReinterpretation: the frozen list of same-width sign
// reinterpretations that are not value changes, with the premise that makes
// each of them harmless (checked on every run).
func acceptedReinterpretation(p *core.Prog, f *ssa.Function, cv *ssa.Convert) (string, bool) {
	switch core.FuncKey(f) {
	case "json.(*Visitor).onInt":
		// uint64(v) is the magnitude operand of onNumber(neg, u); the sign travels in the first argument, computed from the same v
		if refs := cv.Referrers(); refs != nil {
			for _, rf := range *refs {
				c, ok := rf.(*ssa.Call)
				if !ok {
					continue
				}
				// the sign travels in another argument of the same call, whatever the parameter order of the formatter
				for _, a := range c.Common().Args {
					if cmp, ok := a.(*ssa.BinOp); ok && cmp.Op == token.LSS && cmp.X == cv.X && isIntConst(cmp.Y, 0) {
						return "the sign is passed alongside as v < 0 of the same v (two's-complement magnitude, negated by the callee)", true
					}
				}
			}
		}
		return "", false
	case "cborl.(*Visitor).arrLen":
		// uint64(len): every caller passes a builtin len(x), which is never negative
		prm, ok := cv.X.(*ssa.Parameter)
		if !ok {
			return "", false
		}
		idx := paramIndex(f, prm)
		callers := 0
		for _, g := range p.ModFuncs() {
			for _, b := range g.Blocks {
				for _, in := range b.Instrs {
					c, ok := in.(*ssa.Call)
					if !ok || c.Common().StaticCallee() != f {
						continue
					}
					callers++
					a, ok := c.Common().Args[idx].(*ssa.Call)
					if !ok {
						return "", false
					}
					if bi, ok := a.Common().Value.(*ssa.Builtin); !ok || bi.Name() != "len" {
						return "", false
					}
				}
			}
		}
		if callers == 0 {
			return "", false
		}
		return fmt.Sprintf("all %d callers pass len(x), which is never negative", callers), true
	case "cborl.readInt16", "cborl.readInt32", "cborl.readInt64":
		// two's-complement readers kept from the ubjson twin; harmless only while nothing calls them
		for _, g := range p.ModFuncs() {
			for _, b := range g.Blocks {
				for _, in := range b.Instrs {
					if c, ok := in.(ssa.CallInstruction); ok && c.Common().StaticCallee() == f {
						return "", false
					}
				}
			}
		}
		return "the helper has no caller (CBOR integers are not two's complement; a call would have to be judged)", true
	}
	return "", false
}

// nilSummary: for a function with a single error result, the interval each
// integer parameter lies in on the paths that return a nil error (hull over
// those paths). Parameters about which nothing is learnt are absent.
var nilSummaryMemo = map[*ssa.Function]map[int]ival{}

func nilSummary(f *ssa.Function, sizes types.Sizes, depth int) map[int]ival {
	if m, ok := nilSummaryMemo[f]; ok {
		return m
	}
	nilSummaryMemo[f] = nil
	if depth > 2 || f.Signature.Results().Len() != 1 || !isErrorType(f.Signature.Results().At(0).Type()) {
		return nil
	}
	env := &ienv{num: newNumbering(), sizes: sizes}
	k := &r5client{env: env, fn: f}
	hulls := map[int]*ival{}
	k.observe = func(s istate, in ssa.Instruction) {
		ret, ok := in.(*ssa.Return)
		if !ok || definitelyNonNilError(ret.Results[0]) {
			return
		}
		for i, prm := range f.Params {
			if _, ok := typeRange(prm.Type(), sizes); !ok {
				continue
			}
			iv, ok := env.get(s, prm)
			if !ok {
				continue
			}
			if h := hulls[i]; h == nil {
				c := iv
				hulls[i] = &c
			} else {
				x := hull(*h, iv)
				hulls[i] = &x
			}
		}
	}
	if _, capped := WalkPaths[istate](k, f.Blocks[0], 0, istate{}, 100000, nil); capped {
		return nil
	}
	out := map[int]ival{}
	for i, h := range hulls {
		full, _ := typeRange(f.Params[i].Type(), sizes)
		if h.within(full) && !(h.lo.Cmp(full.lo) == 0 && h.hi.Cmp(full.hi) == 0) {
			out[i] = *h
		}
	}
	nilSummaryMemo[f] = out
	return out
}


// cborWireConstants: the constants both the encoder and the parser are written
// against are the numbers RFC 7049 assigns (section 2.1 major types, 2.2
// additional information, 2.3 simple values and floats, break). The two sides
// share them, so a wrong value round-trips inside the library and only fails
// against other implementations.
func cborWireConstants(p *core.Prog, r *core.Result) {
	want := []struct {
		name string
		val  int64
	}{
		{"majorUint", 0 << 5}, {"majorNeg", 1 << 5}, {"majorBytes", 2 << 5}, {"majorText", 3 << 5},
		{"majorArr", 4 << 5}, {"majorMap", 5 << 5}, {"majorTag", 6 << 5}, {"majorOther", 7 << 5},
		{"majorMask", 0xe0}, {"minorMask", 0x1f},
		{"len8b", 24}, {"len16b", 25}, {"len32b", 26}, {"len64b", 27}, {"lenIndef", 31},
		{"codeFalse", 0xf4}, {"codeTrue", 0xf5}, {"codeNull", 0xf6}, {"codeUndef", 0xf7},
		{"codeHalfFloat", 0xf9}, {"codeSingleFloat", 0xfa}, {"codeDoubleFloat", 0xfb}, {"codeBreak", 0xff},
	}
	n := 0
	for _, w := range want {
		nc := p.Const("cborl", w.name)
		if nc == nil {
			continue // a constant the tree no longer has is not wrong
		}
		n++
		v, ok := constIntVal(nc.Value)
		pos := p.Pos(nc.Pos())
		if ok && v == w.val {
			r.Ok(".CBOR-WIRE", pos, fmt.Sprintf("cborl.%s = %#x as in RFC 7049", w.name, w.val))
		} else {
			r.Fail(".CBOR-WIRE", "cborl."+w.name, pos, fmt.Sprintf("cborl.%s is %#x, RFC 7049 assigns %#x: encoder and parser share the constant, so the library still reads its own output, but documents of other CBOR implementations are refused or misread and the library's output is not CBOR", w.name, v, w.val), "")
		}
	}
	r.Floor("cbor_wire_constants", n, 15)
}

// ---- MARKER-PAYLOAD ----
//
// The UBJSON encoder says how to read the next bytes by the marker it writes in
// front of them. Wherever a one-byte payload converted from a wider integer is
// written directly behind a marker CONSTANT - two adjacent stores into the same
// buffer (`buf[k], buf[k+1] = marker, byte(x)`, `append(buf, marker, byte(x))`)
// or two consecutive writeByte calls - x must lie in the range that marker
// carries on every path.
type markerPair struct {
	marker  string
	operand ssa.Value // the value before its conversion to a byte
}

func markerPayloadPairs(f *ssa.Function) map[ssa.Instruction]markerPair {
	out := map[ssa.Instruction]markerPair{}
	oneByte := func(name string) bool { return name == "int8Marker" || name == "uint8Marker" }
	operandOf := func(v ssa.Value) ssa.Value {
		if cv, ok := v.(*ssa.Convert); ok {
			if _, isC := cv.X.(*ssa.Const); !isC {
				return cv.X
			}
		}
		return nil
	}
	for _, b := range f.Blocks {
		// adjacent stores
		for _, in := range b.Instrs {
			st, ok := in.(*ssa.Store)
			if !ok {
				continue
			}
			ia, ok := st.Addr.(*ssa.IndexAddr)
			if !ok {
				continue
			}
			name := constName(f.Pkg, st.Val)
			if !oneByte(name) {
				continue
			}
			k, ok := constIntVal(ia.Index)
			if !ok {
				continue
			}
			for _, in2 := range b.Instrs {
				st2, ok := in2.(*ssa.Store)
				if !ok || st2 == st {
					continue
				}
				ia2, ok := st2.Addr.(*ssa.IndexAddr)
				if !ok {
					continue
				}
				k2, ok := constIntVal(ia2.Index)
				if !ok || k2 != k+1 {
					continue
				}
				same := ia2.X == ia.X
				if !same {
					a, bb := addrKey(ia.X), addrKey(ia2.X)
					same = a != "" && a == bb
				}
				if !same {
					continue
				}
				if op := operandOf(st2.Val); op != nil {
					out[st2] = markerPair{name, op}
				}
			}
		}
		// consecutive writeByte calls
		for i, in := range b.Instrs {
			c, ok := in.(*ssa.Call)
			if !ok {
				continue
			}
			sc := c.Common().StaticCallee()
			if sc == nil || core.FuncName(sc) != "writeByte" || len(c.Common().Args) == 0 {
				continue
			}
			op := operandOf(c.Common().Args[len(c.Common().Args)-1])
			if op == nil {
				continue
			}
			// nearest preceding writeByte, at most three single-predecessor hops back
			blk, idx := b, i
			var prev *ssa.Call
			for hops := 0; hops < 4 && prev == nil; hops++ {
				for j := idx - 1; j >= 0 && prev == nil; j-- {
					if pc, ok := blk.Instrs[j].(*ssa.Call); ok {
						if psc := pc.Common().StaticCallee(); psc != nil && core.FuncName(psc) == "writeByte" {
							prev = pc
						}
					}
				}
				if prev != nil || len(blk.Preds) != 1 {
					break
				}
				blk = blk.Preds[0]
				idx = len(blk.Instrs)
			}
			if prev == nil {
				continue
			}
			name := constName(f.Pkg, prev.Common().Args[len(prev.Common().Args)-1])
			if oneByte(name) {
				out[c] = markerPair{name, op}
			}
		}
	}
	return out
}

var referencedMemo = map[*core.Prog]map[*ssa.Function]bool{}

// referencedInModule: some instruction of the module uses f as an operand (calls it or takes its value).
func referencedInModule(p *core.Prog, f *ssa.Function) bool {
	m := referencedMemo[p]
	if m == nil {
		m = map[*ssa.Function]bool{}
		var ops []*ssa.Value
		for _, g := range p.ModFuncs() {
			for _, b := range g.Blocks {
				for _, in := range b.Instrs {
					ops = in.Operands(ops[:0])
					for _, o := range ops {
						if o != nil && *o != nil {
							if fn, ok := (*o).(*ssa.Function); ok {
								m[fn] = true
							}
						}
					}
				}
			}
		}
		referencedMemo[p] = m
	}
	return m[f]
}

// ---- SHIFT-REGISTER ----
//
// Nesting is unbounded, so whatever an encoder or parser remembers per open
// container must live in something that grows. A stack type (one with push
// and pop methods) whose push shifts one of its own integer fields left and
// stores it back keeps its entries in the bits of one word: entries pushed
// more than the word's width ago fall off the top, silently.
func shiftRegisters(p *core.Prog, r *core.Result, in map[string]bool) {
	n := 0
	for _, f := range p.ModFuncs() {
		pk := core.FuncPkg(f)
		if pk == nil || !in[pk.Name()] || f.Signature.Recv() == nil || f.Blocks == nil {
			continue
		}
		rn := namedOf(f.Signature.Recv().Type())
		if rn == nil || !hasPushPop(rn) {
			continue
		}
		n++
		recv := ssa.Value(f.Params[0])
		for _, b := range f.Blocks {
			for _, ins := range b.Instrs {
				st, ok := ins.(*ssa.Store)
				if !ok {
					continue
				}
				fa, ok := st.Addr.(*ssa.FieldAddr)
				if !ok || fa.X != recv {
					continue
				}
				// value: (load of the same field) << c, possibly or-ed with something
				var find func(v ssa.Value, depth int) bool
				find = func(v ssa.Value, depth int) bool {
					bo, ok := v.(*ssa.BinOp)
					if !ok || depth > 3 {
						return false
					}
					if bo.Op == token.SHL {
						if ld, ok := bo.X.(*ssa.UnOp); ok && ld.Op == token.MUL {
							if fa2, ok := ld.X.(*ssa.FieldAddr); ok && fa2.X == recv && fa2.Field == fa.Field {
								return true
							}
						}
						return false
					}
					if bo.Op == token.OR || bo.Op == token.ADD || bo.Op == token.XOR {
						return find(bo.X, depth+1) || find(bo.Y, depth+1)
					}
					return false
				}
				if find(st.Val, 0) {
					stt := rn.Underlying().(*types.Struct)
					r.Fail(".SHIFT-REGISTER", core.FuncKey(f)+"|"+core.FieldName(stt, fa.Field), p.Pos(st.Pos()), fmt.Sprintf("%s keeps the entries of a stack in the bits of the integer field %s (shifted left on every push): entries pushed more than the word's width ago are shifted out, so what was remembered about the outer containers is lost beyond that nesting depth", core.FuncKey(f), core.FieldName(stt, fa.Field)), "")
				}
			}
		}
	}
	r.Stats["stack_type_methods_scanned"] = n
}

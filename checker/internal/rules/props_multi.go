package rules

func init() {
	register(&PropSpec{
		ID:          "C03",
		Level:       "other",
		Decided:     "never panics explicitly (R9: every panic statement / always-panicking helper in the three codecs is an obligation); never loops without consuming input (R2: no stutter path in any step function or dispatcher iteration); truncated input is an error at every entry point that knows the end (R8: one-shot entry points and decoders pass through the end-of-input check, the check itself tests the open-state stack).",
		NotDecided:  "runtime panics from arithmetic the analysis does not follow, livelock between two states (R2 proves absence of stutter, not termination), time/memory proportionality.",
		Assumptions: []string{"the parser only ever stores parser-state enum values that its dispatchers handle (fall-out of a switch over a state enum that leads straight to a return is not treated as an input-reachable path)"},
		TrustedBase: baseTrusted,
		Rules: []RuleRun{
			{"R2", R2("json", "cborl", "ubjson")},
			{"R9", R9("json", "cborl", "ubjson")},
			{"R8", R8("json", "cborl", "ubjson")},
		},
		LevelText: "Structural necessary conditions decided on every SSA path of the ~55 step functions, 3 dispatchers, 12 entry points and all panic sites of the three codecs. Each clause is necessary (breaking it makes some byte sequence hang, crash or be accepted when truncated); together they are not sufficient for the whole property.",
		Technique: "stutter-freedom path analysis over the parser step families (consume / state-effect / delegate / error on every path, must-state summaries), panic-site enumeration with mechanical exceptions, must-pass-through for end-of-input",
		DesignRef: "DESIGN.md section 2 R2, R8, R9; section 3 C03",
	})
	register(&PropSpec{
		ID:          "C02",
		Level:       "other",
		Decided:     "the two structural ways a chunk boundary can change behaviour in these state machines: (R3) a token that is incomplete at the end of a chunk leaves the machine where it was - in cborl/ubjson no parser-state store and no visitor event follows an incomplete collect()/getUintN on any path, a remembered prefix (ubjson's length marker) is not reset before completeness is known, collect() hands back a nil rest whenever the token is incomplete; in json the grammar position (currentState/states) changes after whitespace trimming only behind a non-empty test. (R2) no step returns without progress on an empty or partial chunk (no chunk-dependent hang).",
		NotDecided:  "that the fast path (slice of the caller's buffer) and the resumed path (park buffer) deliver identical bytes; arithmetic of partial-length bookkeeping (cborl.stepBytes' remaining length, json.stepKind's required countdown); the accept/reject verdict at end of input (C03/C18).",
		Assumptions: []string{"park fields (json: literalBuffer,inEscape,isDouble,required; cborl: buffer; ubjson: buffer,marker) are the only fields meant to change on an incomplete token (frozen table in r03_collect.go)"},
		TrustedBase: baseTrusted,
		Rules: []RuleRun{
			{"R3", R3("json", "cborl", "ubjson")},
			{"R2", R2("json", "cborl", "ubjson")},
		},
		LevelText: "Structural necessary conditions on every SSA path of the step functions of the three parsers: schedules (2^n chunkings) are covered because the rule speaks about every program point at which a chunk can end, not about particular cuts.",
		Technique: "path-sensitive effect analysis after incomplete-token branches (collect/getUintN results, trimmed-chunk emptiness), park-field vs position-field classification, stutter-freedom",
		DesignRef: "DESIGN.md section 2 R3, R2; section 3 C02",
	})
}

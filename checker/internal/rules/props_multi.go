package rules

func init() {
	register(&PropSpec{
		ID:          "C03",
		Level:       "other",
		Decided:     "never allocates on the strength of an unbacked length (R13: no remaining-length value read from the wire reaches an allocation size unbounded - the parsers collect incrementally); never indexes input that is not there (R4: scan loops re-establish index < len(input), chunk heads are read only from non-empty chunks) and never turns a wire integer into a negative length (R5); never panics explicitly (R9: every panic statement / always-panicking helper in the three codecs is an obligation); never loops without consuming input (R2: no stutter path in any step function or dispatcher iteration); truncated input is an error at every entry point that knows the end (R8: one-shot entry points and decoders pass through the end-of-input check, the check itself tests the open-state stack).",
		NotDecided:  "runtime panics from arithmetic the analysis does not follow, livelock between two states (R2 proves absence of stutter, not termination), time/memory proportionality.",
		Assumptions: []string{"the parser only ever stores parser-state enum values that its dispatchers handle (fall-out of a switch over a state enum that leads straight to a return is not treated as an input-reachable path)"},
		TrustedBase: baseTrusted,
		Rules: []RuleRun{
			{"R2", R2("json", "cborl", "ubjson")},
			{"R9", R9("json", "cborl", "ubjson")},
			{"R8", R8("json", "cborl", "ubjson")},
			{"R13", R13("parsers")},
			{"R4", R4("json", "cborl", "ubjson")},
			{"R5", R5("json", "cborl", "ubjson")},
		},
		LevelText: "Structural necessary conditions decided on every SSA path of the ~55 step functions, 3 dispatchers, 12 entry points and all panic sites of the three codecs. Each clause is necessary (breaking it makes some byte sequence hang, crash or be accepted when truncated); together they are not sufficient for the whole property.",
		Technique: "stutter-freedom path analysis over the parser step families (consume / state-effect / delegate / error on every path, must-state summaries), panic-site enumeration with mechanical exceptions, must-pass-through for end-of-input",
		DesignRef: "DESIGN.md section 2 R2, R8, R9; section 3 C03",
	})
	register(&PropSpec{
		ID:          "C02",
		Level:       "other",
		Decided:     "the two structural ways a chunk boundary can change behaviour in these state machines: (R3) a token that is incomplete at the end of a chunk leaves the machine where it was - in cborl/ubjson no parser-state store and no visitor event follows an incomplete collect()/getUintN on any path, a remembered prefix (ubjson's length marker) is not reset before completeness is known, collect() hands back a nil rest whenever the token is incomplete; in json the grammar position (currentState/states) changes after whitespace trimming only behind a non-empty test. (R2) no step returns without progress on an empty or partial chunk (no chunk-dependent hang).",
		NotDecided:  "that the fast path (slice of the caller's buffer) and the resumed path (park buffer) deliver identical bytes; arithmetic of partial-length bookkeeping (cborl.stepBytes' remaining length, json.stepKind's required countdown); the accept/reject verdict at end of input (C03/C18).",
		Assumptions: []string{"park fields (json: literalBuffer,inEscape,isDouble,required; cborl: buffer; ubjson: buffer,marker) are the only fields meant to change on an incomplete token (frozen table in r03_collect.go)"},
		TrustedBase: baseTrusted,
		Rules: []RuleRun{
			{"R3", R3("json", "cborl", "ubjson")},
			{"R2", R2("json", "cborl", "ubjson")},
		},
		LevelText: "Structural necessary conditions on every SSA path of the step functions of the three parsers: schedules (2^n chunkings) are covered because the rule speaks about every program point at which a chunk can end, not about particular cuts.",
		Technique: "path-sensitive effect analysis after incomplete-token branches (collect/getUintN results, trimmed-chunk emptiness), park-field vs position-field classification, stutter-freedom",
		DesignRef: "DESIGN.md section 2 R3, R2; section 3 C02",
	})
	register(&PropSpec{
		ID:    "C10",
		Level: "other",
		Decided: "the consumer is left in the same state by an extended event as by its expansion: every native extended implementation (cborl 15 typed arrays, ubjson 15 typed arrays + 14 typed maps, json OnStringRef/OnKeyRef) has net delta 0 on every nesting counter of the encoder on every success path (R6), exactly what the start..finish expansion sums to; number-event forwarders keep the number class (R12c).",
		NotDecided: "that the decoded value of the native (typed/packed) form equals that of the expansion; element markers chosen for value ranges (see C01/C07 R5).",
		Assumptions: []string{"the Visitor contract delta table (+1 start, -1 finish, 0 otherwise) is the oracle"},
		TrustedBase: baseTrusted,
		Rules: []RuleRun{
			{"R6", R6()},
			{"R12", R12},
		},
		LevelText: "Structural necessary condition decided on every path of ~190 event methods: a non-zero net effect of an extended event on a nesting stack corrupts whatever is written next (the property's 'consumer is left in the same state' clause), for every history, which fixtures do not compose.",
		Technique: "interprocedural stack-delta path analysis on SSA (push/pop effect summaries per success path), sibling agreement of event methods against the Visitor contract table",
		DesignRef: "DESIGN.md section 2 R6, R12; section 3 C10",
	})
	register(&PropSpec{
		ID:    "C17",
		Level: "other",
		Decided: "completing a document returns every nesting stack to its idle depth: encoders - every event moves every nesting counter by its contract delta, so a balanced stream sums to 0 (R6); ubjson parser - every completion path of a container handler pops exactly what the header pushed, element type included, siblings agree (R7); every parser stack that is pushed is popped (R7); the decoders' window advances by what was consumed (R8 ADVANCE); the unfolder's Reset re-initialises every stack it owns and json.Parse resets its token state (R15).",
		NotDecided: "equality of outputs over histories; closures in the fold registry that capture mutable state (lastType/lastVisitor caches, ExpectObjVisitor.depth) being reset per call; per-type caches keyed correctly (registry key).",
		Assumptions: []string{"recursive value dispatchers (execStep/stepValue) are balanced by induction over the nesting depth"},
		TrustedBase: baseTrusted,
		Rules: []RuleRun{
			{"R6", R6()},
			{"R7", R7},
			{"R8", R8("json", "cborl", "ubjson")},
			{"R15", R15},
		},
		LevelText: "Structural necessary conditions for 'idle depth after every complete document', decided on all paths of the event methods and container handlers. State leaking from one document to the next only shows on a later, differently shaped document - a property of histories; the delta/completion-vector argument covers all histories by induction over a well-formed stream.",
		Technique: "stack-delta path analysis with interprocedural summaries (encoders: contract delta per event; ubjson parser: completion vectors per container handler, sibling agreement), push/pop reachability",
		DesignRef: "DESIGN.md section 2 R6, R7, R15; section 3 C17",
	})
	register(&PropSpec{
		ID:    "C14",
		Level: "other",
		Decided: "an announced container length is not a licence to allocate: no length taken from OnArrayStart/OnObjectStart reaches make/reflect.MakeSlice/MakeMapWithSize/Grow unbounded (R13); a map target with non-string keys is refused, never reinterpreted (R14a); no store into a map nobody made (R14b); explicit panics in gotype are obligations (R9); Reset re-initialises every stack and buffer of the unfold context on every path (R15).",
		NotDecided: "pops on an empty generated stack on arbitrary mismatching event sequences (needs the product of ~60 state types with all event orders); 'never writes outside the target' beyond table agreement; proportionality of allocation in general.",
		Assumptions: []string{"length values are followed through registers, conversions, arithmetic, phis and static calls; a length parked in a struct field and used later is not followed (none today)"},
		TrustedBase: baseTrusted,
		Rules: []RuleRun{
			{"R13", R13("gotype")},
			{"R14", R14},
			{"R15", R15},
			{"R9", R9("gotype")},
			{"R11", R11},
		},
		LevelText: "Structural necessary conditions decided over all start-event implementations (taint to allocation sinks), all map selector arms, all map store sites and the Reset path. The interesting inputs are the ones fixtures avoid (untrusted length fields, mismatching targets, abandoned documents); the rules cover every such input because they do not enumerate inputs.",
		Technique: "SSA taint from announced lengths to allocation sinks with constant-bound sanitiser; AST sibling rule for map-key checks; dominance rule for nil-map allocation; path rule for Reset completeness; panic-site enumeration",
		DesignRef: "DESIGN.md section 2 R13, R14, R15, R9; section 3 C14",
	})
	register(&PropSpec{
		ID:    "C11",
		Level: "other",
		Decided: "the last sentence of the property only - a type that cannot be handled is refused with an error when folding or when the target is set, not by a crash: explicit panics / always-panicking helpers in gotype are obligations (R9); map types with non-string keys are refused (R14a); the type compilers must mark a type in progress before descending (R14c, self-referential types); and one necessary condition of any struct round trip: fold side and unfold side derive member names identically (R20c).",
		NotDecided: "the round trip itself (deep equality of folded-then-unfolded values, directly or through a codec) is value- and program-level and needs execution; nothing about values.",
		Assumptions: []string{},
		TrustedBase: baseTrusted,
		Rules: []RuleRun{
			{"R9", R9("gotype")},
			{"R14", R14},
			{"R20", R20},
		},
		LevelText: "Only the refusal clause is decided (structural: panic sites, key-kind checks, recursion guard in the compiler cycles). The value-level round trip is not a static question and is not claimed.",
		Technique: "panic-site enumeration with mechanical exceptions; AST sibling rule; call-graph SCC + dominance rule for the memoisation-before-descent requirement",
		DesignRef: "DESIGN.md section 2 R9, R14; section 3 C11",
	})
	register(&PropSpec{
		ID:    "C15",
		Level: "other",
		Decided: "whether a transient buffer CAN flow into something that is kept - a property of the code, whereas whether it DOES alias depends on chunking and buffer growth at run time: (a) every zero-copy []byte->string view flows only into lookups, comparisons, conversions that copy, and consumers that do not keep it; (b) json hands a view to a visitor that may keep it only on the allocated==true branch, and unquote sets allocated only for a buffer allocated on that path and stored nowhere else; (c) all OnStringRef/OnKeyRef implementations copy, forward by reference, write out or only look at their bytes; (d) parser input chunks are neither written through nor stored in parser fields; []byte views of string memory are only read; (e) unsafe.Pointer/uintptr conversions pass the unsafeptr analyzer and no pointer is held as an integer.",
		NotDecided: "'same results when a GC runs between any two events' beyond the pointer-conversion patterns (the scratch-slot reinterpret casts in makeArrayPtr/makeMapPtr rely on the allocation's own type information, which is not modelled); aliasing through reflection.",
		Assumptions: []string{
			"io.Writer.Write does not retain its argument; StringRefVisitor callbacks consume or copy (both documented contracts)",
			"external (standard library) functions do not retain string/[]byte arguments",
			"string<->[]byte conversions in Go copy",
		},
		TrustedBase: baseTrusted,
		Rules:       []RuleRun{{"R16", R16}},
		LevelText:   "Structural necessary conditions decided by an interprocedural alias-flow analysis with per-parameter retention summaries (fixpoint) over the whole library. Tests parse from immutable buffers that are never reused, so an alias is indistinguishable from a copy; the flow rule does not depend on any buffer history.",
		Technique:   "interprocedural alias/retention flow on SSA with parameter summaries (retains / returns-alias / writes-through), path-sensitive freshness gate for json.unquote, dominance gate at the hand-over sites, x/tools unsafeptr pass",
		DesignRef:   "DESIGN.md section 2 R16; section 3 C15",
	})
	register(&PropSpec{
		ID:    "C05",
		Level: "other",
		Decided: "items outside the supported subset are refused with an error, never by a panic or a hang: every explicit panic / always-panicking helper in cborl is an obligation (R9: tags, half floats, unknown states); no step function can stutter on any additional-information value incl. the reserved 28-30 (R2); integers keep their value through the decoder's conversions (R5, when registered below).",
		NotDecided: "the value of every supported item (nesting bookkeeping length.current--, a break byte inside a definite container, float bits) - value-level, needs a reference decoder.",
		Assumptions: []string{},
		TrustedBase: baseTrusted,
		Rules: []RuleRun{
			{"R9", R9("cborl")},
			{"R2", R2("cborl")},
			{"R3", R3("cborl")},
		},
		LevelText: "Structural necessary conditions on every path of the cborl step functions (refusal = error value; no stutter; incomplete token changes nothing).",
		Technique: "panic-site enumeration, stutter-freedom and collect-guard path analysis over the cborl step family",
		DesignRef: "DESIGN.md section 2 R2, R5, R9; section 3 C05",
	})
	register(&PropSpec{
		ID:    "C06",
		Level: "other",
		Decided: "the announced element type of an optimized container applies to exactly that container: every completion path of a typed handler pops the element type, completion vectors of array/object siblings agree (R7); a key split across writes does not corrupt the state, a parked length marker is not reset before the length is complete (R3); no marker stalls the machine, unknown length markers and the no-op element type are errors (R2).",
		NotDecided: "values, no-op placement, high-precision numbers' text, that the element count delivered equals the announced count.",
		Assumptions: []string{},
		TrustedBase: baseTrusted,
		Rules: []RuleRun{
			{"R7", R7},
			{"R3", R3("ubjson")},
			{"R2", R2("ubjson")},
			{"R11", R11},
		},
		LevelText: "Structural necessary conditions on every path of the ubjson container handlers and step functions. Optimized containers nested in optimized containers are never parsed by the suite; the completion-vector rule covers every nesting by induction.",
		Technique: "completion-vector (stack delta) analysis of container handlers with sibling agreement; collect-guard and stutter-freedom path analysis",
		DesignRef: "DESIGN.md section 2 R7, R3, R2; section 3 C06",
	})
	register(&PropSpec{
		ID:    "C01",
		Level: "other",
		Decided: "integers survive both directions of all three codecs: every non-constant integer conversion on the encoder and decoder number paths keeps the value (operand interval inside the target range on every path) or is an enumerated wire-format idiom with a stated reason; CBOR initial bytes pack only arguments 0..23 inline; UBJSON's marker selection tables respect the markers' ranges and maxNumType is a proper maximum (R5).",
		NotDecided: "strings byte for byte, key order, nesting, option combinations, escape/unescape inversion, float text (see C07 R19 for the format call), the CBOR empty-key refusal asymmetry - all value-level.",
		Assumptions: []string{"remaining-length entries (lengthStack.current) lie between -1 and the largest value any push site can push: countdowns are assumed never to go below -1 (each decrement is matched by an element or byte actually consumed)", "interval domain is non-relational; the three accepted idioms (two's-complement wire reinterpretation in ubjson, remainder extraction, marker-selected narrowing with a mechanically checked premise) are the places where a relational argument is needed"},
		TrustedBase: baseTrusted,
		Rules: []RuleRun{
			{"R5", R5("json", "cborl", "ubjson")},
			{"R21", R21},
		},
		LevelText: "Structural necessary condition over ~120 integer conversions: a conversion that can change a value changes it for some input. Width boundaries are exactly what the 95 fixtures never sample; intervals cover the full type range at once.",
		Technique: "path-sensitive interval analysis on SSA (branch refinement, wrap-window tracking, widening at loop heads) over every integer conversion of the codecs; table checks for UBJSON marker selection and CBOR inline arguments",
		DesignRef: "DESIGN.md section 2 R5; section 3 C01",
	})
	register(&PropSpec{
		ID:    "C07",
		Level: "other",
		Decided: "brackets balance and terminators appear exactly once per container: every event moves the nesting stacks by its contract delta and count/terminator conditions are exact complements (R6); JSON escape tables are exactly the required sets, non-finite floats never reach the formatter, float text is the shortest round-tripping form of the right width, every value passes the element-separator logic before its first write (R19); numbers are written without value change, CBOR heads pack only 0..23 inline, UBJSON markers fit their values (R5); formatted bytes in the scratch array are not overwritten before they are written out (R21).",
		NotDecided: "UTF-8 validity of the output (the replacement logic in OnString is value-level), that the explicit-radix-point form always re-parses as a float, agreement with an independent reference decoder on whole documents.",
		Assumptions: []string{"RFC 8259 section 7 (characters that must be escaped) is the oracle for the escape tables"},
		TrustedBase: baseTrusted,
		Rules: []RuleRun{
			{"R6", R6("json", "cborl", "ubjson")},
			{"R19", R19},
			{"R5", R5("json", "cborl", "ubjson")},
			{"R21", R21},
		},
		LevelText: "Structural necessary conditions decided on every path of ~170 encoder methods, plus exact constant evaluation of the escape-table initialiser. Tests only check that the library's own parser reads the encoder's output for 95 samples; an encoder and parser wrong in the same way pass, shapes outside the samples are never produced.",
		Technique: "stack-delta path analysis; constant folding of the table initialiser over SSA; dominance rules for the float guard and format arguments; first-write-after-separator path rule; interval analysis of number conversions; scratch live-range overlap",
		DesignRef: "DESIGN.md section 2 R6, R19, R5, R21; section 3 C07",
	})
	register(&PropSpec{
		ID:    "C04",
		Level: "other",
		Decided: "no integer literal is reported as a different number on the integer path (R5 on the json number functions); string decoding does not read outside the literal and copies the bytes it decoded: every index/slice of the input in the scan loops of unquote is below the input length on every path (R4-I1); the chunk head is only read from non-empty chunks (R4-I0); a chunk boundary in insignificant whitespace does not move the grammar position (R3 TRIM-GUARD); no step can stutter (R2).",
		NotDecided: "the language of the grammar and the value of every text (escape semantics, surrogate pairing, float rounding - strconv.ParseFloat is trusted; lexical leniencies such as '-' alone, '+1', '.5', Latin-1 whitespace are neither required nor excluded by the property as stated). A reference-decoder comparison is a different family.",
		Assumptions: []string{"strconv.ParseUint of n hex digits yields a value below 16^n"},
		TrustedBase: baseTrusted,
		Rules: []RuleRun{
			{"R5", R5("json")},
			{"R4", R4("json")},
			{"R3", R3("json")},
			{"R2", R2("json")},
		},
		LevelText: "Structural necessary conditions on every path of the json number, string and step functions. The parser is only ever fed text produced by the library's own encoder; the index-fact rule covers every escape placement at once.",
		Technique: "interval analysis of integer conversions; relational index-below-length facts carried through '+const' on SSA paths of scan loops; emptiness guards on chunk heads; trim-guard and stutter-freedom",
		DesignRef: "DESIGN.md section 2 R4, R5, R3, R2; section 3 C04",
	})
	register(&PropSpec{
		ID:    "C09",
		Level: "other",
		Decided: "for the adapters that expand extended events and for the whole fold side of gotype: every producer function emits, on every path that can return a nil error, a word of the Visitor grammar for its effect type (balanced and nested, exactly one key before each value inside an object); a start event announcing a non-negative length announces len(x) and is followed by exactly one element per entry of x; adapters announce the element type they emit; folders are combined according to their effect types (R10). For the parsers only in part: lifecycle of container handlers (R7).",
		NotDecided: "for the parsers: that the number of elements delivered equals the announced count and start/finish balance on accepted input (emission is spread over resumable steps); user folders (Folder.Fold, registered functions) are assumed to emit exactly one value.",
		Assumptions: []string{"the effect-type table of fold function getters in r10_grammar.go (frozen from reading; keyed by function, a rename breaks it loudly)"},
		TrustedBase: baseTrusted,
		Rules: []RuleRun{
			{"R10", R10},
			{"R7", R7},
			{"R11", R11},
			{"R6", R6("visitors")},
		},
		LevelText: "Structural necessary condition that is close to the whole property for the adapters and the fold side: regular-language inclusion of every function's emitted event words in the grammar of its effect type, decided by a product of the SSA control-flow graph with the grammar automaton. Announced lengths and types are ignored by the JSON encoder and by the test comparison, so no test can see a wrong announcement.",
		Technique: "product of SSA paths with a Visitor-grammar automaton (terminals = visitor events, non-terminals = fold function values typed by a getter table), loop-iteration element counting for announced lengths, type-derived announce table for adapters",
		DesignRef: "DESIGN.md section 2 R10; section 3 C09",
	})
}

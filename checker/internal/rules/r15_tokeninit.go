package rules

import (
	"fmt"
	"go/token"
	"go/types"
	"sort"
	"strings"

	"golang.org/x/tools/go/ssa"

	"sfcheck/internal/core"
)

// R15 TOKEN-INIT (json): the scalar flags a token's step function relies on
// (inEscape, isDouble, required: read before they are written in that step)
// are initialised by every function that moves the machine into that token's
// state. json.(*Parser).Parse does not reset them, and a document can be
// abandoned in the middle of any token, so a flag that is only cleaned up
// when a token completes leaks into the next document of a reused parser.

type tiState struct{ stored stringSet }
type tiCtx struct {
	recv    *types.Named
	scalars map[string]bool
	exp     map[*ssa.Function]map[string]bool
	busy    map[*ssa.Function]bool
}
type tiClient struct {
	c   *tiCtx
	fn  *ssa.Function
	exp map[string]bool
}

func (k *tiClient) Key(s tiState) string                              { return s.stored.key() }
func (k *tiClient) Phis(s tiState, _ *ssa.BasicBlock, _ int) tiState { return s }
func (k *tiClient) Branch(s tiState, _ ssa.Value, _ bool) (tiState, bool) {
	return s, true
}
func (k *tiClient) Return(tiState, *ssa.Return) {}
func (k *tiClient) recvScalar(addr ssa.Value) string {
	fa, ok := addr.(*ssa.FieldAddr)
	if !ok || fa.X != ssa.Value(k.fn.Params[0]) {
		return ""
	}
	name := core.FieldName(fa.X.Type().Underlying().(*types.Pointer).Elem().Underlying().(*types.Struct), fa.Field)
	if !k.c.scalars[name] {
		return ""
	}
	return name
}
func (k *tiClient) Instr(s tiState, in ssa.Instruction) (tiState, bool, []tiState) {
	switch x := in.(type) {
	case *ssa.UnOp:
		if x.Op == token.MUL {
			if f := k.recvScalar(x.X); f != "" && !s.stored.has(f) {
				k.exp[f] = true
			}
		}
	case *ssa.Store:
		if f := k.recvScalar(x.Addr); f != "" {
			s.stored = s.stored.with(f)
		}
	case ssa.CallInstruction:
		sc := x.Common().StaticCallee()
		if sc != nil && sc.Signature.Recv() != nil && namedOf(sc.Signature.Recv().Type()) == k.c.recv && len(x.Common().Args) > 0 && x.Common().Args[0] == ssa.Value(k.fn.Params[0]) {
			for f := range k.c.exposed(sc) {
				if !s.stored.has(f) {
					k.exp[f] = true
				}
			}
		}
	}
	return s, true, nil
}

// exposed: scalar fields f may read before it has written them.
func (c *tiCtx) exposed(f *ssa.Function) map[string]bool {
	if e, ok := c.exp[f]; ok {
		return e
	}
	if c.busy[f] || f.Blocks == nil {
		return nil
	}
	c.busy[f] = true
	defer delete(c.busy, f)
	k := &tiClient{c: c, fn: f, exp: map[string]bool{}}
	WalkPaths[tiState](k, f.Blocks[0], 0, tiState{}, 200000, nil)
	c.exp[f] = k.exp
	return k.exp
}

// armClient maps dispatcher states to the step functions their arms call.
type armState struct{ disp int64 }
type armClient struct {
	fn   *ssa.Function
	recv *types.Named
	arms map[int64]map[*ssa.Function]bool
}

func (k *armClient) Key(s armState) string                               { return fmt.Sprint(s.disp) }
func (k *armClient) Phis(s armState, _ *ssa.BasicBlock, _ int) armState { return s }
func (k *armClient) Return(armState, *ssa.Return)                       {}
func (k *armClient) Branch(s armState, cond ssa.Value, outcome bool) (armState, bool) {
	if bo, ok := cond.(*ssa.BinOp); ok && bo.Op == token.EQL && outcome {
		if n, ok := bo.X.Type().(*types.Named); ok && n.Obj().Pkg() == core.FuncPkg(k.fn) {
			if c, ok := constIntVal(bo.Y); ok {
				s.disp = c + 1
			}
		}
	}
	return s, true
}
func (k *armClient) Instr(s armState, in ssa.Instruction) (armState, bool, []armState) {
	if c, ok := in.(ssa.CallInstruction); ok && s.disp != 0 {
		sc := c.Common().StaticCallee()
		if sc != nil && sc.Signature.Recv() != nil && namedOf(sc.Signature.Recv().Type()) == k.recv {
			if k.arms[s.disp-1] == nil {
				k.arms[s.disp-1] = map[*ssa.Function]bool{}
			}
			k.arms[s.disp-1][sc] = true
		}
	}
	return s, true, nil
}

func tokenInit(p *core.Prog, r *core.Result) {
	fam, err := buildFamily(p, "json")
	if err != nil {
		r.Undecided(".TOKEN-INIT", "json", err.Error())
		return
	}
	recv := fam.recvNamed
	st, _ := recv.Underlying().(*types.Struct)
	if st == nil {
		r.Undecided(".TOKEN-INIT", "json.Parser", "not a struct")
		return
	}
	// scalar flags: unnamed bool/int fields stored by the step family
	scalars := map[string]bool{}
	basicField := map[string]bool{}
	for i := 0; i < st.NumFields(); i++ {
		if b, ok := st.Field(i).Type().(*types.Basic); ok && b.Info()&(types.IsBoolean|types.IsInteger) != 0 {
			basicField[core.FieldName(st, i)] = true
		}
	}
	var methods []*ssa.Function
	for _, f := range p.ModFuncs() {
		if f.Signature.Recv() == nil || namedOf(f.Signature.Recv().Type()) != recv || f.Blocks == nil {
			continue
		}
		methods = append(methods, f)
		if core.FuncName(f) == "init" || core.FuncName(f) == "Parse" {
			continue
		}
		for _, b := range f.Blocks {
			for _, in := range b.Instrs {
				if s, ok := in.(*ssa.Store); ok {
					if fa, ok := s.Addr.(*ssa.FieldAddr); ok && fa.X == ssa.Value(f.Params[0]) {
						n := core.FieldName(st, fa.Field)
						if basicField[n] {
							scalars[n] = true
						}
					}
				}
			}
		}
	}
	sort.Slice(methods, func(i, j int) bool { return methods[i].Pos() < methods[j].Pos() })
	c := &tiCtx{recv: recv, scalars: scalars, exp: map[*ssa.Function]map[string]bool{}, busy: map[*ssa.Function]bool{}}
	ak := &armClient{fn: fam.feedUntil, recv: recv, arms: map[int64]map[*ssa.Function]bool{}}
	WalkPaths[armState](ak, fam.feedUntil.Blocks[0], 0, armState{}, 200000, nil)
	// fields each state's arm needs initialised
	need := map[int64]map[string]bool{}
	for s, fs := range ak.arms {
		for f := range fs {
			for fld := range c.exposed(f) {
				if need[s] == nil {
					need[s] = map[string]bool{}
				}
				need[s][fld] = true
			}
		}
	}
	// the state type's constant names
	constName := map[int64]string{}
	if sp := p.SPkgs["json"]; sp != nil {
		for name, m := range sp.Members {
			if nc, ok := m.(*ssa.NamedConst); ok {
				if n, ok := nc.Type().(*types.Named); ok && core.TypeName(n) == "state" {
					if v, ok := constIntVal(nc.Value); ok {
						constName[v] = name
					}
				}
			}
		}
	}
	sites := 0
	for _, g := range methods {
		if core.FuncName(g) == "init" {
			continue
		}
		stores := map[string]bool{}
		var entries []int64
		for _, b := range g.Blocks {
			for _, in := range b.Instrs {
				switch x := in.(type) {
				case *ssa.Store:
					if fa, ok := x.Addr.(*ssa.FieldAddr); ok && fa.X == ssa.Value(g.Params[0]) {
						n := core.FieldName(st, fa.Field)
						stores[n] = true
						if nt, ok := st.Field(fa.Field).Type().(*types.Named); ok && core.TypeName(nt) == "state" {
							if v, ok := constIntVal(x.Val); ok {
								entries = append(entries, v)
							}
						}
					}
				case *ssa.Call:
					if sc := x.Common().StaticCallee(); sc != nil && core.FuncName(sc) == "pushState" && len(x.Common().Args) == 2 {
						if v, ok := constIntVal(x.Common().Args[1]); ok {
							entries = append(entries, v)
						}
					}
				}
			}
		}
		for _, s := range entries {
			if len(need[s]) == 0 {
				continue
			}
			sites++
			var missing []string
			for fld := range need[s] {
				if !stores[fld] {
					missing = append(missing, fld)
				}
			}
			sort.Strings(missing)
			gkey := core.FuncKey(g)
			sn := constName[s]
			if sn == "" {
				sn = fmt.Sprint(s)
			}
			if len(missing) == 0 {
				r.Ok(".TOKEN-INIT", p.Pos(g.Pos()), fmt.Sprintf("%s enters %s and initialises the flags its step reads first (%s)", gkey, sn, strings.Join(sortedKeys(need[s]), ",")))
			} else {
				r.Fail(".TOKEN-INIT", fmt.Sprintf("%s|%s|%s", gkey, sn, strings.Join(missing, ",")), p.Pos(g.Pos()), fmt.Sprintf("%s moves the machine into %s without initialising %s, which the step function of that state reads before writing; Parse does not reset it either, so whatever an earlier (completed or abandoned) token left there decides how this token is read - a reused parser differs from a fresh one", gkey, sn, strings.Join(missing, ",")), "")
			}
		}
	}
	r.Stats["json_scalar_token_flags"] = len(scalars)
	r.Floor("json_token_entry_sites", sites, 5)
}

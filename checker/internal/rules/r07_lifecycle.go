package rules

import (
	"fmt"
	"go/token"
	"go/types"
	"sort"
	"strings"

	"golang.org/x/tools/go/ssa"

	"sfcheck/internal/core"
)

// R7 LIFECYCLE (ubjson): a container handler that completes (pops its own
// frame from the state stack) pops, on that same path, everything its header
// pushed: the remaining-count entry and - for typed containers - the element
// type. All completion paths of one handler agree, and the array and object
// handler of the same flavour agree with each other.
//
// Also, for all three parsers: every stack of the parser that is pushed
// somewhere reachable from feedUntil is popped somewhere reachable from it.
func R7(p *core.Prog) *core.Result {
	r := core.NewResult("R7", "ubjson container handlers: every completion path pops exactly what the header pushed (count entry; element type for typed containers); array/object siblings agree; every parser stack that is pushed is popped")
	fam, err := buildFamily(p, "ubjson")
	if err != nil {
		r.Undecided("", "ubjson", err.Error())
		return r
	}
	named := fam.recvNamed
	ctx := &r6ctx{p: p, recv: named, counters: discoverCounters(p, named), sums: map[*ssa.Function]*r6sum{}, busy: map[*ssa.Function]bool{}, opaque: map[*ssa.Function]bool{}}
	for _, n := range []string{"execStep", "stepValue"} {
		if f := p.LookupFunc("ubjson", "(*Parser)."+n); f != nil {
			ctx.opaque[f] = true
		} else {
			r.Undecided("", "ubjson."+n, "value dispatcher "+n+" not found")
		}
	}
	var cn []string
	for c := range ctx.counters {
		cn = append(cn, c)
	}
	sort.Strings(cn)
	r.Stats["ubjson_stacks"] = len(cn)
	if len(cn) < 3 {
		r.Undecided("", "ubjson|stacks", "expected the state, length and valueState stacks on ubjson.Parser, found "+strings.Join(cn, ","))
		return r
	}
	// the frame stack: the one popped by every handler ("state")
	pairs := [][2]string{{"stepArrayDyn", "stepObjectDyn"}, {"stepArrayCount", "stepObjectCount"}, {"stepArrayTyped", "stepObjectTyped"}}
	completion := func(name string) (map[string]bool, *ssa.Function) {
		f := p.LookupFunc("ubjson", "(*Parser)."+name)
		if f == nil {
			r.Undecided(".COMPLETION", "ubjson."+name, "handler not found")
			return nil, nil
		}
		sum := ctx.summary(f)
		if sum == nil || sum.top {
			r.Undecided(".COMPLETION", "ubjson."+name+"|top", "stack effect of "+name+" is not a bounded delta")
			return nil, f
		}
		out := map[string]bool{}
		for _, dk := range sortedKeys(sum.deltas) {
			d := sum.deltas[dk]
			if d["state"] == -1 {
				// completion path: record the rest of the vector
				var parts []string
				for _, c := range cn {
					if c != "state" && d[c] != 0 {
						parts = append(parts, fmt.Sprintf("%s%+d", c, d[c]))
					}
				}
				out[strings.Join(parts, ",")] = true
			}
		}
		return out, f
	}
	setStr := func(m map[string]bool) string {
		var ks []string
		for k := range m {
			if k == "" {
				k = "(nothing)"
			}
			ks = append(ks, k)
		}
		sort.Strings(ks)
		return "{" + strings.Join(ks, " | ") + "}"
	}
	for _, pr := range pairs {
		a, fa := completion(pr[0])
		b, fb := completion(pr[1])
		if a == nil || b == nil {
			continue
		}
		for i, m := range []map[string]bool{a, b} {
			f := []*ssa.Function{fa, fb}[i]
			fkey := core.FuncKey(f)
			switch {
			case len(m) == 0:
				r.Fail(".COMPLETION", fkey+"|none", p.Pos(f.Pos()), fkey+" has no path that pops its own frame from the state stack: the container can never complete", "")
			case len(m) > 1:
				r.Fail(".COMPLETION", fkey+"|inconsistent", p.Pos(f.Pos()), fkey+": completion paths disagree on what they pop besides the frame: "+setStr(m)+" - on some path a count or element-type entry pushed by the header stays on its stack and leaks into whatever follows", "")
			default:
				r.Ok(".COMPLETION", p.Pos(f.Pos()), fkey+": every completion path pops "+setStr(m))
			}
		}
		if len(a) == 1 && len(b) == 1 {
			if setStr(a) != setStr(b) {
				r.Fail(".SIBLINGS", "ubjson."+pr[0]+"/"+pr[1], p.Pos(fa.Pos()), fmt.Sprintf("ubjson %s pops %s on completion while its sibling %s pops %s: one of them leaves an entry (remaining count / element type) behind for whatever follows", pr[0], setStr(a), pr[1], setStr(b)), "")
			} else {
				r.Ok(".SIBLINGS", p.Pos(fa.Pos()), "ubjson "+pr[0]+" and "+pr[1]+" agree: "+setStr(a))
			}
		}
	}
	// FIELD-ESTABLISHED: a parser field that exactly one step function writes (a value taken from a header, e.g. the
	// element type of a '$' type header) is only read by handlers whose own steps include that writer. A handler
	// that never parses the header reads whatever the last container that did left behind.
	for _, pk := range []string{"ubjson", "cborl", "json"} {
		fm, err := buildFamily(p, pk)
		if err != nil {
			continue
		}
		st, _ := fm.recvNamed.Underlying().(*types.Struct)
		if st == nil {
			continue
		}
		writers := map[string]map[*ssa.Function]bool{}
		readers := map[string]map[*ssa.Function]bool{}
		var fns []*ssa.Function
		for _, f := range p.ModFuncs() {
			if f.Signature.Recv() == nil || namedOf(f.Signature.Recv().Type()) != fm.recvNamed || f.Blocks == nil || core.FuncName(f) == "init" {
				continue
			}
			fns = append(fns, f)
			for _, b := range f.Blocks {
				for _, in := range b.Instrs {
					switch x := in.(type) {
					case *ssa.Store:
						if fa, ok := x.Addr.(*ssa.FieldAddr); ok && fa.X == ssa.Value(f.Params[0]) {
							n := core.FieldName(st, fa.Field)
							if writers[n] == nil {
								writers[n] = map[*ssa.Function]bool{}
							}
							writers[n][f] = true
						}
					case *ssa.UnOp:
						if fa, ok := x.X.(*ssa.FieldAddr); ok && x.Op == token.MUL && fa.X == ssa.Value(f.Params[0]) {
							n := core.FieldName(st, fa.Field)
							if readers[n] == nil {
								readers[n] = map[*ssa.Function]bool{}
							}
							readers[n][f] = true
						}
					}
				}
			}
		}
		reach := func(from, to *ssa.Function) bool {
			seen := map[*ssa.Function]bool{}
			var visit func(f *ssa.Function) bool
			visit = func(f *ssa.Function) bool {
				if f == to {
					return true
				}
				if seen[f] || f.Blocks == nil {
					return false
				}
				seen[f] = true
				for _, b := range f.Blocks {
					for _, in := range b.Instrs {
						if c, ok := in.(ssa.CallInstruction); ok {
							if sc := c.Common().StaticCallee(); sc != nil && core.FuncPkg(sc) == core.FuncPkg(from) && visit(sc) {
								return true
							}
						}
					}
				}
				return false
			}
			return visit(from)
		}
		for _, fld := range sortedKeys(writers) {
			if len(writers[fld]) != 1 {
				continue
			}
			if _, isBasic := fieldByName(st, fld).Type().Underlying().(*types.Basic); !isBasic {
				continue // stacks, buffers, visitors: covered by the stack and buffer rules
			}
			var w *ssa.Function
			for f := range writers[fld] {
				w = f
			}
			for _, rf := range fns {
				if !readers[fld][rf] || rf == w {
					continue
				}
				key := pk + "." + fld + "|" + rf.Name()
				// the end-of-input side works on behalf of the container that is open: a read there is the open
				// container's own if it is guarded by a test that the open frame is a typed container (whose
				// header step is the writer)
				if !reach(fm.feedUntil, rf) && typedGuardedReads(p, rf, fld, st) {
					r.Ok(".FIELD-ESTABLISHED", p.Pos(rf.Pos()), fmt.Sprintf("%s (end-of-input side) reads %s only behind a test that the open frame is a typed container", core.FuncKey(rf), fld))
					continue
				}
				if reach(rf, w) {
					r.Ok(".FIELD-ESTABLISHED", p.Pos(rf.Pos()), fmt.Sprintf("%s reads %s and its own steps include the only writer %s", core.FuncKey(rf), fld, w.Name()))
				} else {
					r.Fail(".FIELD-ESTABLISHED", key, p.Pos(rf.Pos()), fmt.Sprintf("%s reads the parser field %s, which only %s writes, but none of its own steps reaches %s: it sees whatever an earlier container (possibly of an earlier document) left there", core.FuncKey(rf), fld, core.FuncKey(w), w.Name()), "")
				}
			}
		}
	}
	// typed handlers must pop the element type
	for _, n := range []string{"stepArrayTyped", "stepObjectTyped"} {
		m, f := completion(n)
		if m == nil {
			continue
		}
		okT := true
		for k := range m {
			if !strings.Contains(k, "valueState-1") {
				okT = false
			}
		}
		if okT && len(m) > 0 {
			r.Ok(".TYPE-SCOPE", p.Pos(f.Pos()), "ubjson "+n+": the element type is popped on every completion path")
		} else {
			r.Fail(".TYPE-SCOPE", "ubjson."+n, p.Pos(f.Pos()), "ubjson "+n+" completes without popping the element-type stack (valueState): the announced element type leaks to whatever follows the container", "")
		}
	}
	// the element type is popped iff the popped frame is a typed container, wherever that is decided by a test
	r7FramePop(p, r, ctx)
	// push/pop reachability for every parser stack of the three codecs
	for _, pk := range []string{"json", "cborl", "ubjson"} {
		fm, err := buildFamily(p, pk)
		if err != nil {
			r.Undecided(".PUSH-POP", pk, err.Error())
			continue
		}
		pushes, pops := map[string]bool{}, map[string]bool{}
		seen := map[*ssa.Function]bool{}
		var visit func(f *ssa.Function)
		visit = func(f *ssa.Function) {
			if seen[f] || f.Blocks == nil || core.FuncPkg(f) != core.FuncPkg(fm.feedUntil) {
				return
			}
			seen[f] = true
			for _, b := range f.Blocks {
				for _, in := range b.Instrs {
					c, ok := in.(ssa.CallInstruction)
					if !ok {
						continue
					}
					sc := c.Common().StaticCallee()
					if sc == nil {
						continue
					}
					visit(sc)
					if (core.FuncName(sc) == "push" || core.FuncName(sc) == "pop") && len(c.Common().Args) > 0 {
						if fld := fieldOfReceiver(f, c.Common().Args[0]); fld != "" {
							if core.FuncName(sc) == "push" {
								pushes[fld] = true
							} else {
								pops[fld] = true
							}
						}
					}
				}
			}
		}
		visit(fm.feedUntil)
		if f := p.LookupFunc(pk, "(*Parser).finalize"); f != nil {
			visit(f)
		}
		if pk == "json" {
			// json keeps its stack in a plain slice handled by pushState/popState
			for f := range seen {
				if core.FuncName(f) == "pushState" {
					pushes["states"] = true
				}
				if core.FuncName(f) == "popState" {
					pops["states"] = true
				}
			}
		}
		for _, fld := range sortedKeys(pushes) {
			if pops[fld] {
				r.Ok(".PUSH-POP", "-", pk+": stack "+fld+" is pushed and popped")
			} else {
				r.Fail(".PUSH-POP", pk+"."+fld, "-", pk+": stack "+fld+" is pushed but no pop site is reachable from the parser's dispatcher: entries accumulate across documents", "")
			}
		}
		if len(pushes) == 0 {
			r.Undecided(".PUSH-POP", pk+"|none", "no stack push reachable from "+pk+".feedUntil")
		}
	}
	return r
}

func fieldByName(st *types.Struct, name string) *types.Var {
	for i := 0; i < st.NumFields(); i++ {
		if core.FieldName(st, i) == name {
			return st.Field(i)
		}
	}
	return nil
}

// typedGuardedReads: every load of receiver field fld in f is dominated by the true edge of a test
// `frame kind == <typed container constant>` (the comparison itself, or a boolean it was assigned to).
func typedGuardedReads(p *core.Prog, f *ssa.Function, fld string, st *types.Struct) bool {
	typed := map[string]bool{}
	for _, n := range []string{"stArrayTyped", "stObjectTyped"} {
		if nc := p.Const(core.FuncPkg(f).Name(), n); nc != nil && nc.Value.Value != nil {
			typed[nc.Value.Value.ExactString()] = true
		}
	}
	if len(typed) == 0 || f.Signature.Recv() == nil {
		return false
	}
	isTypedTest := func(v ssa.Value) bool {
		bo, ok := v.(*ssa.BinOp)
		if !ok || bo.Op != token.EQL {
			return false
		}
		c, ok := bo.Y.(*ssa.Const)
		return ok && c.Value != nil && typed[c.Value.ExactString()]
	}
	found := false
	for _, b := range f.Blocks {
		for _, in := range b.Instrs {
			ld, ok := in.(*ssa.UnOp)
			if !ok || ld.Op != token.MUL {
				continue
			}
			fa, ok := ld.X.(*ssa.FieldAddr)
			if !ok || fa.X != ssa.Value(f.Params[0]) || core.FieldName(st, fa.Field) != fld {
				continue
			}
			found = true
			guarded := false
			for d := b; d != nil && !guarded; d = d.Idom() {
				id := d.Idom()
				if id == nil {
					break
				}
				iff, ok := id.Instrs[len(id.Instrs)-1].(*ssa.If)
				if !ok || !isTypedTest(iff.Cond) {
					continue
				}
				if t := id.Succs[0]; len(t.Preds) == 1 && (t == d || t.Dominates(d)) {
					guarded = true
				}
			}
			if !guarded {
				return false
			}
		}
	}
	return found
}

package rules

import (
	"fmt"
	"go/token"
	"go/types"
	"math/big"
	"strings"

	"golang.org/x/tools/go/ssa"

	"sfcheck/internal/core"
)

// R5 NUMBER-KIND (json): whether a number literal is an integer or a float is
// decided by the scanner from the literal's syntax ('.', 'e', 'E') and handed
// to reportNumber as a flag. reportNumber itself never changes the class: a
// float event is only reachable on paths on which the flag parameter is known
// to be true, an integer event only where it is known to be false. (A
// heuristic in between - literal length, failed integer parse - silently
// turns exact integers into rounded floats.)

type nkState struct {
	known int8        // 0 unknown, 1 flag true, 2 flag false
	eq    map[int]int // phi id -> 0: the flag parameter, 1: const true, 2: const false
}
type nkClient struct {
	p    *core.Prog
	fn   *ssa.Function
	flag ssa.Value
	num  *valueNumbering
	bad  map[string]string
	n    int
}

func (k *nkClient) Key(s nkState) string {
	var parts []string
	for _, id := range sortedIntKeys(s.eq) {
		parts = append(parts, fmt.Sprintf("%d=%d", id, s.eq[id]))
	}
	return fmt.Sprintf("%d|%s", s.known, strings.Join(parts, ","))
}
func sortedIntKeys(m map[int]int) []int {
	var ks []int
	for k := range m {
		ks = append(ks, k)
	}
	for i := 1; i < len(ks); i++ {
		for j := i; j > 0 && ks[j] < ks[j-1]; j-- {
			ks[j], ks[j-1] = ks[j-1], ks[j]
		}
	}
	return ks
}
func (k *nkClient) Phis(s nkState, blk *ssa.BasicBlock, pred int) nkState {
	for _, in := range blk.Instrs {
		phi, ok := in.(*ssa.Phi)
		if !ok {
			break
		}
		if pred < 0 || pred >= len(phi.Edges) {
			continue
		}
		e := phi.Edges[pred]
		code := -1
		if e == k.flag {
			code = 0
		} else if cv, ok := constBool(e); ok {
			code = 2
			if cv {
				code = 1
			}
		} else if c, ok := s.eq[k.num.id(e)]; ok {
			code = c
		}
		n := make(map[int]int, len(s.eq)+1)
		for a, b := range s.eq {
			n[a] = b
		}
		if code >= 0 {
			n[k.num.id(phi)] = code
		} else {
			delete(n, k.num.id(phi))
		}
		s.eq = n
	}
	return s
}
func (k *nkClient) Branch(s nkState, cond ssa.Value, outcome bool) (nkState, bool) {
	code := -1
	if cond == k.flag {
		code = 0
	} else if c, ok := s.eq[k.num.id(cond)]; ok {
		code = c
	}
	switch code {
	case 0:
		want := int8(2)
		if outcome {
			want = 1
		}
		if s.known != 0 && s.known != want {
			return s, false
		}
		s.known = want
	case 1:
		if !outcome {
			return s, false
		}
	case 2:
		if outcome {
			return s, false
		}
	}
	return s, true
}
func (k *nkClient) Instr(s nkState, in ssa.Instruction) (nkState, bool, []nkState) {
	c, ok := in.(*ssa.Call)
	if !ok || !c.Common().IsInvoke() || !isNumEvent(c.Common().Method.Name()) {
		return s, true, nil
	}
	k.n++
	name := c.Common().Method.Name()
	isFloat := strings.HasPrefix(name, "OnFloat")
	pos := k.p.Pos(c.Pos())
	switch {
	case isFloat && s.known != 1:
		k.bad[name+"@"+pos] = fmt.Sprintf("reports %s at %s on a path on which the scanner's float flag is not known to be true: an integer literal is delivered as a (rounded) float", name, pos)
	case !isFloat && s.known != 2:
		k.bad[name+"@"+pos] = fmt.Sprintf("reports %s at %s on a path on which the scanner's float flag is not known to be false", name, pos)
	}
	return s, true, nil
}
func (k *nkClient) Return(nkState, *ssa.Return) {}

func numberKind(p *core.Prog, r *core.Result) {
	f := p.LookupFunc("json", "(*Parser).reportNumber")
	if f == nil {
		r.Undecided(".NUMBER-KIND", "json.(*Parser).reportNumber", "number reporting function not found")
		return
	}
	var flag ssa.Value
	for _, prm := range f.Params {
		if b, ok := constBoolType(prm); ok && b {
			flag = prm
		}
	}
	if flag == nil {
		r.Undecided(".NUMBER-KIND", "json.(*Parser).reportNumber|flag", "reportNumber has no bool parameter")
		return
	}
	k := &nkClient{p: p, fn: f, flag: flag, num: newNumbering(), bad: map[string]string{}}
	_, capped := WalkPaths[nkState](k, f.Blocks[0], 0, nkState{}, 200000, nil)
	fkey := core.FuncKey(f)
	switch {
	case capped:
		r.Undecided(".NUMBER-KIND", fkey, "state cap hit")
	case len(k.bad) > 0:
		for i, kk := range sortedKeys(k.bad) {
			r.Fail(".NUMBER-KIND", fmt.Sprintf("%s|%s#%d", fkey, strings.SplitN(kk, "@", 2)[0], i+1), p.Pos(f.Pos()), fkey+" "+k.bad[kk], "")
		}
	case k.n < 2:
		r.Undecided(".NUMBER-KIND", fkey+"|events", "expected a float and an integer event in reportNumber")
	default:
		r.Ok(".NUMBER-KIND", p.Pos(f.Pos()), fkey+": float events only under flag==true, integer events only under flag==false")
	}
}

func constBoolType(v ssa.Value) (bool, bool) {
	return v.Type().String() == "bool", true
}

// R5 SCAN-EXIT (ubjson encoder): a typed array is written with the widest
// marker any of its elements needs, found by folding maxNumType over ALL
// elements. Leaving that scan early because the accumulated marker equals
// some constant is only sound for the top of maxNumType's order (the marker
// its first case returns); for any other constant a later element may still
// need a wider representation and would be written narrowed.
func scanExit(p *core.Prog, r *core.Result) {
	mx := p.LookupFunc("ubjson", "maxNumType")
	if mx == nil {
		return // reported by UBJSON-MARKERS
	}
	// the top of the order: the constant of the first comparison in maxNumType
	top, haveTop := int64(0), false
	for _, in := range mx.Blocks[0].Instrs {
		if bo, ok := in.(*ssa.BinOp); ok {
			if c, ok := constIntVal(bo.Y); ok {
				top, haveTop = c, true
				break
			}
		}
	}
	if !haveTop {
		r.Undecided(".SCAN-EXIT", "ubjson.maxNumType|top", "first case of maxNumType not recognised")
		return
	}
	blockReach := func(from, to *ssa.BasicBlock) bool {
		seen := map[*ssa.BasicBlock]bool{}
		work := append([]*ssa.BasicBlock{}, from.Succs...)
		for len(work) > 0 {
			x := work[len(work)-1]
			work = work[:len(work)-1]
			if seen[x] {
				continue
			}
			seen[x] = true
			if x == to {
				return true
			}
			work = append(work, x.Succs...)
		}
		return false
	}
	scans := 0
	for _, f := range p.ModFuncs() {
		pk := core.FuncPkg(f)
		if pk == nil || pk.Name() != "ubjson" {
			continue
		}
		for _, b := range f.Blocks {
			for _, in := range b.Instrs {
				call, ok := in.(*ssa.Call)
				if !ok || call.Common().StaticCallee() != mx || !blockReach(b, b) {
					continue
				}
				scans++
				// values carrying the accumulated marker: the call and phis fed by it
				acc := map[ssa.Value]bool{call: true}
				if refs := call.Referrers(); refs != nil {
					for _, rf := range *refs {
						if phi, ok := rf.(*ssa.Phi); ok {
							acc[phi] = true
						}
					}
				}
				bad := ""
				for _, b2 := range f.Blocks {
					iff, ok := b2.Instrs[len(b2.Instrs)-1].(*ssa.If)
					if !ok {
						continue
					}
					bo, ok := iff.Cond.(*ssa.BinOp)
					if !ok || !acc[bo.X] {
						continue
					}
					c, ok := constIntVal(bo.Y)
					if !ok || c == top {
						continue
					}
					// the widest marker the ELEMENT TYPE can need (what the marker function returns for the type's
					// extreme values): once it is reached no later element can ask for more
					if m, ok := widestForElements(p, call, acc); ok && c == m {
						continue
					}
					inLoop := (b2 == b || blockReach(b2, b)) && (b2 == b || blockReach(b, b2))
					if !inLoop {
						continue
					}
					for _, s := range b2.Succs {
						if s != b && !blockReach(s, b) {
							bad = fmt.Sprintf("leaves the element scan at %s when the accumulated marker equals %q, which is not the top of maxNumType's order (%q)", p.Pos(iff.Cond.Pos()), rune(c), rune(top))
						}
					}
				}
				fkey := core.FuncKey(f)
				if bad == "" {
					r.Ok(".SCAN-EXIT", p.Pos(call.Pos()), fkey+": the marker scan visits every element (or stops only at the top of the order)")
				} else {
					r.Fail(".SCAN-EXIT", fkey+"|early-exit", p.Pos(call.Pos()), fkey+" "+bad+": a later element that needs a wider representation is written with the narrower marker (value changed silently)", "")
				}
			}
		}
	}
	r.Floor("ubjson_marker_scans", scans, 4)
}

// R5 CHAR-RANGE (ubjson encoder): the UBJSON char type ('C') carries one ASCII
// character, decimal 0..127 (draft 12). Wherever the encoder writes the char
// marker, the payload byte written next to it (same basic block) lies in
// 0..127 on every path; anything above has to go out under another marker.
func charRange(p *core.Prog, r *core.Result, sizes types.Sizes) {
	sp := p.SPkgs["ubjson"]
	if sp == nil {
		return
	}
	cm := p.Const("ubjson", "charMarker")
	if cm == nil {
		r.Undecided(".CHAR-RANGE", "ubjson.charMarker", "char marker constant not found")
		return
	}
	cv, _ := constIntVal(cm.Value)
	sites := 0
	for _, f := range p.ModFuncs() {
		pk := core.FuncPkg(f)
		if pk == nil || pk.Name() != "ubjson" || f.Signature.Recv() == nil || namedOf(f.Signature.Recv().Type()) == nil || namedOf(f.Signature.Recv().Type()).Obj().Name() != "Visitor" {
			continue
		}
		// blocks that store the char marker, and the payload store that follows in the same block
		payload := map[*ssa.Store]bool{}
		for _, b := range f.Blocks {
			seenMarker := false
			for _, in := range b.Instrs {
				st, ok := in.(*ssa.Store)
				if !ok {
					continue
				}
				if c, ok := constIntVal(st.Val); ok && c == cv {
					if bt, ok := st.Val.Type().Underlying().(*types.Basic); ok && bt.Kind() == types.Uint8 {
						seenMarker = true
						continue
					}
				}
				if seenMarker {
					if bt, ok := st.Val.Type().Underlying().(*types.Basic); ok && bt.Kind() == types.Uint8 {
						if _, isC := st.Val.(*ssa.Const); !isC {
							payload[st] = true
							seenMarker = false
						}
					}
				}
			}
		}
		if len(payload) == 0 {
			continue
		}
		env := &ienv{num: newNumbering(), sizes: sizes}
		k := &r5client{env: env, fn: f}
		worst := map[*ssa.Store]*big.Int{}
		k.observe = func(s istate, ins ssa.Instruction) {
			st, ok := ins.(*ssa.Store)
			if !ok || !payload[st] {
				return
			}
			iv, ok := env.get(s, st.Val)
			if !ok {
				return
			}
			if cur := worst[st]; cur == nil || iv.hi.Cmp(cur) > 0 {
				worst[st] = iv.hi
			}
		}
		WalkPaths[istate](k, f.Blocks[0], 0, istate{}, 200000, nil)
		for st := range payload {
			sites++
			pos := p.Pos(st.Pos())
			hi := worst[st]
			fkey := core.FuncKey(f)
			switch {
			case hi == nil:
				r.Undecided(".CHAR-RANGE", fkey, "payload store not reached by the path walk")
			case hi.Cmp(big.NewInt(127)) <= 0:
				r.Ok(".CHAR-RANGE", pos, fmt.Sprintf("%s: the byte written under the char marker is at most %s", fkey, hi))
			default:
				r.Fail(".CHAR-RANGE", fkey+"|char", pos, fmt.Sprintf("%s writes a byte that can be as high as %s under the UBJSON char marker 'C', which carries ASCII 0..127 only: an independent decoder rejects or misreads the document (bytes above 127 need the uint8 marker)", fkey, hi), "")
			}
		}
	}
	r.Floor("ubjson_char_marker_sites", sites, 1)
}

// widestForElements: the scan folds maxNumType(acc, M(conv(v))) over elements v of an integer type T, M a marker
// function of one integer parameter made of comparisons with constants. Evaluates M at T's extreme values.
func widestForElements(p *core.Prog, call *ssa.Call, acc map[ssa.Value]bool) (int64, bool) {
	sizes := sizesFor(p)
	for _, a := range call.Common().Args {
		if acc[a] {
			continue
		}
		mc, ok := a.(*ssa.Call)
		if !ok || mc.Common().StaticCallee() == nil || len(mc.Common().Args) == 0 {
			continue
		}
		m := mc.Common().StaticCallee()
		v := mc.Common().Args[len(mc.Common().Args)-1]
		for {
			cv, ok := v.(*ssa.Convert)
			if !ok {
				break
			}
			v = cv.X
		}
		rng, ok := typeRange(v.Type(), sizes)
		if !ok || len(m.Params) == 0 {
			continue
		}
		hi, ok1 := evalMarkerFn(m, rng.hi)
		lo, ok2 := evalMarkerFn(m, rng.lo)
		if !ok1 || !ok2 {
			continue
		}
		if rng.lo.Sign() == 0 || lo == hi {
			return hi, true
		}
	}
	return 0, false
}

// evalMarkerFn runs a function of the shape `switch { case u <= C1: return M1; ... default: return Mn }` on one value.
func evalMarkerFn(f *ssa.Function, val *big.Int) (int64, bool) {
	if f.Blocks == nil {
		return 0, false
	}
	prm := ssa.Value(f.Params[len(f.Params)-1])
	b := f.Blocks[0]
	for steps := 0; steps < 64; steps++ {
		switch t := b.Instrs[len(b.Instrs)-1].(type) {
		case *ssa.Return:
			if len(t.Results) != 1 {
				return 0, false
			}
			return constIntVal(t.Results[0])
		case *ssa.Jump:
			b = b.Succs[0]
		case *ssa.If:
			bo, ok := t.Cond.(*ssa.BinOp)
			if !ok || bo.X != prm {
				return 0, false
			}
			cv, ok := bo.Y.(*ssa.Const)
			if !ok || cv.Value == nil {
				return 0, false
			}
			c, ok := new(big.Int).SetString(cv.Value.ExactString(), 10)
			if !ok {
				return 0, false
			}
			cmp := val.Cmp(c)
			var res bool
			switch bo.Op {
			case token.LEQ:
				res = cmp <= 0
			case token.LSS:
				res = cmp < 0
			case token.GEQ:
				res = cmp >= 0
			case token.GTR:
				res = cmp > 0
			case token.EQL:
				res = cmp == 0
			default:
				return 0, false
			}
			if res {
				b = b.Succs[0]
			} else {
				b = b.Succs[1]
			}
		default:
			return 0, false
		}
	}
	return 0, false
}

package rules

import (
	"fmt"
	"go/types"
	"sort"
	"strings"

	"golang.org/x/tools/go/ssa"

	"sfcheck/internal/core"
)

// isRejecting reports whether a method does nothing but return a
// definitely-non-nil error (the shape of the generated unfolderErr* types):
// no stores, no calls other than error constructors, every return value a
// load of a package-level error variable or a fresh error.
func isRejecting(f *ssa.Function) bool {
	if f == nil || f.Blocks == nil {
		return false
	}
	sawRet := false
	for _, b := range f.Blocks {
		for _, in := range b.Instrs {
			switch x := in.(type) {
			case *ssa.Return:
				if len(x.Results) != 1 || !definitelyNonNilError(x.Results[0]) {
					return false
				}
				sawRet = true
			case *ssa.UnOp:
				if _, ok := x.X.(*ssa.Global); !ok {
					return false
				}
			case *ssa.Call:
				if !isErrorCtor(x.Common()) {
					return false
				}
			case *ssa.DebugRef, *ssa.MakeInterface:
			default:
				return false
			}
		}
	}
	return sawRet
}

func isErrorCtor(c *ssa.CallCommon) bool {
	f := c.StaticCallee()
	if f == nil {
		return false
	}
	pk := funcPkgPath(f)
	return pk == "errors" && core.FuncName(f) == "New" || pk == "fmt" && core.FuncName(f) == "Errorf"
}

// definitelyNonNilError: a load of a package-level variable of type error
// (the library initialises all of them with errors.New and R17 shows nobody
// reassigns them), or a fresh error.
func definitelyNonNilError(v ssa.Value) bool {
	switch x := v.(type) {
	case *ssa.UnOp:
		if g, ok := x.X.(*ssa.Global); ok {
			return isErrorType(g.Type().(*types.Pointer).Elem())
		}
	case *ssa.Call:
		return isErrorCtor(x.Common())
	case *ssa.MakeInterface:
		return true
	}
	return false
}

// methodOf resolves method name on *T (or T) to the declared SSA function.
func methodOf(p *core.Prog, t types.Type, pkg *types.Package, name string) *ssa.Function {
	ms := p.SSA.MethodSets.MethodSet(t)
	sel := ms.Lookup(pkg, name)
	if sel == nil {
		return nil
	}
	fn, ok := sel.Obj().(*types.Func)
	if !ok {
		return nil
	}
	return p.SSA.FuncValue(fn)
}

var scalarEvents = []string{"OnNil", "OnBool", "OnString", "OnStringRef", "OnInt8", "OnInt16", "OnInt32", "OnInt64", "OnInt",
	"OnByte", "OnUint8", "OnUint16", "OnUint32", "OnUint64", "OnUint", "OnFloat32", "OnFloat64"}

// R12 PARITY.
func R12(p *core.Prog) *core.Result {
	r := core.NewResult("R12", "unfolder state types treat by-reference and by-value strings/keys alike; the 'ignore one value' states accept every event legal in their position; number-event forwarders keep the number class and never narrow")
	gp := p.Pkgs["gotype"]
	if gp == nil {
		r.Undecided("", "gotype", "package gotype not loaded")
		return r
	}
	unfObj := typeObj(p, "gotype", "unfolder")
	if unfObj == nil {
		r.Undecided("", "unfolder", "interface gotype.unfolder not found")
		return r
	}
	iface, ok := unfObj.Type().Underlying().(*types.Interface)
	if !ok {
		r.Undecided("", "unfolder", "gotype.unfolder is not an interface")
		return r
	}

	// (a) parity over every state type
	var stateTypes []*types.Named
	scope := gp.Types.Scope()
	for _, name := range scope.Names() {
		tn, ok := scope.Lookup(name).(*types.TypeName)
		if !ok || tn.IsAlias() {
			continue
		}
		named, ok := tn.Type().(*types.Named)
		if !ok {
			continue
		}
		if _, isIface := named.Underlying().(*types.Interface); isIface {
			continue
		}
		if types.Implements(types.NewPointer(named), iface) {
			stateTypes = append(stateTypes, named)
		}
	}
	for _, t := range stateTypes {
		pt := types.NewPointer(t)
		for _, pair := range [][2]string{{"OnString", "OnStringRef"}, {"OnKey", "OnKeyRef"}} {
			a, b := methodOf(p, pt, gp.Types, pair[0]), methodOf(p, pt, gp.Types, pair[1])
			if a == nil || b == nil {
				r.Undecided(".BYREF-PARITY", core.TypeName(t)+"."+pair[0], "cannot resolve methods")
				continue
			}
			ra, rb := isRejecting(a), isRejecting(b)
			pos := p.Pos(t.Obj().Pos())
			if ra == rb {
				r.Ok(".BYREF-PARITY", pos, fmt.Sprintf("%s: %s and %s agree (rejecting=%v)", core.TypeName(t), pair[0], pair[1], ra))
				continue
			}
			handled, rejected := pair[0], pair[1]
			rf := b
			if ra {
				handled, rejected = pair[1], pair[0]
				rf = a
			}
			r.Fail(".BYREF-PARITY", "gotype."+core.TypeName(t)+"|"+pair[0]+"/"+pair[1], pos,
				fmt.Sprintf("state type %s handles %s but rejects %s (resolved to %s, which only returns an error): the same stream succeeds or fails depending on how the producer delivers strings/keys", core.TypeName(t), handled, rejected, core.FuncKey(rf)), "")
		}
	}
	r.Floor("unfolder_state_types", len(stateTypes), 100)

	// (b) ignore family
	family := ignoreFamily(p, r)
	for _, t := range family {
		pt := types.NewPointer(t)
		pos := p.Pos(t.Obj().Pos())
		need := append([]string{}, scalarEvents...)
		need = append(need, "OnArrayStart", "OnObjectStart", "OnChildArrayDone", "OnChildObjectDone")
		if f := methodOf(p, pt, gp.Types, "OnObjectFinished"); f != nil && !isRejecting(f) {
			need = append(need, "OnKey", "OnKeyRef")
		}
		for _, m := range need {
			f := methodOf(p, pt, gp.Types, m)
			if f == nil {
				r.Undecided(".IGNORE-COMPLETE", core.TypeName(t)+"."+m, "cannot resolve method")
				continue
			}
			if isRejecting(f) {
				r.Fail(".IGNORE-COMPLETE", "gotype."+core.TypeName(t)+"|"+m, pos,
					fmt.Sprintf("skip-state %s rejects event %s (resolved to %s): an unknown member whose value contains that event cannot be skipped", core.TypeName(t), m, core.FuncKey(f)), "")
			} else {
				r.Ok(".IGNORE-COMPLETE", pos, core.TypeName(t)+" accepts "+m)
			}
		}
	}
	// the family must be able to swallow nested arrays and objects
	hasArr, hasObj := false, false
	for _, t := range family {
		pt := types.NewPointer(t)
		if f := methodOf(p, pt, gp.Types, "OnArrayFinished"); f != nil && !isRejecting(f) {
			hasArr = true
		}
		if f := methodOf(p, pt, gp.Types, "OnObjectFinished"); f != nil && !isRejecting(f) {
			hasObj = true
		}
	}
	if len(family) > 0 {
		if hasArr && hasObj {
			r.Ok(".IGNORE-COMPLETE", "-", "skip-state family contains an array-closing and an object-closing state")
		} else {
			r.Fail(".IGNORE-COMPLETE", "family|close", "-", "skip-state family lacks a state that accepts OnArrayFinished or OnObjectFinished", "")
		}
	}
	r.Floor("ignore_family_types", len(family), 3)

	// (c) number class of forwarders, module wide
	nfw := 0
	for _, f := range p.ModFuncs() {
		if f.Signature.Recv() == nil || !isNumEvent(core.FuncName(f)) {
			continue
		}
		// value parameter: last parameter
		if len(f.Params) < 2 {
			continue
		}
		vp := f.Params[len(f.Params)-1]
		bk, ok := vp.Type().Underlying().(*types.Basic)
		if !ok || bk.Info()&types.IsNumeric == 0 {
			continue
		}
		for _, b := range f.Blocks {
			for _, in := range b.Instrs {
				site, ok := in.(ssa.CallInstruction)
				if !ok {
					continue
				}
				c := site.Common()
				var name string
				if c.IsInvoke() {
					name = c.Method.Name()
				} else if sc := c.StaticCallee(); sc != nil && sc.Signature.Recv() != nil {
					name = core.FuncName(sc)
				}
				if !isNumEvent(name) || len(c.Args) == 0 {
					continue
				}
				arg := c.Args[len(c.Args)-1]
				ak, ok := arg.Type().Underlying().(*types.Basic)
				if !ok || ak.Info()&types.IsNumeric == 0 {
					continue
				}
				if !derivedByConversion(arg, vp) {
					continue
				}
				nfw++
				pos := p.Pos(in.Pos())
				key := core.FuncKey(f) + "->" + name
				switch {
				case numClass(bk) != numClass(ak):
					r.Fail(".NUM-CLASS", key, pos, fmt.Sprintf("%s forwards its %s argument to %s as %s: the number class changes (negative values / large values are reinterpreted)", core.FuncKey(f), bk.Name(), name, ak.Name()), "")
				default:
					r.Ok(".NUM-CLASS", pos, fmt.Sprintf("%s -> %s: %s to %s keeps the number class (narrowing is R5's business: it needs the value range)", core.FuncKey(f), name, bk.Name(), ak.Name()))
				}
			}
		}
	}
	r.Floor("number_forwarding_calls", nfw, 60)
	return r
}

func isNumEvent(n string) bool {
	switch n {
	case "OnInt8", "OnInt16", "OnInt32", "OnInt64", "OnInt", "OnByte", "OnUint8", "OnUint16", "OnUint32", "OnUint64", "OnUint", "OnFloat32", "OnFloat64":
		return true
	}
	return false
}

func numClass(b *types.Basic) string {
	switch {
	case b.Info()&types.IsFloat != 0:
		return "float"
	case b.Info()&types.IsUnsigned != 0:
		return "unsigned"
	case b.Info()&types.IsInteger != 0:
		return "signed"
	}
	return "other"
}

func numWidth(p *core.Prog, b *types.Basic) int64 {
	sz := types.SizesFor("gc", p.Arch)
	return sz.Sizeof(b)
}

// derivedByConversion: arg is param or a chain of conversions of it.
func derivedByConversion(arg, param ssa.Value) bool {
	for {
		if arg == param {
			return true
		}
		switch x := arg.(type) {
		case *ssa.Convert:
			arg = x.X
		case *ssa.ChangeType:
			arg = x.X
		default:
			return false
		}
	}
}

// ignoreFamily resolves the "swallow one value" states structurally: the
// states pushed by whatever _ignoredField.initState dispatches to, closed
// under the states their own methods push.
func ignoreFamily(p *core.Prog, r *core.Result) []*types.Named {
	_ = p.SPkgs["gotype"]
	g := p.Global("gotype", "_ignoredField")
	if g == nil {
		r.Undecided(".IGNORE-COMPLETE", "_ignoredField", "anchor gotype._ignoredField not found")
		return nil
	}
	// what the package initialiser stores into *_ignoredField: the func values
	// in the fields of the struct it allocates (bound method closures)
	var start []*ssa.Function
	for _, f := range p.ModFuncs() {
		if !isInitFunc(f) {
			continue
		}
		for _, b := range f.Blocks {
			for _, in := range b.Instrs {
				st, ok := in.(*ssa.Store)
				if !ok || st.Addr != ssa.Value(g) {
					continue
				}
				for _, o := range origins(st.Val) {
					a, ok := o.(*ssa.Alloc)
					if !ok {
						continue
					}
					for _, sv := range storedInto(a) {
						switch x := sv.(type) {
						case *ssa.MakeClosure:
							start = append(start, x.Fn.(*ssa.Function))
						case *ssa.Function:
							start = append(start, x)
						}
					}
				}
			}
		}
	}
	if len(start) == 0 {
		r.Undecided(".IGNORE-COMPLETE", "_ignoredField.initState", "no resolvable call through _ignoredField found")
		return nil
	}
	fam := map[*types.Named]bool{}
	var work []*ssa.Function
	seenF := map[*ssa.Function]bool{}
	add := func(f *ssa.Function) {
		if f != nil && !seenF[f] && f.Blocks != nil {
			seenF[f] = true
			work = append(work, f)
		}
	}
	for _, f := range start {
		add(f)
	}
	gp := p.Pkgs["gotype"].Types
	for len(work) > 0 {
		f := work[0]
		work = work[1:]
		for _, b := range f.Blocks {
			for _, in := range b.Instrs {
				site, ok := in.(ssa.CallInstruction)
				if !ok {
					continue
				}
				c := site.Common()
				sc := c.StaticCallee()
				if sc == nil {
					continue
				}
				if core.FuncName(sc) == "push" && sc.Signature.Recv() != nil && strings.Contains(sc.Signature.Recv().Type().String(), "unfolderStack") && len(c.Args) == 2 {
					if mi, ok := c.Args[1].(*ssa.MakeInterface); ok {
						if n := namedOf(mi.X.Type()); n != nil && !fam[n] {
							fam[n] = true
							ms := p.SSA.MethodSets.MethodSet(types.NewPointer(n))
							for i := 0; i < ms.Len(); i++ {
								if fn, ok := ms.At(i).Obj().(*types.Func); ok && fn.Pkg() == gp {
									// only methods declared on n itself carry the family forward
									if rn := namedOf(fn.Type().(*types.Signature).Recv().Type()); rn == n {
										add(p.SSA.FuncValue(fn))
									}
								}
							}
						}
					}
					continue
				}
				// follow wrappers / bound methods / initState helpers inside gotype
				if p.InModule(sc) && (core.FuncName(sc) == "initState" || sc.Synthetic != "" || strings.HasPrefix(core.FuncName(sc), "initState")) {
					add(sc)
				}
			}
		}
	}
	var out []*types.Named
	for n := range fam {
		out = append(out, n)
	}
	sort.Slice(out, func(i, j int) bool { return out[i].Obj().Name() < out[j].Obj().Name() })
	return out
}

func init() {
	register(&PropSpec{
		ID:          "C13",
		Level:       "other",
		Decided:     "(a) for every one of the unfolder's state types, by-value and by-reference delivery of strings and of keys are either both handled or both rejected; (b) the states that skip an unknown member accept every event that may legally occur inside the skipped value (17 scalar events + by-reference strings, both container starts, both child-done hooks, and keys inside a skipped object), and the family can close arrays and objects; (c) every On<number> method that forwards to another On<number> event keeps the number class (signed/unsigned/float); (d) no update of a field unfolder / state is lost on a local copy (R22 LOST-UPDATE over gotype); (e) a completed container value and a completed primitive value leave a state the same way, all primitive events of a state agree on their stack effect, every state initialiser is balanced by each completing event, a slice never takes its length from its capacity, cached unfolder objects are not written at event time (R23); (f) strings and keys delivered by reference are copied before they are kept (R16 REF-COPY); (g) fold and unfold derive member names identically and omit is honoured before any other option (R20). Reset re-initialises every stack of the context (R15). (h) a container built for an announced element type holds elements of the Go type that BaseType names, on the creating and on the completing side (R11 SLOT); a nil target map is allocated whenever it is nil, not only when the stream announces members (R14 NIL-MAP).",
		NotDecided:  "assignment semantics, numeric conversion 'whenever the value fits' (the generated unfolders convert unchecked by design), fields not mentioned staying untouched, the generic interface{} target's value. Those need execution against a reference.",
		Assumptions: []string{"a method that only returns a package-level error is a rejection; anything else is treated as handling the event"},
		TrustedBase: baseTrusted,
		Rules:       []RuleRun{{"R12", R12}, {"R22", R22("gotype")}, {"R23", R23}, {"R16", R16}, {"R20", R20}, {"R15", R15}, {"R11", R11}, {"R14", R14}},
		LevelText:   "Structural necessary conditions decided exhaustively over the method sets of all unfolder state types (go/types) and the bodies of the resolved methods (SSA): a missing or rejecting method makes some well-formed stream fail. This is the part of C13 that is visible in the shape of the code; the value-level part is not decided.",
		Technique:   "method-set completeness and sibling agreement over go/types method sets; rejecting-method classification on SSA; forwarder number-class check; context-rooted stack-delta path analysis of all unfolder states (value-completion agreement, initialiser balance, propagation loop in the driver); capacity-taint; receiver-immutability of cached unfolders; alias/retention flow for by-reference strings; member-name and omit-first path rules",
		DesignRef:   "DESIGN.md section 2 R12, section 3 C13",
	})
}

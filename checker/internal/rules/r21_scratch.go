package rules

import (
	"fmt"
	"go/token"
	"go/types"
	"sort"

	"golang.org/x/tools/go/ssa"

	"sfcheck/internal/core"
)

// R21 SCRATCH-CLOBBER: an encoder formats small pieces of output in a scratch
// array that lives in the Visitor. A slice of that array that is still going
// to be used must not be alive across a call that writes into an overlapping
// part of the same array (e.g. formatting digits into scratch[:0], then
// writing a length prefix through scratch[0], then writing the digits).

type scratchInfo struct {
	p     *core.Prog
	recv  *types.Named
	field int
	sums  map[*ssa.Function]int // exclusive upper bound of scratch indices written (0: none, -1: unknown/all)
	busy  map[*ssa.Function]bool
}

func scratchField(named *types.Named) int {
	st, ok := named.Underlying().(*types.Struct)
	if !ok {
		return -1
	}
	for i := 0; i < st.NumFields(); i++ {
		if at, ok := st.Field(i).Type().Underlying().(*types.Array); ok {
			if b, ok := at.Elem().Underlying().(*types.Basic); ok && b.Kind() == types.Uint8 && core.FieldName(st, i) == "scratch" {
				return i
			}
		}
	}
	return -1
}

// isScratchAddr: v is &recv.scratch of function f.
func (si *scratchInfo) isScratchAddr(f *ssa.Function, v ssa.Value) bool {
	fa, ok := v.(*ssa.FieldAddr)
	if !ok || fa.Field != si.field {
		return false
	}
	return f.Signature.Recv() != nil && len(f.Params) > 0 && fa.X == ssa.Value(f.Params[0]) && namedOf(fa.X.Type()) == si.recv
}

func maxInt(a, b int) int {
	if a < 0 || b < 0 {
		return -1
	}
	if a > b {
		return a
	}
	return b
}

func (si *scratchInfo) writes(f *ssa.Function) int {
	if v, ok := si.sums[f]; ok {
		return v
	}
	if si.busy[f] || f.Blocks == nil {
		return 0
	}
	si.busy[f] = true
	defer delete(si.busy, f)
	w := 0
	for _, b := range f.Blocks {
		for _, in := range b.Instrs {
			switch x := in.(type) {
			case *ssa.Store:
				if ia, ok := x.Addr.(*ssa.IndexAddr); ok && si.isScratchAddr(f, ia.X) {
					if c, ok := constIntVal(ia.Index); ok {
						w = maxInt(w, int(c)+1)
					} else {
						w = -1
					}
				}
			case ssa.CallInstruction:
				cc := x.Common()
				// scratch slice handed to something that fills it
				for ai, a := range callArgs(cc) {
					sl, ok := a.(*ssa.Slice)
					if !ok || !si.isScratchAddr(f, sl.X) {
						continue
					}
					written := false
					if bi, ok := cc.Value.(*ssa.Builtin); ok {
						written = (bi.Name() == "copy" || bi.Name() == "append") && ai == 0
					} else if sc := cc.StaticCallee(); sc != nil {
						written = externalWriter(sc, ai)
					}
					if !written {
						continue
					}
					if sl.High != nil {
						if c, ok := constIntVal(sl.High); ok {
							w = maxInt(w, int(c))
							continue
						}
					}
					w = -1 // appends / unknown bound: may fill the whole array
				}
				if sc := cc.StaticCallee(); sc != nil && sc.Signature.Recv() != nil && namedOf(sc.Signature.Recv().Type()) == si.recv && len(cc.Args) > 0 && cc.Args[0] == ssa.Value(f.Params[0]) {
					w = maxInt(w, si.writes(sc))
				}
			}
		}
	}
	si.sums[f] = w
	return w
}

// reaches: instruction b can execute after instruction a.
func reaches(a, b ssa.Instruction) bool {
	ba, bb := a.Block(), b.Block()
	if ba == bb {
		ia, ib := -1, -1
		for i, in := range ba.Instrs {
			if in == a {
				ia = i
			}
			if in == b {
				ib = i
			}
		}
		if ia < ib {
			return true
		}
	}
	seen := map[*ssa.BasicBlock]bool{}
	work := append([]*ssa.BasicBlock{}, ba.Succs...)
	for len(work) > 0 {
		x := work[len(work)-1]
		work = work[:len(work)-1]
		if seen[x] {
			continue
		}
		seen[x] = true
		if x == bb {
			return true
		}
		work = append(work, x.Succs...)
	}
	return false
}

func R21(p *core.Prog) *core.Result {
	r := core.NewResult("R21", "a slice of an encoder's scratch array is never alive across a call that writes into an overlapping part of that array")
	slices := 0
	for _, pk := range []string{"json", "cborl", "ubjson"} {
		sp := p.SPkgs[pk]
		if sp == nil || sp.Type("Visitor") == nil {
			r.Undecided("", pk+".Visitor", "Visitor type not found")
			continue
		}
		named := sp.Type("Visitor").Type().(*types.Named)
		fi := scratchField(named)
		if fi < 0 {
			r.Undecided("", pk+".Visitor|scratch", "no scratch array field on "+pk+".Visitor")
			continue
		}
		si := &scratchInfo{p: p, recv: named, field: fi, sums: map[*ssa.Function]int{}, busy: map[*ssa.Function]bool{}}
		for _, f := range p.ModFuncs() {
			if f.Signature.Recv() == nil || namedOf(f.Signature.Recv().Type()) != named {
				continue
			}
			for _, b := range f.Blocks {
				for _, in := range b.Instrs {
					sl, ok := in.(*ssa.Slice)
					if !ok || !si.isScratchAddr(f, sl.X) {
						continue
					}
					slices++
					low := 0
					if sl.Low != nil {
						if c, ok := constIntVal(sl.Low); ok {
							low = int(c)
						} else {
							low = 0 // unknown: be conservative
						}
					}
					// the slice and everything derived from it by append-like calls
					live := map[ssa.Value]bool{sl: true}
					for changed := true; changed; {
						changed = false
						for v := range live {
							if refs := v.Referrers(); refs != nil {
								for _, ref := range *refs {
									switch x := ref.(type) {
									case *ssa.Call:
										if len(x.Common().Args) > 0 && x.Common().Args[0] == v {
											sc := x.Common().StaticCallee()
											_, isB := x.Common().Value.(*ssa.Builtin)
											if (sc != nil && externalWriter(sc, 0) || isB) && isByteSlice(x.Type()) && !live[x] {
												live[x] = true
												changed = true
											}
										}
									case *ssa.Slice:
										if x.X == v && !live[x] {
											live[x] = true
											changed = true
										}
									case *ssa.Phi:
										if !live[x] {
											live[x] = true
											changed = true
										}
									}
								}
							}
						}
					}
					// uses of live values
					var uses []ssa.Instruction
					for v := range live {
						if refs := v.Referrers(); refs != nil {
							for _, ref := range *refs {
								if _, isDbg := ref.(*ssa.DebugRef); !isDbg {
									uses = append(uses, ref)
								}
							}
						}
					}
					// clobbering calls between the definition and a use
					hazard := ""
					for _, b2 := range f.Blocks {
						for _, in2 := range b2.Instrs {
							c, ok := in2.(ssa.CallInstruction)
							if !ok {
								continue
							}
							if v, ok := in2.(ssa.Value); ok && live[v] {
								continue // the deriving call itself
							}
							sc := c.Common().StaticCallee()
							if sc == nil || sc.Signature.Recv() == nil || namedOf(sc.Signature.Recv().Type()) != named || len(c.Common().Args) == 0 || c.Common().Args[0] != ssa.Value(f.Params[0]) {
								continue
							}
							w := si.writes(sc)
							if w >= 0 && w <= low {
								continue // writes only below the slice
							}
							if w == 0 {
								continue
							}
							if !reaches(sl, in2) {
								continue
							}
							for _, u := range uses {
								if u != in2 && reachesAvoiding(in2, u, sl) {
									hazard = fmt.Sprintf("%s (writes scratch[0:%d]) at %s runs between the definition and the use at %s", core.FuncKey(sc), w, p.Pos(c.Pos()), p.Pos(token.Pos(instrPos(u))))
								}
							}
						}
					}
					fkey := core.FuncKey(f)
					pos := p.Pos(sl.Pos())
					if hazard == "" {
						r.Ok(".CLOBBER", pos, fmt.Sprintf("%s: scratch[%d:] slice is not alive across an overlapping scratch write", fkey, low))
					} else {
						r.Fail(".CLOBBER", fmt.Sprintf("%s|scratch[%d:]", fkey, low), pos, fmt.Sprintf("%s: bytes formatted into scratch[%d:] are overwritten before they are written out: %s", fkey, low, hazard), "")
					}
				}
			}
		}
	}
	r.Floor("scratch_slices", slices, 25)
	_ = sort.Ints
	return r
}

// reachesAvoiding: b can execute after a on a path that does not execute
// `avoid` (the re-definition of the value used by b) in between.
func reachesAvoiding(a, b, avoid ssa.Instruction) bool {
	scan := func(blk *ssa.BasicBlock, from int) (found, cut bool) {
		for i := from; i < len(blk.Instrs); i++ {
			if blk.Instrs[i] == b {
				return true, false
			}
			if blk.Instrs[i] == avoid {
				return false, true
			}
		}
		return false, false
	}
	start := -1
	for i, in := range a.Block().Instrs {
		if in == a {
			start = i + 1
		}
	}
	if found, cut := scan(a.Block(), start); found {
		return true
	} else if cut {
		return false
	}
	seen := map[*ssa.BasicBlock]bool{}
	work := append([]*ssa.BasicBlock{}, a.Block().Succs...)
	for len(work) > 0 {
		x := work[len(work)-1]
		work = work[:len(work)-1]
		if seen[x] {
			continue
		}
		seen[x] = true
		found, cut := scan(x, 0)
		if found {
			return true
		}
		if cut {
			continue
		}
		work = append(work, x.Succs...)
	}
	return false
}

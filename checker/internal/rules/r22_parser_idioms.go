package rules

import (
	"fmt"
	"go/token"
	"go/types"
	"os"
	"sort"
	"strings"

	"golang.org/x/tools/go/ssa"

	"sfcheck/internal/core"
)

// R22 PARSER-IDIOMS: small structural invariants of the hand-written state
// machines, each confirmed on today's tree and obtained by cross-checking
// sibling code (the instances confirmed today are the reference).
//
// (a) MAJOR-MASK (cborl): a value compared with a CBOR major-type constant
//     (a multiple of 32) is extracted with the major mask 0xE0, nothing else.
// (b) POP-ORDER (cborl): the own remaining-length entry is popped BEFORE the
//     completed value is reported to the enclosing container (popState /
//     onValue read length.current of the parent); no path pops the length
//     stack after popState.
// (c) LOST-UPDATE: a store into a field of a local struct copy that is never
//     read afterwards (st := p.state.current; st.minor = x) - the update was
//     meant for the original.
// (d) STACK-INIT: every `x.stack = y.stack0[:0]` initialisation uses the
//     backing array of the same stack (x == y).
// (e) ACCOUNTING: bytes parked in the token buffer are exactly the bytes
//     removed from the chunk (collect), and the amount subtracted from the
//     remaining length is exactly the amount consumed (cborl.stepBytes).
// (f) PARKED-FIRST: collect returns a slice of the chunk as the token only
//     behind a test of the parked bytes of a split token.

func R22(pkgs ...string) func(p *core.Prog) *core.Result {
	in := map[string]bool{}
	for _, k := range pkgs {
		in[k] = true
	}
	return func(p *core.Prog) *core.Result {
		r := core.NewResult("R22", "structural invariants of the hand-written parser state machines ("+strings.Join(pkgs, ",")+"): major-type mask, pop order, no lost updates on local copies of parser state, stack initialisation, byte accounting of parked/consumed input, parked bytes are looked at before a zero-copy token is handed out")
		if in["cborl"] {
			majorMask(p, r)
			popOrder(p, r)
			stepBytesAccounting(p, r)
			siblingArms(p, r)
			zeroLengthRefused(p, r)
		}
		lostUpdate(p, r, in)
		stackInit(p, r, in)
		for _, pk := range []string{"cborl", "ubjson"} {
			if in[pk] {
				collectAccounting(p, r, pk)
			}
		}
		for _, pk := range []string{"cborl", "ubjson"} {
			if in[pk] {
				collectParkedFirst(p, r, pk)
			}
		}
		return r
	}
}

// ---- (a) ----
func majorMask(p *core.Prog, r *core.Result) {
	n := 0
	for _, f := range p.ModFuncs() {
		if core.FuncPkg(f) == nil || core.FuncPkg(f).Name() != "cborl" {
			continue
		}
		for _, b := range f.Blocks {
			for _, in := range b.Instrs {
				cmp, ok := in.(*ssa.BinOp)
				if !ok || (cmp.Op != token.EQL && cmp.Op != token.NEQ) {
					continue
				}
				for _, pr := range [][2]ssa.Value{{cmp.X, cmp.Y}, {cmp.Y, cmp.X}} {
					and, ok := pr[0].(*ssa.BinOp)
					if !ok || and.Op != token.AND {
						continue
					}
					k, okk := constIntVal(pr[1])
					m, okm := constIntVal(and.Y)
					if !okk || !okm || k%32 != 0 || k > 224 || k == 0 && m != 0xE0 && m < 32 {
						continue
					}
					if m < 32 {
						continue // a mask of the low bits compared with 0: not a major-type test
					}
					n++
					pos := p.Pos(cmp.Pos())
					if m == 0xE0 {
						r.Ok(".MAJOR-MASK", pos, core.FuncKey(f)+": major type extracted with mask 0xE0")
					} else {
						r.Fail(".MAJOR-MASK", fmt.Sprintf("%s|mask%#x", core.FuncKey(f), m), pos, fmt.Sprintf("%s compares (x & %#x) with the major-type constant %#x: the major type is the top three bits (mask 0xE0); with this mask other major types pass the test", core.FuncKey(f), m, k), "")
					}
				}
			}
		}
	}
	r.Floor("major_mask_tests", n, 1)
}

// ---- (b) ----
type poState struct{ reported bool }
type poClient struct {
	p   *core.Prog
	bad string
}

func (k *poClient) Key(s poState) string                                  { return fmt.Sprint(s.reported) }
func (k *poClient) Phis(s poState, _ *ssa.BasicBlock, _ int) poState      { return s }
func (k *poClient) Branch(s poState, _ ssa.Value, _ bool) (poState, bool) { return s, true }
func (k *poClient) Return(poState, *ssa.Return)                           {}
func (k *poClient) Instr(s poState, in ssa.Instruction) (poState, bool, []poState) {
	c, ok := in.(*ssa.Call)
	if !ok {
		return s, true, nil
	}
	sc := c.Common().StaticCallee()
	if sc == nil {
		return s, true, nil
	}
	switch core.FuncName(sc) {
	case "popState", "onValue":
		s.reported = true
	case "pop":
		if n := namedOf(sc.Signature.Recv().Type()); n != nil && core.TypeName(n) == "lengthStack" && s.reported {
			k.bad = "pops the remaining-length stack at " + k.p.Pos(c.Pos()) + " after the completed value was already reported to the enclosing container (popState/onValue): the parent's bookkeeping ran against this value's own length entry"
		}
	}
	return s, true, nil
}

func popOrder(p *core.Prog, r *core.Result) {
	n := 0
	for _, f := range p.ModFuncs() {
		if core.FuncPkg(f) == nil || core.FuncPkg(f).Name() != "cborl" || f.Signature.Recv() == nil {
			continue
		}
		hasPop, hasRep := false, false
		for _, b := range f.Blocks {
			for _, in := range b.Instrs {
				if c, ok := in.(*ssa.Call); ok {
					if sc := c.Common().StaticCallee(); sc != nil {
						if core.FuncName(sc) == "pop" && sc.Signature.Recv() != nil && namedOf(sc.Signature.Recv().Type()) != nil && core.TypeName(namedOf(sc.Signature.Recv().Type())) == "lengthStack" {
							hasPop = true
						}
						if core.FuncName(sc) == "popState" || core.FuncName(sc) == "onValue" {
							hasRep = true
						}
					}
				}
			}
		}
		if !hasPop || !hasRep || core.FuncName(f) == "popState" || core.FuncName(f) == "onValue" {
			continue
		}
		n++
		k := &poClient{p: p}
		WalkPaths[poState](k, f.Blocks[0], 0, poState{}, 100000, nil)
		if k.bad == "" {
			r.Ok(".POP-ORDER", p.Pos(f.Pos()), core.FuncKey(f)+": length entry popped before the value is reported upwards")
		} else {
			r.Fail(".POP-ORDER", core.FuncKey(f), p.Pos(f.Pos()), core.FuncKey(f)+" "+k.bad, "")
		}
	}
	r.Floor("pop_order_functions", n, 4)
}

// ---- (c) ----
func lostUpdate(p *core.Prog, r *core.Result, in map[string]bool) {
	n := 0
	for _, f := range p.ModFuncs() {
		pk := core.FuncPkg(f)
		if pk == nil || !in[pk.Name()] {
			continue
		}
		for _, b := range f.Blocks {
			for _, ins := range b.Instrs {
				st, ok := ins.(*ssa.Store)
				if !ok {
					continue
				}
				fa, ok := st.Addr.(*ssa.FieldAddr)
				if !ok {
					continue
				}
				a, ok := fa.X.(*ssa.Alloc)
				if !ok {
					continue
				}
				nt := namedOf(a.Type())
				if nt == nil || nt.Obj().Pkg() == nil || !strings.HasPrefix(nt.Obj().Pkg().Path(), core.ModPath) {
					continue
				}
				// the local must be a COPY of existing state: initialised by a whole-struct store of a loaded value
				isCopy := false
				var whole ssa.Instruction
				if refs := a.Referrers(); refs != nil {
					for _, rf := range *refs {
						if s0, ok := rf.(*ssa.Store); ok && s0.Addr == ssa.Value(a) {
							switch s0.Val.(type) {
							case *ssa.UnOp, *ssa.Extract, *ssa.Lookup, *ssa.Index, *ssa.Field:
								isCopy = true
								whole = s0
							}
						}
					}
				}
				if !isCopy {
					continue
				}
				n++
				// any later read of the local?
				read := false
				var visit func(v ssa.Value, depth int)
				visit = func(v ssa.Value, depth int) {
					if read || depth > 3 {
						return
					}
					if refs := v.Referrers(); refs != nil {
						for _, rf := range *refs {
							if rf == ssa.Instruction(st) {
								continue
							}
							switch x := rf.(type) {
							case *ssa.Store:
								if x.Addr == v {
									continue // another write
								}
								if reachesAvoiding(st, x, whole) {
									read = true // the address/value escapes
								}
							case *ssa.FieldAddr:
								visit(x, depth+1)
							case *ssa.DebugRef:
							default:
								if reachesAvoiding(st, rf, whole) {
									read = true
								}
							}
						}
					}
				}
				visit(a, 0)
				pos := p.Pos(st.Pos())
				fname := core.FieldName(nt.Underlying().(*types.Struct), fa.Field)
				if read {
					r.Ok(".LOST-UPDATE", pos, core.FuncKey(f)+": update of local copy is read afterwards")
				} else {
					r.Fail(".LOST-UPDATE", fmt.Sprintf("%s|%s.%s", core.FuncKey(f), core.TypeName(nt), fname), pos, fmt.Sprintf("%s assigns field %s of a local COPY of a %s value and never reads the copy again: the update is lost (the original - parser state / map entry - was meant)", core.FuncKey(f), fname, core.TypeName(nt)), "")
				}
			}
		}
	}
	r.Stats["stores_into_local_struct_copies"] = n
}

// ---- (d) ----
func stackInit(p *core.Prog, r *core.Result, in map[string]bool) {
	n := 0
	for _, f := range p.ModFuncs() {
		pk := core.FuncPkg(f)
		if pk == nil || !in[pk.Name()] {
			continue
		}
		for _, b := range f.Blocks {
			for _, ins := range b.Instrs {
				st, ok := ins.(*ssa.Store)
				if !ok {
					continue
				}
				fa, ok := st.Addr.(*ssa.FieldAddr)
				if !ok {
					continue
				}
				sl, ok := st.Val.(*ssa.Slice)
				if !ok {
					continue
				}
				src, ok := sl.X.(*ssa.FieldAddr)
				if !ok {
					continue
				}
				sf := core.FieldName(fa.X.Type().Underlying().(*types.Pointer).Elem().Underlying().(*types.Struct), fa.Field)
				df := core.FieldName(src.X.Type().Underlying().(*types.Pointer).Elem().Underlying().(*types.Struct), src.Field)
				if sf != "stack" || df != "stack0" {
					continue
				}
				n++
				pos := p.Pos(st.Pos())
				if addrKey(fa.X) != "" && addrKey(fa.X) == addrKey(src.X) {
					r.Ok(".STACK-INIT", pos, core.FuncKey(f)+": stack initialised from its own backing array")
				} else {
					r.Fail(".STACK-INIT", core.FuncKey(f)+"|"+addrKey(fa.X), pos, core.FuncKey(f)+" initialises one stack's slice from ANOTHER stack's backing array: the two stacks overwrite each other's entries", "")
				}
			}
		}
	}
	if in["cborl"] || in["ubjson"] {
		r.Floor("stack_initialisations", n, 1)
	}
}

// ---- (e) collect ----
type caState struct {
	parkedWhole bool
	parkedHigh  int // value id + 1 of N in append(p.buffer, b[:N]...); 0 none
	parkedBase  int
	eq          map[int]int // phi id -> value id selected on this path
}
type caClient struct {
	p     *core.Prog
	fn    *ssa.Function
	num   *valueNumbering
	chunk ssa.Value
	bad   map[string]string
}

func (k *caClient) Key(s caState) string {
	var ks []string
	for a, b := range s.eq {
		ks = append(ks, fmt.Sprintf("%d=%d", a, b))
	}
	sort.Strings(ks)
	return fmt.Sprintf("%v|%d|%d|%s", s.parkedWhole, s.parkedHigh, s.parkedBase, strings.Join(ks, ","))
}
func (k *caClient) resolve(s caState, v ssa.Value) int {
	id := k.num.id(v)
	for i := 0; i < 8; i++ {
		n, ok := s.eq[id]
		if !ok {
			break
		}
		id = n
	}
	return id
}
func (k *caClient) Phis(s caState, blk *ssa.BasicBlock, pred int) caState {
	n := make(map[int]int, len(s.eq)+2)
	for a, b := range s.eq {
		n[a] = b
	}
	for _, in := range blk.Instrs {
		phi, ok := in.(*ssa.Phi)
		if !ok {
			break
		}
		if pred >= 0 && pred < len(phi.Edges) {
			n[k.num.id(phi)] = k.resolve(s, phi.Edges[pred])
		}
	}
	s.eq = n
	return s
}
func (k *caClient) Branch(s caState, _ ssa.Value, _ bool) (caState, bool) { return s, true }
func (k *caClient) fail(key, msg string) {
	if k.bad == nil {
		k.bad = map[string]string{}
	}
	k.bad[key] = msg
}
func (k *caClient) Instr(s caState, in ssa.Instruction) (caState, bool, []caState) {
	c, ok := in.(*ssa.Call)
	if !ok {
		return s, true, nil
	}
	bi, ok := c.Common().Value.(*ssa.Builtin)
	if !ok || bi.Name() != "append" || len(c.Common().Args) != 2 {
		return s, true, nil
	}
	if fieldOfReceiver(k.fn, c.Common().Args[0]) == "" {
		// append(p.buffer, ...) : first arg is a load of the receiver's buffer field
		if ld, ok := c.Common().Args[0].(*ssa.UnOp); !ok || fieldOfReceiver(k.fn, ld.X) == "" {
			return s, true, nil
		}
	}
	src := c.Common().Args[1]
	switch x := src.(type) {
	case *ssa.Slice:
		if x.Low == nil && x.High != nil {
			s.parkedHigh = k.resolve(s, x.High) + 1
			s.parkedBase = k.resolve(s, x.X) + 1
		} else {
			k.fail("SHAPE", "parks a slice of the chunk that is not a prefix b[:N] at "+k.p.Pos(c.Pos()))
		}
	default:
		s.parkedWhole = true
		s.parkedBase = k.resolve(s, src) + 1
	}
	return s, true, nil
}
func (k *caClient) Return(s caState, ret *ssa.Return) {
	rest := ret.Results[0]
	pos := k.p.Pos(token.Pos(instrPos(ret)))
	if isNilConst(rest) {
		return
	}
	// resolve phi on this path
	rid := k.resolve(s, rest)
	var rv ssa.Value
	for v, id := range k.num.num {
		if id == rid {
			rv = v
		}
	}
	if s.parkedWhole {
		k.fail("WHOLE@"+pos, "appends the whole chunk to the token buffer but hands part of it back as unconsumed input at "+pos+": those bytes are processed twice")
		return
	}
	if s.parkedHigh != 0 {
		// the rest must be (a further re-slice of) b[N:]
		okRest := false
		cur := rv
		for i := 0; i < 6 && cur != nil; i++ {
			sl, ok := cur.(*ssa.Slice)
			if !ok {
				break
			}
			if sl.Low != nil && k.resolve(s, sl.Low)+1 == s.parkedHigh {
				okRest = true
				break
			}
			// follow the base, resolving phis chosen on this path
			bid := k.resolve(s, sl.X)
			cur = nil
			for v, id := range k.num.num {
				if id == bid {
					cur = v
				}
			}
		}
		if !okRest {
			k.fail("PREFIX@"+pos, "appends b[:N] to the token buffer but the rest handed back at "+pos+" is not derived from b[N:] with the same N: bytes are lost or processed twice")
		}
	}
}

func collectAccounting(p *core.Prog, r *core.Result, pk string) {
	f := p.LookupFunc(pk, "(*Parser).collect")
	if f == nil {
		r.Undecided(".ACCOUNTING", pk+".collect", "collect not found")
		return
	}
	k := &caClient{p: p, fn: f, num: newNumbering()}
	_, capped := WalkPaths[caState](k, f.Blocks[0], 0, caState{}, 200000, nil)
	fkey := core.FuncKey(f)
	if capped {
		r.Undecided(".ACCOUNTING", fkey, "state cap hit")
		return
	}
	if len(k.bad) == 0 {
		r.Ok(".ACCOUNTING", p.Pos(f.Pos()), fkey+": the bytes appended to the token buffer are exactly the bytes removed from the chunk on every path")
		return
	}
	for _, kk := range sortedKeys(k.bad) {
		r.Fail(".ACCOUNTING", fkey+"|"+kk[:strings.IndexAny(kk+"@", "@")], p.Pos(f.Pos()), fkey+" "+k.bad[kk], "")
	}
}

// ---- (e) stepBytes ----
type sbState struct {
	sub int // resolved value id + 1 of the amount subtracted from the remaining length
	eq  map[int]int
}
type sbClient struct {
	p    *core.Prog
	fn   *ssa.Function
	num  *valueNumbering
	bad  string
	seen bool
	lenOf map[int]int // resolved argument id -> id of the first len() of it
}

func (k *sbClient) Key(s sbState) string {
	var ks []string
	for a, b := range s.eq {
		ks = append(ks, fmt.Sprintf("%d=%d", a, b))
	}
	sort.Strings(ks)
	return fmt.Sprintf("%d|%s", s.sub, strings.Join(ks, ","))
}
func (k *sbClient) resolve(s sbState, v ssa.Value) int {
	for {
		cv, ok := v.(*ssa.Convert)
		if !ok {
			break
		}
		v = cv.X
	}
	// go/ssa does not share common subexpressions: every len(x) is a value of its own
	if c, ok := v.(*ssa.Call); ok {
		if bi, ok := c.Common().Value.(*ssa.Builtin); ok && bi.Name() == "len" && len(c.Common().Args) == 1 {
			aid := k.resolve(s, c.Common().Args[0])
			if k.lenOf == nil {
				k.lenOf = map[int]int{}
			}
			if first, ok := k.lenOf[aid]; ok {
				return first
			}
			k.lenOf[aid] = k.num.id(v)
			return k.num.id(v)
		}
	}
	id := k.num.id(v)
	for i := 0; i < 8; i++ {
		n, ok := s.eq[id]
		if !ok {
			break
		}
		id = n
	}
	return id
}
func (k *sbClient) Phis(s sbState, blk *ssa.BasicBlock, pred int) sbState {
	n := make(map[int]int, len(s.eq)+2)
	for a, b := range s.eq {
		n[a] = b
	}
	for _, in := range blk.Instrs {
		phi, ok := in.(*ssa.Phi)
		if !ok {
			break
		}
		if pred >= 0 && pred < len(phi.Edges) {
			n[k.num.id(phi)] = k.resolve(s, phi.Edges[pred])
		}
	}
	s.eq = n
	return s
}
func (k *sbClient) Branch(s sbState, _ ssa.Value, _ bool) (sbState, bool) { return s, true }
func (k *sbClient) Instr(s sbState, in ssa.Instruction) (sbState, bool, []sbState) {
	st, ok := in.(*ssa.Store)
	if !ok {
		return s, true, nil
	}
	fa, ok := st.Addr.(*ssa.FieldAddr)
	if !ok {
		return s, true, nil
	}
	n := namedOf(fa.X.Type())
	if n == nil || core.TypeName(n) != "lengthStack" {
		return s, true, nil
	}
	bo, ok := st.Val.(*ssa.BinOp)
	if !ok || bo.Op != token.SUB {
		return s, true, nil
	}
	if _, isC := bo.Y.(*ssa.Const); isC {
		return s, true, nil // element countdown (current--)
	}
	s.sub = k.resolve(s, bo.Y) + 1
	k.seen = true
	return s, true, nil
}
func (k *sbClient) Return(s sbState, ret *ssa.Return) {
	if s.sub == 0 {
		return
	}
	rest := ret.Results[0]
	if isNilConst(rest) {
		return
	}
	rid := k.resolve(s, rest)
	var rv ssa.Value
	for v, id := range k.num.num {
		if id == rid {
			rv = v
		}
	}
	sl, ok := rv.(*ssa.Slice)
	if !ok || sl.Low == nil || k.resolve(s, sl.Low)+1 != s.sub {
		k.bad = "subtracts one amount from the remaining length but consumes a different amount of the chunk (return at " + k.p.Pos(token.Pos(instrPos(ret))) + "): after a partial chunk the remaining length is wrong and the payload's tail is parsed as new items"
	}
}

func stepBytesAccounting(p *core.Prog, r *core.Result) {
	n := 0
	for _, f := range p.ModFuncs() {
		if core.FuncPkg(f) == nil || core.FuncPkg(f).Name() != "cborl" || f.Signature.Recv() == nil {
			continue
		}
		k := &sbClient{p: p, fn: f, num: newNumbering()}
		// only functions that subtract a non-constant amount from a length entry
		has := false
		for _, b := range f.Blocks {
			for _, in := range b.Instrs {
				if st, ok := in.(*ssa.Store); ok {
					if fa, ok := st.Addr.(*ssa.FieldAddr); ok {
						if nn := namedOf(fa.X.Type()); nn != nil && core.TypeName(nn) == "lengthStack" {
							if bo, ok := st.Val.(*ssa.BinOp); ok && bo.Op == token.SUB {
								if _, isC := bo.Y.(*ssa.Const); !isC {
									has = true
								}
							}
						}
					}
				}
			}
		}
		if !has {
			continue
		}
		n++
		WalkPaths[sbState](k, f.Blocks[0], 0, sbState{}, 200000, nil)
		if k.bad == "" {
			r.Ok(".ACCOUNTING", p.Pos(f.Pos()), core.FuncKey(f)+": the amount subtracted from the remaining length is the amount consumed from the chunk")
		} else {
			r.Fail(".ACCOUNTING", core.FuncKey(f)+"|remaining", p.Pos(f.Pos()), core.FuncKey(f)+" "+k.bad, "")
		}
	}
	r.Floor("partial_length_functions", n, 1)
}

// ---- (f) PARKED-FIRST ----
//
// collect hands out a zero-copy token (a slice of the chunk) only on paths that
// looked at the parked bytes of a token split by an earlier chunk first. A
// fast path in front of that test takes a resumed token entirely from the new
// chunk whenever the chunk happens to be long enough.

type pfState struct{ tested bool }
type pfClient struct {
	p      *core.Prog
	fn     *ssa.Function
	chunk  *ssa.Parameter
	parked string // field path of the parked-bytes buffer
	tokIdx int
	bad    string
	views  int
}

func (k *pfClient) Key(s pfState) string                              { return fmt.Sprint(s.tested) }
func (k *pfClient) Phis(s pfState, _ *ssa.BasicBlock, _ int) pfState { return s }
func (k *pfClient) Instr(s pfState, _ ssa.Instruction) (pfState, bool, []pfState) {
	return s, true, nil
}
func (k *pfClient) Branch(s pfState, cond ssa.Value, _ bool) (pfState, bool) {
	for {
		u, ok := cond.(*ssa.UnOp)
		if !ok || u.Op != token.NOT {
			break
		}
		cond = u.X
	}
	if bo, ok := cond.(*ssa.BinOp); ok {
		for _, v := range []ssa.Value{bo.X, bo.Y} {
			c, ok := v.(*ssa.Call)
			if !ok {
				continue
			}
			if bi, ok := c.Common().Value.(*ssa.Builtin); !ok || bi.Name() != "len" {
				continue
			}
			if ld, ok := c.Common().Args[0].(*ssa.UnOp); ok && ld.Op == token.MUL {
				if rel, ok := recvPath(k.fn, ld.X); ok && rel == k.parked {
					s.tested = true
				}
			}
		}
	}
	return s, true
}
func (k *pfClient) Return(s pfState, ret *ssa.Return) {
	if k.tokIdx >= len(ret.Results) {
		return
	}
	tok := ret.Results[k.tokIdx]
	if isNilConst(tok) {
		return
	}
	fromChunk := false
	for _, o := range origins(tok) {
		if o == ssa.Value(k.chunk) {
			fromChunk = true
		}
	}
	if !fromChunk {
		return
	}
	k.views++
	if !s.tested {
		k.bad = "returns a slice of the chunk as the token at " + k.p.Pos(token.Pos(instrPos(ret))) + " on a path that never looked at the parked bytes of a split token"
	}
}

func collectParkedFirst(p *core.Prog, r *core.Result, pk string) {
	fam, err := buildFamily(p, pk)
	if err != nil || fam.collect == nil {
		r.Undecided(".PARKED-FIRST", pk+".collect", "collect not found")
		return
	}
	f := fam.collect
	fkey := core.FuncKey(f)
	var chunk *ssa.Parameter
	for _, prm := range f.Params[1:] {
		if isByteSlice(prm.Type()) {
			chunk = prm
			break
		}
	}
	// the parked buffer: the receiver field collect appends the chunk to
	parked := ""
	for _, b := range f.Blocks {
		for _, in := range b.Instrs {
			st, ok := in.(*ssa.Store)
			if !ok {
				continue
			}
			c, ok := st.Val.(*ssa.Call)
			if !ok {
				continue
			}
			if bi, ok := c.Common().Value.(*ssa.Builtin); !ok || bi.Name() != "append" {
				continue
			}
			if rel, ok := recvPath(f, st.Addr); ok && rel != "" {
				parked = rel
			}
		}
	}
	// the token result: the []byte result that is a slice of the parked buffer on some return
	tokIdx := -1
	for _, b := range f.Blocks {
		ret, ok := b.Instrs[len(b.Instrs)-1].(*ssa.Return)
		if !ok {
			continue
		}
		for i, rv := range ret.Results {
			if !isByteSlice(rv.Type()) {
				continue
			}
			if sl, ok := rv.(*ssa.Slice); ok {
				if ld, ok := sl.X.(*ssa.UnOp); ok && ld.Op == token.MUL {
					if rel, ok := recvPath(f, ld.X); ok && rel == parked && parked != "" {
						tokIdx = i
					}
				}
			}
		}
	}
	if chunk == nil || parked == "" || tokIdx < 0 {
		r.Undecided(".PARKED-FIRST", fkey+"|shape", fmt.Sprintf("could not identify the chunk (%v), the parked buffer (%q) or the token result (%d) of %s", chunk != nil, parked, tokIdx, fkey))
		return
	}
	// PARKED-STORES: the parked buffer only ever receives its own content plus appended chunk bytes, a reslice of
	// itself, or an empty slice - never the chunk itself (retained input) or a pre-sized non-empty allocation
	for _, b := range f.Blocks {
		for _, in := range b.Instrs {
			st, ok := in.(*ssa.Store)
			if !ok {
				continue
			}
			if rel, ok := recvPath(f, st.Addr); !ok || rel != parked {
				continue
			}
			isParkedLoad := func(v ssa.Value) bool {
				ld, ok := v.(*ssa.UnOp)
				if !ok || ld.Op != token.MUL {
					return false
				}
				rel, ok := recvPath(f, ld.X)
				return ok && rel == parked
			}
			why, code := "", ""
			switch v := st.Val.(type) {
			case *ssa.Call:
				bi, isB := v.Common().Value.(*ssa.Builtin)
				if !isB || bi.Name() != "append" || !isParkedLoad(v.Common().Args[0]) {
					why, code = "is assigned something other than append(<itself>, ...)", "append-base"
					break
				}
				fromChunk := false
				for _, o := range origins(v.Common().Args[1]) {
					if o == ssa.Value(chunk) {
						fromChunk = true
					}
				}
				if !fromChunk {
					why, code = "is extended with bytes that do not come from the chunk", "append-src"
				}
			case *ssa.Slice:
				if isParkedLoad(v.X) {
					break // reslice of itself
				}
				// x.backing[:0]
				if _, okp := recvPath(f, v.X); okp && v.High != nil && isIntConst(v.High, 0) {
					break
				}
				why, code = "is assigned a slice of something other than itself or its empty backing array", "slice"
			case *ssa.MakeSlice:
				if !isIntConst(v.Len, 0) {
					why, code = "is replaced by a freshly allocated slice of non-zero length (its zero bytes count as parked input)", "make"
				}
			default:
				why, code = "is assigned a value that is not built from its own content", "other"
				for _, o := range origins(st.Val) {
					if o == ssa.Value(chunk) {
						why, code = "is assigned the chunk itself: the caller may reuse that memory before the rest of the token arrives", "chunk"
					}
				}
			}
			pos := p.Pos(token.Pos(instrPos(st)))
			if why == "" {
				r.Ok(".PARKED-STORES", pos, fkey+": the parked buffer receives its own content plus chunk bytes, a reslice of itself or an empty slice")
			} else {
				r.Fail(".PARKED-STORES", fkey+"|"+code, pos, fkey+": the parked-token buffer "+why+" at "+pos+": the bytes handed out for a token split across chunks are no longer exactly the bytes taken from the chunks", "")
			}
		}
	}
	k := &pfClient{p: p, fn: f, chunk: chunk, parked: parked, tokIdx: tokIdx}
	_, capped := WalkPaths[pfState](k, f.Blocks[0], 0, pfState{}, 200000, nil)
	switch {
	case capped:
		r.Undecided(".PARKED-FIRST", fkey, "state cap hit")
	case k.views == 0:
		r.Undecided(".PARKED-FIRST", fkey+"|noview", fkey+" never returns a slice of the chunk as the token: anchor lost")
	case k.bad != "":
		r.Fail(".PARKED-FIRST", fkey, p.Pos(f.Pos()), fkey+" "+k.bad+": a token resumed from an earlier chunk is taken entirely from the new chunk whenever that chunk is long enough, the parked prefix is dropped and stays behind for the next split token", "")
	default:
		r.Ok(".PARKED-FIRST", p.Pos(f.Pos()), fkey+": every zero-copy token is returned behind a test of the parked bytes")
	}
}

// ---- (g) SIBLING-ARMS (cborl) ----
//
// Byte strings and text strings are the same machine twice: a header state
// with the start flag, a zero-length special case that completes at once, a
// body state. The two header arms of the dispatcher must have the same effect
// on the parser's stacks on every kind of outcome (completed at once /
// suspended / moved on to the body state); a pop of the own length entry that
// one of them lost, or a zero-length case that only one of them has, shows up
// as a difference.

type saState struct {
	disp   int64 // 1 + dispatched state constant
	d      map[string]int
	top    bool
	nonnil valueSet
}
type saClient struct {
	steps map[*ssa.Function]bool
	c     *r6ctx
	fn    *ssa.Function
	tag   string
	num   *valueNumbering
	arms  map[int64]map[string]bool
}

func (k *saClient) Key(s saState) string {
	return fmt.Sprintf("%d|%s|%v|%s", s.disp, deltaKey(s.d), s.top, s.nonnil.key())
}
func (k *saClient) Phis(s saState, blk *ssa.BasicBlock, pred int) saState {
	for _, in := range blk.Instrs {
		phi, ok := in.(*ssa.Phi)
		if !ok {
			break
		}
		if pred >= 0 && pred < len(phi.Edges) {
			e := phi.Edges[pred]
			id := k.num.id(phi)
			s.nonnil = s.nonnil.without(id)
			if s.nonnil.has(k.num.id(e)) || definitelyNonNilError(e) {
				s.nonnil = s.nonnil.with(id)
			}
		}
	}
	return s
}
func (s saState) add(f string, d int) saState {
	n := make(map[string]int, len(s.d)+1)
	for k, v := range s.d {
		n[k] = v
	}
	n[f] += d
	if n[f] > 4 || n[f] < -4 {
		s.top = true
	}
	if n[f] == 0 {
		delete(n, f)
	}
	s.d = n
	return s
}
func (k *saClient) Instr(s saState, in ssa.Instruction) (saState, bool, []saState) {
	c, ok := in.(*ssa.Call)
	if !ok {
		return s, true, nil
	}
	sc := c.Common().StaticCallee()
	if sc == nil || len(c.Common().Args) == 0 {
		return s, true, nil
	}
	if (core.FuncName(sc) == "push" || core.FuncName(sc) == "pop") && sc.Signature.Recv() != nil {
		if f := fieldOfReceiver(k.fn, c.Common().Args[0]); f != "" && k.c.counters[f] {
			d := 1
			if core.FuncName(sc) == "pop" {
				d = -1
			}
			return s.add(f, d), true, nil
		}
	}
	if sc.Signature.Recv() != nil && namedOf(sc.Signature.Recv().Type()) == k.c.recv && c.Common().Args[0] == ssa.Value(k.fn.Params[0]) {
		// reporting the completed value upwards and handing over to a body step are kept as symbols
		if core.FuncName(sc) == "popState" || core.FuncName(sc) == "onValue" {
			return s.add("<value reported to the parent>", 1), true, nil
		}
		if k.steps[sc] {
			return s.add("<body step>", 1), true, nil
		}
		sum := k.c.summary(sc)
		if sum == nil || sum.top {
			s.top = true
			return s, true, nil
		}
		var outs []saState
		for _, dk := range sortedKeys(sum.deltas) {
			ns := s
			for f, d := range sum.deltas[dk] {
				ns = ns.add(f, d)
			}
			outs = append(outs, ns)
		}
		if len(outs) == 0 {
			return s, true, nil
		}
		return outs[0], true, outs[1:]
	}
	return s, true, nil
}
func (k *saClient) Branch(s saState, cond ssa.Value, outcome bool) (saState, bool) {
	if bo, ok := cond.(*ssa.BinOp); ok && bo.Op == token.EQL && fieldPath(bo.X) == k.tag {
		if c, ok := constIntVal(bo.Y); ok && outcome {
			s.disp = c + 1
		}
	}
	if x, trueMeansNil, ok := nilTest(cond); ok && isErrorType(x.Type()) {
		isNil := outcome == trueMeansNil
		if isNil && s.nonnil.has(k.num.id(x)) {
			return s, false
		}
		if !isNil {
			s.nonnil = s.nonnil.with(k.num.id(x))
		}
	}
	return s, true
}
func (k *saClient) Return(s saState, ret *ssa.Return) {
	if s.disp == 0 {
		return
	}
	if ei := errResultIndex(k.fn.Signature); ei >= 0 {
		rv := ret.Results[ei]
		if definitelyNonNilError(rv) || s.nonnil.has(k.num.id(rv)) {
			return
		}
	}
	if k.arms[s.disp-1] == nil {
		k.arms[s.disp-1] = map[string]bool{}
	}
	v := deltaKey(s.d)
	if s.top {
		v = "unbounded"
	}
	if v == "" {
		v = "no stack effect"
	}
	k.arms[s.disp-1][v] = true
}

func siblingArms(p *core.Prog, r *core.Result) {
	fam, err := buildFamily(p, "cborl")
	if err != nil {
		r.Undecided(".SIBLING-ARMS", "cborl", err.Error())
		return
	}
	_ = p.SPkgs["cborl"]
	ex := p.LookupFunc("cborl", "(*Parser).execStep")
	cst := func(n string) (int64, bool) {
		nc := p.Const("cborl", n)
		if nc == nil {
			return 0, false
		}
		return constIntVal(nc.Value)
	}
	mb, ok1 := cst("majorBytes")
	mt, ok2 := cst("majorText")
	sx, ok3 := cst("stStartX")
	if ex == nil || !ok1 || !ok2 || !ok3 {
		r.Undecided(".SIBLING-ARMS", "cborl.execStep", "dispatcher or the constants majorBytes/majorText/stStartX not found")
		return
	}
	tag := reentryTagPath(fam.feedUntil)
	if tag == "" {
		r.Undecided(".SIBLING-ARMS", "cborl.feedUntil|tag", "dispatched state field not recognised")
		return
	}
	ctx := &r6ctx{p: p, recv: fam.recvNamed, counters: discoverCounters(p, fam.recvNamed), sums: map[*ssa.Function]*r6sum{}, busy: map[*ssa.Function]bool{}, opaque: map[*ssa.Function]bool{}}
	for _, n := range []string{"execStep", "stepValue"} {
		if f := p.LookupFunc("cborl", "(*Parser)."+n); f != nil {
			ctx.opaque[f] = true
		}
	}
	steps := map[*ssa.Function]bool{}
	for f := range fam.steps {
		steps[f] = true
	}
	k := &saClient{steps: steps, c: ctx, fn: ex, tag: tag, num: newNumbering(), arms: map[int64]map[string]bool{}}
	_, capped := WalkPaths[saState](k, ex.Blocks[0], 0, saState{}, 400000, nil)
	if capped {
		r.Undecided(".SIBLING-ARMS", "cborl.execStep|cap", "state cap hit")
		return
	}
	setStr := func(m map[string]bool) string {
		return "{" + strings.Join(sortedKeys(m), " | ") + "}"
	}
	for _, pr := range [][2]int64{{mb | sx, mt | sx}, {mb, mt}} {
		a, b := k.arms[pr[0]], k.arms[pr[1]]
		if os.Getenv("SFCHECK_DEBUG") != "" {
			fmt.Fprintf(os.Stderr, "SIBLING %#x %s ~ %#x %s (arms=%d tag=%s)\n", pr[0], setStr(a), pr[1], setStr(b), len(k.arms), tag)
		}
		key := fmt.Sprintf("cborl.(*Parser).execStep|%#x~%#x", pr[0], pr[1])
		pos := p.Pos(ex.Pos())
		switch {
		case len(a) == 0 || len(b) == 0:
			r.Undecided(".SIBLING-ARMS", key, fmt.Sprintf("no outcome found for the arm of %#x or %#x", pr[0], pr[1]))
		case setStr(a) == setStr(b):
			r.Ok(".SIBLING-ARMS", pos, fmt.Sprintf("execStep: the byte-string arm %#x and the text-string arm %#x have the same stack effects %s", pr[0], pr[1], setStr(a)))
		default:
			r.Fail(".SIBLING-ARMS", key, pos, fmt.Sprintf("execStep: the byte-string arm %#x has the stack effects %s but its text-string sibling %#x has %s: one of them lost (or gained) a pop of its own length entry or a zero-length case - the entry leaks, or the value only completes when more input arrives", pr[0], setStr(a), pr[1], setStr(b)), "")
		}
	}
}

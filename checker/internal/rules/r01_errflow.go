package rules

import (
	"fmt"
	"go/token"
	"go/types"
	"sort"
	"strings"

	"golang.org/x/tools/go/ssa"

	"sfcheck/internal/core"
)

// R1 ERRFLOW.
//
// Roots (where an error enters the library from outside):
//   writer  : invoke of io.Writer.Write
//   visitor : invoke of a method of an interface declared in package
//             structform (or embedded from it), gotype.Folder.Fold, and every
//             call through a func value with an error result (fold functions,
//             user callbacks)
// Sink set S: module functions with an error result from which a root is
// reachable through static calls (closures are separate functions reached
// through func values, i.e. through roots).
// Obligation: every call site whose callee is a root or a member of S.
//
// STRICT discipline (visitor class; single failing call assumed): the error is
// bound (USED), on every path on which it may be non-nil the function returns
// exactly that error (NOT-MASKED) and performs no further obligation call
// (NOTHING-AFTER).
//
// LENIENT discipline (writer class; "the writer fails and keeps failing"):
// on every path from the function's entry on which at least one obligation
// call executes, with every such call assumed to fail, the function returns
// one of those errors. (An event may go on writing after a failed write as
// long as it reports a failure itself: that is all the property demands of
// an encoder.)

type sinkClass uint8

const (
	clsWriter sinkClass = 1 << iota
	clsVisitor
)

type r1ctx struct {
	p     *core.Prog
	S     map[*ssa.Function]sinkClass
	scope map[string]bool // package names in scope
	// mustFail: writer-class functions that return a non-nil error on every path when every write fails
	// (every path performs at least one write, directly or through a must-fail callee, and returns such an
	// error). A sink function without this guarantee (an event that writes nothing on some path - a finish
	// event of a container whose length was announced) may return nil although the writer is failing.
	mustFail map[*ssa.Function]bool
}

// callMustFail: with a writer that fails every write, this obligation call certainly returns a non-nil error.
func (c *r1ctx) callMustFail(site ssa.CallInstruction) bool {
	if c.rootClass(site) == clsWriter {
		return true
	}
	if sc := site.Common().StaticCallee(); sc != nil {
		return c.mustFail[sc]
	}
	return false
}

// computeMustFail: least fixpoint, starting from "no function is known to fail".
func (c *r1ctx) computeMustFail() {
	c.mustFail = map[*ssa.Function]bool{}
	var cand []*ssa.Function
	for _, f := range c.p.ModFuncs() {
		if c.S[f] == clsWriter && f.Blocks != nil && errResultIndex(f.Signature) >= 0 {
			cand = append(cand, f)
		}
	}
	for changed := true; changed; {
		changed = false
		for _, f := range cand {
			if c.mustFail[f] {
				continue
			}
			k := &r1client{c: c, fn: f, num: newNumbering(), lenient: true, errIdx: errResultIndex(f.Signature)}
			_, capped := WalkPaths[r1state](k, f.Blocks[0], 0, r1state{failing: true}, 400000, nil)
			if !capped && len(k.bad) == 0 {
				c.mustFail[f] = true
				changed = true
			}
		}
	}
}

func errResultIndex(sig *types.Signature) int {
	res := sig.Results()
	for i := res.Len() - 1; i >= 0; i-- {
		if isErrorType(res.At(i).Type()) {
			return i
		}
	}
	return -1
}

// rootClass classifies a call site as a root (0 if it is none).
func (c *r1ctx) rootClass(site ssa.CallInstruction) sinkClass {
	cc := site.Common()
	if cc.IsInvoke() {
		m := cc.Method
		if errResultIndex(m.Type().(*types.Signature)) < 0 {
			return 0
		}
		if m.Pkg() != nil && m.Pkg().Path() == "io" && m.Name() == "Write" {
			return clsWriter
		}
		if m.Pkg() != nil && m.Pkg().Path() == core.ModPath {
			return clsVisitor
		}
		if m.Pkg() != nil && m.Pkg().Path() == core.ModPath+"/gotype" && m.Name() == "Fold" {
			return clsVisitor
		}
		return 0
	}
	if sc := cc.StaticCallee(); sc != nil {
		// io.Copy(dst, src) with a library type as dst drives dst.Write - the parsers' push interface - and
		// hands back whatever that Write returned: the visitor's error enters here
		if funcPkgPath(sc) == "io" && core.FuncName(sc) == "Copy" && len(cc.Args) == 2 {
			if mi, ok := cc.Args[0].(*ssa.MakeInterface); ok {
				if n := namedOf(mi.X.Type()); n != nil && n.Obj().Pkg() != nil && strings.HasPrefix(n.Obj().Pkg().Path(), core.ModPath) {
					return clsVisitor
				}
			}
		}
		return 0
	}
	if _, isB := cc.Value.(*ssa.Builtin); isB {
		return 0
	}
	// call through a func value
	sig, ok := cc.Value.Type().Underlying().(*types.Signature)
	if !ok || errResultIndex(sig) < 0 {
		return 0
	}
	return clsVisitor
}

func (c *r1ctx) inScope(f *ssa.Function) bool {
	pk := core.FuncPkg(f)
	return pk != nil && c.scope[pk.Name()] && c.p.InModule(f)
}

func (c *r1ctx) computeS() {
	c.S = map[*ssa.Function]sinkClass{}
	funcs := c.p.ModFuncs()
	for changed := true; changed; {
		changed = false
		for _, f := range funcs {
			if errResultIndex(f.Signature) < 0 {
				continue
			}
			cls := c.S[f]
			for _, b := range f.Blocks {
				for _, in := range b.Instrs {
					site, ok := in.(ssa.CallInstruction)
					if !ok {
						continue
					}
					cls |= c.rootClass(site)
					if sc := site.Common().StaticCallee(); sc != nil {
						cls |= c.S[sc]
					}
				}
			}
			if cls != c.S[f] {
				c.S[f] = cls
				changed = true
			}
		}
	}
}

// siteClass: class of an obligation call site (0: not an obligation).
func (c *r1ctx) siteClass(site ssa.CallInstruction) sinkClass {
	if rc := c.rootClass(site); rc != 0 {
		return rc
	}
	if sc := site.Common().StaticCallee(); sc != nil {
		return c.S[sc]
	}
	return 0
}

// errValueOf returns the SSA value carrying the error result of a call, or
// nil if the result is not bound to anything (dropped).
func errValueOf(site ssa.CallInstruction) (ssa.Value, bool) {
	call, ok := site.(*ssa.Call)
	if !ok {
		return nil, false // go / defer: result unusable
	}
	sig := call.Common().Signature()
	idx := errResultIndex(sig)
	if idx < 0 {
		return nil, false
	}
	if sig.Results().Len() == 1 {
		if refs := call.Referrers(); refs == nil || len(*refs) == 0 {
			return nil, false
		}
		return call, true
	}
	for _, r := range *call.Referrers() {
		if ex, ok := r.(*ssa.Extract); ok && ex.Index == idx {
			if refs := ex.Referrers(); refs != nil && len(*refs) > 0 {
				return ex, true
			}
		}
	}
	return nil, false
}

func siteName(site ssa.CallInstruction) string {
	cc := site.Common()
	if cc.IsInvoke() {
		return cc.Value.Type().String()[strings.LastIndex(cc.Value.Type().String(), "/")+1:] + "." + cc.Method.Name()
	}
	if sc := cc.StaticCallee(); sc != nil {
		return core.FuncKey(sc)
	}
	return "func value " + cc.Value.Name() + " of type " + types.TypeString(cc.Value.Type(), func(p *types.Package) string { return p.Name() })
}

// ordinal of a call site among the calls of the same name in its function
// (line independent key).
func siteOrdinal(site ssa.CallInstruction) int {
	f := site.Parent()
	name := siteName(site)
	type ps struct {
		pos token.Pos
		in  ssa.Instruction
	}
	var all []ps
	for _, b := range f.Blocks {
		for _, in := range b.Instrs {
			if s, ok := in.(ssa.CallInstruction); ok && siteName(s) == name {
				all = append(all, ps{token.Pos(instrPos(in)), in})
			}
		}
	}
	sort.SliceStable(all, func(i, j int) bool { return all[i].pos < all[j].pos })
	for i, x := range all {
		if x.in == ssa.Instruction(site) {
			return i + 1
		}
	}
	return 0
}

// ---- the path client -------------------------------------------------

type r1state struct {
	t       valueSet  // SSA values equal to (one of) the tracked error(s)
	n       valueSet  // lenient: error values known to be nil (the call succeeded)
	mem     stringSet // address keys currently holding a tracked error
	failing bool      // lenient: the writer has started to fail
	bt, bf  valueSet  // boolean values known true / false on this path (via phis of constants)
}

type r1client struct {
	c       *r1ctx
	fn      *ssa.Function
	num     *valueNumbering
	lenient bool
	origin  ssa.CallInstruction // strict: the site under test
	errIdx  int
	// results
	bad []string // verdict messages (deduplicated by caller)
}

func (k *r1client) Key(s r1state) string {
	return fmt.Sprintf("%s|%s|%s|%v|%s|%s", s.t.key(), s.n.key(), s.mem.key(), s.failing, s.bt.key(), s.bf.key())
}

func (k *r1client) Phis(s r1state, blk *ssa.BasicBlock, pred int) r1state {
	// parallel assignment: compute from the old state
	type upd struct {
		id   int
		set  bool
		setN bool
		bt   bool
		bf   bool
	}
	var ups []upd
	for _, in := range blk.Instrs {
		phi, ok := in.(*ssa.Phi)
		if !ok {
			break
		}
		if pred < 0 || pred >= len(phi.Edges) {
			continue
		}
		e := phi.Edges[pred]
		u := upd{id: k.num.id(phi), set: s.t.has(k.num.id(e)), setN: s.n.has(k.num.id(e)) || isNilConst(e)}
		if cv, ok := constBool(e); ok {
			u.bt, u.bf = cv, !cv
		} else {
			u.bt, u.bf = s.bt.has(k.num.id(e)), s.bf.has(k.num.id(e))
		}
		ups = append(ups, u)
	}
	for _, u := range ups {
		if u.set {
			s.t = s.t.with(u.id)
		} else {
			s.t = s.t.without(u.id)
		}
		if u.setN && k.lenient {
			s.n = s.n.with(u.id)
		} else {
			s.n = s.n.without(u.id)
		}
		s.bt, s.bf = s.bt.without(u.id), s.bf.without(u.id)
		if u.bt {
			s.bt = s.bt.with(u.id)
		}
		if u.bf {
			s.bf = s.bf.with(u.id)
		}
	}
	return s
}

func (k *r1client) tainted(s r1state, v ssa.Value) bool {
	return s.t.has(k.num.id(v))
}

func (k *r1client) Instr(s r1state, in ssa.Instruction) (r1state, bool, []r1state) {
	switch x := in.(type) {
	case *ssa.Store:
		key := addrKey(x.Addr)
		if key != "" {
			if k.tainted(s, x.Val) {
				s.mem = s.mem.with(key)
			} else {
				s.mem = s.mem.without(key)
			}
		}
	case *ssa.UnOp:
		if x.Op == token.MUL {
			if key := addrKey(x.X); key != "" && s.mem.has(key) {
				s.t = s.t.with(k.num.id(x))
			} else {
				s.t = s.t.without(k.num.id(x))
			}
		}
	case *ssa.Extract:
		// extracting from a tuple never yields the tracked error unless it is
		// the tracked extract itself, which is put into t when created
	case *ssa.ChangeInterface:
		if k.tainted(s, x.X) {
			s.t = s.t.with(k.num.id(x))
		}
	case *ssa.Defer:
		if cls := k.c.siteClass(x); cls != 0 {
			k.bad = append(k.bad, "deferred obligation call "+siteName(x))
		}
	case *ssa.Call:
		cls := k.c.siteClass(x)
		if cls == 0 {
			// a non-sink call may write fields; forget parked errors whose
			// address could be touched only if the callee is a module
			// function (receiver methods may reassign p.err). Conservative:
			// keep (parked error keys are re-stored by the code right
			// before they are tested in every idiom in scope).
			return s, true, nil
		}
		if k.lenient {
			ev, bound := errValueOf(x)
			if s.failing {
				var forks []r1state
				if !k.c.callMustFail(x) && bound {
					// the callee has a path that writes nothing: it may report success although the writer fails
					okState := s
					okState.n = okState.n.with(k.num.id(ev))
					okState.t = okState.t.without(k.num.id(ev))
					forks = []r1state{okState}
				}
				if bound {
					s.t = s.t.with(k.num.id(ev))
					s.n = s.n.without(k.num.id(ev))
				}
				return s, true, forks
			}
			// the writer has not failed yet: this call either succeeds ...
			okState := s
			if bound {
				okState.n = okState.n.with(k.num.id(ev))
				okState.t = okState.t.without(k.num.id(ev))
			}
			// ... or is the first one to fail (and all later ones fail too)
			s.failing = true
			if bound {
				s.t = s.t.with(k.num.id(ev))
				s.n = s.n.without(k.num.id(ev))
			}
			return s, true, []r1state{okState}
		}
		// strict: another obligation executes while our error is pending
		if ssa.Instruction(x) != ssa.Instruction(k.origin) {
			k.bad = append(k.bad, fmt.Sprintf("AFTER|obligation call %s at %s still executes on a path on which the error is non-nil", siteName(x), k.c.p.Pos(x.Pos())))
			return s, false, nil
		}
	}
	return s, true, nil
}

func (k *r1client) Branch(s r1state, cond ssa.Value, outcome bool) (r1state, bool) {
	// strip negations
	for {
		u, ok := cond.(*ssa.UnOp)
		if !ok || u.Op != token.NOT {
			break
		}
		cond, outcome = u.X, !outcome
	}
	id := k.num.id(cond)
	if s.bt.has(id) && !outcome || s.bf.has(id) && outcome {
		return s, false
	}
	if cv, ok := constBool(cond); ok && cv != outcome {
		return s, false
	}
	// a boolean result of the call under test that excludes a non-nil error
	if ex, ok := cond.(*ssa.Extract); ok && !k.lenient && k.origin != nil {
		if call, ok := ex.Tuple.(*ssa.Call); ok && ssa.Instruction(call) == ssa.Instruction(k.origin) {
			if sc := call.Common().StaticCallee(); sc != nil && boolResultImpliesNilErr(sc, ex.Index, outcome) {
				return s, false
			}
		}
	}
	// remember the outcome for later tests of the same value
	if _, isBool := cond.Type().Underlying().(*types.Basic); isBool {
		if outcome {
			s.bt = s.bt.with(id)
		} else {
			s.bf = s.bf.with(id)
		}
	}
	if x, trueMeansNil, ok := nilTest(cond); ok && k.tainted(s, x) {
		// the tracked error is non-nil: the "is nil" outcome is infeasible
		if outcome == trueMeansNil {
			return s, false
		}
	}
	if x, trueMeansNil, ok := nilTest(cond); ok && k.lenient && s.n.has(k.num.id(x)) {
		if outcome != trueMeansNil {
			return s, false
		}
	}
	return s, true
}

func (k *r1client) Return(s r1state, ret *ssa.Return) {
	if k.lenient && !s.failing {
		return
	}
	if k.errIdx < 0 {
		if s.mem.empty() {
			k.bad = append(k.bad, "MASKED|function has no error result and the error is not parked in a field")
		}
		return
	}
	rv := ret.Results[k.errIdx]
	if k.tainted(s, rv) {
		return
	}
	what := "a different value"
	if isNilConst(rv) {
		what = "nil"
	}
	k.bad = append(k.bad, fmt.Sprintf("MASKED|returns %s at %s on a path on which the call's error is non-nil", what, k.c.p.Pos(token.Pos(instrPos(ret)))))
}

// R1 runs the rule.
// deferMask: a deferred closure that assigns the enclosing function's named
// error result must not do so where that result may already hold an error:
// every store to the captured result is behind a test that it is nil.
type dfState struct{ knownNil bool }
type dfClient struct {
	fv  *ssa.FreeVar
	bad token.Pos
}

func (k *dfClient) Key(s dfState) string                              { return fmt.Sprint(s.knownNil) }
func (k *dfClient) Phis(s dfState, _ *ssa.BasicBlock, _ int) dfState { return s }
func (k *dfClient) Return(dfState, *ssa.Return)                      {}
func (k *dfClient) Instr(s dfState, in ssa.Instruction) (dfState, bool, []dfState) {
	if st, ok := in.(*ssa.Store); ok && st.Addr == ssa.Value(k.fv) {
		if !s.knownNil && !isNilConst(st.Val) {
			k.bad = st.Pos()
		}
		s.knownNil = isNilConst(st.Val)
	}
	return s, true, nil
}
func (k *dfClient) Branch(s dfState, cond ssa.Value, outcome bool) (dfState, bool) {
	if x, trueMeansNil, ok := nilTest(cond); ok {
		if ld, ok := x.(*ssa.UnOp); ok && ld.Op == token.MUL && ld.X == ssa.Value(k.fv) {
			s.knownNil = outcome == trueMeansNil
		}
	}
	return s, true
}

func deferMask(p *core.Prog, r *core.Result, c *r1ctx) {
	n := 0
	for _, f := range p.ModFuncs() {
		if !c.inScope(f) || c.S[f] == 0 {
			continue
		}
		for _, b := range f.Blocks {
			for _, in := range b.Instrs {
				d, ok := in.(*ssa.Defer)
				if !ok {
					continue
				}
				mc, ok := d.Common().Value.(*ssa.MakeClosure)
				if !ok {
					continue
				}
				cl := mc.Fn.(*ssa.Function)
				for i, bind := range mc.Bindings {
					a, ok := bind.(*ssa.Alloc)
					if !ok || !isErrorType(a.Type().Underlying().(*types.Pointer).Elem()) {
						continue
					}
					// is it the named result? (returned through a load of this alloc)
					isResult := false
					for _, b2 := range f.Blocks {
						for _, i2 := range b2.Instrs {
							if ret, ok := i2.(*ssa.Return); ok {
								for _, rv := range ret.Results {
									if ld, ok := rv.(*ssa.UnOp); ok && ld.Op == token.MUL && ld.X == ssa.Value(a) {
										isResult = true
									}
								}
							}
						}
					}
					if !isResult || i >= len(cl.FreeVars) {
						continue
					}
					n++
					k := &dfClient{fv: cl.FreeVars[i]}
					WalkPaths[dfState](k, cl.Blocks[0], 0, dfState{}, 100000, nil)
					fkey := core.FuncKey(f)
					if k.bad.IsValid() {
						r.Fail(".DEFER-MASK", fkey+"|defer", p.Pos(k.bad), fkey+": a deferred function assigns the named error result at "+p.Pos(k.bad)+" without testing that it is nil: the error of the visitor / folder that the function was about to return is replaced", "")
					} else {
						r.Ok(".DEFER-MASK", p.Pos(d.Pos()), fkey+": the deferred function only assigns the error result where it is nil")
					}
				}
			}
		}
	}
	r.Stats["deferred_result_writers"] = n
}

func R1(p *core.Prog) *core.Result {
	r := core.NewResult("R1", "every error entering the library from an io.Writer, a Visitor event, a Folder or a fold/user function value is bound, returned on every path on which it is non-nil, and (visitor class) followed by no further event; (writer class) every event that wrote anything reports a failure when the writer keeps failing")
	c := &r1ctx{p: p, scope: map[string]bool{"structform": true, "json": true, "cborl": true, "ubjson": true, "gotype": true, "visitors": true}}
	c.computeS()
	c.computeMustFail()
	r.Stats["sink_set_functions"] = len(c.S)
	r.Stats["must_fail_functions"] = len(c.mustFail)
	deferMask(p, r, c)

	perPkg := map[string]int{}
	nStates := 0
	for _, f := range p.ModFuncs() {
		if !c.inScope(f) {
			continue
		}
		var sites []ssa.CallInstruction
		var fcls sinkClass
		for _, b := range f.Blocks {
			for _, in := range b.Instrs {
				if _, isRecover := in.(*ssa.RunDefers); isRecover {
					continue
				}
				if site, ok := in.(ssa.CallInstruction); ok {
					if cls := c.siteClass(site); cls != 0 {
						sites = append(sites, site)
						fcls |= cls
					}
				}
			}
		}
		if len(sites) == 0 {
			continue
		}
		fkey := core.FuncKey(f)
		perPkg[core.FuncPkg(f).Name()] += len(sites)
		errIdx := errResultIndex(f.Signature)

		// USED, per site
		usedOK := map[ssa.CallInstruction]bool{}
		for _, site := range sites {
			name := siteName(site)
			key := fmt.Sprintf("%s|%s#%d", fkey, name, siteOrdinal(site))
			pos := p.Pos(token.Pos(instrPos(site)))
			if _, isCall := site.(*ssa.Call); !isCall {
				r.Fail(".USED", key, pos, fmt.Sprintf("%s: error of %s cannot be used (go/defer statement)", fkey, name), "")
				continue
			}
			if _, ok := errValueOf(site); !ok {
				if c.siteClass(site) == clsWriter {
					// lenient: a dropped write is acceptable only if the path rule below passes
					usedOK[site] = false
					continue
				}
				r.Fail(".USED", key, pos, fmt.Sprintf("%s: the error returned by %s is discarded", fkey, name), "")
				continue
			}
			usedOK[site] = true
		}

		if fcls&clsVisitor == 0 {
			// pure writer-class function: lenient, one walk from entry
			k := &r1client{c: c, fn: f, num: newNumbering(), lenient: true, errIdx: errIdx}
			n, capped := WalkPaths[r1state](k, f.Blocks[0], 0, r1state{}, 400000, nil)
			nStates += n
			key := fkey + "|writer-paths"
			pos := p.Pos(f.Pos())
			if capped {
				r.Undecided(".REPORTS-FAILURE", key, "state cap hit in "+fkey)
				continue
			}
			if len(k.bad) > 0 {
				msgs := uniqStrings(k.bad)
				r.Fail(".REPORTS-FAILURE", key, pos, fmt.Sprintf("%s: with a writer that keeps failing there is a path that writes and still %s", fkey, strings.TrimPrefix(msgs[0], "MASKED|")), strings.Join(msgs, "; "))
			} else {
				for range sites {
					r.Ok(".REPORTS-FAILURE", pos, fkey+": every path that writes reports a failure of a failing writer")
				}
				r.Obligations -= 0
			}
			continue
		}

		// strict, per site
		for _, site := range sites {
			if !usedOK[site] {
				if _, ok := errValueOf(site); !ok {
					if c.siteClass(site) == clsWriter {
						name := siteName(site)
						r.Fail(".USED", fmt.Sprintf("%s|%s#%d", fkey, name, siteOrdinal(site)), p.Pos(token.Pos(instrPos(site))),
							fmt.Sprintf("%s: the error returned by %s is discarded", fkey, name), "")
					}
				}
				continue
			}
			ev, _ := errValueOf(site)
			k := &r1client{c: c, fn: f, num: newNumbering(), origin: site, errIdx: errIdx}
			init := r1state{t: valueSet{}.with(k.num.id(ev))}
			// start right after the call (and its extracts are pure)
			blk := site.Block()
			idx := 0
			for i, in := range blk.Instrs {
				if in == ssa.Instruction(site) {
					idx = i + 1
				}
			}
			n, capped := WalkPaths[r1state](k, blk, idx, init, 200000, nil)
			nStates += n
			name := siteName(site)
			key := fmt.Sprintf("%s|%s#%d", fkey, name, siteOrdinal(site))
			pos := p.Pos(token.Pos(instrPos(site)))
			if capped {
				r.Undecided(".NOT-MASKED", key, "state cap hit in "+fkey)
				continue
			}
			if len(k.bad) == 0 {
				r.Ok("", pos, fmt.Sprintf("%s: error of %s is returned on every path on which it is non-nil, nothing follows it", fkey, name))
				continue
			}
			msgs := uniqStrings(k.bad)
			sub := ".NOT-MASKED"
			if strings.HasPrefix(msgs[0], "AFTER|") {
				sub = ".NOTHING-AFTER"
			}
			r.Fail(sub, key, pos, fmt.Sprintf("%s: error of %s: %s", fkey, name, msgs[0][strings.Index(msgs[0], "|")+1:]), strings.Join(msgs, "; "))
		}
	}
	for k, v := range perPkg {
		r.Stats["sites_"+k] = v
	}
	r.Stats["abstract_states"] = nStates
	total := 0
	for _, v := range perPkg {
		total += v
	}
	r.Floor("obligation_sites", total, 700)
	return r
}

func uniqStrings(in []string) []string {
	seen := map[string]bool{}
	var out []string
	for _, s := range in {
		if !seen[s] {
			seen[s] = true
			out = append(out, s)
		}
	}
	sort.Strings(out)
	return out
}

func init() {
	register(&PropSpec{
		ID:         "C16",
		Level:      "proof",
		Decided:    "every call site in the library through which an error can enter from an io.Writer, a Visitor/ExtVisitor event, a Folder, or a fold/user function value (the obligations) forwards that error: visitor class - bound, returned unchanged on every path on which it is non-nil, and no further event or sink call on those paths; writer class - every path of an encoder function that performs a write returns a failure when all its writes fail. If all obligations are discharged, then for every stream and every failure index the call that receives the failure returns it up the (statically resolved) call chain to the public entry point. In push mode a failed Parser.Write parks the state machine in its failure state before returning, so that a later Write returns the stored error and delivers nothing more of the failed document (R24 STICKY-FAIL). Writer class, precisely: after the first failed write a later sink call is taken to fail only if it must write (must-fail summaries, least fixpoint over the sink set); a callee with a path that writes nothing may return nil, and a path that then returns nil is a violation.",
		NotDecided: "that user code (Folder.Fold, registered fold functions, the caller's own loop) behaves; that the error VALUE is unchanged when it passes through user code; what a caller does after the library returned the error; one-shot drivers that stop calling events after an error are assumed.",
		Assumptions: []string{
			"the caller stops sending events once an event returned an error",
			"a failing io.Writer keeps failing (as the property states)",
			"no recover(): asserted by R9's scan (no recover call in the library)",
		},
		TrustedBase: baseTrusted,
		Rules:       []RuleRun{{"R1", R1}, {"R24", R24("sticky", "json", "cborl", "ubjson")}},
		LevelText:   "Proof by exhaustive obligation discharge over SSA paths: obligations are all call sites whose callee can return a sink/visitor error (sink set computed to a fixpoint over the module's static call graph plus dynamic roots by type); each is discharged by exploring every abstract path from the call to every function exit. Covers every document, value and failure index at once because it never looks at one; tests inject no failure at all.",
		Technique:   "error-flow path analysis on SSA: sink-set fixpoint, per-call-site path-sensitive walk with phi resolution, nil-branch pruning, field-parked error tracking; strict (visitor) and keeps-failing (writer) disciplines, the latter with must-fail callee summaries (least fixpoint over the sink set); must-store-failure-state-before-failing-return path rule for push-mode Write",
		DesignRef:   "DESIGN.md section 2 R1, section 3 C16",
	})
}

// boolResultImpliesNilErr: in callee f, every return whose result #idx may
// equal val returns the nil error constant. (Return-tuple correlation such as
// "kv == true only together with err == nil".)
func boolResultImpliesNilErr(f *ssa.Function, idx int, val bool) bool {
	if f.Blocks == nil {
		return false
	}
	ei := errResultIndex(f.Signature)
	if ei < 0 || idx >= f.Signature.Results().Len() {
		return false
	}
	for _, b := range f.Blocks {
		for _, in := range b.Instrs {
			ret, ok := in.(*ssa.Return)
			if !ok {
				continue
			}
			for _, alt := range resultAlternatives(ret.Results[idx], ret.Results[ei]) {
				if cv, isC := constBool(alt[0]); isC && cv != val {
					continue // this return cannot yield val
				}
				if !isNilConst(alt[1]) {
					return false
				}
			}
		}
	}
	return true
}

// resultAlternatives expands phis of a (bool, err) result pair that are
// defined in the same block edge-wise, so that correlated constants such as
// phi[true,false] / phi[nil,err] are seen pairwise.
func resultAlternatives(bv, ev ssa.Value) [][2]ssa.Value {
	bp, bok := bv.(*ssa.Phi)
	ep, eok := ev.(*ssa.Phi)
	switch {
	case bok && eok && bp.Block() == ep.Block():
		var out [][2]ssa.Value
		for i := range bp.Edges {
			out = append(out, [2]ssa.Value{bp.Edges[i], ep.Edges[i]})
		}
		return out
	case bok && !eok:
		var out [][2]ssa.Value
		for i := range bp.Edges {
			out = append(out, [2]ssa.Value{bp.Edges[i], ev})
		}
		return out
	case !bok && eok:
		var out [][2]ssa.Value
		for i := range ep.Edges {
			out = append(out, [2]ssa.Value{bv, ep.Edges[i]})
		}
		return out
	}
	return [][2]ssa.Value{{bv, ev}}
}

package rules

import (
	"fmt"
	"go/constant"
	"go/token"
	"strings"

	"golang.org/x/tools/go/ssa"

	"sfcheck/internal/core"
)

// R20 TAG-SKIP-NAME. The documented rule is "a field whose NAME is `-` is
// skipped"; the name is the part of the tag before the first comma, so
// `struct:"-,omitempty"` skips the field as well. In the tag parser every path
// that returns a name taken from the tag (anything but a constant) has
// compared a value DERIVED from the tag - an element of the split, a prefix -
// with the skip marker and found it different. A comparison of the raw tag
// with the marker only recognises the bare `-`.

type tnState struct{ tested, noSep bool }
type tnClient struct {
	p      *core.Prog
	fn     *ssa.Function
	marker string
	tests  int
	bad    string
}

func (k *tnClient) Key(s tnState) string { return fmt.Sprint(s.tested, s.noSep) }
func (k *tnClient) Phis(s tnState, _ *ssa.BasicBlock, _ int) tnState { return s }
func (k *tnClient) Instr(s tnState, _ ssa.Instruction) (tnState, bool, []tnState) {
	return s, true, nil
}
func (k *tnClient) Branch(s tnState, cond ssa.Value, outcome bool) (tnState, bool) {
	for {
		u, ok := cond.(*ssa.UnOp)
		if !ok || u.Op != token.NOT {
			break
		}
		cond, outcome = u.X, !outcome
	}
	// "the tag has no separator": strings.Index*(tag, sep) < 0 / == -1, !strings.Contains*(tag, sep)
	if c, ok := cond.(*ssa.Call); ok && k.sepSearch(c) && strings.HasPrefix(c.Common().StaticCallee().Name(), "Contains") {
		if !outcome {
			s.noSep = true
		}
		return s, true
	}
	if bo, ok := cond.(*ssa.BinOp); ok {
		if c, isCall := bo.X.(*ssa.Call); isCall && k.sepSearch(c) && strings.HasPrefix(c.Common().StaticCallee().Name(), "Index") {
			if cv, isC := bo.Y.(*ssa.Const); isC && cv.Value != nil && cv.Value.Kind() == constant.Int {
				n, _ := constant.Int64Val(cv.Value)
				switch {
				case bo.Op == token.LSS && n == 0 && outcome, bo.Op == token.GEQ && n == 0 && !outcome,
					bo.Op == token.EQL && n == -1 && outcome, bo.Op == token.NEQ && n == -1 && !outcome:
					s.noSep = true
				}
				return s, true
			}
		}
	}
	bo, ok := cond.(*ssa.BinOp)
	if !ok || (bo.Op != token.EQL && bo.Op != token.NEQ) {
		return s, true
	}
	x, c := bo.X, bo.Y
	if _, isC := x.(*ssa.Const); isC {
		x, c = c, x
	}
	cv, isC := c.(*ssa.Const)
	if !isC || cv.Value == nil || cv.Value.Kind() != constant.String || constant.StringVal(cv.Value) != k.marker {
		return s, true
	}
	// the raw tag: the parameter itself (through type conversions). A slice, an element of a split or a phi of
	// "prefix up to the comma / whole tag when there is none" is derived from it.
	raw := false
	for y := x; ; {
		if _, isParam := y.(*ssa.Parameter); isParam {
			raw = y == ssa.Value(k.fn.Params[0])
			break
		}
		if ct, ok := y.(*ssa.ChangeType); ok {
			y = ct.X
			continue
		}
		break
	}
	if raw && !s.noSep {
		return s, true // the whole tag: says nothing about the name part of a tag with options
	}
	k.tests++
	if (bo.Op == token.EQL) != outcome {
		s.tested = true
	}
	return s, true
}
func (k *tnClient) Return(s tnState, ret *ssa.Return) {
	if len(ret.Results) == 0 {
		return
	}
	if _, isC := ret.Results[0].(*ssa.Const); isC {
		return
	}
	if !s.tested {
		k.bad = k.p.Pos(ret.Pos())
	}
}

func tagSkipName(p *core.Prog, r *core.Result) {
	tags := p.LookupFunc("gotype", "parseTags")
	if tags == nil || tags.Blocks == nil || len(tags.Params) == 0 {
		r.Undecided(".TAG-SKIP-NAME", "gotype.parseTags", "tag parser not found")
		return
	}
	k := &tnClient{p: p, fn: tags, marker: "-"}
	_, capped := WalkPaths[tnState](k, tags.Blocks[0], 0, tnState{}, 100000, nil)
	fkey := core.FuncKey(tags)
	switch {
	case capped:
		r.Undecided(".TAG-SKIP-NAME", fkey, "state cap hit")
	case k.bad != "":
		r.Fail(".TAG-SKIP-NAME", fkey+"|name-part", p.Pos(tags.Pos()), fkey+" returns a member name taken from the tag at "+k.bad+" on a path on which the name part of the tag (the text before the first comma) was never compared with the skip marker \"-\": a field tagged \"-,omitempty\" is reported under the name \"-\"", "")
	default:
		r.Ok(".TAG-SKIP-NAME", p.Pos(tags.Pos()), fkey+": every path that returns a name from the tag has found its name part different from \"-\"")
	}
	r.Floor("tag_skip_marker_tests", k.tests, 1)
}

// sepSearch: a strings.Index*/Contains* call searching the raw tag (the parser's parameter).
func (k *tnClient) sepSearch(c *ssa.Call) bool {
	sc := c.Common().StaticCallee()
	if sc == nil || funcPkgPath(sc) != "strings" || len(c.Common().Args) < 1 {
		return false
	}
	return c.Common().Args[0] == ssa.Value(k.fn.Params[0])
}

package rules

import (
	"fmt"
	"go/token"
	"go/types"
	"sort"
	"strings"

	"golang.org/x/tools/go/ssa"

	"sfcheck/internal/core"
)

// R4 INDEXSAFE.
//
// I1 (scans): in functions that walk an input string / byte slice with an
//    index variable they advance themselves, every x[e], x[e:], x[:e], x[a:e]
//    on the INPUT (a []byte/string parameter or a re-slice of it) needs the
//    fact e < len(x) (indexing) resp. e <= len(x) (slice bound) on every path.
//    Facts come from comparisons with len(x) and are carried through
//    `+ const`; any other arithmetic kills them.
// I0 (chunk head): in the parser step families b[0] / b[1:] on the chunk
//    needs NONEMPTY(b): a dominating emptiness test, or every caller
//    establishing it.
//
// Everything else (output buffers, bounds from range loops or the parser's
// own countdowns) is not examined; its count is reported as `unexamined`.

type r4fact struct{ idx, base int } // index value id, base value id

type r4state struct {
	d      map[r4fact]int // idx <= len(base) - d
	bt, bf valueSet
}

func (s r4state) with(f r4fact, d int) r4state {
	n := make(map[r4fact]int, len(s.d)+1)
	for k, v := range s.d {
		n[k] = v
	}
	if d < 0 {
		delete(n, f)
	} else {
		if d > 8 {
			d = 8
		}
		n[f] = d
	}
	s.d = n
	return s
}

type r4client struct {
	p       *core.Prog
	fn      *ssa.Function
	num     *valueNumbering
	inputs  map[ssa.Value]ssa.Value // value -> root input parameter (re-slices with Low==nil or 0 keep the root; others are new bases)
	bad     map[string]string
	checked map[ssa.Instruction]bool
}

// iid: the identity of an index value; conversions between integer types do
// not change what is known about it (lengths and positions are non-negative
// and within int here).
func (k *r4client) iid(v ssa.Value) int {
	for {
		cv, ok := v.(*ssa.Convert)
		if !ok {
			break
		}
		bt, ok1 := cv.Type().Underlying().(*types.Basic)
		bx, ok2 := cv.X.Type().Underlying().(*types.Basic)
		if !ok1 || !ok2 || bt.Info()&types.IsInteger == 0 || bx.Info()&types.IsInteger == 0 {
			break
		}
		v = cv.X
	}
	return k.num.id(v)
}

func (k *r4client) Key(s r4state) string {
	var ks []string
	for f, d := range s.d {
		ks = append(ks, fmt.Sprintf("%d/%d:%d", f.idx, f.base, d))
	}
	sort.Strings(ks)
	return strings.Join(ks, ",") + "|" + s.bt.key() + "|" + s.bf.key()
}

func (k *r4client) Phis(s r4state, blk *ssa.BasicBlock, pred int) r4state {
	type upd struct {
		phi   int
		facts map[int]int // base -> d
		bt, bf bool
	}
	var ups []upd
	for _, in := range blk.Instrs {
		phi, ok := in.(*ssa.Phi)
		if !ok {
			break
		}
		if pred < 0 || pred >= len(phi.Edges) {
			continue
		}
		e := phi.Edges[pred]
		eid := k.iid(e)
		u := upd{phi: k.num.id(phi), facts: map[int]int{}}
		for f, d := range s.d {
			if f.idx == eid {
				u.facts[f.base] = d
			}
		}
		// a constant 0 start: 0 <= len(x) always
		if c, ok := constIntVal(e); ok && c == 0 {
			for _, root := range k.inputs {
				u.facts[k.num.id(root)] = 0
			}
		}
		if cv, ok := constBool(e); ok {
			u.bt, u.bf = cv, !cv
		} else {
			u.bt, u.bf = s.bt.has(eid), s.bf.has(eid)
		}
		ups = append(ups, u)
	}
	for _, u := range ups {
		// drop old facts of the phi
		for f := range s.d {
			if f.idx == u.phi {
				s = s.with(f, -1)
			}
		}
		for b, d := range u.facts {
			s = s.with(r4fact{u.phi, b}, d)
		}
		s.bt, s.bf = s.bt.without(u.phi), s.bf.without(u.phi)
		if u.bt {
			s.bt = s.bt.with(u.phi)
		}
		if u.bf {
			s.bf = s.bf.with(u.phi)
		}
	}
	return s
}

// rootOf: the input the value is a view of, and whether it is the very same
// extent (so that len facts transfer).
func (k *r4client) rootOf(v ssa.Value) ssa.Value {
	if r, ok := k.inputs[v]; ok {
		return r
	}
	return nil
}

func (k *r4client) need(s r4state, in ssa.Instruction, idx ssa.Value, base ssa.Value, d int, what string) {
	root := k.rootOf(base)
	if root == nil {
		return
	}
	k.checked[in] = true
	if c, ok := constIntVal(idx); ok {
		_ = c
		return // constant indices are I0's business
	}
	have, ok := s.d[r4fact{k.iid(idx), k.num.id(root)}]
	if ok && have >= d {
		return
	}
	pos := k.p.Pos(token.Pos(instrPos(in)))
	if k.bad == nil {
		k.bad = map[string]string{}
	}
	rel := "<"
	if d == 0 {
		rel = "<="
	}
	k.bad[pos+"|"+what] = fmt.Sprintf("%s at %s is reached on a path that has not established index %s len(%s) (the index was advanced since the last length check): a short or truncated input indexes out of range, or the wrong bytes are copied", what, pos, rel, root.Name())
}

func (k *r4client) Instr(s r4state, in ssa.Instruction) (r4state, bool, []r4state) {
	switch x := in.(type) {
	case *ssa.BinOp:
		// i + sz with sz the size returned by utf8.DecodeRune(x[i:]): the decoder never reports more bytes than it was given
		if x.Op == token.ADD {
			for _, pr := range [][2]ssa.Value{{x.X, x.Y}, {x.Y, x.X}} {
				ex, ok := pr[1].(*ssa.Extract)
				if !ok || ex.Index != 1 {
					continue
				}
				c, ok := ex.Tuple.(*ssa.Call)
				if !ok {
					continue
				}
				sc := c.Common().StaticCallee()
				if sc == nil || funcPkgPath(sc) != "unicode/utf8" || !strings.HasPrefix(core.FuncName(sc), "DecodeRune") {
					continue
				}
				sl, ok := c.Common().Args[0].(*ssa.Slice)
				if !ok || sl.High != nil || sl.Low != pr[0] {
					continue
				}
				if root := k.rootOf(sl.X); root != nil {
					s = s.with(r4fact{k.num.id(x), k.num.id(root)}, 0)
				}
			}
		}
		if x.Op == token.ADD || x.Op == token.SUB {
			// j = i + c
			var iv ssa.Value
			var c int64
			var ok bool
			if c, ok = constIntVal(x.Y); ok {
				iv = x.X
			} else if c, ok = constIntVal(x.X); ok && x.Op == token.ADD {
				iv = x.Y
			}
			if iv != nil && ok {
				if x.Op == token.SUB {
					c = -c
				}
				iid, jid := k.iid(iv), k.num.id(x)
				for f, d := range s.d {
					if f.idx == iid {
						s = s.with(r4fact{jid, f.base}, d-int(c))
					}
				}
			}
		}
	case *ssa.Call:
		// n := len(x): n <= len(x)
		if b, ok := x.Common().Value.(*ssa.Builtin); ok && b.Name() == "len" && len(x.Common().Args) == 1 {
			if root := k.rootOf(x.Common().Args[0]); root != nil {
				s = s.with(r4fact{k.num.id(x), k.num.id(root)}, 0)
			}
		}
	case *ssa.IndexAddr:
		k.need(s, x, x.Index, x.X, 1, "indexing")
	case *ssa.Index:
		k.need(s, x, x.Index, x.X, 1, "indexing")
	case *ssa.Lookup:
		if _, isMap := x.X.Type().Underlying().(*types.Map); !isMap {
			k.need(s, x, x.Index, x.X, 1, "indexing")
		}
	case *ssa.Slice:
		if x.High != nil {
			k.need(s, x, x.High, x.X, 0, "slice upper bound")
		}
		if x.Low != nil && x.High == nil {
			k.need(s, x, x.Low, x.X, 0, "slice lower bound")
		}
	}
	return s, true, nil
}

func (k *r4client) Branch(s r4state, cond ssa.Value, outcome bool) (r4state, bool) {
	for {
		u, ok := cond.(*ssa.UnOp)
		if !ok || u.Op != token.NOT {
			break
		}
		cond, outcome = u.X, !outcome
	}
	id := k.num.id(cond)
	if s.bt.has(id) && !outcome || s.bf.has(id) && outcome {
		return s, false
	}
	if bo, ok := cond.(*ssa.BinOp); ok {
		// i OP len(x)   |   len(x) OP i
		lenOf := func(v ssa.Value) ssa.Value {
			c, ok := v.(*ssa.Call)
			if !ok {
				return nil
			}
			if b, ok := c.Common().Value.(*ssa.Builtin); !ok || b.Name() != "len" {
				return nil
			}
			return k.rootOf(c.Common().Args[0])
		}
		op := bo.Op
		var iv, root ssa.Value
		if r := lenOf(bo.Y); r != nil {
			iv, root = bo.X, r
		} else if r := lenOf(bo.X); r != nil {
			iv, root = bo.Y, r
			op = flipCmp(op)
		}
		if root != nil {
			if !outcome {
				switch op {
				case token.LSS:
					op = token.GEQ
				case token.LEQ:
					op = token.GTR
				case token.GTR:
					op = token.LEQ
				case token.GEQ:
					op = token.LSS
				case token.EQL:
					op = token.NEQ
				case token.NEQ:
					op = token.EQL
				}
			}
			f := r4fact{k.iid(iv), k.num.id(root)}
			est := -1
			switch op {
			case token.LSS: // i < len
				est = 1
			case token.LEQ, token.EQL: // i <= len
				est = 0
			}
			if est >= 0 {
				if cur, ok := s.d[f]; !ok || cur < est {
					s = s.with(f, est)
				}
				// the compared value is x + c: the fact transfers to x
				if bo2, ok := iv.(*ssa.BinOp); ok && bo2.Op == token.ADD {
					if c, ok := constIntVal(bo2.Y); ok && c >= 0 {
						g := r4fact{k.iid(bo2.X), k.num.id(root)}
						if cur, ok := s.d[g]; !ok || cur < est+int(c) {
							s = s.with(g, est+int(c))
						}
					}
				}
			}
		}
	}
	// i OP n with n a value already bounded by an input length (n := len(x), possibly clamped to a smaller count):
	// the bound carries over
	if bo, ok := cond.(*ssa.BinOp); ok {
		op := bo.Op
		if !outcome {
			switch op {
			case token.LSS:
				op = token.GEQ
			case token.LEQ:
				op = token.GTR
			case token.GTR:
				op = token.LEQ
			case token.GEQ:
				op = token.LSS
			default:
				op = token.ILLEGAL
			}
		}
		for _, pr := range [][2]ssa.Value{{bo.X, bo.Y}, {bo.Y, bo.X}} {
			o := op
			if pr[0] != bo.X {
				o = flipCmp(op)
			}
			extra := -1
			switch o {
			case token.LSS: // pr[0] < pr[1]
				extra = 1
			case token.LEQ:
				extra = 0
			}
			if extra < 0 {
				continue
			}
			if _, isC := pr[0].(*ssa.Const); isC {
				continue
			}
			wid, iid := k.iid(pr[1]), k.iid(pr[0])
			for f, d := range s.d {
				if f.idx == wid {
					g := r4fact{iid, f.base}
					if cur, ok := s.d[g]; !ok || cur < d+extra {
						s = s.with(g, d+extra)
					}
				}
			}
		}
	}
	if b, isB := cond.Type().Underlying().(*types.Basic); isB && b.Kind() == types.Bool {
		if outcome {
			s.bt = s.bt.with(id)
		} else {
			s.bf = s.bf.with(id)
		}
	}
	return s, true
}

func (k *r4client) Return(s r4state, ret *ssa.Return) {}

// hasScanLoop: the function has a loop-carried integer phi that is used as an
// index into one of its string/[]byte parameters.
func scanInputs(f *ssa.Function) map[ssa.Value]ssa.Value {
	inputs := map[ssa.Value]ssa.Value{}
	for _, prm := range f.Params {
		if isStringOrBytes(prm.Type()) {
			inputs[prm] = prm
		}
	}
	if len(inputs) == 0 {
		return nil
	}
	// does a loop phi index an input?
	found := false
	for _, b := range f.Blocks {
		for _, in := range b.Instrs {
			var idx, base ssa.Value
			switch x := in.(type) {
			case *ssa.IndexAddr:
				idx, base = x.Index, x.X
			case *ssa.Index:
				idx, base = x.Index, x.X
			case *ssa.Lookup:
				idx, base = x.Index, x.X
			}
			if idx == nil || inputs[base] == nil {
				continue
			}
			// idx derives from a loop-carried phi by + const
			v := idx
			for i := 0; i < 4; i++ {
				if bo, ok := v.(*ssa.BinOp); ok && bo.Op == token.ADD {
					if _, isC := bo.Y.(*ssa.Const); isC {
						v = bo.X
						continue
					}
				}
				break
			}
			if phi, ok := v.(*ssa.Phi); ok {
				for pi := range phi.Edges {
					if isBackEdge(phi.Block(), pi) {
						found = true
					}
				}
			}
		}
	}
	if !found {
		return nil
	}
	return inputs
}

// R4 runs INDEXSAFE for the given packages.
func R4(pkgs ...string) func(p *core.Prog) *core.Result {
	return func(p *core.Prog) *core.Result {
		r := core.NewResult("R4", "input-driven indexing is guarded ("+strings.Join(pkgs, ",")+"): scans that advance their own index re-establish index < len(input) before every use; the chunk head b[0] is read only from a chunk known to be non-empty")
		in := map[string]bool{}
		for _, k := range pkgs {
			in[k] = true
		}
		scans, sites, unexamined := 0, 0, 0
		for _, f := range p.ModFuncs() {
			pk := core.FuncPkg(f)
			if pk == nil || !in[pk.Name()] {
				continue
			}
			// count all non-constant index/slice sites for the unexamined statistic
			all := 0
			for _, b := range f.Blocks {
				for _, ins := range b.Instrs {
					switch x := ins.(type) {
					case *ssa.IndexAddr:
						if _, isC := x.Index.(*ssa.Const); !isC {
							all++
						}
					case *ssa.Index, *ssa.Slice:
						all++
					}
				}
			}
			inputs := scanInputs(f)
			if inputs == nil {
				unexamined += all
				continue
			}
			scans++
			k := &r4client{p: p, fn: f, num: newNumbering(), inputs: inputs, checked: map[ssa.Instruction]bool{}}
			_, capped := WalkPaths[r4state](k, f.Blocks[0], 0, r4state{}, 400000, nil)
			fkey := core.FuncKey(f)
			if capped {
				r.Undecided(".SCAN", fkey, "state cap hit in "+fkey)
				continue
			}
			sites += len(k.checked)
			unexamined += all - len(k.checked)
			badPos := map[string]bool{}
			ord := 0
			for _, kk := range sortedKeys(k.bad) {
				ord++
				r.Fail(".SCAN", fmt.Sprintf("%s|%s#%d", fkey, kk[strings.Index(kk, "|")+1:], ord), kk[:strings.Index(kk, "|")], fkey+": "+k.bad[kk], "")
				badPos[kk[:strings.Index(kk, "|")]] = true
			}
			for i := 0; i < len(k.checked)-len(k.bad); i++ {
				r.Ok(".SCAN", p.Pos(f.Pos()), fkey+": scan index is below the input length at this site on every path")
			}
		}
		r.Stats["scan_functions"] = scans
		r.Stats["scan_sites"] = sites
		r.Stats["unexamined_index_sites"] = unexamined
		if in["json"] {
			r.Floor("scan_functions", scans, 2)
		}
		// I0: chunk head
		for _, pk := range pkgs {
			if pk != "json" && pk != "cborl" && pk != "ubjson" {
				continue
			}
			chunkHead(p, r, pk)
		}
		return r
	}
}

// chunkHead (I0): b[0] / b[1:] on the chunk parameter of a step function
// needs NONEMPTY(b).
func chunkHead(p *core.Prog, r *core.Result, pk string) {
	fam, err := buildFamily(p, pk)
	if err != nil {
		r.Undecided(".CHUNK-HEAD", pk, err.Error())
		return
	}
	// PRE(f): f reads the head of its chunk without a dominating emptiness guard
	type site struct {
		in  ssa.Instruction
		pos string
	}
	unguarded := map[*ssa.Function][]site{}
	var fns []*ssa.Function
	for f := range fam.steps {
		fns = append(fns, f)
	}
	sort.Slice(fns, func(i, j int) bool { return fns[i].Pos() < fns[j].Pos() })
	total := 0
	for _, f := range fns {
		chunk := fam.steps[f].chunk
		for _, b := range f.Blocks {
			for _, in := range b.Instrs {
				var base ssa.Value
				isHead := false
				switch x := in.(type) {
				case *ssa.IndexAddr:
					if c, ok := constIntVal(x.Index); ok && c >= 0 {
						base, isHead = x.X, true
					}
				case *ssa.Slice:
					if x.Low != nil {
						if c, ok := constIntVal(x.Low); ok && c >= 1 {
							base, isHead = x.X, true
						}
					}
				}
				if !isHead || base != ssa.Value(chunk) {
					continue
				}
				total++
				if nonEmptyAt(chunk, b) {
					r.Ok(".CHUNK-HEAD", p.Pos(token.Pos(instrPos(in))), core.FuncKey(f)+": chunk head read behind an emptiness test")
				} else {
					unguarded[f] = append(unguarded[f], site{in, p.Pos(token.Pos(instrPos(in)))})
				}
			}
		}
	}
	// callers must establish NONEMPTY for functions with unguarded head reads
	pre := map[*ssa.Function]bool{}
	for f := range unguarded {
		pre[f] = true
	}
	// passing the own chunk on unchanged to a PRE callee without a guard makes the caller PRE too
	bad := map[*ssa.Function]string{}
	maskOK := map[*ssa.Function]string{}
	for changed := true; changed; {
		changed = false
		for _, g := range append(fns, fam.feedUntil) {
			var gchunk ssa.Value
			if sf, ok := fam.steps[g]; ok {
				gchunk = sf.chunk
			}
			for _, b := range g.Blocks {
				for _, in := range b.Instrs {
					c, ok := in.(*ssa.Call)
					if !ok {
						continue
					}
					sc := c.Common().StaticCallee()
					if sc == nil || !pre[sc] {
						continue
					}
					sf := fam.steps[sc]
					var arg ssa.Value
					for i, prm := range sc.Params {
						if prm == sf.chunk && i < len(c.Common().Args) {
							arg = c.Common().Args[i]
						}
					}
					if arg == nil {
						continue
					}
					if nonEmptyAt(arg, b) || nonEmptyByLoop(arg, b) {
						continue
					}
					if gchunk != nil && arg == gchunk {
						if !pre[g] {
							pre[g] = true
							changed = true
						}
						continue
					}
					// dispatcher re-entry with a possibly empty chunk under a state-mask condition
					if g == fam.feedUntil {
						if m, v, ok := reentryMask(g); ok {
							if why := maskPremise(p, fam, sc, m, v); why == "" {
								maskOK[sc] = fmt.Sprintf("feedUntil re-enters with an empty chunk only when state&%#x == %#x, and no arm of %s whose label satisfies that mask reads the chunk head unguarded", m, v, core.FuncName(sc))
								continue
							} else {
								bad[sc] = "the dispatcher re-enters it with an empty chunk when state&mask matches, and " + why
								continue
							}
						}
					}
					if _, isSl := arg.(*ssa.Slice); isSl || true {
						if bad[sc] == "" {
							bad[sc] = fmt.Sprintf("%s calls it at %s with a chunk that is not known to be non-empty", core.FuncKey(g), p.Pos(c.Pos()))
						}
					}
				}
			}
		}
	}
	for _, f := range fns {
		sites := unguarded[f]
		if len(sites) == 0 {
			continue
		}
		fkey := core.FuncKey(f)
		if why, isBad := bad[f]; isBad {
			r.Fail(".CHUNK-HEAD", fkey, sites[0].pos, fkey+" reads the head of its chunk without an emptiness test and "+why+": an empty chunk (end of a write, zero-byte read) indexes out of range", "")
		} else {
			why := "every caller passes a chunk known to be non-empty"
			if m := maskOK[f]; m != "" {
				why += "; " + m
			}
			for range sites {
				r.Ok(".CHUNK-HEAD", sites[0].pos, fkey+": unguarded chunk head read, but "+why)
			}
		}
	}
	r.Stats["chunk_head_sites_"+pk] = total
	feedNonEmpty(p, r, fam, pk)
}

// nonEmptyAt: blk is dominated by an edge on which len(v) != 0.
func nonEmptyAt(v ssa.Value, blk *ssa.BasicBlock) bool {
	for d := blk; d != nil; d = d.Idom() {
		id := d.Idom()
		if id == nil {
			break
		}
		iff, ok := id.Instrs[len(id.Instrs)-1].(*ssa.If)
		if !ok {
			continue
		}
		if ne, edge := lenNonZeroEdge(iff.Cond, v); ne {
			if id.Succs[edge] == d && len(d.Preds) == 1 {
				return true
			}
		}
	}
	return false
}

// lenNonZeroEdge: cond tests len(v) against 0; returns the successor index on
// which len(v) > 0.
func lenNonZeroEdge(cond ssa.Value, v ssa.Value) (bool, int) {
	neg := false
	for {
		u, ok := cond.(*ssa.UnOp)
		if !ok || u.Op != token.NOT {
			break
		}
		cond, neg = u.X, !neg
	}
	bo, ok := cond.(*ssa.BinOp)
	if !ok {
		return false, 0
	}
	isLen := func(x ssa.Value) bool {
		c, ok := x.(*ssa.Call)
		if !ok {
			return false
		}
		b, ok := c.Common().Value.(*ssa.Builtin)
		return ok && b.Name() == "len" && c.Common().Args[0] == v
	}
	var nonEmptyOnTrue, known bool
	switch {
	case isLen(bo.X) && isIntConst(bo.Y, 0):
		switch bo.Op {
		case token.EQL, token.LEQ:
			nonEmptyOnTrue, known = false, true
		case token.NEQ, token.GTR:
			nonEmptyOnTrue, known = true, true
		}
	case isLen(bo.Y) && isIntConst(bo.X, 0):
		switch bo.Op {
		case token.EQL, token.GEQ:
			nonEmptyOnTrue, known = false, true
		case token.NEQ, token.LSS:
			nonEmptyOnTrue, known = true, true
		}
	}
	if !known {
		return false, 0
	}
	if neg {
		nonEmptyOnTrue = !nonEmptyOnTrue
	}
	if nonEmptyOnTrue {
		return true, 0
	}
	return true, 1
}

// nonEmptyByLoop: the argument is the loop-carried chunk of a `for len(b) > 0`
// loop and the call sits inside the loop body.
func nonEmptyByLoop(arg ssa.Value, blk *ssa.BasicBlock) bool {
	phi, ok := arg.(*ssa.Phi)
	if !ok {
		return false
	}
	return nonEmptyAt(phi, blk)
}

// reentryMask finds `(x & M) == V` with constants M, V in the dispatcher loop
// of feedUntil (the condition under which it goes on with an empty chunk).
func reentryMask(f *ssa.Function) (int64, int64, bool) {
	for _, b := range f.Blocks {
		for _, in := range b.Instrs {
			bo, ok := in.(*ssa.BinOp)
			if !ok || bo.Op != token.EQL {
				continue
			}
			and, ok := bo.X.(*ssa.BinOp)
			if !ok || and.Op != token.AND {
				continue
			}
			m, ok1 := constIntVal(and.Y)
			v, ok2 := constIntVal(bo.Y)
			if ok1 && ok2 {
				return m, v, true
			}
		}
	}
	return 0, 0, false
}

// maskPremise walks the dispatcher under the assumption that its switch tag
// t satisfies t&m == v and reports an unguarded head read of the chunk that
// is reachable under that assumption ("" if none).
type maskState struct{ arm bool }
type maskClient struct {
	p     *core.Prog
	chunk ssa.Value
	m, v  int64
	bad   string
}

func (k *maskClient) Key(s maskState) string                               { return fmt.Sprint(s.arm) }
func (k *maskClient) Phis(s maskState, _ *ssa.BasicBlock, _ int) maskState { return s }
func (k *maskClient) Return(maskState, *ssa.Return)                        {}
func (k *maskClient) Instr(s maskState, in ssa.Instruction) (maskState, bool, []maskState) {
	var base ssa.Value
	switch x := in.(type) {
	case *ssa.IndexAddr:
		if _, ok := constIntVal(x.Index); ok {
			base = x.X
		}
	case *ssa.Slice:
		if x.Low != nil {
			if c, ok := constIntVal(x.Low); ok && c >= 1 {
				base = x.X
			}
		}
	}
	if base != nil && base == k.chunk && !nonEmptyAt(k.chunk, in.Block()) {
		k.bad = "the arm reaches an unguarded head read at " + k.p.Pos(token.Pos(instrPos(in)))
	}
	return s, true, nil
}
func (k *maskClient) Branch(s maskState, cond ssa.Value, outcome bool) (maskState, bool) {
	bo, ok := cond.(*ssa.BinOp)
	if !ok || bo.Op != token.EQL {
		return s, true
	}
	c, ok := constIntVal(bo.Y)
	if !ok {
		return s, true
	}
	if b, ok := bo.X.Type().Underlying().(*types.Basic); !ok || b.Kind() != types.Uint8 {
		return s, true
	}
	if _, isLoad := bo.X.(*ssa.UnOp); !isLoad {
		return s, true
	}
	if outcome && c&k.m != k.v {
		return s, false // this label does not satisfy the mask: not entered with an empty chunk
	}
	if outcome {
		s.arm = true
	}
	return s, true
}

func maskPremise(p *core.Prog, fam *parserFamily, f *ssa.Function, m, v int64) string {
	sf := fam.steps[f]
	if sf == nil {
		return "not a step function"
	}
	k := &maskClient{p: p, chunk: sf.chunk, m: m, v: v}
	_, capped := WalkPaths[maskState](k, f.Blocks[0], 0, maskState{}, 200000, nil)
	if capped {
		return "state cap hit"
	}
	return k.bad
}

// ---- FEED-NONEMPTY ----
//
// When the dispatcher itself hands its chunk to a head-reading step without an
// emptiness test (cborl, ubjson), every caller of the dispatcher has to pass a
// non-empty chunk: feed() loops while len(b) > 0; the pull decoders pass their
// window field, which must be known non-empty on the path - either tested
// (len(dec.buffer) != 0) or just refilled with buffer0[:n] and n tested != 0.

type fnState struct {
	nonEmpty stringSet      // field keys known to hold a non-empty slice
	high     map[string]int // field key -> value id of n after field = x[:n]
	nz       valueSet       // ints known != 0
	// boolean results of a helper of the same receiver: value id -> the fields that are non-empty when it is true / false
	facts map[int][2]stringSet
}
type fnClient struct {
	p      *core.Prog
	fn     *ssa.Function
	target *ssa.Function
	argIdx int
	num    *valueNumbering
	bad    string
	calls  int
	// summary mode (a helper of the caller): per boolean result index and outcome, the fields non-empty at every such return
	sumOut  map[int]*[2]*stringSet
	sums    map[*ssa.Function]map[int]*[2]*stringSet
	sumBusy map[*ssa.Function]bool
}

// helperSummary: for a method the caller invokes on its own receiver, which
// slice fields are known non-empty whenever boolean result i is true / false.
func (k *fnClient) helperSummary(h *ssa.Function) map[int]*[2]*stringSet {
	if k.sums == nil {
		k.sums, k.sumBusy = map[*ssa.Function]map[int]*[2]*stringSet{}, map[*ssa.Function]bool{}
	}
	if v, ok := k.sums[h]; ok {
		return v
	}
	if k.sumBusy[h] || h.Blocks == nil {
		return nil
	}
	k.sumBusy[h] = true
	defer delete(k.sumBusy, h)
	hk := &fnClient{p: k.p, fn: h, target: k.target, argIdx: k.argIdx, num: newNumbering(), sumOut: map[int]*[2]*stringSet{}, sums: k.sums, sumBusy: k.sumBusy}
	_, capped := WalkPaths[fnState](hk, h.Blocks[0], 0, fnState{high: map[string]int{}}, 200000, nil)
	if capped {
		hk.sumOut = nil
	}
	k.sums[h] = hk.sumOut
	return hk.sumOut
}

func (k *fnClient) Key(s fnState) string {
	var hs []string
	for f, id := range s.high {
		hs = append(hs, fmt.Sprintf("%s=%d", f, id))
	}
	sort.Strings(hs)
	var fs []string
	for id, f := range s.facts {
		fs = append(fs, fmt.Sprintf("%d:%s/%s", id, f[0].key(), f[1].key()))
	}
	sort.Strings(fs)
	return s.nonEmpty.key() + "|" + strings.Join(hs, ",") + "|" + s.nz.key() + "|" + strings.Join(fs, ",")
}
func (k *fnClient) Phis(s fnState, _ *ssa.BasicBlock, _ int) fnState { return s }
func (k *fnClient) Return(s fnState, ret *ssa.Return) {
	if k.sumOut == nil {
		return
	}
	res := k.fn.Signature.Results()
	for i := 0; i < res.Len(); i++ {
		if b, ok := res.At(i).Type().Underlying().(*types.Basic); !ok || b.Kind() != types.Bool {
			continue
		}
		if k.sumOut[i] == nil {
			k.sumOut[i] = &[2]*stringSet{}
		}
		outcomes := []int{0, 1}
		if cv, ok := constBool(ret.Results[i]); ok {
			if cv {
				outcomes = []int{0}
			} else {
				outcomes = []int{1}
			}
		}
		for _, o := range outcomes {
			cur := k.sumOut[i][o]
			if cur == nil {
				cp := s.nonEmpty
				k.sumOut[i][o] = &cp
				continue
			}
			var both stringSet
			for _, key := range cur.list() {
				if s.nonEmpty.has(key) {
					both = both.with(key)
				}
			}
			*cur = both
		}
	}
}
func (k *fnClient) Instr(s fnState, in ssa.Instruction) (fnState, bool, []fnState) {
	switch x := in.(type) {
	case *ssa.Store:
		ak := addrKey(x.Addr)
		if ak == "" || !isByteSlice(x.Val.Type()) {
			break
		}
		s.nonEmpty = s.nonEmpty.without(ak)
		s.facts = nil
		nh := map[string]int{}
		for f, id := range s.high {
			if f != ak {
				nh[f] = id
			}
		}
		if sl, ok := x.Val.(*ssa.Slice); ok && sl.High != nil && (sl.Low == nil || isIntConst(sl.Low, 0)) {
			id := k.num.id(sl.High)
			if s.nz.has(id) {
				s.nonEmpty = s.nonEmpty.with(ak)
			} else {
				nh[ak] = id
			}
		}
		s.high = nh
	case *ssa.Call:
		if sc := x.Common().StaticCallee(); sc != nil && sc != k.target && sc.Signature.Recv() != nil && k.fn.Signature.Recv() != nil && len(x.Common().Args) > 0 && x.Common().Args[0] == ssa.Value(k.fn.Params[0]) && sc.Blocks != nil && namedOf(sc.Signature.Recv().Type()) == namedOf(k.fn.Signature.Recv().Type()) {
			// a helper working on the same instance: it may replace any window; what is known afterwards is what its
			// boolean results promise
			s.nonEmpty, s.high, s.facts = stringSet{}, map[string]int{}, nil
			if sum := k.helperSummary(sc); sum != nil {
				from, to := "P:"+sc.Params[0].Name(), "P:"+k.fn.Params[0].Name()
				tr := func(in *stringSet) stringSet {
					var out stringSet
					if in == nil {
						return out
					}
					for _, key := range in.list() {
						if strings.HasPrefix(key, from+".") {
							out = out.with(to + key[len(from):])
						}
					}
					return out
				}
				facts := map[int][2]stringSet{}
				set := func(v ssa.Value, idx int) {
					if f := sum[idx]; f != nil {
						facts[k.num.id(v)] = [2]stringSet{tr(f[0]), tr(f[1])}
					}
				}
				if refs := x.Referrers(); refs != nil {
					for _, rf := range *refs {
						if ex, ok := rf.(*ssa.Extract); ok {
							set(ex, ex.Index)
						}
					}
				}
				if sc.Signature.Results().Len() == 1 {
					set(x, 0)
				}
				if len(facts) > 0 {
					s.facts = facts
				}
			}
			break
		}
		if x.Common().StaticCallee() != k.target {
			break
		}
		k.calls++
		arg := x.Common().Args[k.argIdx]
		ok := false
		if ld, isLd := arg.(*ssa.UnOp); isLd && ld.Op == token.MUL {
			if ak := addrKey(ld.X); ak != "" && s.nonEmpty.has(ak) {
				ok = true
			}
		}
		if sl, isSl := arg.(*ssa.Slice); isSl && sl.High != nil && (sl.Low == nil || isIntConst(sl.Low, 0)) && s.nz.has(k.num.id(sl.High)) {
			ok = true
		}
		if nonEmptyAt(arg, x.Block()) || nonEmptyByLoop(arg, x.Block()) {
			ok = true
		}
		if !ok {
			k.bad = "calls " + core.FuncKey(k.target) + " at " + k.p.Pos(x.Pos()) + " with a chunk that is not known to be non-empty on some path"
		}
	}
	return s, true, nil
}
func (k *fnClient) Branch(s fnState, cond ssa.Value, outcome bool) (fnState, bool) {
	for {
		u, ok := cond.(*ssa.UnOp)
		if !ok || u.Op != token.NOT {
			break
		}
		cond, outcome = u.X, !outcome
	}
	if f, ok := s.facts[k.num.id(cond)]; ok {
		add := f[1]
		if outcome {
			add = f[0]
		}
		for _, key := range add.list() {
			s.nonEmpty = s.nonEmpty.with(key)
		}
		return s, true
	}
	bo, ok := cond.(*ssa.BinOp)
	if !ok || !isIntConst(bo.Y, 0) {
		return s, true
	}
	var nonZero, known bool
	switch bo.Op {
	case token.EQL, token.LEQ:
		nonZero, known = !outcome, true
	case token.NEQ, token.GTR:
		nonZero, known = outcome, true
	}
	if !known {
		return s, true
	}
	// len(field) ?
	if call, ok := bo.X.(*ssa.Call); ok {
		if bi, ok := call.Common().Value.(*ssa.Builtin); ok && bi.Name() == "len" {
			if ld, ok := call.Common().Args[0].(*ssa.UnOp); ok && ld.Op == token.MUL {
				if ak := addrKey(ld.X); ak != "" {
					if nonZero {
						s.nonEmpty = s.nonEmpty.with(ak)
					} else {
						s.nonEmpty = s.nonEmpty.without(ak)
					}
				}
			}
			return s, true
		}
	}
	// n ?
	if nonZero && bo.Op != token.LEQ && bo.Op != token.GTR || nonZero {
		id := k.num.id(bo.X)
		s.nz = s.nz.with(id)
		for f, hid := range s.high {
			if hid == id {
				s.nonEmpty = s.nonEmpty.with(f)
			}
		}
	}
	return s, true
}

func feedNonEmpty(p *core.Prog, r *core.Result, fam *parserFamily, pk string) {
	fu := fam.feedUntil
	sf := fam.steps[fu]
	var chunk ssa.Value
	argIdx := -1
	if sf != nil {
		chunk = sf.chunk
	} else {
		for _, prm := range fu.Params {
			if isByteSlice(prm.Type()) {
				chunk = prm
			}
		}
	}
	for i, prm := range fu.Params {
		if ssa.Value(prm) == chunk {
			argIdx = i
		}
	}
	if chunk == nil || argIdx < 0 {
		return
	}
	// does the dispatcher hand its chunk on without a test?
	needs := false
	for _, b := range fu.Blocks {
		for _, in := range b.Instrs {
			c, ok := in.(*ssa.Call)
			if !ok || c.Common().StaticCallee() == nil {
				continue
			}
			if _, isStep := fam.steps[c.Common().StaticCallee()]; !isStep {
				continue
			}
			for _, a := range c.Common().Args {
				isChunk := a == chunk
				if phi, ok := a.(*ssa.Phi); ok {
					for _, e := range phi.Edges {
						if e == chunk {
							isChunk = true
						}
					}
				}
				if isChunk && !nonEmptyAt(a, b) && !nonEmptyByLoop(a, b) {
					needs = true
				}
			}
		}
	}
	if !needs {
		r.Ok(".FEED-NONEMPTY", p.Pos(fu.Pos()), core.FuncKey(fu)+": tests its chunk before the first step, callers may pass an empty chunk")
		return
	}
	n := 0
	for _, g := range p.ModFuncs() {
		gp := core.FuncPkg(g)
		if gp == nil || gp.Name() != pk || g == fu {
			continue
		}
		calls := false
		for _, b := range g.Blocks {
			for _, in := range b.Instrs {
				if c, ok := in.(*ssa.Call); ok && c.Common().StaticCallee() == fu {
					calls = true
				}
			}
		}
		if !calls {
			continue
		}
		n++
		k := &fnClient{p: p, fn: g, target: fu, argIdx: argIdx, num: newNumbering()}
		_, capped := WalkPaths[fnState](k, g.Blocks[0], 0, fnState{high: map[string]int{}}, 200000, nil)
		gkey := core.FuncKey(g)
		switch {
		case capped:
			r.Undecided(".FEED-NONEMPTY", gkey, "state cap hit")
		case k.bad != "":
			r.Fail(".FEED-NONEMPTY", gkey+"|feed", p.Pos(g.Pos()), gkey+" "+k.bad+": the dispatcher hands its chunk to a step that reads b[0] without a test, so an empty chunk (a reader returning 0 bytes without error) indexes out of range or is misparsed", "")
		default:
			r.Ok(".FEED-NONEMPTY", p.Pos(g.Pos()), gkey+": the dispatcher is only fed chunks known to be non-empty")
		}
	}
	r.Stats["dispatcher_callers_"+pk] = n
}

package rules

import (
	"fmt"
	"go/token"
	"go/types"
	"sort"
	"strings"

	"golang.org/x/tools/go/ssa"

	"sfcheck/internal/core"
)

// ---------------------------------------------------------------------
// Alias flow of string / []byte values.
//
// followAlias walks forward from a value through everything that still
// shares its memory (re-slicing, type changes, phis, interface boxing,
// local variables, aliasing call results) and reports every place where the
// memory is RETAINED beyond the current call: stores to non-local memory, map
// updates, hand-over to a callee that retains, hand-over to an unknown
// consumer, or return (reported separately).
// Conversions between string and []byte copy and end the flow.
// ---------------------------------------------------------------------

type retainSite struct {
	in   ssa.Instruction
	what string
}

type aliasEnv struct {
	p *core.Prog
	// per function and parameter index
	retains map[*ssa.Function]map[int]string // non-empty: why it is retained
	returns map[*ssa.Function]map[int]bool   // the parameter's memory may be returned
	// accepted retaining sites (FRESH-GATE): call instruction -> reason
	gated map[ssa.Instruction]string
}

func isStringOrBytes(t types.Type) bool {
	if b, ok := t.Underlying().(*types.Basic); ok && b.Info()&types.IsString != 0 {
		return true
	}
	return isByteSlice(t)
}

// viewKind: 1 = []byte->string view producer, 2 = string->[]byte view producer
func viewKind(f *ssa.Function) int {
	if f == nil {
		return 0
	}
	if strings.HasSuffix(funcPkgPath(f), "/internal/unsafe") {
		switch core.FuncName(f) {
		case "Bytes2Str":
			return 1
		case "Str2Bytes":
			return 2
		}
	}
	return 0
}

// unsafeAliasResult: f returns memory of its argument through unsafe tricks
// the SSA flow cannot see (the two header-copying helpers).
func unsafeAliasResult(f *ssa.Function) bool { return viewKind(f) != 0 }

// visitorStringSink: an interface method of the structform Visitor family
// that takes a string BY VALUE: the consumer may keep it.
func visitorKeeps(m *types.Func) bool {
	if m.Pkg() == nil || m.Pkg().Path() != core.ModPath {
		return false
	}
	switch m.Name() {
	case "OnStringRef", "OnKeyRef":
		return false // by-reference contract: consumed or copied inside the callback
	}
	return true
}

func (e *aliasEnv) follow(start ssa.Value, onRetain func(in ssa.Instruction, what string), onReturn func(ret *ssa.Return)) {
	seen := map[ssa.Value]bool{}
	var flow func(v ssa.Value)
	flow = func(v ssa.Value) {
		if v == nil || seen[v] {
			return
		}
		seen[v] = true
		refs := v.Referrers()
		if refs == nil {
			return
		}
		for _, ref := range *refs {
			switch x := ref.(type) {
			case *ssa.Store:
				if x.Val != v {
					continue
				}
				// a store into a local variable of this function: follow the loads
				if allocs := localAllocsOf(x.Addr); len(allocs) > 0 && allLocalNonEscaping(e.p, allocs) {
					for _, a := range allocs {
						loadsOf(a, flow)
					}
					continue
				}
				onRetain(x, "is stored to memory that outlives the call")
			case *ssa.MapUpdate:
				if x.Key == v || x.Value == v {
					onRetain(x, "is stored in a map")
				}
			case *ssa.Slice:
				if x.X == v {
					flow(x)
				}
			case *ssa.ChangeType:
				flow(x)
			case *ssa.ChangeInterface:
				flow(x)
			case *ssa.MakeInterface:
				flow(x)
			case *ssa.TypeAssert:
				flow(x)
			case *ssa.Phi:
				flow(x)
			case *ssa.Extract:
				// only for tuples we put into the flow ourselves (handled at the call)
			case *ssa.Convert:
				// string <-> []byte conversions copy; other conversions keep the memory
				from, to := x.X.Type().Underlying(), x.Type().Underlying()
				_, fs := from.(*types.Basic)
				_, ts := to.(*types.Basic)
				if fs != ts && isStringOrBytes(x.X.Type()) && isStringOrBytes(x.Type()) {
					continue // copy
				}
				if isStringOrBytes(x.Type()) {
					flow(x)
				}
			case *ssa.MakeClosure:
				for bi, b := range x.Bindings {
					if b == v {
						fn := x.Fn.(*ssa.Function)
						if why := e.retains[fn][1000+bi]; why != "" {
							onRetain(x, "is captured by a closure that keeps it ("+why+")")
						} else {
							// the closure itself may outlive the call
							onRetain(x, "is captured by a closure")
						}
					}
				}
			case *ssa.Return:
				for _, r := range x.Results {
					if r == v {
						onReturn(x)
					}
				}
			case *ssa.Send:
				if x.X == v {
					onRetain(x, "is sent on a channel")
				}
			case ssa.CallInstruction:
				cc := x.Common()
				if bi, ok := cc.Value.(*ssa.Builtin); ok {
					switch bi.Name() {
					case "append":
						if len(cc.Args) > 0 && cc.Args[0] == v {
							if val, ok := x.(ssa.Value); ok {
								flow(val) // result shares the destination's array
							}
						}
						// as a source: bytes are copied
					}
					continue
				}
				args := callArgs(cc)
				for ai, a := range args {
					if a != v {
						continue
					}
					if why, ok := e.gated[x]; ok && why != "" {
						continue
					}
					if cc.IsInvoke() {
						m := cc.Method
						switch {
						case m.Pkg() != nil && m.Pkg().Path() == "io" && m.Name() == "Write":
							// io.Writer must not retain p
						case m.Pkg() != nil && m.Pkg().Path() == core.ModPath:
							if visitorKeeps(m) {
								onRetain(x, "is handed to "+m.Name()+" of a visitor the library does not control, which may keep it")
							}
						default:
							// module interface (e.g. gotype.unfolder): union over implementations
							kept := ""
							for _, cal := range calleesOf(e.p, x) {
								if why := e.retains[cal][ai]; why != "" {
									kept = core.FuncKey(cal) + ": " + why
								}
								if e.returns[cal][ai] {
									e.flowResult(x, flow)
								}
							}
							if len(calleesOf(e.p, x)) == 0 {
								kept = "unresolved interface call " + m.Name()
							}
							if kept != "" {
								onRetain(x, "is handed to "+m.Name()+" ("+kept+")")
							}
						}
						continue
					}
					sc := cc.StaticCallee()
					if sc == nil {
						onRetain(x, "is handed to a function value the analysis cannot resolve")
						continue
					}
					if unsafeAliasResult(sc) {
						e.flowResult(x, flow)
						continue
					}
					if sc.Blocks == nil || !e.p.InModule(sc) {
						// external: assumed not to retain; a string/[]byte result may alias
						if val, ok := x.(ssa.Value); ok && externalResultMayAlias(sc) {
							_ = val
							e.flowResult(x, flow)
						}
						continue
					}
					if why := e.retains[sc][ai]; why != "" {
						onRetain(x, "is handed to "+core.FuncKey(sc)+", which keeps it ("+why+")")
					}
					if e.returns[sc][ai] {
						e.flowResult(x, flow)
					}
				}
			}
		}
	}
	flow(start)
}

// flowResult continues the flow into the string/[]byte results of a call.
func (e *aliasEnv) flowResult(c ssa.CallInstruction, flow func(ssa.Value)) {
	val, ok := c.(ssa.Value)
	if !ok {
		return
	}
	if tup, ok := val.Type().(*types.Tuple); ok {
		if refs := val.Referrers(); refs != nil {
			for _, r := range *refs {
				if ex, ok := r.(*ssa.Extract); ok && isStringOrBytes(tup.At(ex.Index).Type()) {
					flow(ex)
				}
			}
		}
		return
	}
	if isStringOrBytes(val.Type()) {
		flow(val)
	}
}

func externalResultMayAlias(f *ssa.Function) bool {
	pk := funcPkgPath(f)
	if pk == "bytes" || pk == "strings" {
		switch core.FuncName(f) {
		case "TrimSpace", "Trim", "TrimLeft", "TrimRight", "TrimPrefix", "TrimSuffix", "TrimFunc", "TrimLeftFunc", "TrimRightFunc", "Fields", "Split", "SplitN":
			return true
		}
	}
	return false
}

// allLocalNonEscaping: the allocations are variables of the current function
// whose address goes nowhere except into loads, stores, and argument lists of
// external (standard library) calls - e.g. the implicit []interface{} of a
// fmt.Errorf call.
func allLocalNonEscaping(p *core.Prog, as []*ssa.Alloc) bool {
	for _, a := range as {
		if allocEscapes(p, a) {
			return false
		}
	}
	return true
}

func allocEscapes(p *core.Prog, a *ssa.Alloc) bool {
	seen := map[ssa.Value]bool{}
	esc := false
	var walk func(v ssa.Value)
	walk = func(v ssa.Value) {
		if seen[v] || esc {
			return
		}
		seen[v] = true
		refs := v.Referrers()
		if refs == nil {
			return
		}
		for _, r := range *refs {
			switch x := r.(type) {
			case *ssa.FieldAddr, *ssa.IndexAddr:
				walk(x.(ssa.Value))
			case *ssa.Slice:
				walk(x)
			case *ssa.UnOp, *ssa.DebugRef:
			case *ssa.Store:
				if x.Val == v {
					esc = true // the address itself is stored
				}
			case ssa.CallInstruction:
				sc := x.Common().StaticCallee()
				if _, isB := x.Common().Value.(*ssa.Builtin); isB {
					continue
				}
				if sc == nil || (sc.Blocks != nil && p.InModule(sc)) {
					esc = true
				}
			default:
				esc = true
			}
		}
	}
	walk(a)
	return esc
}

func loadsOf(a *ssa.Alloc, f func(ssa.Value)) {
	seen := map[ssa.Value]bool{}
	var walk func(v ssa.Value)
	walk = func(v ssa.Value) {
		if seen[v] {
			return
		}
		seen[v] = true
		if refs := v.Referrers(); refs != nil {
			for _, r := range *refs {
				switch x := r.(type) {
				case *ssa.UnOp:
					if x.Op == token.MUL {
						f(x)
					}
				case *ssa.FieldAddr:
					walk(x)
				case *ssa.IndexAddr:
					walk(x)
				}
			}
		}
	}
	walk(a)
}

// computeAliasSummaries: Retains / ReturnsAlias per function parameter, to a fixpoint.
func computeAliasSummaries(e *aliasEnv) *aliasEnv {
	p := e.p
	funcs := p.ModFuncs()
	for changed := true; changed; {
		changed = false
		for _, f := range funcs {
			vals := make([]ssa.Value, 0, len(f.Params)+len(f.FreeVars))
			idx := []int{}
			for i, prm := range f.Params {
				if isStringOrBytes(prm.Type()) || isIfaceOrEmpty(prm.Type()) {
					vals = append(vals, prm)
					idx = append(idx, i)
				}
			}
			for i, fv := range f.FreeVars {
				if pt, ok := fv.Type().(*types.Pointer); ok && isStringOrBytes(pt.Elem()) {
					_ = i
				}
			}
			for k, v := range vals {
				i := idx[k]
				if !isStringOrBytes(v.Type()) {
					continue
				}
				e.follow(v, func(in ssa.Instruction, what string) {
					if e.retains[f] == nil {
						e.retains[f] = map[int]string{}
					}
					if e.retains[f][i] == "" {
						e.retains[f][i] = what + " at " + p.Pos(token.Pos(instrPos(in)))
						changed = true
					}
				}, func(ret *ssa.Return) {
					if e.returns[f] == nil {
						e.returns[f] = map[int]bool{}
					}
					if !e.returns[f][i] {
						e.returns[f][i] = true
						changed = true
					}
				})
			}
		}
	}
	return e
}

func isIfaceOrEmpty(t types.Type) bool {
	_, ok := t.Underlying().(*types.Interface)
	return ok
}

// ---------------------------------------------------------------------
// FRESH-GATE (json): a zero-copy view may be handed to a consumer that keeps
// it only when the bytes are freshly allocated and owned by nobody else.
// ---------------------------------------------------------------------

type r16fstate struct {
	fresh  valueSet // values that are (slices of) a buffer allocated in this function
	bt, bf valueSet
}
type r16fclient struct {
	p      *core.Prog
	fn     *ssa.Function
	num    *valueNumbering
	bufIdx int // result index of the buffer
	flagIdx int // result index of the "allocated" flag
	bad    map[string]string
	freshReturns int
}

func (k *r16fclient) Key(s r16fstate) string { return s.fresh.key() + "|" + s.bt.key() + "|" + s.bf.key() }
func (k *r16fclient) Phis(s r16fstate, blk *ssa.BasicBlock, pred int) r16fstate {
	type upd struct {
		id            int
		fresh, bt, bf bool
	}
	var ups []upd
	for _, in := range blk.Instrs {
		phi, ok := in.(*ssa.Phi)
		if !ok {
			break
		}
		if pred < 0 || pred >= len(phi.Edges) {
			continue
		}
		e := phi.Edges[pred]
		u := upd{id: k.num.id(phi), fresh: s.fresh.has(k.num.id(e))}
		if cv, ok := constBool(e); ok {
			u.bt, u.bf = cv, !cv
		} else {
			u.bt, u.bf = s.bt.has(k.num.id(e)), s.bf.has(k.num.id(e))
		}
		ups = append(ups, u)
	}
	for _, u := range ups {
		s.fresh, s.bt, s.bf = s.fresh.without(u.id), s.bt.without(u.id), s.bf.without(u.id)
		if u.fresh {
			s.fresh = s.fresh.with(u.id)
		}
		if u.bt {
			s.bt = s.bt.with(u.id)
		}
		if u.bf {
			s.bf = s.bf.with(u.id)
		}
	}
	return s
}
func (k *r16fclient) fail(key, msg string) {
	if k.bad == nil {
		k.bad = map[string]string{}
	}
	k.bad[key] = msg
}
func (k *r16fclient) Instr(s r16fstate, in ssa.Instruction) (r16fstate, bool, []r16fstate) {
	switch x := in.(type) {
	case *ssa.MakeSlice:
		s.fresh = s.fresh.with(k.num.id(x))
	case *ssa.Slice:
		if s.fresh.has(k.num.id(x.X)) {
			s.fresh = s.fresh.with(k.num.id(x))
		}
	case *ssa.Store:
		if s.fresh.has(k.num.id(x.Val)) {
			if allocs := localAllocsOf(x.Addr); len(allocs) == 0 || !allLocalNonEscaping(k.p, allocs) {
				k.fail("ESCAPE", fmt.Sprintf("stores the freshly allocated buffer at %s: it is no longer exclusively owned by the string that is handed out zero-copy, so a later reuse overwrites a string the consumer may have kept", k.p.Pos(token.Pos(instrPos(x)))))
			}
		}
	}
	return s, true, nil
}
func (k *r16fclient) Branch(s r16fstate, cond ssa.Value, outcome bool) (r16fstate, bool) {
	for {
		u, ok := cond.(*ssa.UnOp)
		if !ok || u.Op != token.NOT {
			break
		}
		cond, outcome = u.X, !outcome
	}
	id := k.num.id(cond)
	if s.bt.has(id) && !outcome || s.bf.has(id) && outcome {
		return s, false
	}
	return s, true
}
func (k *r16fclient) Return(s r16fstate, ret *ssa.Return) {
	flag := ret.Results[k.flagIdx]
	if cv, ok := constBool(flag); ok && !cv {
		return
	}
	if s.bf.has(k.num.id(flag)) {
		return
	}
	// the flag may be true: the buffer must be fresh
	k.freshReturns++
	if !s.fresh.has(k.num.id(ret.Results[k.bufIdx])) {
		k.fail("NOT-FRESH", fmt.Sprintf("returns allocated=true at %s with a buffer that was not allocated on this path (it may be the parser's reusable literal buffer)", k.p.Pos(token.Pos(instrPos(ret)))))
	}
}

// compRef names one component of a call's result: a tuple index, optionally
// followed by a field index of a struct-typed result ("0", "0.2").
type compRef struct {
	call *ssa.Call
	path string
}

// resolveComp: v is a component of a call result, read directly or through a
// local the whole result was stored into once.
func resolveComp(v ssa.Value, depth int) (compRef, bool) {
	if depth > 4 {
		return compRef{}, false
	}
	switch x := v.(type) {
	case *ssa.Call:
		if x.Common().Signature().Results().Len() == 1 {
			return compRef{x, "0"}, true
		}
	case *ssa.Extract:
		if c, ok := x.Tuple.(*ssa.Call); ok {
			return compRef{c, fmt.Sprint(x.Index)}, true
		}
	case *ssa.Field:
		if r, ok := resolveComp(x.X, depth+1); ok {
			return compRef{r.call, fmt.Sprintf("%s.%d", r.path, x.Field)}, true
		}
	case *ssa.UnOp:
		if x.Op != token.MUL {
			break
		}
		switch a := x.X.(type) {
		case *ssa.FieldAddr:
			al, ok := a.X.(*ssa.Alloc)
			if !ok {
				break
			}
			if whole := soleWholeStore(al); whole != nil {
				if r, ok := resolveComp(whole, depth+1); ok {
					return compRef{r.call, fmt.Sprintf("%s.%d", r.path, a.Field)}, true
				}
			}
		case *ssa.Alloc:
			if whole := soleWholeStore(a); whole != nil {
				return resolveComp(whole, depth+1)
			}
		}
	}
	return compRef{}, false
}

// resolveRoot is resolveComp for values that may also be (fields of) a
// parameter: the root is a *ssa.Call or a *ssa.Parameter; the path of a call
// result starts with its tuple index, the path of a parameter with a field
// index ("" for the parameter itself).
func resolveRoot(v ssa.Value, depth int) (ssa.Value, string, bool) {
	if depth > 5 {
		return nil, "", false
	}
	join := func(a string, f int) string {
		if a == "" {
			return fmt.Sprint(f)
		}
		return fmt.Sprintf("%s.%d", a, f)
	}
	switch x := v.(type) {
	case *ssa.Parameter:
		return x, "", true
	case *ssa.Call:
		if x.Common().Signature().Results().Len() == 1 {
			return x, "0", true
		}
	case *ssa.Extract:
		if c, ok := x.Tuple.(*ssa.Call); ok {
			return c, fmt.Sprint(x.Index), true
		}
	case *ssa.Field:
		if r, pth, ok := resolveRoot(x.X, depth+1); ok {
			return r, join(pth, x.Field), true
		}
	case *ssa.UnOp:
		if x.Op != token.MUL {
			break
		}
		switch a := x.X.(type) {
		case *ssa.FieldAddr:
			al, ok := a.X.(*ssa.Alloc)
			if !ok {
				break
			}
			if whole := soleWholeStore(al); whole != nil {
				if r, pth, ok := resolveRoot(whole, depth+1); ok {
					return r, join(pth, a.Field), true
				}
			}
		case *ssa.Alloc:
			if whole := soleWholeStore(a); whole != nil {
				return resolveRoot(whole, depth+1)
			}
		}
	}
	return nil, "", false
}

// componentType: the type of a result component named by a path of resultPaths.
func componentType(sig *types.Signature, path string) types.Type {
	parts := strings.Split(path, ".")
	var idx int
	if _, err := fmt.Sscan(parts[0], &idx); err != nil || idx >= sig.Results().Len() {
		return nil
	}
	t := sig.Results().At(idx).Type()
	for _, ps := range parts[1:] {
		st, ok := t.Underlying().(*types.Struct)
		var f int
		if _, err := fmt.Sscan(ps, &f); err != nil || !ok || f >= st.NumFields() {
			return nil
		}
		t = st.Field(f).Type()
	}
	return t
}

// soleWholeStore: the local is written exactly once, as a whole, and otherwise
// only read (whole or field-wise); returns the stored value.
func soleWholeStore(a *ssa.Alloc) ssa.Value {
	var val ssa.Value
	if a.Referrers() == nil {
		return nil
	}
	for _, rf := range *a.Referrers() {
		switch x := rf.(type) {
		case *ssa.Store:
			if x.Addr != ssa.Value(a) || val != nil {
				return nil
			}
			val = x.Val
		case *ssa.UnOp:
			if x.Op != token.MUL {
				return nil
			}
		case *ssa.FieldAddr:
			if x.Referrers() != nil {
				for _, fr := range *x.Referrers() {
					if u, ok := fr.(*ssa.UnOp); !ok || u.Op != token.MUL {
						return nil
					}
				}
			}
		case *ssa.DebugRef:
		default:
			return nil
		}
	}
	return val
}

// resultPaths: the components of a signature's results, one level into
// struct-typed results.
func resultPaths(sig *types.Signature) []string {
	var out []string
	for i := 0; i < sig.Results().Len(); i++ {
		out = append(out, fmt.Sprint(i))
		if st, ok := sig.Results().At(i).Type().Underlying().(*types.Struct); ok {
			for j := 0; j < st.NumFields(); j++ {
				out = append(out, fmt.Sprintf("%d.%d", i, j))
			}
		}
	}
	return out
}

// returnComponent: the value a return statement gives the component; zero is
// set when it is the zero value of a struct built without that field.
func returnComponent(ret *ssa.Return, path string) (v ssa.Value, zero bool, ok bool) {
	parts := strings.Split(path, ".")
	var idx, fld int
	if _, err := fmt.Sscan(parts[0], &idx); err != nil || idx >= len(ret.Results) {
		return nil, false, false
	}
	rv := ret.Results[idx]
	if len(parts) == 1 {
		return rv, false, true
	}
	if _, err := fmt.Sscan(parts[1], &fld); err != nil {
		return nil, false, false
	}
	if c, isC := rv.(*ssa.Const); isC && c.Value == nil {
		return nil, true, true
	}
	ld, isLd := rv.(*ssa.UnOp)
	if !isLd || ld.Op != token.MUL {
		return nil, false, false
	}
	al, isAl := ld.X.(*ssa.Alloc)
	if !isAl || al.Referrers() == nil {
		return nil, false, false
	}
	var stored ssa.Value
	n := 0
	for _, rf := range *al.Referrers() {
		switch x := rf.(type) {
		case *ssa.Store:
			if x.Addr == ssa.Value(al) {
				return nil, false, false // whole-value store: not a plain literal
			}
		case *ssa.FieldAddr:
			if x.Field != fld || x.Referrers() == nil {
				continue
			}
			for _, fr := range *x.Referrers() {
				if st, ok := fr.(*ssa.Store); ok && st.Addr == ssa.Value(x) {
					stored = st.Val
					n++
				}
			}
		}
	}
	switch n {
	case 0:
		return nil, true, true
	case 1:
		return stored, false, true
	}
	return nil, false, false
}

// ---------------------------------------------------------------------
// R16
// ---------------------------------------------------------------------

func R16(p *core.Prog) *core.Result {
	r := core.NewResult("R16", "zero-copy views are looked at, never kept; by-reference strings are copied or consumed inside the callback; parser inputs are only read and not retained; json hands a view to a consumer only for freshly allocated, exclusively owned bytes; unsafe.Pointer/uintptr conversions have the accepted single-expression form")
	env := &aliasEnv{p: p, retains: map[*ssa.Function]map[int]string{}, returns: map[*ssa.Function]map[int]bool{}, gated: map[ssa.Instruction]string{}}
	wsum := ComputeWriteSummaries(p)
	typeGate(p, r)
	emptyIfaceGate(p, r)

	// (b) FRESH-GATE for json: unquote
	unq := p.LookupFunc("json", "(*Parser).unquote")
	dos := p.LookupFunc("json", "(*Parser).doString")
	if unq == nil || dos == nil {
		r.Undecided(".FRESH-GATE", "json.unquote", "json.(*Parser).unquote / doString not found")
	} else {
		k := &r16fclient{p: p, fn: unq, num: newNumbering(), bufIdx: 0, flagIdx: 1}
		_, capped := WalkPaths[r16fstate](k, unq.Blocks[0], 0, r16fstate{}, 400000, nil)
		if capped {
			r.Undecided(".FRESH-GATE", "json.unquote|cap", "state cap hit")
		}
		if len(k.bad) == 0 && k.freshReturns > 0 {
			r.Ok(".FRESH-GATE", p.Pos(unq.Pos()), "json.unquote: allocated=true only together with a buffer allocated on that path and stored nowhere else")
		} else if k.freshReturns == 0 {
			r.Undecided(".FRESH-GATE", "json.unquote|noflag", "unquote never returns allocated=true: anchor lost")
		}
		for _, kk := range sortedKeys(k.bad) {
			r.Fail(".FRESH-GATE", "json.(*Parser).unquote|"+kk, p.Pos(unq.Pos()), "json.(*Parser).unquote "+k.bad[kk], "")
		}
		// doString passes unquote's (buffer, allocated) through unchanged - as two results, or as two fields of a
		// result struct: find the components that carry them
		okPass := true
		bufPath, flagPath := "", ""
		paths := resultPaths(dos.Signature)
		for _, b := range dos.Blocks {
			for _, in := range b.Instrs {
				ret, ok := in.(*ssa.Return)
				if !ok {
					continue
				}
				for _, pth := range paths {
					v, zero, ok := returnComponent(ret, pth)
					if !ok || zero {
						continue
					}
					if ex, ok := v.(*ssa.Extract); ok {
						if c, ok := ex.Tuple.(*ssa.Call); ok && c.Common().StaticCallee() == unq {
							switch ex.Index {
							case 0:
								if bufPath != "" && bufPath != pth {
									okPass = false
								}
								bufPath = pth
							case 1:
								if flagPath != "" && flagPath != pth {
									okPass = false
								}
								flagPath = pth
							}
						}
					}
				}
			}
		}
		if bufPath == "" || flagPath == "" {
			okPass = false
		}
		for _, b := range dos.Blocks {
			for _, in := range b.Instrs {
				ret, ok := in.(*ssa.Return)
				if !ok || !okPass {
					continue
				}
				b0, z0, k0 := returnComponent(ret, bufPath)
				f0, z1, k1 := returnComponent(ret, flagPath)
				if !k0 || !k1 {
					okPass = false
					continue
				}
				if z0 || isNilConst(b0) {
					if z1 {
						continue
					}
					if cv, ok := constBool(f0); ok && !cv {
						continue
					}
				}
				if z0 || z1 {
					okPass = false
					continue
				}
				e0, ok0 := b0.(*ssa.Extract)
				e1, ok1 := f0.(*ssa.Extract)
				if !(ok0 && ok1 && e0.Tuple == e1.Tuple && e0.Index == 0 && e1.Index == 1) {
					okPass = false
					continue
				}
				if c, ok := e0.Tuple.(*ssa.Call); !ok || c.Common().StaticCallee() != unq {
					okPass = false
				}
			}
		}
		if okPass {
			r.Ok(".FRESH-GATE", p.Pos(dos.Pos()), "json.doString hands unquote's (buffer, allocated) pair on unchanged")
		} else {
			r.Fail(".FRESH-GATE", "json.(*Parser).doString|passthrough", p.Pos(dos.Pos()), "json.(*Parser).doString no longer returns exactly the (buffer, allocated) pair of one unquote call: the allocated flag may describe a different buffer", "")
		}
		// gated call sites: visitor.OnString/OnKey(bytes2Str(ref)) on the allocated==true branch of the same doString call
		for _, f := range p.ModFuncs() {
			if core.FuncPkg(f) == nil || core.FuncPkg(f).Name() != "json" {
				continue
			}
			for _, b := range f.Blocks {
				for _, in := range b.Instrs {
					call, ok := in.(*ssa.Call)
					if !ok || !call.Common().IsInvoke() || !visitorKeeps(call.Common().Method) {
						continue
					}
					for _, a := range call.Common().Args {
						vc, ok := a.(*ssa.Call)
						if !ok {
							continue
						}
						sc := vc.Common().StaticCallee()
						if sc == nil || !(viewKind(sc) == 1 || isViewWrapper(sc, 1)) {
							continue
						}
						// the argument of the view
						src := vc.Common().Args[0]
						okGate := false
						if sref, ok := resolveComp(src, 0); ok && sref.path == bufPath && sref.call.Common().StaticCallee() == dos && okPass {
							// dominated by true edge of the allocated component of the same call
							for d := b; d != nil; d = d.Idom() {
								id := d.Idom()
								if id == nil {
									break
								}
								iff, ok := id.Instrs[len(id.Instrs)-1].(*ssa.If)
								if !ok {
									continue
								}
								cond, want := iff.Cond, true
								for {
									u, ok := cond.(*ssa.UnOp)
									if !ok || u.Op != token.NOT {
										break
									}
									cond, want = u.X, !want
								}
								if fref, ok := resolveComp(cond, 0); ok && fref.call == sref.call && fref.path == flagPath {
									edge := 0
									if !want {
										edge = 1
									}
									if id.Succs[edge] == d && len(d.Preds) == 1 {
										okGate = true
									}
								}
							}
						}
						pos := p.Pos(call.Pos())
						if okGate {
							env.gated[call] = "allocated==true"
							r.Ok(".FRESH-GATE", pos, core.FuncKey(f)+": view handed to "+call.Common().Method.Name()+" only on the allocated==true branch")
						} else {
							r.Fail(".FRESH-GATE", core.FuncKey(f)+"|"+call.Common().Method.Name(), pos, core.FuncKey(f)+" hands a zero-copy view of parser memory to "+call.Common().Method.Name()+" without the allocated==true gate of the doString call that produced the bytes", "")
						}
					}
				}
			}
		}
	}

	computeAliasSummaries(env)

	// (a) VIEW-LOOKUP-ONLY: every []byte->string view
	views := 0
	var producers []*ssa.Function
	for _, f := range p.ModFuncs() {
		if viewKind(f) == 1 || isViewWrapper(f, 1) {
			producers = append(producers, f)
		}
	}
	isProducer := map[*ssa.Function]bool{}
	for _, f := range producers {
		isProducer[f] = true
	}
	// functions that return a view they obtained are producers too (transitively)
	for changed := true; changed; {
		changed = false
		for _, f := range p.ModFuncs() {
			if isProducer[f] || viewKind(f) != 0 {
				continue
			}
			for _, b := range f.Blocks {
				for _, in := range b.Instrs {
					c, ok := in.(*ssa.Call)
					if !ok {
						continue
					}
					sc := c.Common().StaticCallee()
					if sc == nil || !isProducer[sc] {
						continue
					}
					returned := false
					env.follow(c, func(ssa.Instruction, string) {}, func(*ssa.Return) { returned = true })
					if returned && !isProducer[f] {
						isProducer[f] = true
						changed = true
					}
				}
			}
		}
	}
	for _, f := range p.ModFuncs() {
		if viewKind(f) != 0 || isViewWrapper(f, 1) {
			continue
		}
		n := 0
		for _, b := range f.Blocks {
			for _, in := range b.Instrs {
				c, ok := in.(*ssa.Call)
				if !ok {
					continue
				}
				sc := c.Common().StaticCallee()
				if sc == nil || !isProducer[sc] {
					continue
				}
				views++
				n++
				fkey := core.FuncKey(f)
				pos := p.Pos(c.Pos())
				var bad []string
				env.follow(c, func(in ssa.Instruction, what string) {
					bad = append(bad, what+" at "+p.Pos(token.Pos(instrPos(in))))
				}, func(*ssa.Return) {})
				if len(bad) == 0 {
					r.Ok(".VIEW-LOOKUP-ONLY", pos, fkey+": zero-copy string view is only looked at / consumed")
				} else {
					sort.Strings(bad)
					r.Fail(".VIEW-LOOKUP-ONLY", fmt.Sprintf("%s|%s#%d", fkey, core.FuncName(sc), n), pos, fmt.Sprintf("%s: a zero-copy string view of a transient []byte (%s) %s: the stored value changes when the buffer is reused", fkey, core.FuncKey(sc), bad[0]), strings.Join(bad, "; "))
				}
			}
		}
	}
	r.Floor("string_views", views, 5)

	// (c) REF-COPY: OnStringRef / OnKeyRef keep nothing of their []byte argument
	refs := 0
	for _, f := range p.ModFuncs() {
		if f.Signature.Recv() == nil || (core.FuncName(f) != "OnStringRef" && core.FuncName(f) != "OnKeyRef") {
			continue
		}
		for i, prm := range f.Params {
			if !isByteSlice(prm.Type()) {
				continue
			}
			refs++
			fkey := core.FuncKey(f)
			if why := env.retains[f][i]; why != "" {
				r.Fail(".REF-COPY", fkey, p.Pos(f.Pos()), fkey+": the by-reference bytes "+why+"; the producer reuses that memory after the callback returns", "")
			} else {
				r.Ok(".REF-COPY", p.Pos(f.Pos()), fkey+": by-reference bytes are copied, forwarded by reference, written out or only looked at")
			}
		}
	}
	r.Floor("byref_methods", refs, 55)

	// (d) INPUT-READONLY / NO-RETAIN for the parsers' chunk parameters
	chunks := 0
	for _, pk := range []string{"json", "cborl", "ubjson"} {
		fam, err := buildFamily(p, pk)
		if err != nil {
			r.Undecided(".INPUT", pk, err.Error())
			continue
		}
		var fns []*ssa.Function
		for f := range fam.steps {
			fns = append(fns, f)
		}
		for _, n := range []string{"feedUntil", "feed", "Write", "Parse", "collect"} {
			if f := p.LookupFunc(pk, "(*Parser)."+n); f != nil {
				fns = append(fns, f)
			}
		}
		sort.Slice(fns, func(i, j int) bool { return fns[i].Pos() < fns[j].Pos() })
		for _, f := range fns {
			for i, prm := range f.Params {
				if !isByteSlice(prm.Type()) || i == 0 {
					continue
				}
				if isLiteralTableParam(prm) {
					continue
				}
				chunks++
				fkey := core.FuncKey(f)
				pos := p.Pos(f.Pos())
				if wsum.Writes[f][i] {
					r.Fail(".INPUT-READONLY", fkey+"|"+prm.Name(), pos, fkey+" may write through its input chunk "+prm.Name()+" ("+wsum.Why[f][i]+"): the caller's buffer (or immutable string memory via ParseString) is modified", "")
				} else if why := env.retains[f][i]; why != "" {
					r.Fail(".NO-RETAIN", fkey+"|"+prm.Name(), pos, fkey+": the input chunk "+prm.Name()+" "+why+"; the parser keeps pointing into the caller's buffer after the call", "")
				} else {
					r.Ok(".INPUT", pos, fkey+": input chunk "+prm.Name()+" is only read and not retained")
				}
			}
		}
	}
	r.Floor("chunk_params", chunks, 60)

	// string->[]byte views are never written through
	sviews := 0
	for _, f := range p.ModFuncs() {
		if viewKind(f) != 0 {
			continue
		}
		for _, b := range f.Blocks {
			for _, in := range b.Instrs {
				c, ok := in.(*ssa.Call)
				if !ok {
					continue
				}
				sc := c.Common().StaticCallee()
				if sc == nil || !(viewKind(sc) == 2 || isViewWrapper(sc, 2)) || isViewWrapper(f, 2) {
					continue
				}
				sviews++
				fkey := core.FuncKey(f)
				bad := writtenThrough(p, wsum, c)
				if bad == "" {
					r.Ok(".STR-VIEW-READONLY", p.Pos(c.Pos()), fkey+": []byte view of string memory is only read")
				} else {
					r.Fail(".STR-VIEW-READONLY", fkey+"|"+core.FuncName(sc), p.Pos(c.Pos()), fkey+": a []byte view of immutable string memory "+bad, "")
				}
			}
		}
	}
	r.Floor("bytes_views_of_strings", sviews, 10)

	// (e) UNSAFEPTR
	unsafePtrRule(p, r)
	reflPtrIndirect(p, r)
	return r
}

// isViewWrapper: a function that only returns the result of a view producer
// applied to its own parameter (the per-package bytes2Str / str2Bytes).
func isViewWrapper(f *ssa.Function, kind int) bool {
	if f == nil || f.Blocks == nil || len(f.Blocks) != 1 || len(f.Params) != 1 {
		return false
	}
	for _, in := range f.Blocks[0].Instrs {
		if ret, ok := in.(*ssa.Return); ok && len(ret.Results) == 1 {
			if c, ok := ret.Results[0].(*ssa.Call); ok {
				if sc := c.Common().StaticCallee(); sc != nil && viewKind(sc) == kind && len(c.Common().Args) == 1 && c.Common().Args[0] == ssa.Value(f.Params[0]) {
					return true
				}
			}
		}
	}
	return false
}

// writtenThrough follows a []byte value and reports a write through it.
func writtenThrough(p *core.Prog, wsum *ParamSummary, start ssa.Value) string {
	seen := map[ssa.Value]bool{}
	res := ""
	var flow func(v ssa.Value)
	flow = func(v ssa.Value) {
		if v == nil || seen[v] || res != "" {
			return
		}
		seen[v] = true
		refs := v.Referrers()
		if refs == nil {
			return
		}
		for _, ref := range *refs {
			switch x := ref.(type) {
			case *ssa.Slice:
				flow(x)
			case *ssa.Phi:
				flow(x)
			case *ssa.IndexAddr:
				if x.X == v {
					if rs := x.Referrers(); rs != nil {
						for _, r2 := range *rs {
							if st, ok := r2.(*ssa.Store); ok && st.Addr == ssa.Value(x) {
								res = "has an element assigned at " + p.Pos(st.Pos())
							}
						}
					}
				}
			case ssa.CallInstruction:
				cc := x.Common()
				if bi, ok := cc.Value.(*ssa.Builtin); ok {
					if (bi.Name() == "copy" || bi.Name() == "append") && len(cc.Args) > 0 && cc.Args[0] == v {
						res = "is the destination of " + bi.Name() + " at " + p.Pos(x.Pos())
					}
					continue
				}
				for ai, a := range callArgs(cc) {
					if a != v {
						continue
					}
					for _, cal := range calleesOf(p, x) {
						if cal.Blocks != nil && p.InModule(cal) {
							if wsum.Writes[cal][ai] {
								res = "is passed to " + core.FuncKey(cal) + ", which writes through it (" + wsum.Why[cal][ai] + ")"
							}
						} else if externalWriter(cal, ai) {
							res = "is passed to " + cal.String() + ", which writes into it"
						}
					}
				}
			}
		}
	}
	flow(start)
	return res
}

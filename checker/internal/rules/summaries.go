package rules

import (
	"go/types"

	"golang.org/x/tools/go/ssa"

	"sfcheck/internal/core"
)

// ParamSummary says, per function and parameter index (receiver is index 0
// for methods, as in ssa.Function.Params), whether memory reachable from the
// parameter may be written by the function or its callees.
type ParamSummary struct {
	Writes map[*ssa.Function]map[int]bool
	// site that justifies the bit, for diagnostics
	Why map[*ssa.Function]map[int]string
}

// externalWriter says whether an external (non-module) callee writes through
// its argument number i. Only a deny-list of well known writers is modelled;
// everything else outside the module is assumed to read only (io.Writer.Write
// must not modify its argument by contract; reflect.Value setters are listed).
func externalWriter(f *ssa.Function, i int) bool {
	if f == nil {
		return false
	}
	pk := funcPkgPath(f)
	name := core.FuncName(f)
	switch pk {
	case "encoding/binary":
		// (bigEndian).PutUint16(b, v): receiver is param 0, b is param 1
		if len(name) > 3 && name[:3] == "Put" {
			return i == 1 || i == 0 && f.Signature.Recv() == nil
		}
		if len(name) > 6 && name[:6] == "Append" {
			return true
		}
	case "sort":
		return i == 0
	case "bytes":
		if f.Signature.Recv() != nil && i == 0 {
			// methods of *bytes.Buffer with pointer receiver mutate it
			if _, ok := f.Signature.Recv().Type().(*types.Pointer); ok {
				switch name {
				case "Len", "Bytes", "String", "Cap", "Available":
					return false
				}
				return true
			}
		}
	case "sync", "sync/atomic":
		return i == 0
	case "reflect":
		if f.Signature.Recv() != nil && i == 0 {
			switch {
			case len(name) >= 3 && name[:3] == "Set":
				return true
			}
		}
		if name == "Copy" {
			return i == 0
		}
	case "strconv":
		if len(name) > 6 && name[:6] == "Append" {
			return i == 0
		}
	case "unicode/utf8":
		if name == "EncodeRune" || name == "AppendRune" {
			return i == 0
		}
	case "io":
		if name == "ReadFull" || name == "ReadAtLeast" {
			return i == 1
		}
	}
	return false
}

// paramIndex returns the index of v in f.Params, or -1; free variables are
// reported as 1000+index.
func paramIndex(f *ssa.Function, v ssa.Value) int {
	for i, p := range f.Params {
		if p == v {
			return i
		}
	}
	for i, fv := range f.FreeVars {
		if fv == v {
			return 1000 + i
		}
	}
	return -1
}

// writeSites enumerates the (instruction, written reference) pairs of a
// function: stores, map updates, and builtin append/copy/delete/clear
// destinations. Stores that initialise a local allocation are included; the
// caller filters by origin.
func writeSites(f *ssa.Function, visit func(in ssa.Instruction, ref ssa.Value, what string)) {
	for _, b := range f.Blocks {
		for _, in := range b.Instrs {
			switch x := in.(type) {
			case *ssa.Store:
				visit(in, x.Addr, "store")
			case *ssa.MapUpdate:
				visit(in, x.Map, "map update")
			case ssa.CallInstruction:
				c := x.Common()
				if bi, ok := c.Value.(*ssa.Builtin); ok {
					switch bi.Name() {
					case "append":
						if len(c.Args) > 0 {
							visit(in, c.Args[0], "append into")
						}
					case "copy":
						if len(c.Args) > 0 {
							visit(in, c.Args[0], "copy into")
						}
					case "delete":
						if len(c.Args) > 0 {
							visit(in, c.Args[0], "delete from")
						}
					case "clear":
						if len(c.Args) > 0 {
							visit(in, c.Args[0], "clear")
						}
					}
				}
			}
		}
	}
}

// isLocalAllocRoot reports whether o is memory allocated inside the function
// itself (local variable, new(T), composite literal, make) — writes rooted
// only there do not touch anything the caller can see before the function
// returns it.
func isLocalAllocRoot(o ssa.Value) bool {
	switch o.(type) {
	case *ssa.Alloc, *ssa.MakeSlice, *ssa.MakeMap, *ssa.MakeChan, *ssa.MakeClosure:
		return true
	}
	return false
}

// callArgs returns the actual arguments of a call aligned with the callee's
// Params (receiver first for invoke-mode and method calls).
func callArgs(c *ssa.CallCommon) []ssa.Value {
	if c.IsInvoke() {
		return append([]ssa.Value{c.Value}, c.Args...)
	}
	return c.Args
}

// ComputeWriteSummaries computes the "writes through parameter" bits to a
// fixpoint over the module's functions.
func ComputeWriteSummaries(p *core.Prog) *ParamSummary {
	s := &ParamSummary{Writes: map[*ssa.Function]map[int]bool{}, Why: map[*ssa.Function]map[int]string{}}
	funcs := p.ModFuncs()
	set := func(f *ssa.Function, i int, why string) bool {
		if s.Writes[f] == nil {
			s.Writes[f] = map[int]bool{}
			s.Why[f] = map[int]string{}
		}
		if s.Writes[f][i] {
			return false
		}
		s.Writes[f][i] = true
		s.Why[f][i] = why
		return true
	}
	// direct writes
	for _, f := range funcs {
		f := f
		writeSites(f, func(in ssa.Instruction, ref ssa.Value, what string) {
			for _, o := range origins(ref) {
				if i := paramIndex(f, o); i >= 0 {
					set(f, i, what+" at "+p.Pos(in.Pos()))
				}
			}
		})
	}
	// propagate through calls
	for changed := true; changed; {
		changed = false
		for _, f := range funcs {
			for _, b := range f.Blocks {
				for _, in := range b.Instrs {
					site, ok := in.(ssa.CallInstruction)
					if !ok {
						continue
					}
					c := site.Common()
					if _, isB := c.Value.(*ssa.Builtin); isB {
						continue
					}
					args := callArgs(c)
					callees := calleesOf(p, site)
					for ai, a := range args {
						written := ""
						for _, cal := range callees {
							if cal.Blocks == nil || !p.InModule(cal) {
								if externalWriter(cal, ai) {
									written = "passed to " + cal.String()
								}
								continue
							}
							if s.Writes[cal][ai] {
								written = "passed to " + core.FuncKey(cal) + " (" + s.Why[cal][ai] + ")"
							}
						}
						if written == "" {
							continue
						}
						for _, o := range origins(a) {
							if i := paramIndex(f, o); i >= 0 {
								if set(f, i, written) {
									changed = true
								}
							}
						}
					}
					// closures: a MakeClosure binding that is written inside the closure
					if mc, ok := c.Value.(*ssa.MakeClosure); ok {
						fn := mc.Fn.(*ssa.Function)
						for bi, bv := range mc.Bindings {
							if s.Writes[fn][1000+bi] {
								for _, o := range origins(bv) {
									if i := paramIndex(f, o); i >= 0 {
										if set(f, i, "captured by closure "+core.FuncKey(fn)) {
											changed = true
										}
									}
								}
							}
						}
					}
				}
			}
		}
	}
	return s
}

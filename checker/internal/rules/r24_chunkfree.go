package rules

import (
	"fmt"
	"go/token"
	"go/types"
	"sort"

	"golang.org/x/tools/go/ssa"

	"sfcheck/internal/core"
)

// ---- (n) EVENT-ARG-CHUNK-FREE ----
//
// What a parser reports must not depend on where the input was cut. The one
// quantity of a step that is nothing but "where the input was cut" is the
// length of the chunk it was handed. No integer argument of a visitor event
// (an announced length, a number) may be computed from len(chunk) - directly,
// through arithmetic, min/max, a clamp `if len(b) < n { n = len(b) }` (a phi),
// or through a parser field that was updated with such a value earlier on the
// same path (a countdown of the bytes still missing that is decremented by the
// size of this chunk BEFORE the total is announced).

type cfState struct {
	t   valueSet
	mem stringSet
}
type cfClient struct {
	p     *core.Prog
	fn    *ssa.Function
	sf    *stepFn
	num   *valueNumbering
	bad   map[string]string
	sites int
}

func (k *cfClient) Key(s cfState) string { return s.t.key() + "|" + s.mem.key() }
func (k *cfClient) Phis(s cfState, blk *ssa.BasicBlock, pred int) cfState {
	type upd struct {
		id int
		t  bool
	}
	var ups []upd
	for _, in := range blk.Instrs {
		phi, ok := in.(*ssa.Phi)
		if !ok {
			break
		}
		if pred < 0 || pred >= len(phi.Edges) {
			continue
		}
		ups = append(ups, upd{k.num.id(phi), s.t.has(k.num.id(phi.Edges[pred]))})
	}
	for _, u := range ups {
		s.t = s.t.without(u.id)
		if u.t {
			s.t = s.t.with(u.id)
		}
	}
	return s
}
func (k *cfClient) fromChunk(v ssa.Value) bool {
	for _, o := range origins(v) {
		if o == ssa.Value(k.sf.chunk) {
			return true
		}
	}
	return false
}
func isIntegerType(t types.Type) bool {
	b, ok := t.Underlying().(*types.Basic)
	return ok && b.Info()&types.IsInteger != 0
}
func (k *cfClient) set(s cfState, v ssa.Value, t bool) cfState {
	id := k.num.id(v)
	if t {
		s.t = s.t.with(id)
	} else {
		s.t = s.t.without(id)
	}
	return s
}
func (k *cfClient) Instr(s cfState, in ssa.Instruction) (cfState, bool, []cfState) {
	switch x := in.(type) {
	case *ssa.BinOp:
		if isIntegerType(x.Type()) {
			s = k.set(s, x, s.t.has(k.num.id(x.X)) || s.t.has(k.num.id(x.Y)))
		}
	case *ssa.Convert:
		s = k.set(s, x, s.t.has(k.num.id(x.X)))
	case *ssa.ChangeType:
		s = k.set(s, x, s.t.has(k.num.id(x.X)))
	case *ssa.UnOp:
		switch x.Op {
		case token.MUL:
			key := addrKey(x.X)
			s = k.set(s, x, key != "" && s.mem.has(key))
		case token.SUB, token.XOR:
			s = k.set(s, x, s.t.has(k.num.id(x.X)))
		}
	case *ssa.Store:
		if key := addrKey(x.Addr); key != "" {
			if s.t.has(k.num.id(x.Val)) {
				s.mem = s.mem.with(key)
			} else {
				s.mem = s.mem.without(key)
			}
		}
	case *ssa.Call:
		cc := x.Common()
		if bi, ok := cc.Value.(*ssa.Builtin); ok {
			switch bi.Name() {
			case "len", "cap":
				s = k.set(s, x, len(cc.Args) == 1 && isByteSlice(cc.Args[0].Type()) && k.fromChunk(cc.Args[0]))
			case "min", "max":
				t := false
				for _, a := range cc.Args {
					t = t || s.t.has(k.num.id(a))
				}
				s = k.set(s, x, t)
			}
			break
		}
		if !cc.IsInvoke() || cc.Method.Pkg() == nil || cc.Method.Pkg().Path() != core.ModPath {
			break
		}
		for i, a := range cc.Args {
			if !isIntegerType(a.Type()) {
				continue
			}
			k.sites++
			if s.t.has(k.num.id(a)) {
				k.bad[fmt.Sprintf("%s#%d", cc.Method.Name(), i)] = fmt.Sprintf("passes a value computed from the length of the chunk it was handed as argument %d of the event %s at %s", i, cc.Method.Name(), k.p.Pos(x.Pos()))
			}
		}
	}
	return s, true, nil
}
func (k *cfClient) Branch(s cfState, _ ssa.Value, _ bool) (cfState, bool) { return s, true }
func (k *cfClient) Return(cfState, *ssa.Return)                           {}

func eventArgChunkFree(p *core.Prog, r *core.Result, in map[string]bool) {
	total := 0
	for _, pk := range []string{"json", "cborl", "ubjson"} {
		if !in[pk] {
			continue
		}
		fam, err := buildFamily(p, pk)
		if err != nil {
			continue
		}
		var fns []*ssa.Function
		for f := range fam.steps {
			fns = append(fns, f)
		}
		sort.Slice(fns, func(i, j int) bool { return fns[i].Pos() < fns[j].Pos() })
		for _, f := range fns {
			k := &cfClient{p: p, fn: f, sf: fam.steps[f], num: newNumbering(), bad: map[string]string{}}
			_, capped := WalkPaths[cfState](k, f.Blocks[0], 0, cfState{}, 200000, nil)
			fkey := core.FuncKey(f)
			if capped {
				r.Undecided(".EVENT-ARG-CHUNK-FREE", fkey, "state cap hit")
				continue
			}
			if k.sites == 0 {
				continue
			}
			total += k.sites
			if len(k.bad) == 0 {
				r.Ok(".EVENT-ARG-CHUNK-FREE", p.Pos(f.Pos()), fkey+": no integer argument of an event is computed from the chunk length")
			}
			for _, bk := range sortedKeys(k.bad) {
				r.Fail(".EVENT-ARG-CHUNK-FREE", fkey+"|"+bk, p.Pos(f.Pos()), fkey+" "+k.bad[bk]+": what the visitor is told (an announced length, a number) depends on where the input was cut", "")
			}
		}
	}
	if in["cborl"] && in["ubjson"] {
		r.Floor("event_int_args", total, 8)
	}
}

package rules

import (
	"fmt"
	"go/ast"
	"go/constant"
	"go/token"
	"go/types"
	"sort"
	"strings"

	"golang.org/x/tools/go/ast/astutil"
	"golang.org/x/tools/go/ssa"

	"sfcheck/internal/core"
)

// neverReturns: the function has no reachable Return (it always panics).
func neverReturns(f *ssa.Function) bool {
	if f == nil || f.Blocks == nil {
		return false
	}
	for _, b := range f.Blocks {
		for _, in := range b.Instrs {
			if _, ok := in.(*ssa.Return); ok {
				return false
			}
		}
	}
	return true
}

// R9 PANIC-REACH: no explicit panic (nor call of a function that always
// panics) in the given packages, outside package initialisers, except sites
// whose mechanical premise shows that only a caller's contract violation or
// an uncovered enum value (shown impossible) can reach them. Also: no
// recover() (R1's argument assumes errors are not converted from panics).
func R9(pkgs ...string) func(p *core.Prog) *core.Result {
	return func(p *core.Prog) *core.Result {
		r := core.NewResult("R9", "no explicit panic is reachable on data or on a user-declared type in packages "+strings.Join(pkgs, ",")+": every panic statement and every call of an always-panicking helper is an obligation; exceptions carry a mechanically checked premise")
		in := map[string]bool{}
		for _, k := range pkgs {
			in[k] = true
		}
		sites := 0
		for _, f := range p.ModFuncs() {
			pk := core.FuncPkg(f)
			if pk == nil || !in[pk.Name()] || isInitFunc(f) {
				continue
			}
			fkey := core.FuncKey(f)
			n := 0
			for _, b := range f.Blocks {
				for _, ins := range b.Instrs {
					switch x := ins.(type) {
					case *ssa.Panic:
						n++
						sites++
						key := fmt.Sprintf("%s|panic#%d", fkey, n)
						pos := p.Pos(token.Pos(instrPos(x)))
						if why, ok := panicException(p, f, x); ok {
							r.Ok(".EXPLICIT", pos, fkey+": panic accepted: "+why)
						} else {
							r.Fail(".EXPLICIT", key, pos, fmt.Sprintf("%s contains an explicit panic (%s); the library must refuse bad input or unsupported types with an error", fkey, why), "")
						}
					case ssa.CallInstruction:
						c := x.Common()
						if bi, ok := c.Value.(*ssa.Builtin); ok && bi.Name() == "recover" {
							r.Fail(".NO-RECOVER", fkey+"|recover", p.Pos(x.Pos()), fkey+" calls recover(): errors converted from panics are outside the error-flow argument", "")
						}
						if sc := c.StaticCallee(); sc != nil && p.InModule(sc) && neverReturns(sc) {
							n++
							sites++
							r.Fail(".ALWAYS-PANICS", fmt.Sprintf("%s|%s", fkey, core.FuncKey(sc)), p.Pos(x.Pos()),
								fmt.Sprintf("%s calls %s, which panics on every path", fkey, core.FuncKey(sc)), "")
						}
					}
				}
			}
		}
		r.Stats["panic_sites"] = sites
		// positive control: the rule must still be able to see a panic; the
		// standard library's bytes.(*Buffer).grow-like sites are not in scope,
		// so use the accepted exceptions as the floor (3 on the pinned tree
		// when all packages are in scope).
		return r
	}
}

// panicException recognises the two accepted shapes.
func panicException(p *core.Prog, f *ssa.Function, pn *ssa.Panic) (string, bool) {
	// (1) CALLER-CONTRACT: a stack "pop" guarded by an emptiness test, whose
	// only callers are container-finish events: reachable only by an
	// unbalanced On…Finished, i.e. a stream that is not well-formed.
	if f.Signature.Recv() != nil && len(f.Params) == 1 {
		// the finish events may reach the pop through unexported helpers that have no other callers
		var callers []*ssa.Function
		all := true
		seen := map[*ssa.Function]bool{}
		var up func(g *ssa.Function, depth int)
		up = func(g *ssa.Function, depth int) {
			cs := staticCallers(p, g)
			if len(cs) == 0 || depth > 3 {
				all = false
				return
			}
			for _, c := range cs {
				if seen[c] {
					continue
				}
				seen[c] = true
				if n := c.Name(); n == "OnObjectFinished" || n == "OnArrayFinished" {
					callers = append(callers, c)
				} else if c.Object() != nil && !c.Object().Exported() && c.Signature.Recv() != nil && !usedAsValue(p, c) {
					up(c, depth+1)
				} else {
					callers = append(callers, c)
					all = false
				}
			}
		}
		up(f, 0)
		if len(callers) > 0 {
			var names []string
			for _, c := range callers {
				names = append(names, core.FuncKey(c))
			}
			sort.Strings(names)
			if all && guardedByLenZero(pn) {
				return "guarded by an empty-stack test and called only from " + strings.Join(names, ", ") + " (an unbalanced finish event is a caller contract violation)", true
			}
		}
	}
	// (2) ENUM-DEFAULT: the panic is the default arm of a switch over
	// structform.BaseType whose cases cover every declared constant.
	if why, ok := enumDefaultCovered(p, f, pn); ok {
		return why, true
	} else if why != "" {
		return why, false
	}
	return "no accepted premise applies", false
}

// usedAsValue: the function is referenced other than as the callee of a
// static call (method value, closure, stored in a table).
func usedAsValue(p *core.Prog, f *ssa.Function) bool {
	for _, g := range p.ModFuncs() {
		for _, b := range g.Blocks {
			for _, in := range b.Instrs {
				for _, op := range in.Operands(nil) {
					if *op != ssa.Value(f) {
						continue
					}
					if c, ok := in.(ssa.CallInstruction); ok && c.Common().Value == ssa.Value(f) {
						isArg := false
						for _, a := range c.Common().Args {
							if a == ssa.Value(f) {
								isArg = true
							}
						}
						if !isArg {
							continue
						}
					}
					return true
				}
			}
		}
	}
	return false
}

func staticCallers(p *core.Prog, f *ssa.Function) []*ssa.Function {
	var out []*ssa.Function
	seen := map[*ssa.Function]bool{}
	for _, g := range p.ModFuncs() {
		for _, b := range g.Blocks {
			for _, in := range b.Instrs {
				if c, ok := in.(ssa.CallInstruction); ok && c.Common().StaticCallee() == f && !seen[g] {
					seen[g] = true
					out = append(out, g)
				}
			}
		}
	}
	return out
}

// guardedByLenZero: the panic's block is entered only through the true edge
// of `len(x) == 0`.
func guardedByLenZero(pn *ssa.Panic) bool {
	b := pn.Block()
	if len(b.Preds) != 1 {
		return false
	}
	pred := b.Preds[0]
	iff, ok := pred.Instrs[len(pred.Instrs)-1].(*ssa.If)
	if !ok || pred.Succs[0] != b {
		return false
	}
	bo, ok := iff.Cond.(*ssa.BinOp)
	if !ok || bo.Op != token.EQL {
		return false
	}
	isLen := func(v ssa.Value) bool {
		c, ok := v.(*ssa.Call)
		if !ok {
			return false
		}
		bi, ok := c.Common().Value.(*ssa.Builtin)
		return ok && bi.Name() == "len"
	}
	isZero := func(v ssa.Value) bool {
		c, ok := v.(*ssa.Const)
		return ok && c.Value != nil && c.Value.Kind() == constant.Int && constant.Sign(c.Value) == 0
	}
	return isLen(bo.X) && isZero(bo.Y) || isLen(bo.Y) && isZero(bo.X)
}

// enumDefaultCovered uses the syntax tree: the panic call sits in the
// default clause of a switch whose tag has type structform.BaseType and whose
// case constants cover every declared BaseType constant.
func enumDefaultCovered(p *core.Prog, f *ssa.Function, pn *ssa.Panic) (string, bool) {
	pk := core.FuncPkg(f)
	var pkg = (*ast.File)(nil)
	var info *types.Info
	for _, lp := range p.All {
		if lp.Types == pk {
			info = lp.TypesInfo
			for _, file := range lp.Syntax {
				if file.Pos() <= pn.Pos() && pn.Pos() <= file.End() {
					pkg = file
				}
			}
		}
	}
	if pkg == nil || info == nil {
		return "", false
	}
	path, _ := astutil.PathEnclosingInterval(pkg, pn.Pos(), pn.Pos())
	var sw *ast.SwitchStmt
	var cc *ast.CaseClause
	for _, n := range path {
		if c, ok := n.(*ast.CaseClause); ok && cc == nil {
			cc = c
		}
		if s, ok := n.(*ast.SwitchStmt); ok {
			sw = s
			break
		}
	}
	if sw == nil || cc == nil || cc.List != nil || sw.Tag == nil {
		return "", false
	}
	tt := info.TypeOf(sw.Tag)
	named, ok := tt.(*types.Named)
	if !ok || named.Obj().Pkg() == nil || named.Obj().Pkg().Path() != core.ModPath || core.TypeName(named) != "BaseType" {
		return "", false
	}
	// declared constants of the type
	declared := map[string]string{}
	sc := named.Obj().Pkg().Scope()
	for _, n := range sc.Names() {
		if c, ok := sc.Lookup(n).(*types.Const); ok && types.Identical(c.Type(), named) {
			declared[c.Val().ExactString()] = n
		}
	}
	covered := map[string]bool{}
	for _, st := range sw.Body.List {
		c := st.(*ast.CaseClause)
		for _, e := range c.List {
			if tv, ok := info.Types[e]; ok && tv.Value != nil {
				covered[tv.Value.ExactString()] = true
			}
		}
	}
	var missing []string
	for v, n := range declared {
		if !covered[v] {
			missing = append(missing, n)
		}
	}
	sort.Strings(missing)
	if len(missing) > 0 {
		return "default arm of a switch over BaseType that does not cover " + strings.Join(missing, ","), false
	}
	return fmt.Sprintf("default arm of a switch over structform.BaseType that covers all %d declared constants (the value comes from the library's own OnArrayStart/OnObjectStart dispatch)", len(declared)), true
}

package rules

import (
	"fmt"
	"go/ast"
	"go/token"
	"go/types"
	"sort"
	"strings"

	"golang.org/x/tools/go/ssa"

	"sfcheck/internal/core"
)

// R20 FOLD-RULES: the documented tag rules have code behind them.
//
// (a) KIND-COVERAGE: the kinds the documentation calls empty-able (string,
//     slice, array, map, pointer, interface) each have an arm in the kind
//     switch of makeResolveNonEmptyValue; the size-based kinds are decided by
//     Len() > 0; the IsZeroer fall-back sits in the default arm.
// (b) DEAD-RESULT: no folder/unfolder that was looked up or built is thrown
//     away unused (a dead result at a mechanism anchor means a documented
//     mechanism is silently inactive).
// (c) NAME-AGREE: the fold side and the unfold side derive the member name of
//     a struct field the same way: the explicit tag name verbatim, else the
//     lower-cased field name.
// (d) DISPATCH-ORDER: in foldInterfaceValue a user-registered folder is tried
//     before the built-in fast paths, and the Folder interface before the
//     named-type conversion and reflection.

func reflectKindConst(info *types.Info, e ast.Expr) string {
	tv, ok := info.Types[e]
	if !ok || tv.Value == nil || !strings.HasSuffix(tv.Type.String(), "reflect.Kind") {
		return ""
	}
	if se, ok := e.(*ast.SelectorExpr); ok {
		return se.Sel.Name
	}
	return tv.Value.ExactString()
}

func R20(p *core.Prog) *core.Result {
	r := core.NewResult("R20", "the documented fold rules have code behind them: omitempty covers every documented empty-able kind and decides size kinds by Len()>0; no looked-up folder is discarded; fold and unfold derive member names identically; custom folders take precedence in the dispatch order")
	gp := p.Pkgs["gotype"]
	if gp == nil {
		r.Undecided("", "gotype", "package not loaded")
		return r
	}
	info := gp.TypesInfo

	// ---- (a) ----
	var fd *ast.FuncDecl
	for _, file := range gp.Syntax {
		for _, d := range file.Decls {
			if f, ok := d.(*ast.FuncDecl); ok && f.Recv == nil && f.Name.Name == core.CurrentName("gotype", "makeResolveNonEmptyValue") {
				fd = f
			}
		}
	}
	if fd == nil {
		r.Undecided(".KIND-COVERAGE", "makeResolveNonEmptyValue", "function not found")
	} else {
		lits := map[types.Object]*ast.FuncLit{}
		ast.Inspect(fd.Body, func(n ast.Node) bool {
			if as, ok := n.(*ast.AssignStmt); ok && len(as.Lhs) == 1 && len(as.Rhs) == 1 {
				if id, ok := as.Lhs[0].(*ast.Ident); ok {
					if fl, ok := as.Rhs[0].(*ast.FuncLit); ok {
						lits[info.ObjectOf(id)] = fl
					}
				}
			}
			return true
		})
		type kindArm struct {
			pos  token.Pos
			body []ast.Stmt
		}
		covered := map[string]*kindArm{}
		var deflt *ast.CaseClause
		isKindCall := func(e ast.Expr) bool {
			ce, ok := e.(*ast.CallExpr)
			if !ok {
				return false
			}
			se, ok := ce.Fun.(*ast.SelectorExpr)
			return ok && se.Sel.Name == "Kind"
		}
		ast.Inspect(fd.Body, func(n ast.Node) bool {
			// an arm may also be written as `if t.Kind() == reflect.K { ... }`
			if is, ok := n.(*ast.IfStmt); ok {
				if be, ok := is.Cond.(*ast.BinaryExpr); ok && be.Op == token.EQL {
					for _, pr := range [][2]ast.Expr{{be.X, be.Y}, {be.Y, be.X}} {
						if isKindCall(pr[0]) {
							if k := reflectKindConst(info, pr[1]); k != "" && covered[k] == nil {
								covered[k] = &kindArm{is.Pos(), is.Body.List}
							}
						}
					}
				}
				return true
			}
			sw, ok := n.(*ast.SwitchStmt)
			if !ok || sw.Tag == nil {
				return true
			}
			if !isKindCall(sw.Tag) {
				return true
			}
			for _, st := range sw.Body.List {
				cc := st.(*ast.CaseClause)
				if cc.List == nil {
					deflt = cc
				}
				for _, e := range cc.List {
					if k := reflectKindConst(info, e); k != "" {
						covered[k] = &kindArm{cc.Pos(), cc.Body}
					}
				}
			}
			return true
		})
		for _, k := range []string{"String", "Slice", "Array", "Map", "Ptr", "Interface"} {
			pos := p.Pos(fd.Pos())
			if cc := covered[k]; cc != nil {
				r.Ok(".KIND-COVERAGE", p.Pos(cc.pos), "omitempty has an arm for reflect."+k)
			} else {
				r.Fail(".KIND-COVERAGE", "gotype.makeResolveNonEmptyValue|"+k, pos, "makeResolveNonEmptyValue has no arm for reflect."+k+": an empty value of that kind is not omitted although the documentation says it is", "")
			}
		}
		// size kinds decided by Len() > 0
		for _, k := range []string{"String", "Slice", "Array", "Map"} {
			cc := covered[k]
			if cc == nil {
				continue
			}
			okLen := false
			for _, st := range cc.body {
				ast.Inspect(st, func(n ast.Node) bool {
					id, ok := n.(*ast.Ident)
					if !ok {
						return true
					}
					if fl := lits[info.ObjectOf(id)]; fl != nil && funcLitTestsLen(fl.Body) {
						okLen = true
					}
					// the resolver may also be a package-level function
					if fo, isFn := info.ObjectOf(id).(*types.Func); isFn && fo.Pkg() == gp.Types {
						if d := findFuncDecl(gp, fo.Name()); d != nil && d.Body != nil && funcLitTestsLen(d.Body) {
							okLen = true
						}
					}
					return true
				})
			}
			if okLen {
				r.Ok(".KIND-COVERAGE", p.Pos(cc.pos), "reflect."+k+": emptiness is Len() == 0")
			} else {
				r.Fail(".KIND-COVERAGE", "gotype.makeResolveNonEmptyValue|"+k+"|Len", p.Pos(cc.pos), "the omitempty resolver used for reflect."+k+" does not decide by Len() > 0: an allocated zero-length value is emitted (or a non-empty all-zero array omitted), contrary to the documented rule 'zero-length string/slice/array/map'", "")
			}
		}
		if deflt != nil && nodeMentions(deflt, "implementsIsZeroer") {
			r.Ok(".KIND-COVERAGE", p.Pos(deflt.Pos()), "IsZeroer fall-back is in the default arm")
		} else {
			r.Fail(".KIND-COVERAGE", "gotype.makeResolveNonEmptyValue|IsZeroer", p.Pos(fd.Pos()), "the IsZeroer fall-back is no longer in the default arm of the kind switch", "")
		}
	}

	// ---- (b) ----
	dead := 0
	for _, f := range p.ModFuncs() {
		if core.FuncPkg(f) != gp.Types {
			continue
		}
		for _, b := range f.Blocks {
			for _, in := range b.Instrs {
				call, ok := in.(*ssa.Call)
				if !ok {
					continue
				}
				sc := call.Common().StaticCallee()
				if sc == nil || !p.InModule(sc) {
					continue
				}
				res := sc.Signature.Results()
				if res.Len() != 1 || !isSelectorResult(res.At(0).Type()) {
					continue
				}
				if core.FuncName(sc) == "pop" || core.FuncName(sc) == "push" {
					continue // stack bookkeeping: discarding the popped state is the point
				}
				dead++
				fkey := core.FuncKey(f)
				if refs := call.Referrers(); refs == nil || len(*refs) == 0 {
					r.Fail(".DEAD-RESULT", fkey+"|"+core.FuncKey(sc), p.Pos(call.Pos()), fmt.Sprintf("%s builds a folder with %s and never uses the result: the mechanism it belongs to (e.g. a user-registered folder for an inlined field's type) is silently inactive", fkey, core.FuncKey(sc)), "")
				} else {
					r.Ok(".DEAD-RESULT", p.Pos(call.Pos()), fkey+": result of "+core.FuncKey(sc)+" is used")
				}
			}
		}
	}
	r.Floor("folder_producing_calls", dead, 20)

	// ---- (c) ----
	nameAgree(p, r, "buildFieldFold")
	nameAgree(p, r, "fieldUnfolders")
	dupCheck(p, r)

	// ---- (d) ----
	fiv := p.LookupFunc("gotype", "foldInterfaceValue")
	if fiv == nil {
		r.Undecided(".DISPATCH-ORDER", "foldInterfaceValue", "function not found")
		return r
	}
	type anchor struct {
		name string
		blk  *ssa.BasicBlock
		idx  int
	}
	var anchors []anchor
	find := func(name string, pred func(in ssa.Instruction) bool) {
		for _, b := range fiv.Blocks {
			for i, in := range b.Instrs {
				if pred(in) {
					anchors = append(anchors, anchor{name, b, i})
					return
				}
			}
		}
		r.Undecided(".DISPATCH-ORDER", "foldInterfaceValue|"+name, "anchor "+name+" not found in foldInterfaceValue")
	}
	find("user registry lookup", func(in ssa.Instruction) bool {
		lk, ok := in.(*ssa.Lookup)
		if !ok {
			return false
		}
		_, isMap := lk.X.Type().Underlying().(*types.Map)
		return isMap
	})
	find("built-in fast paths (getFoldGoTypes)", func(in ssa.Instruction) bool {
		c, ok := in.(*ssa.Call)
		return ok && c.Common().StaticCallee() != nil && core.FuncName(c.Common().StaticCallee()) == "getFoldGoTypes"
	})
	find("Folder interface", func(in ssa.Instruction) bool {
		ta, ok := in.(*ssa.TypeAssert)
		if !ok {
			return false
		}
		n := namedOf(ta.AssertedType)
		return n != nil && core.TypeName(n) == "Folder"
	})
	find("named-type conversion (getFoldConvert)", func(in ssa.Instruction) bool {
		c, ok := in.(*ssa.Call)
		return ok && c.Common().StaticCallee() != nil && core.FuncName(c.Common().StaticCallee()) == "getFoldConvert"
	})
	find("reflection (foldAnyReflect)", func(in ssa.Instruction) bool {
		c, ok := in.(*ssa.Call)
		return ok && c.Common().StaticCallee() != nil && core.FuncName(c.Common().StaticCallee()) == "foldAnyReflect"
	})
	if len(anchors) == 5 {
		for i := 0; i+1 < len(anchors); i++ {
			a, b := anchors[i], anchors[i+1]
			before := a.blk == b.blk && a.idx < b.idx || a.blk != b.blk && a.blk.Dominates(b.blk)
			// the user registry lookup sits inside `if C.userReg != nil`: it need not dominate, but must not come after
			if i == 0 && !before {
				before = !(b.blk == a.blk && b.idx < a.idx) && !b.blk.Dominates(a.blk)
			}
			if before {
				r.Ok(".DISPATCH-ORDER", p.Pos(fiv.Pos()), a.name+" is tried before "+b.name)
			} else {
				r.Fail(".DISPATCH-ORDER", "gotype.foldInterfaceValue|"+fmt.Sprint(i), p.Pos(fiv.Pos()), "foldInterfaceValue tries "+b.name+" before "+a.name+": a value with a custom folder is folded by a built-in path and its folder is never called", "")
			}
		}
	}
	// unfold side of DISPATCH-ORDER: a user-registered unfolder takes precedence over the per-type cache of
	// compiled unfolders (the cache may hold the plain unfolder of the same type, compiled for a nested use)
	if lf := p.LookupFunc("gotype", "lookupReflUnfolder"); lf == nil {
		r.Undecided(".DISPATCH-ORDER", "gotype.lookupReflUnfolder", "unfolder lookup not found")
	} else {
		var user, cache ssa.Instruction
		for _, b := range lf.Blocks {
			for _, in := range b.Instrs {
				c, ok := in.(*ssa.Call)
				if !ok || c.Common().StaticCallee() == nil {
					continue
				}
				switch core.FuncName(c.Common().StaticCallee()) {
				case "lookupReflUser":
					user = in
				case "find":
					cache = in
				}
			}
		}
		switch {
		case user == nil || cache == nil:
			r.Undecided(".DISPATCH-ORDER", "gotype.lookupReflUnfolder|anchors", "user-registry lookup or cache lookup not found in lookupReflUnfolder")
		case reaches(cache, user):
			r.Fail(".DISPATCH-ORDER", "gotype.lookupReflUnfolder|user-after-cache", p.Pos(lf.Pos()), "lookupReflUnfolder consults the cache of compiled unfolders before the user registry: once a type has been compiled for any use (e.g. as the target of its own processing unfolder) the cached plain unfolder shadows the user's unfolder from the second SetTarget on - a reused Unfolder differs from a fresh one", "")
		default:
			r.Ok(".DISPATCH-ORDER", p.Pos(lf.Pos()), "lookupReflUnfolder: user registry is consulted before the cache of compiled unfolders")
		}
	}
	// EXPORTED-AGREE: both sides decide "exported field" the same way: unicode.IsUpper of the first rune of the name
	for _, fn := range []string{"buildFieldFold", "fieldUnfolders"} {
		f := p.LookupFunc("gotype", fn)
		if f == nil {
			r.Undecided(".EXPORTED-AGREE", "gotype."+fn, "function not found")
			continue
		}
		ok := false
		for _, b := range f.Blocks {
			for _, in := range b.Instrs {
				c, isC := in.(*ssa.Call)
				if !isC || c.Common().StaticCallee() == nil || core.FuncName(c.Common().StaticCallee()) != "IsUpper" || funcPkgPath(c.Common().StaticCallee()) != "unicode" {
					continue
				}
				if ex, isE := c.Common().Args[0].(*ssa.Extract); isE && ex.Index == 0 {
					if dc, isD := ex.Tuple.(*ssa.Call); isD && dc.Common().StaticCallee() != nil && core.FuncName(dc.Common().StaticCallee()) == "DecodeRuneInString" {
						ok = true
					}
				}
			}
		}
		if ok {
			r.Ok(".EXPORTED-AGREE", p.Pos(f.Pos()), "gotype."+fn+": a field is exported iff unicode.IsUpper(first rune of its name)")
		} else {
			r.Fail(".EXPORTED-AGREE", "gotype."+fn+"|exported", p.Pos(f.Pos()), "gotype."+fn+" no longer decides 'exported' by unicode.IsUpper of the first rune of the field name, as the other side does: fields whose name starts with a non-ASCII upper-case letter are folded by one side and treated as unknown by the other", "")
		}
	}
	// REENTRANT-INLINE: compiled folders are cached per type, so a folder can be re-entered while it is running
	// (a value inlines a value of the same type again). A folder closure that activates a captured, single
	// ExpectObjVisitor (SetActive) does so only behind a test of a captured busy flag.
	{
		n := 0
		for _, f := range p.ModFuncs() {
			pk := core.FuncPkg(f)
			if pk == nil || pk.Name() != "gotype" || len(f.FreeVars) == 0 {
				continue
			}
			var act *ssa.Call
			for _, b := range f.Blocks {
				for _, in := range b.Instrs {
					c, ok := in.(*ssa.Call)
					if !ok || c.Common().StaticCallee() == nil || core.FuncName(c.Common().StaticCallee()) != "SetActive" || len(c.Common().Args) < 2 || isNilConst(c.Common().Args[1]) {
						continue
					}
					// receiver is captured state
					recv := c.Common().Args[0]
					if ld, ok := recv.(*ssa.UnOp); ok {
						recv = ld.X
					}
					if _, ok := recv.(*ssa.FreeVar); ok && act == nil {
						act = c
					}
				}
			}
			if act == nil {
				continue
			}
			n++
			guarded := false
			for _, b := range f.Blocks {
				ifi, ok := b.Instrs[len(b.Instrs)-1].(*ssa.If)
				if !ok {
					continue
				}
				ld, ok := ifi.Cond.(*ssa.UnOp)
				if !ok {
					continue
				}
				fv, ok := ld.X.(*ssa.FreeVar)
				if !ok {
					continue
				}
				if bt, ok := fv.Type().Underlying().(*types.Pointer).Elem().Underlying().(*types.Basic); !ok || bt.Kind() != types.Bool {
					continue
				}
				// the activation is only reachable through the false edge
				if !blockReaches(b.Succs[0], act.Block()) && blockReaches(b.Succs[1], act.Block()) {
					guarded = true
				}
			}
			fkey := core.FuncKey(f)
			if guarded {
				r.Ok(".REENTRANT-INLINE", p.Pos(act.Pos()), fkey+": the captured ExpectObjVisitor is activated only when the folder is not already running")
			} else {
				r.Fail(".REENTRANT-INLINE", fkey+"|reentry", p.Pos(act.Pos()), fkey+" activates its single captured ExpectObjVisitor without a re-entrancy guard: folders are cached per type, so a value that inlines a value of the same type again (inline interface{} inside an inlined interface{}) re-enters the folder, makes the visitor its own target and recurses until the stack overflows", "")
			}
		}
		r.Floor("inline_folders_with_captured_visitor", n, 1)
	}
	omitFirst(p, r)
	tagSkipName(p, r)
	registryKeyDetermines(p, r)
	resolverIdentity(p, r)
	nilFolder(p, r)
	return r
}

func nodeMentions(n ast.Node, ident string) bool {
	found := false
	ast.Inspect(n, func(x ast.Node) bool {
		if id, ok := x.(*ast.Ident); ok && id.Name == ident {
			found = true
		}
		return true
	})
	return found
}

// funcLitTestsLen: the literal returns a comparison of <x>.Len() with 0.
func funcLitTestsLen(body ast.Node) bool {
	found := false
	ast.Inspect(body, func(n ast.Node) bool {
		be, ok := n.(*ast.BinaryExpr)
		if !ok {
			return true
		}
		isLen := func(e ast.Expr) bool {
			ce, ok := e.(*ast.CallExpr)
			if !ok {
				return false
			}
			se, ok := ce.Fun.(*ast.SelectorExpr)
			return ok && se.Sel.Name == "Len"
		}
		isZero := func(e ast.Expr) bool {
			bl, ok := e.(*ast.BasicLit)
			return ok && bl.Value == "0"
		}
		switch be.Op {
		case token.GTR, token.NEQ:
			if isLen(be.X) && isZero(be.Y) {
				found = true
			}
		case token.LSS:
			if isZero(be.X) && isLen(be.Y) {
				found = true
			}
		}
		return true
	})
	return found
}

// nameAgree checks, on SSA, that the member name used by fn is
// phi[tagName, strings.ToLower(field name)] with tagName the first result of
// parseTags.
func nameAgree(p *core.Prog, r *core.Result, fnName string) {
	f := p.LookupFunc("gotype", fnName)
	if f == nil {
		r.Undecided(".NAME-AGREE", fnName, "function not found")
		return
	}
	var tagName ssa.Value
	for _, b := range f.Blocks {
		for _, in := range b.Instrs {
			if ex, ok := in.(*ssa.Extract); ok && ex.Index == 0 {
				if c, ok := ex.Tuple.(*ssa.Call); ok && c.Common().StaticCallee() != nil && core.FuncName(c.Common().StaticCallee()) == "parseTags" {
					tagName = ex
				}
			}
		}
	}
	fkey := core.FuncKey(f)
	if tagName == nil {
		r.Fail(".NAME-AGREE", fkey+"|parseTags", p.Pos(f.Pos()), fkey+" no longer obtains the member name from parseTags", "")
		return
	}
	// the sinks: string arguments named `name` of make*FieldFold, or keys of map updates / lookups on
	// map[string]fieldUnfolder - in the function itself or in a helper it hands the tag name to
	type sinkAt struct {
		v   ssa.Value
		tag ssa.Value
	}
	var sinks []sinkAt
	var collect func(g *ssa.Function, tag ssa.Value, depth int)
	collect = func(g *ssa.Function, tag ssa.Value, depth int) {
		for _, b := range g.Blocks {
			for _, in := range b.Instrs {
				switch x := in.(type) {
				case *ssa.Call:
					sc := x.Common().StaticCallee()
					if sc != nil && strings.HasPrefix(core.FuncName(sc), "make") && strings.Contains(core.FuncName(sc), "FieldFold") && len(x.Common().Args) > 0 {
						if b, ok := x.Common().Args[0].Type().Underlying().(*types.Basic); ok && b.Kind() == types.String {
							sinks = append(sinks, sinkAt{x.Common().Args[0], tag})
						}
						continue
					}
					if sc != nil && sc != g && depth < 2 && sc.Blocks != nil && core.FuncPkg(sc) == core.FuncPkg(f) {
						for i, a := range x.Common().Args {
							if a == tag && i < len(sc.Params) {
								collect(sc, sc.Params[i], depth+1)
							}
						}
					}
				case *ssa.MapUpdate:
					if mt, ok := x.Map.Type().Underlying().(*types.Map); ok {
						if n := namedOf(mt.Elem()); n != nil && core.TypeName(n) == "fieldUnfolder" {
							// only the non-inline insertion (key is not a range variable of a sub map)
							if _, isNext := x.Key.(*ssa.Extract); !isNext {
								sinks = append(sinks, sinkAt{x.Key, tag})
							}
						}
					}
				}
			}
		}
	}
	collect(f, tagName, 0)
	if len(sinks) == 0 {
		r.Undecided(".NAME-AGREE", fkey+"|sinks", "no member-name sink found in "+fkey)
		return
	}
	sort.Slice(sinks, func(i, j int) bool { return sinks[i].v.Pos() < sinks[j].v.Pos() })
	for _, sk := range sinks {
		s, tagName := sk.v, sk.tag
		okName := false
		why := "is not phi[tag name, strings.ToLower(field name)]"
		if phi, ok := s.(*ssa.Phi); ok && len(phi.Edges) == 2 {
			var hasTag, hasLower bool
			for _, e := range phi.Edges {
				if e == tagName {
					hasTag = true
				}
				if c, ok := e.(*ssa.Call); ok && c.Common().StaticCallee() != nil && funcPkgPath(c.Common().StaticCallee()) == "strings" && core.FuncName(c.Common().StaticCallee()) == "ToLower" {
					// argument must be the struct field's Name, not the tag name
					arg := c.Common().Args[0]
					if arg != tagName && !dependsOn(arg, tagName) {
						hasLower = true
					} else {
						why = "lower-cases the explicit tag name"
					}
				}
			}
			okName = hasTag && hasLower
		}
		if okName {
			r.Ok(".NAME-AGREE", p.Pos(f.Pos()), fkey+": member name is the tag name verbatim, else the lower-cased field name")
		} else {
			r.Fail(".NAME-AGREE", fkey, p.Pos(f.Pos()), fkey+": the member name "+why+": the fold side and the unfold side (and the documentation) no longer agree on field names, so such fields do not round-trip", "")
		}
	}
}

func dependsOn(v, on ssa.Value) bool {
	seen := map[ssa.Value]bool{}
	var walk func(x ssa.Value) bool
	walk = func(x ssa.Value) bool {
		if x == on {
			return true
		}
		if seen[x] {
			return false
		}
		seen[x] = true
		if in, ok := x.(ssa.Instruction); ok {
			for _, op := range in.Operands(nil) {
				if *op != nil && walk(*op) {
					return true
				}
			}
		}
		return false
	}
	return walk(v)
}

func init() {
	register(&PropSpec{
		ID:    "C12",
		Level: "other",
		Decided: "(a) every kind the documentation calls empty-able has an arm in the omitempty resolver and size kinds are decided by Len()>0, IsZeroer is the default fall-back; (b) no folder that was looked up or built is discarded (the user-folder lookup for inlined fields is live); (c) member names: tag name verbatim, else lower-cased field name - on the fold and on the unfold side; (d) dispatch order user folders -> built-in fast paths -> Folder interface -> named-type conversion -> reflection; inline expansion strips exactly one object level and forwards nothing outside it (R6 on ExpectObjVisitor). (e) OMIT-FIRST: nothing is built or registered for a field before its omit option was found false, on the fold and on the unfold side; (f) ExpectObjVisitor is re-armed with a reset depth (R6 REARM); (g) an inlined field is compiled and looked up under the inline registry key (R10 GETTER). A fast path that reinterprets map memory is selected by type identity, so that it cannot bypass the folder of a named element type (R16 TYPE-GATE). (h) TAG-SKIP-NAME: the skip marker '-' is compared with the name part of the tag, not with the whole tag; (i) KEY-DETERMINES: what a registry stores under a loop-carried key (the pointer-free base type) is not built from another value of the same loop (the pointer depth).",
		NotDecided: "which fields are emitted for which value (needs an executable model of the tag rules compared on generated types - a different family); pointer depth handling of omitempty; number exactness.",
		Assumptions: []string{"the documented rules (tags.go comment, README) are the oracle; anchors: makeResolveNonEmptyValue, buildFieldFold, fieldUnfolders, foldInterfaceValue"},
		TrustedBase: baseTrusted,
		Rules:       []RuleRun{{"R20", R20}, {"R6", R6("visitors")}, {"R10", R10}, {"R16", R16}},
		LevelText:   "Structural necessary conditions: each documented rule must have live code at its mechanism anchor. Checked on the typed syntax tree and SSA, so a rule that silently lost its code (dead result, missing kind arm, swapped dispatch order) is reported although every fixture still passes.",
		Technique:   "typed-AST rule coverage of the omitempty kind switch, dead-result query on SSA for folder-producing calls, SSA shape check of the member-name derivation on both sides, dominance order of dispatch anchors; omit-before-everything path rule on fold and unfold side; re-arm reset rule for ExpectObjVisitor; registry-key typing of inline folders via the grammar getter table",
		DesignRef:   "DESIGN.md section 2 R20; section 3 C12",
	})
}


// dupCheck (FIELD-TABLE-UNIQUE): every insertion into a struct's member table
// (map[string]fieldUnfolder) is behind a lookup of the same key in the same
// table that found nothing. Two members answering to one name (an inlined
// struct repeating a name of its parent) are refused when the unfolder is
// built; without the test the later one silently replaces the earlier one and
// the shadowed field is never filled.
func dupCheck(p *core.Prog, r *core.Result) {
	n := 0
	for _, f := range p.ModFuncs() {
		pk := core.FuncPkg(f)
		if pk == nil || pk.Name() != "gotype" || f.Blocks == nil {
			continue
		}
		for _, b := range f.Blocks {
			for _, in := range b.Instrs {
				mu, ok := in.(*ssa.MapUpdate)
				if !ok {
					continue
				}
				mt, ok := mu.Map.Type().Underlying().(*types.Map)
				if !ok {
					continue
				}
				if nt := namedOf(mt.Elem()); nt == nil || core.TypeName(nt) != "fieldUnfolder" {
					continue
				}
				n++
				guarded := false
				for d := b; d != nil && d.Idom() != nil && !guarded; d = d.Idom() {
					id := d.Idom()
					iff, ok := id.Instrs[len(id.Instrs)-1].(*ssa.If)
					if !ok || len(d.Preds) != 1 {
						continue
					}
					ex, ok := iff.Cond.(*ssa.Extract)
					if !ok || ex.Index != 1 {
						continue
					}
					lk, ok := ex.Tuple.(*ssa.Lookup)
					if !ok || !lk.CommaOk {
						continue
					}
					sameMap := lk.X == mu.Map
					if !sameMap {
						for _, oa := range origins(lk.X) {
							for _, ob := range origins(mu.Map) {
								if oa == ob {
									sameMap = true
								}
							}
						}
					}
					// the insertion lies on the "not found" edge
					if sameMap && lk.Index == mu.Key && id.Succs[1] == d {
						guarded = true
					}
				}
				pos := p.Pos(mu.Pos())
				fkey := core.FuncKey(f)
				if guarded {
					r.Ok(".FIELD-TABLE-UNIQUE", pos, fkey+": the member is inserted only after a lookup of the same name found nothing")
				} else {
					r.Fail(".FIELD-TABLE-UNIQUE", fkey+"|insert", pos, fkey+" inserts a member into the struct's field table at "+pos+" without first testing that the name is free: a second member with the same name (an inlined struct repeating a name) silently replaces the first, whose field is then never filled", "")
				}
			}
		}
	}
	r.Floor("field_table_insertions", n, 2)
}

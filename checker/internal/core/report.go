package core

import (
	"bufio"
	"encoding/json"
	"fmt"
	"os"
	"path/filepath"
	"sort"
	"strings"
)

// Finding is one violated obligation.
type Finding struct {
	Rule string `json:"rule"`          // e.g. "R1.NOT-MASKED"
	Key  string `json:"key"`           // rule|construct, line independent
	Pos  string `json:"pos"`           // file:line (diagnostic only)
	Msg  string `json:"msg"`           // what is wrong, in words
	Path string `json:"path,omitempty"` // for path rules: the offending path
	Arch string `json:"arch,omitempty"`
	Kind string `json:"kind,omitempty"` // "violation" (default) | "undecided"
}

// Sample is one obligation written out for the evidence file.
type Sample struct {
	Rule    string `json:"rule"`
	Pos     string `json:"pos"`
	What    string `json:"what"`
	Verdict string `json:"verdict"`
}

// Result is what one rule run yields.
type Result struct {
	Rule        string
	Clause      string // what the rule decides, one sentence
	Obligations int
	Discharged  int
	Findings    []Finding
	Samples     []Sample
	Stats       map[string]int
}

func NewResult(rule, clause string) *Result {
	return &Result{Rule: rule, Clause: clause, Stats: map[string]int{}}
}

// Ok records a discharged obligation (and keeps a few as samples).
func (r *Result) Ok(sub, pos, what string) {
	r.Obligations++
	r.Discharged++
	if os.Getenv("SFCHECK_DUMP") != "" {
		fmt.Fprintf(os.Stderr, "ok %s%s\t%s\t%s\n", r.Rule, sub, pos, what)
	}
	if len(r.Samples) < 6 || (r.Obligations%97 == 0 && len(r.Samples) < 12) {
		r.Samples = append(r.Samples, Sample{Rule: r.Rule + sub, Pos: pos, What: what, Verdict: "discharged"})
	}
}

// Fail records a violated obligation.
func (r *Result) Fail(sub, key, pos, msg, path string) {
	r.Obligations++
	r.Findings = append(r.Findings, Finding{Rule: r.Rule + sub, Key: r.Rule + sub + "|" + key, Pos: pos, Msg: msg, Path: path})
	r.Samples = append(r.Samples, Sample{Rule: r.Rule + sub, Pos: pos, What: msg, Verdict: "VIOLATED"})
}

// Undecided records that the rule could not decide something (anchor
// missing, floor not reached, cap hit). It fails the check.
func (r *Result) Undecided(sub, key, msg string) {
	r.Obligations++
	r.Findings = append(r.Findings, Finding{Rule: r.Rule + sub, Key: r.Rule + sub + "|undecided|" + key, Pos: "-", Msg: msg, Kind: "undecided"})
}

// Floor fails the rule when a measured instance count is below the count
// confirmed by hand on the pinned tree.
func (r *Result) Floor(what string, got, min int) {
	r.Stats[what] = got
	if got < min {
		r.Undecided(".FLOOR", what, fmt.Sprintf("instance count for %q is %d, below the confirmed floor %d: the rule may have lost its anchors", what, got, min))
	}
}

// ---- known findings ----

// Known is one line of /verif/KNOWN_FINDINGS.txt.
type Known struct {
	Status   string // "open" | "fixed"
	Property string
	Key      string // open only
	Text     string
}

// LoadKnown parses the known-findings file. Format, one entry per line:
//
//	open: property=<id> key=<finding key> :: <what fails (input, site)>
//	fixed: property=<id> <commit> <what failed>
//
// '#' starts a comment line.
func LoadKnown(path string) ([]Known, error) {
	f, err := os.Open(path)
	if err != nil {
		if os.IsNotExist(err) {
			return nil, nil
		}
		return nil, err
	}
	defer f.Close()
	var out []Known
	sc := bufio.NewScanner(f)
	sc.Buffer(make([]byte, 1<<20), 1<<20)
	for sc.Scan() {
		line := strings.TrimSpace(sc.Text())
		if line == "" || strings.HasPrefix(line, "#") {
			continue
		}
		switch {
		case strings.HasPrefix(line, "open:"):
			rest := strings.TrimSpace(strings.TrimPrefix(line, "open:"))
			k := Known{Status: "open"}
			parts := strings.SplitN(rest, " :: ", 2)
			if len(parts) == 2 {
				k.Text = parts[1]
			}
			for _, fld := range strings.SplitN(parts[0], " ", 2) {
				fld = strings.TrimSpace(fld)
				if strings.HasPrefix(fld, "property=") {
					k.Property = strings.TrimPrefix(fld, "property=")
				} else if strings.HasPrefix(fld, "key=") {
					k.Key = strings.TrimPrefix(fld, "key=")
				}
			}
			if k.Property == "" || k.Key == "" {
				return nil, fmt.Errorf("malformed open entry: %q", line)
			}
			out = append(out, k)
		case strings.HasPrefix(line, "fixed:"):
			out = append(out, Known{Status: "fixed", Text: line})
		default:
			return nil, fmt.Errorf("malformed known-findings line: %q", line)
		}
	}
	return out, sc.Err()
}

// ---- evidence ----

type Evidence struct {
	PropertyID  string         `json:"property_id"`
	Tier        string         `json:"tier"`
	Seed        int            `json:"seed"`
	Level       string         `json:"level"`
	Coverage    map[string]any `json:"coverage"`
	Assumptions []string       `json:"assumptions"`
	WallS       float64        `json:"wall_s"`
	Violations  int            `json:"violations"`
}

func WriteJSON(path string, v any) error {
	if err := os.MkdirAll(filepath.Dir(path), 0o755); err != nil {
		return err
	}
	b, err := json.MarshalIndent(v, "", " ")
	if err != nil {
		return err
	}
	tmp := path + ".tmp"
	if err := os.WriteFile(tmp, append(b, '\n'), 0o644); err != nil {
		return err
	}
	return os.Rename(tmp, path)
}

// SortFindings orders findings deterministically.
func SortFindings(fs []Finding) {
	sort.SliceStable(fs, func(i, j int) bool {
		if fs[i].Key != fs[j].Key {
			return fs[i].Key < fs[j].Key
		}
		return fs[i].Pos < fs[j].Pos
	})
}

// Package core loads /repo's current working tree (types, syntax, SSA, call
// graph) and holds the shared result/evidence plumbing of the checker.
package core

import (
	"fmt"
	"go/ast"
	"go/token"
	"go/types"
	"os"
	"sort"
	"strings"

	"golang.org/x/tools/go/callgraph"
	"golang.org/x/tools/go/callgraph/cha"
	"golang.org/x/tools/go/callgraph/vta"
	"golang.org/x/tools/go/packages"
	"golang.org/x/tools/go/ssa"
	"golang.org/x/tools/go/ssa/ssautil"
)

// ModPath is the module path of the code under analysis.
const ModPath = "github.com/elastic/go-structform"

// LibPkgs are the library packages (import path suffix relative to ModPath)
// that are in scope. bench and sftest are test support and excluded.
var LibPkgs = []string{"", "/json", "/cborl", "/ubjson", "/gotype", "/visitors", "/internal/unsafe"}

// Prog is the loaded program.
type Prog struct {
	Repo  string
	Arch  string
	Fset  *token.FileSet
	Pkgs  map[string]*packages.Package // by short name: "structform","json",...
	All   []*packages.Package          // module library packages, sorted
	SSA   *ssa.Program
	SPkgs map[string]*ssa.Package

	Notes   []string // rename resolutions (anchors.go)
	anchors *anchorFile

	cg       *callgraph.Graph
	modFuncs []*ssa.Function
	fnDecl   map[*ssa.Function]*ast.FuncDecl
}

// Load type-checks the library packages of repo for the given GOARCH and
// builds SSA for the whole program. Any load or type error is fatal
// (returned), never ignored.
func Load(repo, arch string) (*Prog, error) {
	env := append(os.Environ(),
		"GOFLAGS=-mod=mod", "GOPROXY=off", "GOSUMDB=off", "GOTOOLCHAIN=local",
		"GOWORK=off", "GOOS=linux", "GOARCH="+arch, "CGO_ENABLED=0")
	cfg := &packages.Config{
		Mode:  packages.LoadAllSyntax,
		Dir:   repo,
		Env:   env,
		Tests: false,
	}
	var pats []string
	for _, s := range LibPkgs {
		pats = append(pats, ModPath+s)
	}
	pkgs, err := packages.Load(cfg, pats...)
	if err != nil {
		return nil, fmt.Errorf("packages.Load: %w", err)
	}
	if len(pkgs) != len(LibPkgs) {
		return nil, fmt.Errorf("expected %d library packages, loaded %d", len(LibPkgs), len(pkgs))
	}
	var errs []string
	packages.Visit(pkgs, nil, func(p *packages.Package) {
		for _, e := range p.Errors {
			errs = append(errs, e.Error())
		}
	})
	if len(errs) > 0 {
		return nil, fmt.Errorf("load/type errors: %s", strings.Join(errs, "; "))
	}
	p := &Prog{Repo: repo, Arch: arch, Pkgs: map[string]*packages.Package{}, SPkgs: map[string]*ssa.Package{}}
	p.Fset = pkgs[0].Fset
	sort.Slice(pkgs, func(i, j int) bool { return pkgs[i].PkgPath < pkgs[j].PkgPath })
	p.All = pkgs
	prog, spkgs := ssautil.AllPackages(pkgs, ssa.InstantiateGenerics)
	prog.Build()
	p.SSA = prog
	for i, pk := range pkgs {
		if spkgs[i] == nil {
			return nil, fmt.Errorf("no SSA for %s", pk.PkgPath)
		}
		p.Pkgs[pk.Name] = pk
		p.SPkgs[pk.Name] = spkgs[i]
	}
	p.Notes = p.resolveRenames()
	return p, nil
}

// InModule reports whether the function belongs to a library package of the
// module under analysis.
func (p *Prog) InModule(f *ssa.Function) bool {
	pk := FuncPkg(f)
	if pk == nil {
		return false
	}
	for _, lp := range p.All {
		if lp.Types == pk {
			return true
		}
	}
	return false
}

// FuncPkg returns the types.Package a function (or its outermost parent)
// belongs to, or nil.
func FuncPkg(f *ssa.Function) *types.Package {
	for f.Parent() != nil {
		f = f.Parent()
	}
	if f.Pkg != nil {
		return f.Pkg.Pkg
	}
	if f.Object() != nil {
		return f.Object().Pkg()
	}
	if o := f.Origin(); o != nil && o.Pkg != nil {
		return o.Pkg.Pkg
	}
	return nil
}

// ModFuncs lists every SSA function of the library packages that has a body:
// declared functions, methods, anonymous functions, init; excluding
// synthetic wrappers/thunks/bounds. Sorted by position for determinism.
func (p *Prog) ModFuncs() []*ssa.Function {
	if p.modFuncs != nil {
		return p.modFuncs
	}
	all := ssautil.AllFunctions(p.SSA)
	var out []*ssa.Function
	for f := range all {
		if f.Blocks == nil || !p.InModule(f) {
			continue
		}
		if f.Synthetic != "" && f.Name() != "init" {
			continue
		}
		out = append(out, f)
	}
	sort.Slice(out, func(i, j int) bool {
		a, b := p.Fset.Position(out[i].Pos()), p.Fset.Position(out[j].Pos())
		if a.Filename != b.Filename {
			return a.Filename < b.Filename
		}
		if a.Offset != b.Offset {
			return a.Offset < b.Offset
		}
		return out[i].String() < out[j].String()
	})
	p.modFuncs = out
	return out
}

// CallGraph returns the VTA call graph seeded with CHA (built on demand).
func (p *Prog) CallGraph() *callgraph.Graph {
	if p.cg == nil {
		p.cg = vta.CallGraph(ssautil.AllFunctions(p.SSA), cha.CallGraph(p.SSA))
	}
	return p.cg
}

// Pos renders a position relative to the repo root.
func (p *Prog) Pos(pos token.Pos) string {
	if !pos.IsValid() {
		return "-"
	}
	ps := p.Fset.Position(pos)
	fn := strings.TrimPrefix(ps.Filename, p.Repo+"/")
	return fmt.Sprintf("%s:%d", fn, ps.Line)
}

// FuncKey is a stable, line-independent name of a function: pkg.(Recv).Name
// or parent$N for literals (ssa's own naming, which numbers literals in source
// order within the enclosing function).
func FuncKey(f *ssa.Function) string {
	if k, ok := aliasedKey(f); ok {
		return k
	}
	return rawKey(f)
}

// FuncDecl finds the ast.FuncDecl of a declared function.
func (p *Prog) FuncDecl(f *ssa.Function) *ast.FuncDecl {
	if p.fnDecl == nil {
		p.fnDecl = map[*ssa.Function]*ast.FuncDecl{}
	}
	if d, ok := p.fnDecl[f]; ok {
		return d
	}
	d, _ := f.Syntax().(*ast.FuncDecl)
	p.fnDecl[f] = d
	return d
}

// LookupFunc resolves "pkgname", "Func" or "pkgname", "(*T).Method"/"(T).Method"/"T.Method".
func (p *Prog) LookupFunc(pkg, name string) *ssa.Function {
	if f := p.lookupFunc(pkg, name); f != nil {
		return f
	}
	// renamed? (anchors.go)
	want := pkg + "." + strings.TrimPrefix(name, pkg+".")
	aliasMu.Lock()
	defer aliasMu.Unlock()
	for f, k := range aliasKey {
		if f.Prog == p.SSA && normKey(k) == normKey(want) {
			return f
		}
	}
	return nil
}

func normKey(k string) string { return strings.NewReplacer("(", "", ")", "", "*", "").Replace(k) }

func (p *Prog) lookupFunc(pkg, name string) *ssa.Function {
	sp := p.SPkgs[pkg]
	if sp == nil {
		return nil
	}
	if !strings.Contains(name, ".") {
		return sp.Func(name)
	}
	i := strings.LastIndex(name, ".")
	tn, mn := name[:i], name[i+1:]
	tn = strings.Trim(tn, "()*")
	nt := p.Type(pkg, tn)
	if nt == nil {
		return nil
	}
	var named types.Type = nt
	for _, ty := range []types.Type{named, types.NewPointer(named)} {
		ms := p.SSA.MethodSets.MethodSet(ty)
		if sel := ms.Lookup(sp.Pkg, mn); sel != nil {
			fn := p.SSA.MethodValue(sel)
			if fn != nil && fn.Synthetic == "" {
				return fn
			}
			if fn != nil {
				// wrapper: find the declared one
				if obj, ok := sel.Obj().(*types.Func); ok {
					return p.SSA.FuncValue(obj)
				}
			}
		}
	}
	return nil
}

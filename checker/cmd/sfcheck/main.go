// sfcheck decides structural necessary conditions of the go-structform
// properties by static analysis of /repo's current working tree.
//
//	sfcheck -property C16 [-tier quick|thorough] [-repo /repo] [-verif /verif]
//	sfcheck explain <violation.json>
//	sfcheck list
package main

import (
	"crypto/sha1"
	"encoding/json"
	"flag"
	"fmt"
	"os"
	"path/filepath"
	"runtime/debug"
	"sort"
	"strconv"
	"strings"
	"time"

	"sfcheck/internal/core"
	"sfcheck/internal/rules"
)

func main() {
	if len(os.Args) > 1 && os.Args[1] == "explain" {
		os.Exit(explain(os.Args[2:]))
	}
	if len(os.Args) > 1 && os.Args[1] == "list" {
		for _, ps := range rules.Properties() {
			fmt.Printf("%s\t%s\t%s\n", ps.ID, ps.Level, strings.Join(ps.RuleNames(), ","))
		}
		return
	}
	if len(os.Args) > 1 && os.Args[1] == "anchors" {
		// fingerprints of the declared functions of /repo's current tree (rename robustness, core/anchors.go)
		repo := "/repo"
		if len(os.Args) > 2 {
			repo = os.Args[2]
		}
		p, err := core.Load(repo, "amd64")
		if err != nil {
			fmt.Fprintln(os.Stderr, err)
			os.Exit(2)
		}
		os.Stdout.Write(p.Anchors())
		return
	}
	if len(os.Args) > 1 && os.Args[1] == "manifest" {
		manifest()
		return
	}
	prop := flag.String("property", "", "property id (C01..C20)")
	tier := flag.String("tier", "", "quick|thorough (default: $VERIF_TIER or quick)")
	repo := flag.String("repo", "/repo", "repository root")
	verif := flag.String("verif", "/verif", "verification root (evidence, known findings)")
	verbose := flag.Bool("v", false, "print every finding's path")
	noEvidence := flag.Bool("no-evidence", false, "do not write evidence/violation files (used by the self test)")
	flag.Parse()
	if *tier == "" {
		*tier = os.Getenv("VERIF_TIER")
	}
	if *tier != "thorough" {
		*tier = "quick"
	}
	os.Exit(run(*prop, *tier, *repo, *verif, *verbose, *noEvidence))
}

func run(prop, tier, repo, verif string, verbose, noEvidence bool) (code int) {
	start := time.Now()
	ps := rules.Property(prop)
	if ps == nil {
		fmt.Fprintf(os.Stderr, "unknown or unclaimed property %q\n", prop)
		return 2
	}
	seed, _ := strconv.Atoi(os.Getenv("VERIF_SEED"))
	vdir := filepath.Join(verif, "evidence", "violations")
	evPath := filepath.Join(verif, "evidence", prop+".json")

	var findings []core.Finding
	var results []*core.Result
	archs := []string{"amd64"}
	if tier == "thorough" {
		archs = append(archs, "386")
	}
	analysisFailed := func(what string) int {
		f := core.Finding{Rule: "ANALYSIS", Key: "ANALYSIS|" + what, Pos: "-", Msg: what, Kind: "undecided"}
		path := filepath.Join(vdir, prop+"-analysis.json")
		if !noEvidence {
			_ = core.WriteJSON(path, map[string]any{"property": prop, "finding": f})
		}
		fmt.Printf("VIOLATION property=%s replay=%s\n", prop, path)
		fmt.Printf("  undecided: %s\n", what)
		return 1
	}
	defer func() {
		if r := recover(); r != nil {
			fmt.Fprintf(os.Stderr, "checker panic: %v\n%s\n", r, debug.Stack())
			code = analysisFailed(fmt.Sprintf("checker panic: %v", r))
		}
	}()

	for _, arch := range archs {
		p, err := core.Load(repo, arch)
		if err != nil {
			return analysisFailed("cannot load/type-check " + repo + " for " + arch + ": " + err.Error())
		}
		for _, n := range p.Notes {
			fmt.Fprintln(os.Stderr, "note:", n)
		}
		for _, rr := range ps.Rules {
			rules.SetProg(p)
			rules.SetProg(p)
		res := rr.Run(p)
			for i := range res.Findings {
				res.Findings[i].Arch = arch
			}
			results = append(results, res)
			findings = append(findings, res.Findings...)
		}
	}
	// dedupe by key (same construct on both architectures is one finding)
	seen := map[string]bool{}
	var uniq []core.Finding
	core.SortFindings(findings)
	for _, f := range findings {
		if seen[f.Key] {
			continue
		}
		seen[f.Key] = true
		uniq = append(uniq, f)
	}

	known, err := core.LoadKnown(filepath.Join(verif, "KNOWN_FINDINGS.txt"))
	if err != nil {
		return analysisFailed("cannot read KNOWN_FINDINGS.txt: " + err.Error())
	}
	openKnown := map[string]core.Known{}
	for _, k := range known {
		if k.Status == "open" && k.Property == prop {
			openKnown[k.Key] = k
		}
	}

	if !noEvidence {
		os.RemoveAll(vdir + "/" + prop) // stale replay files of this property
	}
	violations := 0
	knownHits := 0
	for _, f := range uniq {
		if k, ok := openKnown[f.Key]; ok && f.Kind != "undecided" {
			fmt.Printf("KNOWN-FINDING: property=%s %s [%s at %s]\n", prop, k.Text, f.Rule, f.Pos)
			knownHits++
			continue
		}
		violations++
		h := sha1.Sum([]byte(f.Key))
		path := filepath.Join(vdir, prop, fmt.Sprintf("%x.json", h[:6]))
		if !noEvidence {
			_ = core.WriteJSON(path, map[string]any{"property": prop, "tier": tier, "repo": repo, "finding": f})
		}
		fmt.Printf("VIOLATION property=%s replay=%s\n", prop, path)
		kind := "violated"
		if f.Kind == "undecided" {
			kind = "UNDECIDED"
		}
		fmt.Printf("  %s %s at %s: %s\n    key: %s\n", kind, f.Rule, f.Pos, f.Msg, f.Key)
		if f.Path != "" && verbose {
			fmt.Printf("    path: %s\n", f.Path)
		}
	}

	// evidence
	obl, dis := 0, 0
	perRule := map[string]any{}
	var samples []core.Sample
	var clauses []string
	for _, r := range results {
		obl += r.Obligations
		dis += r.Discharged
		name := r.Rule
		if _, dup := perRule[name]; dup {
			name = r.Rule + "@386"
		} else {
			clauses = append(clauses, r.Rule+": "+r.Clause)
		}
		st := map[string]any{"obligations": r.Obligations, "discharged": r.Discharged, "findings": len(r.Findings)}
		keys := make([]string, 0, len(r.Stats))
		for k := range r.Stats {
			keys = append(keys, k)
		}
		sort.Strings(keys)
		for _, k := range keys {
			st[k] = r.Stats[k]
		}
		perRule[name] = st
		for i, s := range r.Samples {
			if i < 8 {
				samples = append(samples, s)
			}
		}
	}
	wall := time.Since(start).Seconds()
	expl := "Static analysis of the type-checked program and its SSA form (no execution). DECIDED: " + ps.Decided +
		" NOT DECIDED: " + ps.NotDecided + " RULES: " + strings.Join(clauses, " | ")
	cov := map[string]any{
		"explanation":    expl,
		"obligations":    obl,
		"discharged":     dis,
		"known_findings": knownHits,
		"checker_cmd":    fmt.Sprintf("/verif/bin/sfcheck -property %s -tier %s", prop, tier),
		"trusted_base":   ps.TrustedBase,
		"samples":        samples,
		"rules":          perRule,
		"configurations": archs,
		"rule":           "one obligation per enumerated construct (call site, function path set, table row, global); an obligation is discharged when the rule's requirement holds on every abstract path; nothing is sampled",
		"exhaustive":     true,
	}
	ev := core.Evidence{PropertyID: prop, Tier: tier, Seed: seed, Level: ps.Level, Coverage: cov,
		Assumptions: ps.Assumptions, WallS: wall, Violations: violations}
	if !noEvidence {
		if err := core.WriteJSON(evPath, ev); err != nil {
			fmt.Fprintf(os.Stderr, "cannot write evidence: %v\n", err)
			return 2
		}
	}
	fmt.Printf("property=%s tier=%s obligations=%d discharged=%d known=%d violations=%d wall=%.1fs\n",
		prop, tier, obl, dis, knownHits, violations, wall)
	if violations > 0 {
		return 1
	}
	return 0
}

// explain re-runs the property of a replay file and reports whether the
// recorded finding is still present.
func explain(args []string) int {
	if len(args) < 1 {
		fmt.Fprintln(os.Stderr, "usage: sfcheck explain <violation.json>")
		return 2
	}
	b, err := os.ReadFile(args[0])
	if err != nil {
		fmt.Fprintln(os.Stderr, err)
		return 2
	}
	var rec struct {
		Property string       `json:"property"`
		Repo     string       `json:"repo"`
		Finding  core.Finding `json:"finding"`
	}
	if err := json.Unmarshal(b, &rec); err != nil {
		fmt.Fprintln(os.Stderr, err)
		return 2
	}
	if rec.Repo == "" {
		rec.Repo = "/repo"
	}
	ps := rules.Property(rec.Property)
	if ps == nil {
		return 2
	}
	arch := rec.Finding.Arch
	if arch == "" {
		arch = "amd64"
	}
	p, err := core.Load(rec.Repo, arch)
	if err != nil {
		fmt.Println("cannot load:", err)
		return 1
	}
	for _, rr := range ps.Rules {
		rules.SetProg(p)
		res := rr.Run(p)
		for _, f := range res.Findings {
			if f.Key == rec.Finding.Key {
				fmt.Printf("REPRODUCED %s at %s: %s\n  key: %s\n  path: %s\n", f.Rule, f.Pos, f.Msg, f.Key, f.Path)
				fmt.Printf("VIOLATION property=%s replay=%s\n", rec.Property, args[0])
				return 1
			}
		}
	}
	fmt.Printf("not reproduced: %s no longer reported\n", rec.Finding.Key)
	return 0
}

// manifest prints MANIFEST.json from the registry, so that the manifest and
// the checks cannot drift apart.
func manifest() {
	env := "GOPROXY=off GOSUMDB=off GOTOOLCHAIN=local GOWORK=off"
	type chk map[string]any
	var checks []chk
	claimed := map[string]bool{}
	for _, ps := range rules.Properties() {
		claimed[ps.ID] = true
		checks = append(checks, chk{
			"property_id":         ps.ID,
			"quick_cmd":           "/verif/bin/sfcheck -property " + ps.ID + " -tier quick",
			"thorough_cmd":        "/verif/bin/sfcheck -property " + ps.ID + " -tier thorough && /verif/selftest/run.sh " + ps.ID,
			"evidence_file":       "/verif/evidence/" + ps.ID + ".json",
			"replay_cmd_template": "/verif/bin/sfcheck explain {path}",
			"engine":              "sfcheck",
			"level_claimed": map[string]any{
				"category":   ps.Level,
				"text":       ps.LevelText,
				"design_ref": ps.DesignRef,
			},
			"level_note": "Trusted: " + strings.Join(ps.TrustedBase, "; ") + ". Assumes: " + strings.Join(ps.Assumptions, "; "),
			"technique":  ps.Technique,
		})
	}
	na := []map[string]string{}
	for i := 1; i <= 20; i++ {
		id := fmt.Sprintf("C%02d", i)
		if claimed[id] {
			continue
		}
		reason, ok := rules.NotApplicable[id]
		if !ok {
			reason = "not claimed in this revision: the static rules planned for it in DESIGN.md are not built yet; no check is registered rather than a vacuous one"
		}
		na = append(na, map[string]string{"property_id": id, "reason": reason})
	}
	m := map[string]any{
		"version":   1,
		"setup_cmd": "cd /verif/checker && " + env + " GOFLAGS=-mod=vendor go build -o /verif/bin/sfcheck ./cmd/sfcheck",
		"hooks": map[string]any{
			"guard":            "verif",
			"enable":           "no hooks: the checks read /repo's source (go/packages + go/ssa) and never build or run it; the tag 'verif' is reserved and unused",
			"baseline_off_cmd": "cd /repo && go test -mod=mod -json -vet=off -count=1 -timeout 25m ./...",
			"source_commits":   []string{},
			"add_only":         true,
		},
		"engines": []map[string]any{{
			"name":              "sfcheck",
			"path":              "/verif/checker",
			"serves_properties": keys(claimed),
			"kind_free_text":    "repository-specific static analyser (go/types, go/ssa, VTA call graph; path-sensitive walker over SSA) - decides structural necessary conditions, never runs the code under analysis",
		}},
		"checks":         checks,
		"not_applicable": na,
		"notes":          "Family: static analysis. Every check loads /repo's current working tree on every run. Levels: 'proof' where the structural clause is the whole property under stated assumptions (obligations enumerated and discharged), 'other' where only named necessary conditions are decided (evidence says which). Known findings: /verif/KNOWN_FINDINGS.txt.",
	}
	b, _ := json.MarshalIndent(m, "", " ")
	fmt.Println(string(b))
}

func keys(m map[string]bool) []string {
	var out []string
	for k := range m {
		out = append(out, k)
	}
	sort.Strings(out)
	return out
}
